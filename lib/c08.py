# C08 -- no string payload can alter grid structure (escaping is injective and contained).
# Exhaustive sweeps on the real code, judged by TLC:
#   every code point (quick: all below U+3000, every 64th above, boundaries) in a string cell
#   (thorough: also URI / Ref display / XStr payload), every string of length <= 2 (thorough <= 3)
#   over one representative per metacharacter class in every text-carrying position, seeded
#   random longer strings -- batched many rows per grid so that a break-out changes the grid's
#   shape.  ZINC: the dumped text is run through the strict reader machine (ZincRead.tla), which
#   must give back exactly Abs(g) (containment + identity), and Abs(parse(dump(g))) = Abs(g).
#   JSON: the same two judgements through spec/HJson.tla (see jsoncodec.py).
import json
import multiprocessing
import random

from core import Report, Work, use_repo, seed, MachineryError, NCPU
import absval
import zinccodec

REPS = ['"', '\\', '$', '`', ',', ':', ' ', '\n', '\r', '\t', '\b', '\f', '\x00', '\x1f', '\x7f', '<', '>', '[', ']',
        '{', '}', '(', ')', '1', 'a', 'N', u'é', u' ', u'中', u'\ud800', u'\U0001F600', 'n', 'u', 's']
POSITIONS = ['str', 'uri', 'ref_dis', 'xstr', 'list_elem', 'dict_val', 'ngrid_cell', 'gmeta', 'cmeta', 'look_ver']


def wrap(hs, pos, s):
    if pos == 'str':
        return s
    if pos == 'uri':
        return hs.Uri(s)
    if pos == 'ref_dis':
        return hs.Ref('r', s)
    if pos == 'xstr':
        return hs.XStr('Text', s)
    if pos == 'list_elem':
        return ['a', s, 'b']
    if pos == 'dict_val':
        return {'k': s, 'z': 'e'}
    if pos == 'look_ver':
        # a dict that has the tags of a grid: the payload is its "version" and its "column name" (as VALUES, strings)
        return {'meta': {'ver': s}, 'cols': [{'name': s}]}
    if pos == 'ngrid_cell':
        g = hs.Grid(version='3.0', columns=[('x', []), ('y', [])])
        g.append({'x': s, 'y': 'ny'})
        return g
    raise KeyError(pos)


def batches(hs, pos, strings, size):
    """grids holding `size` strings each in position pos, with fixed neighbours"""
    out = []
    for i in range(0, len(strings), size):
        chunk = strings[i:i + size]
        if pos in ('gmeta', 'cmeta'):
            for j in range(0, len(chunk), 40):
                sub = chunk[j:j + 40]
                tags = [('t%d' % k, s) for k, s in enumerate(sub)]
                if pos == 'gmeta':
                    g = hs.Grid(version='3.0', metadata=dict([('first', 'F')] + tags + [('zlast', 'Z')]), columns=[('l', []), ('r', [])])
                else:
                    g = hs.Grid(version='3.0', columns=[('l', [('first', 'F')] + tags + [('zlast', 'Z')]), ('r', [])])
                g.append({'l': 'L', 'r': 'R'})
                out.append((g, sub))
            continue
        ver = '3.0' if pos in ('xstr', 'list_elem', 'dict_val', 'ngrid_cell', 'look_ver') else ('2.0' if (i // size) % 2 else '3.0')
        g = hs.Grid(version=ver, columns=[('l', []), ('s', []), ('r', [])])
        g.extend([{'l': 'L', 's': wrap(hs, pos, s), 'r': 'R'} for s in chunk])
        out.append((g, chunk))
    return out


def codepoints(tier, rng):
    if tier == 'thorough':
        return list(range(0, 0x110000))
    cps = set(range(0, 0x3000))
    cps.update(range(0x3000, 0x110000, 64))
    cps.update([0xd7ff, 0xd800, 0xdbff, 0xdc00, 0xdfff, 0xe000, 0xfffd, 0xfffe, 0xffff, 0x10000, 0x10ffff, 0xfeff])
    cps.update(rng.randrange(0x3000, 0x110000) for _ in range(2000))
    return sorted(cps)


_W = {}


def _init():
    hs = use_repo()
    _W['hs'] = hs
    _W['A'] = absval.Abs(hs)


def _zinc_job(args):
    """args = (jid, pos, strings) -> dump + parse one batch grid; returns abstract forms"""
    jid, pos, strings = args
    hs, A = _W['hs'], _W['A']
    (g, _), = batches(hs, pos, strings, len(strings)) if pos not in ('gmeta', 'cmeta') else batches(hs, pos, strings, 40)[:1]
    ab = A.doc([g])
    try:
        text = hs.dump(g, mode=hs.MODE_ZINC)
    except Exception as e:
        return jid, {'err': 'dump_raises', 'exc': repr(e)[:200]}
    try:
        back = hs.parse(text, mode=hs.MODE_ZINC, single=False)
        ab2 = A.doc(back)
    except absval.NotAbstractable as e:
        return jid, {'ab': ab, 'text': text, 'err': 'parse_result_not_haystack', 'exc': str(e)}
    except Exception as e:
        return jid, {'ab': ab, 'text': text, 'err': 'parse_raises', 'exc': repr(e)[:200]}
    return jid, {'ab': ab, 'text': text, 'ab2': ab2}


def _json_job(args):
    """the same batch through the JSON writer and reader"""
    import jsoncodec
    jid, pos, strings = args
    hs, A = _W['hs'], _W['A']
    (g, _), = batches(hs, pos, strings, len(strings)) if pos not in ('gmeta', 'cmeta') else batches(hs, pos, strings, 40)[:1]
    ab = jsoncodec.q6_doc(A.doc([g]))
    try:
        text = hs.dump(g, mode=hs.MODE_JSON)
    except Exception as e:
        return jid, {'err': 'dump_raises', 'exc': repr(e)[:200]}
    try:
        tree = jsoncodec.strict_loads(text)
    except Exception as e:
        return jid, {'err': 'not_json', 'exc': repr(e)[:200]}
    r = {'ab': ab, 'text': text,
         'strict_case': {'k': 'denotes', 'tree': tree, 'strict': True, 'top': 'object', 'hasden': False, 'den': [],
                         'q6': True, 'expect': ab}}
    try:
        back = hs.parse(text, mode=hs.MODE_JSON, single=False)
        r['ab2'] = jsoncodec.q6_doc(A.doc(back))
    except absval.NotAbstractable as e:
        r.update(err='parse_result_not_haystack', exc=str(e))
    except Exception as e:
        r.update(err='parse_raises', exc=repr(e)[:200])
    return jid, r


def locate(strings, ab, ab2):
    """which strings of the batch did not come back (for the replay file; the verdict is TLC's)"""
    bad = []
    try:
        r1, r2 = ab[0][4], ab2[0][4]
        for i, s in enumerate(strings):
            if i >= len(r2) or r1[i] != r2[i]:
                bad.append(s)
                if len(bad) >= 5:
                    break
    except Exception:
        pass
    return bad


def classify(s):
    if not s:
        return 'empty'
    cl = set()
    for ch in s:
        o = ord(ch)
        cl.add('c0_short' if ch in '\b\f\n\r\t' else 'c0_other' if o < 32 else 'del' if o == 127 else
               'quote' if ch == '"' else 'backslash' if ch == '\\' else 'dollar' if ch == '$' else
               'backtick' if ch == '`' else 'ascii' if o < 128 else 'surrogate' if 0xd800 <= o <= 0xdfff else
               'bmp' if o < 0x10000 else 'astral')
    return '+'.join(sorted(cl))


def run_format(rep, work, hs, fmt, jobs, label):
    """jobs: list of (pos, strings).  Returns violations [(features, detail)]"""
    found = []
    job = _zinc_job if fmt == 'zinc' else None
    if fmt == 'json':
        job = _json_job
    with multiprocessing.get_context('fork').Pool(NCPU, initializer=_init) as pool:
        res = dict(pool.map(job, [(i, p, s) for i, (p, s) in enumerate(jobs)], chunksize=1))
    cases, info = [], {}
    for i, (pos, strings) in enumerate(jobs):
        r = res[i]
        rep.evaluations += len(strings)
        if 'err' in r and 'text' not in r:
            found.append(({'engine': 'escape', 'format': fmt, 'position': pos, 'clause': r['err']},
                          {'position': pos, 'strings': strings[:20], 'exception': r.get('exc')}))
            continue
        if fmt == 'zinc':
            n = len(cases) + 1
            cases.append({'id': n, 'k': 'denotes', 'strict': True, 'text': absval.cps(r['text']), 'expect': r['ab']})
            info[n] = (pos, strings, r, 'contained')
        else:
            n = len(cases) + 1
            cases.append(dict(r['strict_case'], id=n))
            info[n] = (pos, strings, r, 'contained')
        if 'err' in r:
            found.append(({'engine': 'escape', 'format': fmt, 'position': pos, 'clause': r['err'],
                           'classes': sorted(set(classify(s) for s in strings))[:6]},
                          {'position': pos, 'strings': strings[:20], 'exception': r.get('exc'), 'text': r['text'][:2000]}))
            continue
        n = len(cases) + 1
        cases.append({'id': n, 'k': 'same', 'strict': True, 'text': [], 'a': r['ab'], 'b': r['ab2']})
        info[n] = (pos, strings, r, 'roundtrip')
    if fmt == 'zinc':
        verdicts = zinccodec.judge_cases(rep, work, cases, label)
    else:
        import jsoncodec
        verdicts = {k: (v[0], v[1], 0) for k, v in jsoncodec.judge_cases(rep, work, cases, label).items()}
    rep.traces += len(cases)
    for n, (v, clause, p) in sorted(verdicts.items()):
        if v == 'REJECT':
            pos, strings, r, what = info[n]
            bad = locate(strings, r['ab'], r.get('ab2', r['ab'])) if what == 'roundtrip' else []
            near = r['text'][max(0, p - 30):p + 10] if (p and fmt == 'zinc') else ''
            found.append(({'engine': 'escape', 'format': fmt, 'position': pos, 'clause': what + '_' + clause,
                           'classes': sorted(set(classify(s) for s in (bad or strings)))[:6]},
                          {'position': pos, 'failing_strings': [repr(s) for s in bad], 'batch_size': len(strings),
                           'first_strings': [repr(s) for s in strings[:5]], 'near': near, 'tlc_clause': clause}))
    return found


def run(tier):
    hs = use_repo()
    rep = Report('C08', tier)
    rng = random.Random(seed() * 9973 + 8)
    jobs = []
    # (i) every code point in a string cell
    cps_ = codepoints(tier, rng)
    strs = [chr(c) for c in cps_]
    size = 400
    sweep_pos = ['str'] if tier == 'quick' else ['str', 'uri', 'ref_dis', 'xstr']
    for pos in sweep_pos:
        # every code point in the string cell; in the other positions all below U+3000 and every 16th above
        sel = strs if pos == 'str' else [s for s in strs if ord(s) < 0x3000 or ord(s) % 16 == 0]
        for i in range(0, len(sel), size):
            jobs.append((pos, sel[i:i + size]))
    # (ii) all short strings over the metacharacter representatives, in every position
    short = [''] + list(REPS) + [a + b for a in REPS for b in REPS]
    if tier == 'thorough':
        short += [a + b + c for a in REPS[:22] for b in REPS[:22] for c in REPS[:22]]
    for pos in POSITIONS:
        sel = short if (tier == 'thorough' or pos in ('str', 'uri', 'ref_dis')) else \
            [''] + list(REPS) + rng.sample(short[len(REPS) + 1:], 300)
        for i in range(0, len(sel), 250):
            jobs.append((pos, sel[i:i + 250]))
    # (iii) seeded random longer strings mixing classes, and type-prefix look-alikes
    pool_chars = REPS + ['x', 'y', '0', '=', ';', '/', '?', '#', '@', '&']
    rnd = [''.join(rng.choice(pool_chars) for _ in range(rng.randint(3, 40))) for _ in range(400 if tier == 'quick' else 6000)]
    rnd += ['n:1', 'm:', 'x:', '-:', 'z:', 's:x', 'r:abc def', 't:2020-01-01T00:00:00Z UTC', 'u:http://x', 'b:text/plain',
            'c:1.0,2.0', 'd:2020-01-01', 'h:12:00:00', 'x:hex:ff', 'N', 'NA', 'M', 'T', 'ver:"3.0"', '>>', '\n\n', '<<ver:"3.0"\nx\n>>',
            '[x]', '"q"', '{a}', 'R', 'INF', 'NaN', '-INF', '\\', '\\"', '$', '`', '``', 'a\nb,c', ',', ',,', ' ', '  ',
            # text that LOOKS like an escape sequence (a literal backslash followed by escape letters / hex digits)
            '\\u0041', '\\u0022', 'C:\\temp\\u00e9t', '\\U0041', '\\\\u0041', '\\u005c', '\\u005cn', '\\n', '\\t', '\\b',
            '\\$', '\\`', '\\"', 'x\\', '\\u00', '\\u12345', '\\:', '\\/', '\\#', '\\[', '\\@', '\\&', '\\=', '\\;',
            '%41', '&amp;', '&#65;', '\\x41', '\\101', '\\N{BULLET}', '${x}', '$x', '{0}', '%s',
            '3.0', '2.0', '2', '3', '10 items', '3.0.0', 's:3.0']
    # multi-line text one LINE of which is a typed literal of the other format (first, middle, last line)
    typed = ['n:1', 'm:', 'x:', '-:', 'z:', 's:x', 'r:abc', 't:2020-01-01T00:00:00Z UTC', 'u:http://x', 'b:text/plain', 'c:1.0,2.0',
             'd:2020-01-01', 'h:12:00:00', 'h:12:00', 'x:hex:ff', 'ver:"3.0"', 'N', 'M', '2020-01-01', '12:00:00', '@ref', 'C(1,2)',
             '[1]', '{a}', '`u`', '"s"', '1kW', 'T', 'true', 'null']
    rnd += [a + '\n' + t for t in typed for a in ('x', 'http://h/p')] + [t + '\n' + 'x' for t in typed] + \
           ['x\n' + t + '\ny' for t in typed] + ['x\r\n' + t for t in typed[:14]]
    for pos in POSITIONS:
        for i in range(0, len(rnd), 250):
            jobs.append((pos, rnd[i:i + 250]))
    found = []
    with Work('c08') as work:
        found += run_format(rep, work, hs, 'zinc', jobs, 'c08z')
        have_json = True
        if have_json:
            found += run_format(rep, work, hs, 'json', jobs, 'c08j')
        rep.extra['formats'] = ['zinc'] + (['json'] if have_json else [])
    for f, d in found:
        rep.violation(f, d)
    for pos, strings in jobs:
        for s in strings[:1]:
            rep.distinct.add((pos, s))
    rep.distinct.update((p, s) for p, ss in jobs for s in ss if len(s) <= 2)
    rep.extra['code_points_swept'] = len(cps_)
    rep.extra['sweep_positions'] = sweep_pos
    rep.extra['strings_total'] = sum(len(s) for _, s in jobs)
    rep.sample({'batch': {'position': jobs[-1][0], 'strings': [repr(s) for s in jobs[-1][1][:5]]}})
    rep.exhaustive = (tier == 'thorough')
    rep.rule = ('one evaluation = one string in one text-carrying position and format; distinct_nontrivial counts distinct (position, string) '
                'pairs of length <= 2; batches of up to 400 strings per grid, each batch judged by TLC twice (reader machine on the dump, round trip)')
    rep.assumptions = ['XStr payload position uses a typed XStr (type "Text"); hex/b64 payloads are bytes, not text',
                       'meta positions are exercised under version 3.0']
    return rep.finish()


def replay(path):
    hs = use_repo()
    with open(path) as fh:
        d = json.load(fh)
    f, c = d['features'], d['case']
    strings = [eval(s) for s in (c.get('failing_strings') or c.get('first_strings') or [])]
    if not strings:
        strings = c.get('strings', ['x'])
    rep = Report('C08', 'quick')
    with Work('c08r') as work:
        found = run_format(rep, work, hs, f['format'], [(f['position'], strings)], 'r')
    for ff, dd in found:
        print(ff, str(dd)[:500])
    ok = not found
    print('property holds on this case' if ok else 'VIOLATION property=C08 replay=%s' % path)
    return 0 if ok else 1
