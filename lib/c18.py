# C18 -- version numbers form a total order (hszinc/version.py) and key the grammar caches
# (hszinc/zincparser.py NearestMatch / GenerateMatch), against spec/Version.tla.
#  (A) MC_Version.cfg        : TLC checks the order laws over the bounded set (all pairs of 775 strings, all
#                              triples of a 60-element subset) and prints every string of the set (B)
#      MC_Version_cache.cfg  : TLC model-checks the grammar-cache machine
#  (C) Trace_Version.tla     : the six operators (Version and string right-hand side), hash agreement, nearest,
#                              constructor refusals, the relation on a subset (all triples) and lookups of the
#                              real caches are recorded from the code and judged by TLC from the code points.
# Python holds no model: it drives hszinc, writes what it saw as JSON and reads TLC's verdict lines.
import json
import operator
import random
import re
import unicodedata
import warnings

from core import Report, Work, run_tlc, use_repo, seed, MachineryError, cps, uncps, NCPU

OPS = (operator.lt, operator.le, operator.eq, operator.ne, operator.ge, operator.gt)
OPNAMES = ('lt', 'le', 'eq', 'ne', 'ge', 'gt')
POW3 = (1, 3, 9, 27, 81, 243)

# spellings outside the <=3 groups x suffix grid that the reader accepts (empty groups, leading zeros, ...)
ODD = ['2..0', '2.', '02.0', '2.0.', '2.00', '002', '2.0.0.0', '3.0.0.0.0', '2.0 ', '2.0a1', '2a.1', '2.0-rc10',
       '2.0-rc2', '10', '010.0', '3.', '3..', '2.0A', '2.0aa', '2.0ab', '0', '0.0.0.0']
INVALID = ['', 'a', '.2', '-1', ' 2', 'v2.0', '+2', 'a.b', '..', 'x2', 'é2', ' ', '.', '-', 'two', '\t3.0']
SUFFIXES = ['a', 'b', 'A', '-rc1', '-rc2', '+build.5', ' beta', '~1', '_x', 'é', 'β2', 'a.1', 'a1',
            'aa', 'ab', ' ', 'Z', 'z', 'α', 'ÿ', '€', '\U0001F600', '.a', '.b', '-', 'a ', 'b2']
CACHE_BASE = ['3.0', '3.0.0', '3', '2.5', '4.0', '1.0', '2.0', '2', '2.0.0', '3.0', '3', '2.5.0', '2.5', '04.0',
              '3.0a', '3.0.a', '3.0.0a', '1', '1.0.0', '4']


def rand_suffix(rng):
    r = rng.random()
    if r < 0.35:
        return ''
    if r < 0.8:
        return rng.choice(SUFFIXES)
    out = ''
    for k in range(rng.randint(1, 4)):
        while True:
            c = chr(rng.choice([rng.randint(32, 126), rng.randint(160, 0x24f), rng.randint(0x370, 0x3ff)]))
            # line breaks and non-ASCII decimal digits are outside the property (see assumptions)
            if c == '\n' or unicodedata.category(c) == 'Nd' and not ('0' <= c <= '9'):
                continue
            if k == 0 and ('0' <= c <= '9'):
                continue
            out += c
            break
    return out


def rand_version(rng):
    groups = []
    for k in range(rng.randint(1, 5)):
        if k and rng.random() < 0.08:
            groups.append('')
            continue
        n = rng.choice([0, 0, 1, 2, 2, 3, 9, 10, 11, 99, 100, rng.randint(0, 99999999)])
        s = str(n)
        if rng.random() < 0.15 and len(s) <= 6:
            s = '0' * rng.randint(1, 2) + s
        groups.append(s)
    head = '.'.join(groups)
    if rng.random() < 0.08:
        head += '.'
    return head + rand_suffix(rng)


def variants(rng, s):
    """other spellings near s (padding added/removed, suffix kept), so that equal and nearly equal pairs occur"""
    m = re.match(r'^([0-9.]*)(.*)$', s, re.S)
    head, suf = m.group(1), m.group(2)
    out = [head + '.0' + suf, head + '.0.0' + suf, head + '.1' + suf, '0' + s]
    if head.endswith('.0'):
        out.append(head[:-2] + suf)
    return [v for v in out if v and '0' <= v[0] <= '9']


def random_versions(rng, n):
    out = []
    while len(out) < n:
        v = rand_version(rng)
        out.append(v)
        if rng.random() < 0.5:
            out.append(rng.choice(variants(rng, v)))
    return out[:n]


def code6(a, b):
    """the six operators on (a, b) as a base-3 number: digit 0 False, 1 True, 2 raised / not a bool"""
    c = 0
    for k, op in enumerate(OPS):
        try:
            r = op(a, b)
            d = 1 if r is True else 0 if r is False else 2
        except Exception:
            d = 2
        c += d * POW3[k]
    return c


def ctor(V, s):
    try:
        V(s)
        return 1
    except ValueError:
        return 0
    except Exception:
        return 2


def nearest_str(V, x):
    try:
        return str(V.nearest(x))
    except Exception as e:
        return '!' + type(e).__name__


class Impl(object):
    def __init__(self, hs):
        import hszinc.version as hv
        import hszinc.zincparser as zp
        self.hv, self.zp, self.V = hv, zp, hv.Version

    def table(self, strs):
        """per version string: the object, its hash, the printed nearest official version"""
        objs = [self.V(s) for s in strs]
        vs = [{'s': cps(s), 'n': cps(nearest_str(self.V, s))} for s in strs]
        return objs, vs

    def pair_rows(self, strs, objs, group, codes=None):
        rows = []
        hashes = {i: hash(objs[i]) for i in group}
        Sub = type('VersionSubclass', (self.V,), {})
        for i in group:
            a = objs[i]
            rv, rs, rt, ru, h = [], [], [], [], []
            for j in group:
                c = code6(a, objs[j])
                if codes is not None:
                    codes[(i, j)] = c
                rv.append(c)
                rs.append(code6(a, strs[j]))
                # a string object built for this one comparison and dropped at once (the next one may live at its address)
                rt.append(code6(a, ''.join(list(strs[j]))))
                # subclass instance on the right (even positions) or on the left (odd positions)
                ru.append(code6(a, Sub(strs[j])) if (i + j) % 2 == 0 else code6(Sub(strs[i]), objs[j]))
                h.append(1 if hashes[i] == hashes[j] else 0)
            rows.append({'k': 'pairs', 'i': i + 1, 'js': [j + 1 for j in group], 'rv': rv, 'rs': rs, 'rt': rt, 'ru': ru,
                         'h': h})
        return rows

    def cache_targets(self):
        hv, zp = self.hv, self.zp
        a, b = object(), object()
        return [('N', 'hs_scalar', zp.hs_scalar), ('N', 'hs_grid', zp.hs_grid),
                ('N', 'fresh', zp.NearestMatch({hv.VER_2_0: a, hv.VER_3_0: b})),
                ('G', 'hs_list', zp.hs_list), ('G', 'hs_dict', zp.hs_dict),
                ('G', 'fresh', zp.GenerateMatch(lambda ver: object()))]

    def cache_row(self, kind, name, cache, seq):
        ids, keep = {}, []

        def gid(o):
            if id(o) not in ids:
                ids[id(o)] = len(ids) + 1
                keep.append(o)
            return ids[id(o)]
        off = []
        if kind == 'N':
            for o in sorted(self.hv.OFFICIAL_VERSIONS, key=str):
                try:
                    g = gid(cache[o])
                except Exception:
                    g = 0
                off.append({'v': cps(str(o)), 'g': g})
        evs = []
        for s in seq:
            try:
                g = gid(cache[self.V(s)])
            except Exception:
                g = 0                      # no grammar came back (the lookup raised)
            evs.append({'v': cps(s), 'g': g, 'n': cps(nearest_str(self.V, s))})
        return {'k': 'cache', 'c': kind, 'off': off, 'evs': evs, 'name': name}


def judge(rep, work, doc, label, workers=None):
    """Run Trace_Version over doc; returns (rejects per row, stats per row, notes per row)."""
    path = work.path('c18-%s.json' % label)
    with open(path, 'w') as f:
        json.dump(doc, f, separators=(',', ':'))
    r = run_tlc(work, 'Trace_Version.tla', 'Trace_Version.cfg', workers=workers or min(NCPU, 16),
                env={'TRACE_FILE': path}, xmx='6g')
    rep.tlc('trace-' + label, r)
    if r.invariant_violated or 'Error:' in r.out:
        raise MachineryError('trace run failed (%s)\n%s' % (label, r.out[-2000:]))
    rej, stat, note, done = {}, {}, {}, {}
    for ln in r.out.split('\n'):
        ln = ln.strip()
        if not ln.startswith('<<"'):
            continue
        p = [x.strip(' <>"') for x in ln.split(',')]
        if p[0] == 'REJECT':
            rej.setdefault(int(p[1]), []).append((int(p[2]), p[3], int(p[4])))
        elif p[0] in ('ACCEPT', 'DONE'):
            done[int(p[1])] = int(p[2])
        elif p[0] == 'STAT':
            stat[int(p[1])] = (int(p[2]), int(p[3]), int(p[4]))
        elif p[0] == 'NOTE':
            note.setdefault(int(p[1]), []).append((int(p[2]), p[3]))
    for t in range(1, len(doc['rows']) + 1):
        if t not in done:
            raise MachineryError('no verdict for row %d (%s)\n%s' % (t, label, r.out[-1500:]))
        npos = len(set(x[0] for x in rej.get(t, [])))
        if doc['rows'][t - 1]['k'] != 'trans' and done[t] != npos:
            raise MachineryError('row %d (%s): %d rejected positions announced, %d printed' % (t, label, done[t], npos))
        if doc['rows'][t - 1]['k'] == 'trans' and (done[t] > 0) != (npos > 0):
            raise MachineryError('row %d (%s): verdict lines inconsistent' % (t, label))
        rej.setdefault(t, [])
    return rej, stat, note


def features(row, pos, clause, flag):
    k = row['k']
    if k == 'cache':
        return {'engine': 'version-cache', 'clause': clause,
                'cache': 'NearestMatch' if row['c'] == 'N' else 'GenerateMatch',
                'target': row['name'], 'padding_differs': bool(flag)}
    f = {'engine': 'version-trace', 'clause': clause}
    if k == 'pairs':
        f['padding_differs'] = bool(flag)
    elif k == 'ctor':
        f['outcome'] = {0: 'ValueError', 1: 'built', 2: 'other'}.get(flag, '?')
    return f


def detail(doc, strs, row, pos, clause, flag):
    k = row['k']
    if k == 'pairs':
        a, b = strs[row['i'] - 1], strs[row['js'][pos - 1] - 1]
        x = pos - 1
        return {'kind': 'pair', 'a': a, 'b': b, 'clause': clause,
                'logged': {'version_rhs': dict(zip(OPNAMES, [(row['rv'][x] // POW3[q]) % 3 for q in range(6)])),
                           'string_rhs': dict(zip(OPNAMES, [(row['rs'][x] // POW3[q]) % 3 for q in range(6)])),
                           'hash_equal': row['h'][x],
                           'nearest_a': uncps(doc['vs'][row['i'] - 1]['n']),
                           'nearest_b': uncps(doc['vs'][row['js'][pos - 1] - 1]['n'])}}
    if k == 'near':
        i = row['is'][pos - 1]
        return {'kind': 'nearest', 'a': strs[i - 1], 'clause': clause, 'logged': uncps(doc['vs'][i - 1]['n'])}
    if k == 'ctor':
        return {'kind': 'ctor', 'a': uncps(row['cs'][pos - 1]['s']), 'clause': clause, 'logged': flag}
    if k == 'trans':
        t = doc['tsub']
        return {'kind': 'trans', 'x': strs[t[row['x'] - 1] - 1], 'y': strs[t[pos - 1] - 1], 'z': strs[t[flag - 1] - 1],
                'clause': clause}
    if k == 'cache':
        return {'kind': 'cache', 'cache': row['c'], 'target': row['name'], 'clause': clause, 'event': pos,
                'official': [[uncps(o['v']), o['g']] for o in row['off']],
                'lookups': [[uncps(e['v']), e['g'], uncps(e['n'])] for e in row['evs'][:pos]]}
    return {'kind': k}


def build_doc(impl, tier, rng, emitted):
    """Choose the inputs of this tier, run them on the real code, return (doc, strs)."""
    sub = [s for s, f in emitted if f]
    rest = [s for s, f in emitted if not f]
    rnd = random_versions(rng, 40 if tier == 'quick' else 170)
    if tier == 'quick':
        ga = sub + rng.sample(rest, 70)
        gb = rng.sample(sub, 20) + ODD + rnd
    else:
        ga = sub + rest
        gb = sub + ODD + rnd
    strs, index = [], {}
    for s in ga + gb:
        if s not in index and ctor(impl.V, s) == 1:
            index[s] = len(strs)
            strs.append(s)
    refused = [s for s in dict.fromkeys(ga + gb) if s not in index]
    sub = [s for s in sub if s in index]
    ia = sorted(set(index[s] for s in ga if s in index))
    ib = sorted(set(index[s] for s in gb if s in index))
    with warnings.catch_warnings():
        warnings.simplefilter('ignore')
        objs, vs = impl.table(strs)
        codes = {}
        rows = impl.pair_rows(strs, objs, ia, codes)
        rows += impl.pair_rows(strs, objs, ib, codes)
        npairs = len(ia) ** 2 + len(ib) ** 2
        # the relation the operators define on the subset (all triples judged by TLC)
        tsub = [index[s] for s in sub]
        if tier != 'quick':
            tsub += [i for i in ib if strs[i] not in set(sub)][:40]
        tm = [[codes[(i, j)] for j in tsub] for i in tsub]
        rows += [{'k': 'trans', 'x': x + 1} for x in range(len(tsub))]
        rows.append({'k': 'near', 'is': list(range(1, len(strs) + 1))})
        cs = [{'s': cps(s), 'r': ctor(impl.V, s)} for s in strs + refused + INVALID]
        for _ in range(20 if tier == 'quick' else 200):
            s = rand_suffix(rng) + rand_version(rng)
            if '\n' not in s and not (s and unicodedata.category(s[0]) == 'Nd' and not '0' <= s[0] <= '9'):
                cs.append({'s': cps(s), 'r': ctor(impl.V, s)})
        rows.append({'k': 'ctor', 'cs': cs})
        # the grammar caches
        ncache = 0
        for kind, name, cache in impl.cache_targets():
            seq = list(CACHE_BASE)
            more = rng.sample(sub, min(12, len(sub))) + rng.sample(ODD, 6) + (rnd[:10] if tier != 'quick' else [])
            for _ in range(30 if tier == 'quick' else 300):
                seq.append(rng.choice(CACHE_BASE + more))
            rows.append(impl.cache_row(kind, name, cache, seq))
            ncache += len(seq)
    doc = {'vs': vs, 'tm': tm, 'tsub': [i + 1 for i in tsub], 'rows': rows}
    return doc, strs, {'pairs': npairs, 'versions': len(strs), 'group_a': len(ia), 'group_b': len(ib),
                       'triples': len(tsub) ** 3, 'ctor': len(cs), 'cache_lookups': ncache,
                       'refused_by_constructor': len(refused)}


def selftest(rep, work, doc, rej):
    """Binding self-test: corrupt one logged field of a case the main run accepted; TLC must reject exactly it."""
    tests = []                                      # (what, base row, corrupted row, position, clause)
    for t, row in enumerate(doc['rows'], 1):
        if row['k'] != 'pairs':
            continue
        badpos = set(x[0] for x in rej[t])
        xs = [k for k, j in enumerate(row['js']) if j != row['i'] and (k + 1) not in badpos]
        ys = [k for k, j in enumerate(row['js']) if j == row['i'] and (k + 1) not in badpos and row['h'][k] == 1]
        if xs and ys:
            x, y = xs[0], ys[0]
            bad = json.loads(json.dumps(row))
            d = (bad['rv'][x] // 3) % 3             # flip the logged result of <=
            bad['rv'][x] += 3 if d == 0 else -3
            tests.append(('le flipped', row, bad, x + 1, 'le'))
            bad2 = json.loads(json.dumps(row))      # a version against itself: claim the hashes differ
            bad2['h'][y] = 0
            tests.append(('hash of a version and itself logged as different', row, bad2, y + 1, 'hash'))
            break
    for t, row in enumerate(doc['rows'], 1):
        if row['k'] == 'cache' and row['c'] == 'N' and row['name'] == 'fresh' and not rej[t]:
            g = sorted(o['g'] for o in row['off'])
            bad3 = json.loads(json.dumps(row))
            z = len(bad3['evs']) - 1                # last lookup: claim it returned the other official grammar
            bad3['evs'][z]['g'] = g[0] if bad3['evs'][z]['g'] != g[0] else g[1]
            tests.append(('other official grammar returned', row, bad3, z + 1, 'nearest_grammar'))
    if not tests:
        if not any(rej.values()):
            raise MachineryError('binding self-test: no accepted case to corrupt')
        rep.extra['binding_selftest'] = {'skipped': 'the main run accepted no complete case to corrupt'}
        return
    rows = []
    for _, base, bad, _, _ in tests:
        rows += [base, bad]
    r2, _, _ = judge(rep, work, {'vs': doc['vs'], 'tm': [], 'rows': rows}, 'selftest', workers=4)
    res, ok = [], True
    for n, (what, base, bad, pos, clause) in enumerate(tests):
        new = [x for x in r2[2 * n + 2] if x not in r2[2 * n + 1]]
        good = set(x[0] for x in new) == {pos} and clause in [x[1] for x in new]
        ok = ok and good
        res.append({'corrupted': what, 'position': pos, 'new_rejections': new, 'ok': good})
    rep.extra['binding_selftest'] = {'tests': res, 'ok': ok}
    if not ok:
        raise MachineryError('binding self-test failed: %r' % (res,))


def run(tier):
    hs = use_repo()
    impl = Impl(hs)
    rep = Report('C18', tier)
    rng = random.Random(seed() * 6007 + 18)
    with Work('c18') as work:
        # (A) the laws on the bounded set; the run also prints the set (B)
        r = run_tlc(work, 'MC_Version.tla', 'MC_Version.cfg')
        rep.tlc('model-check-laws', r)
        if r.invariant_violated or 'is false' in r.out or not r.completed:
            raise MachineryError('Version.tla violates its own law %s\n%s' % (r.invariant_violated, r.out[-1500:]))
        emitted = []
        for ln in r.out.split('\n'):
            if ln.startswith('<<"V"'):
                n = [int(x) for x in re.findall(r'\d+', ln)]
                emitted.append((uncps(n[1:]), n[0] == 1))
        if len(emitted) != 775 or len(set(emitted)) != 775 or sum(1 for _, f in emitted if f) != 60 \
                or r.distinct != 775:
            raise MachineryError('bounded version set incomplete: %d strings, %d states' % (len(emitted), r.distinct))
        emitted.sort()
        c = run_tlc(work, 'MC_Version.tla', 'MC_Version_cache.cfg')
        rep.tlc('model-check-cache', c)
        if c.invariant_violated or 'is false' in c.out or not c.completed or c.distinct < 1000:
            raise MachineryError('cache machine violates %s\n%s' % (c.invariant_violated, c.out[-1500:]))
        # (C) the real code
        doc, strs, counts = build_doc(impl, tier, rng, emitted)
        nreal = len(doc['rows'])
        rej, stat, note = judge(rep, work, doc, 'impl')
        rep.extra['inputs'] = counts
        rep.traces += counts['pairs'] + counts['ctor'] + counts['cache_lookups'] + counts['versions']
        selftest(rep, work, doc, rej)
        # vacuity guards (the counts come from TLC's STAT lines, i.e. from the specification's Cmp)
        eqd = sum(stat[t][0] for t in stat)
        nlt = sum(stat[t][1] for t in stat)
        ngt = sum(stat[t][2] for t in stat)
        nprow = sum(1 for rw in doc['rows'] if rw['k'] == 'pairs')
        rep.extra['judged'] = {'pair_rows': nprow, 'pairs': counts['pairs'], 'equal_with_different_spelling': eqd,
                               'less': nlt, 'greater': ngt, 'triples': counts['triples'],
                               'cache_lookups': counts['cache_lookups'], 'ctor': counts['ctor']}
        floor = 14000 if tier == 'quick' else 600000
        vacuous = (len(stat) != nprow or counts['pairs'] < floor or eqd < (100 if tier == 'quick' else 800)
                   or nlt < floor // 4 or ngt < floor // 4 or counts['triples'] < 216000
                   or counts['cache_lookups'] < 200)
        # (inputs the constructor wrongly refused shrink the run; they are reported through the ctor clause)
        if vacuous and not (counts['refused_by_constructor'] and any(rej.values())):
            raise MachineryError('vacuous run: %r' % (rep.extra['judged'],))
        notes = sum(len(v) for t, v in note.items())
        rep.extra['nearest_allowed_but_not_reference_scan'] = notes
        # violations: one of each kind first (so that every kind gets a replay file), then the rest
        found = []
        for t in range(1, nreal + 1):
            row = doc['rows'][t - 1]
            for (pos, clause, flag) in sorted(rej[t]):
                found.append((features(row, pos, clause, flag), t, pos, clause, flag))
        def size(x):                      # shortest spellings first, so that the replay files are easy to read
            row = doc['rows'][x[1] - 1]
            if row['k'] == 'pairs':
                return (0, len(strs[row['i'] - 1]) + len(strs[row['js'][x[2] - 1] - 1]))
            return (1, x[2])
        found.sort(key=size)
        seen, first, later = set(), [], []
        for x in found:
            k = json.dumps(x[0], sort_keys=True)
            (later if k in seen else first).append(x)
            seen.add(k)
        for f, t, pos, clause, flag in first + later:
            rep.violation(f, detail(doc, strs, doc['rows'][t - 1], pos, clause, flag))
        rep.extra['rejections_by_signature'] = {}
        for x in found:
            k = json.dumps(x[0], sort_keys=True)
            rep.extra['rejections_by_signature'][k] = rep.extra['rejections_by_signature'].get(k, 0) + 1
        for rw in doc['rows']:
            if rw['k'] == 'pairs':
                for j in rw['js']:
                    rep.case(rw['i'] * 4096 + j)
            elif rw['k'] == 'cache':
                for n, e in enumerate(rw['evs']):
                    rep.case(('cache', rw['c'], rw['name'], n))
            elif rw['k'] == 'ctor':
                for e in rw['cs']:
                    rep.case(('ctor', tuple(e['s'])))
        rep.sample({'pair': detail(doc, strs, doc['rows'][0], 2, '-', 0)})
        crow = next(rw for rw in doc['rows'] if rw['k'] == 'cache' and rw['c'] == 'G')
        rep.sample({'cache_lookups': [[uncps(e['v']), e['g']] for e in crow['evs'][:6]], 'target': crow['name']})
    rep.rule = ('every ordered pair of the chosen version strings (thorough: all 775 strings of the bounded model '
                'printed by TLC, plus odd spellings and seeded random longer versions; quick: the 60-element subset + '
                '70 seeded others), six operators with a Version and with a string right-hand side, hash agreement, '
                'nearest; all triples of the logged relation on the subset; constructor refusals; lookups of the real '
                'and of fresh NearestMatch/GenerateMatch caches; distinct by (a, b) / lookup position')
    rep.exhaustive = tier != 'quick'
    rep.assumptions = ['version strings contain no line break (VERSION_RE treats them specially) and no non-ASCII '
                       'decimal digits (Python\'s \\d accepts them); numeric groups have at most 8+2 digits (TLC ints)',
                       'grammar identity is Python object identity, numbered in order of first appearance',
                       'hash agreement is judged within one interpreter run (PYTHONHASHSEED fixed by bin/check)']
    return rep.finish()


def replay(path):
    """Re-run the case stored in a replay file on the real code and let TLC judge it again."""
    hs = use_repo()
    impl = Impl(hs)
    rep = Report('C18', 'quick')
    rep.replay_dir = rep.replay_dir + '/re'
    with open(path) as f:
        d = json.load(f)
    c = d['case']
    with Work('c18r') as work, warnings.catch_warnings():
        warnings.simplefilter('ignore')
        kind = c['kind']
        if kind in ('pair', 'nearest', 'trans'):
            strs = [c['a'], c['b']] if kind == 'pair' else [c['a']] if kind == 'nearest' else [c['x'], c['y'], c['z']]
            strs = list(dict.fromkeys(strs))
            objs, vs = impl.table(strs)
            codes = {}
            g = list(range(len(strs)))
            rows = impl.pair_rows(strs, objs, g, codes)
            rows.append({'k': 'near', 'is': [i + 1 for i in g]})
            tm = [[codes[(i, j)] for j in g] for i in g]
            rows += [{'k': 'trans', 'x': x + 1} for x in g]
            doc = {'vs': vs, 'tm': tm, 'rows': rows}
        elif kind == 'ctor':
            doc = {'vs': [], 'tm': [], 'rows': [{'k': 'ctor', 'cs': [{'s': cps(c['a']), 'r': ctor(impl.V, c['a'])}]}]}
        elif kind == 'cache':
            tg = [t for t in impl.cache_targets() if t[0] == c['cache'] and t[1] == c['target']][0]
            if c['target'] != 'fresh':
                print('note: %s is a module-level cache; lookups made at import time are part of its state' % c['target'])
            doc = {'vs': [], 'tm': [], 'rows': [impl.cache_row(tg[0], tg[1], tg[2], [x[0] for x in c['lookups']])]}
        else:
            raise MachineryError('unknown replay kind %r' % kind)
        rej, stat, note = judge(rep, work, doc, 'replay', workers=2)
        bad = [(t, x) for t in sorted(rej) for x in rej[t]]
        for t, (pos, clause, flag) in bad[:10]:
            print('rejected: row %d (%s) position %d clause %s flag %d' % (t, doc['rows'][t - 1]['k'], pos, clause, flag))
        ok = not any(x[1] == c['clause'] for _, x in bad)
    print('property holds on this case' if ok else 'VIOLATION property=C18 replay=%s' % path)
    return 0 if ok else 1
