# Character-level filter cases judged by spec/Trace_FilterLex.tla (C11 role D; C12 reuses the judge).
# Python holds no model: it draws values, writes a filter text (any text is a legitimate input -- TLC reads
# the characters itself and decides what they denote), runs Grid.filter on a real grid, projects rows with
# lib/absval.Abs and reads TLC's verdict lines.
import datetime
import json
import random
import re
from concurrent.futures import ThreadPoolExecutor

from core import run_tlc, MachineryError, NCPU
from absval import Abs, cps, NotAbstractable

# tag names that begin like a keyword are ordinary names (notes, order, android)
TAGS = ['a', 'b', 'c', 'notes', 'order', 'android']
OPS = ['==', '!=', '<', '<=', '>', '>=']


def pools(hs):
    import pytz
    d, t, dt = datetime.date, datetime.time, datetime.datetime
    ny = pytz.timezone('America/New_York')
    syd = pytz.timezone('Australia/Sydney')
    Q = hs.Quantity
    return {
        'num': [5.0, 5.5, -5.0, 0.0, -0.0, 1000.0, 0.001, 1e-7, 1e300, 123456789.0, 50.0, 0.5,
                float('inf'), float('-inf'), float('nan'), 1.0, 2.0],
        'qty': [Q(5.0, 'kg'), Q(5.0, 'm'), Q(5.5, 'kg'), Q(5.0, '%'), Q(5.0, '$'), Q(1000.0, 'kW'),
                Q(5.0, u'°C'), Q(-5.0, 'kg'), Q(0.0, 'kg'), Q(5.0, 'kW'), Q(1.0, 'kg')],
        'bool': [True, False],
        'str': ['Main Hall', 'Main  Hall', 'Main   Hall', 'Main Hall ', ' Main Hall', 'main hall', '', ' ', '  ',
                'a"b', 'a\\b', 'a\nb', 'a\rb', 'a$b', u'aéb', u'a→b', 'and', 'x or y', 'a)b', '(', 'a\tb',
                'a`b', '5', 'true', 'a\\nb', 'a\\"b', 'not a', 'a==b', u'é', 'A', 'a', 'b', 'aa', 'a b',
                'a  b', 'x->y', '@r1', '"'],
        'uri': [hs.Uri('http://x/y'), hs.Uri('http://x/y '), hs.Uri('a b'), hs.Uri('a  b'), hs.Uri('a`b'),
                hs.Uri(''), hs.Uri('a\\b'), hs.Uri(u'aéb'), hs.Uri('a"b'), hs.Uri('http://x/y?q=1&r=[2]#f')],
        'ref': [hs.Ref('x'), hs.Ref('x-y'), hs.Ref('a.b:c~d'), hs.Ref('x', 'Dis play'), hs.Ref('x', 'Dis  play'),
                hs.Ref('X'), hs.Ref('r1'), hs.Ref('r2'), hs.Ref('nobody')],
        'date': [d(2020, 1, 15), d(2020, 1, 16), d(2019, 12, 31), d(2020, 2, 29), d(1999, 1, 1)],
        'time': [t(12, 30), t(12, 30, 0, 500000), t(12, 30, 1), t(0, 0), t(23, 59, 59, 999999), t(12, 30, 0, 1000)],
        'dt': [dt(2020, 1, 15, 12, 30, 0, tzinfo=pytz.utc),
               ny.localize(dt(2020, 1, 15, 7, 30, 0)),
               syd.localize(dt(2020, 1, 15, 23, 30, 0)),
               dt(2020, 1, 15, 12, 30, 1, tzinfo=pytz.utc),
               dt(2020, 1, 15, 12, 30, 0, 250000, tzinfo=pytz.utc),
               ny.localize(dt(2020, 7, 15, 8, 30, 0)),
               dt(2020, 7, 15, 12, 30, 0, tzinfo=pytz.utc),
               dt(2019, 12, 31, 23, 59, 59, tzinfo=pytz.utc),
               dt(9999, 12, 31, 23, 59, 59, tzinfo=pytz.utc), dt(1, 1, 1, 0, 0, 0, tzinfo=pytz.utc)],
        'misc': [hs.MARKER, hs.NA, hs.REMOVE, hs.Coordinate(1.5, -2.25), hs.XStr('hex', 'deadbeef'),
                 hs.XStr('Foo', 'a b  c'), hs.XStr('Foo', 'a b c'), hs.Bin('text/plain'), [1.0, 2.0], [1.0, 'a  b'],
                 [1.0, 'a b'], {'x': 1.0}, [5.0], [Q(5.0, 'kg')], [],
                 # pairs that differ only by the Haystack kind (or the unit, or the decoration) of a nested element,
                 # and extended strings that differ only by their type name
                 [True], [1.0], {'x': True}, [hs.Ref('s')], [hs.Ref('s', 'Site')], [hs.Ref('t')], [Q(5.0, 'kW')],
                 {'x': 1.0, 'y': 2.0}, [[1.0]], [[True]],
                 hs.XStr('Bar', 'a b c'), hs.XStr('b64', '3q2+7w==')],
    }


# spellings that dump_scalar would not produce (number forms, escapes, zone-less date-times, list spacing)
EXTRA_SPELLINGS = {
    'num': ['5', '5.0', '5.00', '5e0', '0.5e1', '50E-1', '1_000', '1E+3', '-5', '-0', '0', '0.0', '1e300',
            '0.001', '1e-7', '123_456_789', 'INF', '-INF', 'NaN', '5.5', '05'],
    'qty': ['5kg', '5.0kg', '5e0kg', '5m', '5%', '5$', '1_000kW', u'5°C', '-5kg', '5kW', '5.5kg'],
    'bool': ['true', 'false'],
    'str': ['"Main Hall"', '"Main  Hall"', '"Main\\u0020Hall"', u'"a\\u00e9b"', u'"aéb"', '"a\\"b"', '"a\\\\b"',
            '"a\\nb"', '"a\\$b"', '"a\\tb"', '"a\\rb"', '"a\\\\nb"', '""', '" "', '"  "', '"and"', '"x or y"',
            '"a)b"', '"("', '"a`b"', '"\\""', '"\\u00E9"', '"a==b"', '"x->y"', '"not a"'],
    'uri': ['`http://x/y`', '`a b`', '`a  b`', '`a\\`b`', '``', '`a\\\\b`', u'`aéb`', '`a\\u00e9b`', '`a"b`',
            '`http\\://x/y`', '`http://x/y?q=1&r=[2]#f`', '`http://x/y\\?q\\=1\\&r\\=\\[2\\]\\#f`'],
    'ref': ['@x', '@x-y', '@a.b:c~d', '@x "Dis play"', '@x "Dis  play"', '@X', '@r1', '@r2', '@nobody'],
    'date': ['2020-01-15', '2020-02-29', '1999-01-01'],
    'time': ['12:30:00', '12:30:00.5', '12:30:00.500', '12:30:00.001', '00:00:00', '23:59:59.999999'],
    'dt': ['2020-01-15T12:30:00Z', '2020-01-15T12:30:00Z UTC', '2020-01-15T07:30:00-05:00 New_York',
           '2020-01-15T12:30:00.25Z UTC', '2020-01-15T12:30:00+00:00', '2020-01-15T23:30:00+11:00 Sydney',
           '2020-01-15T13:30:00+01:00', '2020-07-15T08:30:00-04:00 New_York',
           # the ends of the calendar, named in zones whose own wall clock lies beyond it
           '9999-12-31T23:59:59Z Tokyo', '9999-12-31T23:59:59Z Sydney', '0001-01-01T00:00:00Z New_York',
           '0001-01-01T00:00:00Z Los_Angeles', '9999-12-31T23:59:59Z UTC', '0001-01-01T00:00:00Z'],
    'misc': ['M', 'NA', 'R', 'C(1.5,-2.25)', 'hex("deadbeef")', 'Foo("a b  c")', 'Foo("a b c")', 'Bin(text/plain)',
             '[1,2]', '[1, 2]', '[1,"a  b"]', '[1, "a b"]', '{x:1}', '[5]', '[5kg]', '[]', 'N'],
}

BLANKS = [' ', ' ', ' ', ' ', '  ', '   ']
LOOSE = ['\t', '\n', '\r', '\r\n', ' \t ']


def literal_texts(hs, fam, pool, rng):
    """a literal text for family fam: hszinc's own spelling of a pool value or one of the extra spellings"""
    if rng.random() < 0.5:
        v = rng.choice(pool[fam])
        if isinstance(v, bool):
            return 'true' if v else 'false'
        try:
            return hs.dump_scalar(v, mode=hs.MODE_ZINC, version=hs.Version('3.0'))
        except Exception:
            pass
    return rng.choice(EXTRA_SPELLINGS[fam])


def gap(rng, need, loose):
    if loose and rng.random() < 0.15:
        return rng.choice(LOOSE)
    if not need and rng.random() < 0.4:
        return ''
    return rng.choice(BLANKS)


def render(x, rng, loose):
    """AST (driver-side tuples) -> text"""
    t = x[0]
    if t == 'has':
        return '->'.join(x[1])
    if t == 'missing':
        return 'not' + gap(rng, True, loose) + '->'.join(x[1])
    if t == 'cmp':
        return '->'.join(x[1]) + gap(rng, False, loose) + x[2] + gap(rng, False, loose) + x[3]
    if t == 'paren':
        return '(' + gap(rng, False, loose) + render(x[1], rng, loose) + gap(rng, False, loose) + ')'
    sep = x[0]
    out = render(x[1][0], rng, loose)
    for y in x[1][1:]:
        out += gap(rng, True, loose) + sep + gap(rng, True, loose) + render(y, rng, loose)
    return out


def make_case(hs, pool, rng, simple=False):
    fams = {tg: rng.choice(list(pool)) for tg in TAGS}
    if rng.random() < 0.35:            # two tags of one family: literals of one filter meet kindred values
        fams['b'] = fams['a']
    if rng.random() < 0.25:            # number next to quantity
        fams['a'], fams['b'] = rng.sample(['num', 'qty'], 2)
    nrows = rng.randint(3, 9)
    rows = []
    for i in range(nrows):
        r = {}
        if rng.random() < 0.9:
            # an id is a Ref; it may carry a display name, which plays no part in "the row whose id matches"
            r['id'] = hs.Ref('r%d' % (i + 1)) if rng.random() < 0.6 else hs.Ref('r%d' % (i + 1), 'Row %d' % (i + 1))
        for tg in TAGS:
            u = rng.random()
            if u < 0.10:
                continue
            if u < 0.16:
                r[tg] = None                 # a null cell (what the readers store for an empty cell): an absent tag
                continue
            fam = fams[tg] if u < 0.88 else rng.choice(list(pool))
            r[tg] = rng.choice(pool[fam])
        if rng.random() < 0.5:
            k = rng.randint(1, nrows + 1)
            r['ref'] = hs.Ref('r%d' % k) if rng.random() < 0.7 else hs.Ref('r%d' % k, rng.choice(['Row %d' % k, 'other']))
        rows.append(r)

    def path():
        tg = rng.choice(TAGS)
        return ['ref', tg] if rng.random() < 0.2 else [tg]

    def atom():
        u = rng.random()
        p = path()
        if u < 0.12:
            return ('has', p)
        if u < 0.22:
            return ('missing', p)
        fam = fams[p[-1]] if rng.random() < 0.9 else rng.choice(list(pool))
        op = rng.choice(OPS) if rng.random() < 0.5 else rng.choice(['==', '!='])
        return ('cmp', p, op, literal_texts(hs, fam, pool, rng))

    def term(depth):
        if depth > 0 and rng.random() < 0.2:
            return ('paren', filt(depth - 1))
        return atom()

    def ande(depth):
        n = rng.choice([1, 1, 2, 2, 3])
        xs = [term(depth) for _ in range(n)]
        return xs[0] if n == 1 else ('and', xs)

    def filt(depth):
        n = rng.choice([1, 1, 2, 2, 3])
        xs = [ande(depth) for _ in range(n)]
        return xs[0] if n == 1 else ('or', xs)

    x = atom() if simple else filt(2)
    loose = rng.random() < 0.1
    text = render(x, rng, loose)
    if rng.random() < 0.1:
        text = ' ' + text + ' '
    return text, rows


def execute(hs, text, rows):
    from pyparsing import ParseBaseException
    g = hs.Grid(version='3.0', columns=[(tg, []) for tg in ['id', 'ref'] + TAGS])
    # the grid reaches its rows through one of three histories (chosen by the text, so that a replay makes the same
    # choice): all rows at once; or the same filter has already been evaluated on the grid when its last row is
    # appended / its first row is inserted -- the result is a function of the rows the grid holds NOW
    import zlib
    how = zlib.crc32(text.encode('utf-8', 'surrogatepass')) % 3 if len(rows) >= 2 else 0
    if how == 0:
        g.extend(rows)
    else:
        g.extend(rows[:-1] if how == 1 else rows[1:])
        try:
            g.filter(text)
        except Exception:
            pass
        if how == 1:
            g.append(rows[-1])
        else:
            g.insert(0, rows[0])
    ident = {id(o): i + 1 for i, o in enumerate(rows)}
    try:
        res = g.filter(text)
        return 'ok', [ident.get(id(o), 0) for o in res], ''
    except MachineryError:
        raise
    except ParseBaseException as e:
        return 'parse_error', [], '%s: %s' % (type(e).__name__, str(e)[:120])
    except Exception as e:
        return 'raises', [], '%s: %s' % (type(e).__name__, str(e)[:120])


def abstract_rows(A, rows):
    return [[[cps(k), A.val(v)] for k, v in r.items()] for r in rows]


def judge(rep, work, cases, label, shards=None):
    """cases: dicts with id (1..n), text (str), arows, out, sel.  -> {id: ('OK', class, n1, n0) | ('REJECT', clause)}"""
    n = len(cases)
    shards = shards or max(1, min(NCPU // 2, n // 100 + 1))
    parts = [cases[i::shards] for i in range(shards)]

    def one(args):
        i, part = args
        path = work.path('%s-%d.json' % (label, i))
        with open(path, 'w') as fh:
            json.dump([{'id': c['id'], 'text': cps(c['text']), 'rows': c['arows'], 'out': c['out'], 'sel': c['sel'],
                        'k': c.get('k', 0)} for c in part], fh)
        return run_tlc(work, 'Trace_FilterLex.tla', 'Trace_FilterLex.cfg', workers=2, env={'TRACE_FILE': path},
                       xmx='3g')
    out = {}
    with ThreadPoolExecutor(max_workers=shards) as ex:
        for r in ex.map(one, [(i, p) for i, p in enumerate(parts) if p]):
            rep.tlc('judge-' + label, r)
            for ln in r.out.split('\n'):
                ln = ln.strip()
                if ln.startswith('<<"OK"'):
                    p = [x.strip(' <>"') for x in ln.split(',')]
                    out[int(p[1])] = ('OK', p[2], int(p[3]), int(p[4]))
                elif ln.startswith('<<"REJECT"'):
                    p = [x.strip(' <>"') for x in ln.split(',')]
                    al = ln[ln.index(p[2]) + len(p[2]) + 1:]
                    out[int(p[1])] = ('REJECT', p[2], [int(x) for x in re.findall(r'\d+', al)])
    missing = [c['id'] for c in cases if c['id'] not in out]
    if missing:
        raise MachineryError('no verdict for %d filter cases (%s), e.g. id %r' % (len(missing), label, missing[:3]))
    return out


def record(hs, A, text, rows, cid):
    out, sel, msg = execute(hs, text, rows)
    return {'id': cid, 'text': text, 'arows': abstract_rows(A, rows), 'out': out, 'sel': sel, 'msg': msg,
            'rows_repr': [repr(r) for r in rows]}


# hand-written cases: the situations a random draw meets rarely
def fixed_cases(hs):
    Q = hs.Quantity
    R = hs.Ref
    out = []
    rows = [{'id': R('r1'), 'a': 'Main  Hall'}, {'id': R('r2'), 'a': 'Main Hall'}, {'id': R('r3'), 'a': 'Main   Hall'},
            {'id': R('r4'), 'a': hs.Uri('Main  Hall')}, {'id': R('r5'), 'a': ' Main Hall'}]
    for lit in ['"Main  Hall"', '"Main Hall"', '"Main   Hall"', '" Main Hall"']:
        for op in OPS:
            out.append(('a %s %s' % (op, lit), rows))
        out.append(('a != %s and  a' % lit, rows))
    rows = [{'id': R('r1'), 'a': hs.Uri('x  y')}, {'id': R('r2'), 'a': hs.Uri('x y')}]
    out += [('a == `x  y`', rows), ('a == `x y`', rows), ('a  !=  `x  y`', rows)]
    rows = [{'id': R('r1'), 'a': 5.0, 'b': Q(5.0, 'm')}, {'id': R('r2'), 'a': 6.0, 'b': Q(5.0, 'kg')},
            {'id': R('r3'), 'a': 6.0, 'b': 5.0}, {'id': R('r4'), 'a': Q(5.0, 'kg'), 'b': Q(6.0, 'kg')},
            {'id': R('r5'), 'a': True, 'b': 1.0}, {'id': R('r6'), 'b': Q(5.0, 'm')}]
    for f in ['a == 5 or b == 5kg', 'a == 5kg or b == 5', 'b == 5kg or a == 5', 'a == 7 or b == 5kg',
              'a == 5 and b == 5m', 'a == 6 and b <= 5kg', '(a == 5 or a == 6) and b == 5kg',
              'a == 1 or b == true', 'a == true or b == 1', 'a == 5.0 or b == 5m or c == 5kg',
              'a == 5 or b == 5 or b == 5m', 'a == "5" or b == 5', 'a != 5 and b != 5kg']:
        out.append((f, rows))
    rows = [{'id': R('r1'), 'notes': 'x', 'order': 1.0, 'android': hs.MARKER}, {'id': R('r2'), 'hing': hs.MARKER},
            {'id': R('r3'), 'notes': 'y', 'der': 2.0}]
    out += [(f, rows) for f in ['notes', 'notes == "x"', 'not notes', 'order', 'order == 1', 'android', 'id and notes',
                                'id and android', 'id or order', 'nothing', 'notes and order', 'not order', 'not  android',
                                '(notes)', 'notes or android']]
    # chains far longer than Python lets parentheses nest; null cells; kinds that Python compares and Haystack does not
    rows = [{'id': R('r1'), 'a': 5.0, 'b': None}, {'id': R('r2'), 'a': 7.0, 'b': True}, {'id': R('r3'), 'a': None, 'b': 1.0},
            {'id': R('r4'), 'a': Q(5.0, 'kW'), 'b': hs.Uri('x')}, {'id': R('r5'), 'a': 'x', 'b': 'x'},
            {'id': R('r6'), 'b': hs.Bin('x')}, {'id': R('r7', 'Seven'), 'ref': R('r1', 'One'), 'a': False}]
    for n in (60, 250, 600):
        out.append((' or '.join('a == %d' % k for k in range(n)), rows))
        out.append((' and '.join('a != %d' % (k + 100) for k in range(n)), rows))
    out += [(f, rows) for f in ['a', 'not a', 'b', 'not b', 'a == 5', 'a != 5', 'a == 5kW', 'a != 5kW', 'a < 6', 'a < 6kW',
                                'b == true', 'b == 1', 'b != 1', 'b < 2', 'b == "x"', 'b == `x`', 'b != "x"', 'b < "y"',
                                'b < `y`', 'a == false', 'a == 0', 'ref == @r1', 'ref != @r1', 'id == @r7', 'ref->a == 5',
                                'ref->b', 'not ref->b', 'a == N', 'b != N']]
    import datetime as _d
    import pytz as _p
    rows = [{'id': R('r1'), 'a': _p.utc.localize(_d.datetime(9999, 12, 31, 23, 59, 59))},
            {'id': R('r2'), 'a': _p.utc.localize(_d.datetime(1, 1, 1, 0, 0, 0))},
            {'id': R('r3'), 'a': _p.utc.localize(_d.datetime(2020, 1, 1, 0, 0, 0))}]
    out += [('a %s %s' % (op, lit), rows) for op in OPS
            for lit in ('9999-12-31T23:59:59Z Tokyo', '0001-01-01T00:00:00Z New_York', '9999-12-31T23:59:59Z UTC')]
    rows = [{'id': R('s1', 'Site One'), 'a': 'Chicago'}, {'id': R('s2'), 'a': 'Boston'},
            {'id': R('e1'), 'ref': R('s1'), 'b': 1.0}, {'id': R('e2'), 'ref': R('s1', 'Site One'), 'b': 2.0},
            {'id': R('e3'), 'ref': R('s2', 'shown otherwise'), 'b': 3.0}, {'id': R('e4'), 'ref': R('nobody'), 'b': 4.0}]
    out += [('ref->a == "Chicago"', rows), ('not ref->a', rows), ('ref->a', rows), ('ref->a == "Boston" or b == 1', rows),
            ('b and ref->a != "Chicago"', rows)]
    rows = [{'id': R('r1'), 'a': 'x', 'b': hs.Uri('x')}, {'id': R('r2'), 'a': hs.Uri('x'), 'b': 'x'},
            {'id': R('r3'), 'a': 'y', 'b': 'x'}]
    out += [('a == "x" or b == `x`', rows), ('a == `x` or b == "x"', rows), ('a == "x" and b == `x`', rows)]
    return out


def build(hs, pool, recipe):
    """recipe -> (text, rows); cases are reproducible from their recipe alone"""
    if 'fixed' in recipe:
        return fixed_cases(hs)[recipe['fixed']]
    r = random.Random(recipe['seed'])
    return make_case(hs, pool, r, recipe.get('simple', False))


def features(c, clause):
    t = c['text']
    return {'role': 'D', 'clause': clause, 'deref': '->' in t, 'escape_in_literal': '\\' in t,
            'bin_literal': 'Bin(' in t, 'loose_blanks': any(ch in t for ch in '\t\r\n'),
            'outcome': c['out'], 'exc': c['msg'].split(':')[0] if c['out'] != 'ok' else ''}


def run(rep, work, hs, tier, rng, simple=False, n=None):
    """-> (stats, [(case, clause)] rejected, cases, verdicts)"""
    A = Abs(hs)
    pool = pools(hs)
    n = n or (1500 if tier == 'quick' else 15000)
    recipes = [{'fixed': i} for i in range(len(fixed_cases(hs)))]
    cases = []
    while len(cases) < n:
        rc = recipes[len(cases)] if len(cases) < len(recipes) else \
            {'seed': rng.getrandbits(48), 'simple': simple or rng.random() < 0.25}
        text, rows = build(hs, pool, rc)
        try:
            c = record(hs, A, text, rows, len(cases) + 1)
        except NotAbstractable:
            continue
        c['recipe'] = rc
        cases.append(c)
    verdicts = judge(rep, work, cases, 'flex')
    stats = {'cases': len(cases)}
    rej = []
    for c in cases:
        v = verdicts[c['id']]
        key = v[1] if v[0] == 'OK' else 'rejected'
        stats[key] = stats.get(key, 0) + 1
        c['nontrivial'] = False
        if v[0] == 'OK' and v[1] == 'judged':
            stats['rows_must_in'] = stats.get('rows_must_in', 0) + v[2]
            stats['rows_must_out'] = stats.get('rows_must_out', 0) + v[3]
            if c['out'] == 'ok' and v[2] and v[3]:
                stats['judged_nontrivial'] = stats.get('judged_nontrivial', 0) + 1
                c['nontrivial'] = True
        if v[0] == 'REJECT':
            c['allowed'] = v[2]
            rej.append((c, v[1]))
    return stats, rej, cases, verdicts


def selftest(rep, work, cases):
    """the judge is bound to what was recorded: an accepted selection turned into its complement (every row that must
    be in is dropped, every row that must be out is added) must be rejected"""
    picks = [c for c in cases if c.get('nontrivial')][:40]
    if len(picks) < 10:
        raise MachineryError('too few non-trivial character-level cases for the binding self-test')
    mut = []
    for i, c in enumerate(picks):
        m = dict(c)
        m['id'] = i + 1
        m['sel'] = [k for k in range(1, len(c['arows']) + 1) if k not in c['sel']]
        mut.append(m)
    v = judge(rep, work, mut, 'flex-self', shards=2)
    missed = [m['text'] for m in mut if v[m['id']][0] != 'REJECT']
    if missed:
        raise MachineryError('binding self-test: complemented selection accepted for %r' % missed[:3])
    return len(mut)


def judge_recorded(rep, work):
    """the Grid.filter calls of the repository's own tests (recorded by recplugin), judged like every other case"""
    import rectest
    rec, rc = rectest.record(work, filters=True, only=['tests/test_filter.py', 'tests/test_grid.py'])
    calls = rec.get('filters', [])
    for i, c in enumerate(calls):
        c['id'] = i + 1
    if not calls:
        raise MachineryError('the recording run saw no Grid.filter call')
    v = judge(rep, work, calls, 'recorded', shards=2)
    stats = {'calls': len(calls)}
    rej = []
    for c in calls:
        x = v[c['id']]
        key = x[1] if x[0] == 'OK' else 'rejected'
        stats[key] = stats.get(key, 0) + 1
        if x[0] == 'REJECT':
            c['allowed'] = x[2]
            c['recipe'] = {'recorded': True}
            c['rows_repr'] = []
            rej.append((c, x[1]))
    return stats, rej
