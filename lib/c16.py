# C16 -- ordered metadata maps (SortableDict / MetadataObject) against spec/SDict.tla.
#  (A) MC_SDict.cfg       : TLC model-checks the design (invariants + action properties)
#  (B) Gen_SDict.cfg      : TLC prints every edge; each is replayed on the real classes
#  (C) Trace_SDict.tla    : seeded random histories of the real classes judged by TLC
import json
import sys
import types
import random

from core import (Report, Work, run_tlc, use_repo, seed, MachineryError)

NOARG, UNKNOWN, BAD, DEFAULT = 99, 98, 9, 7
NONE = 2
ERRS = ('KeyError', 'ValueError', 'IndexError', 'Refused')


class Refused(Exception):
    pass


def key_of(k):
    return 'k%02d' % k          # sorts like the integers


class Binding(object):
    """Maps abstract keys/values to concrete ones and applies abstract ops through the public API."""

    def __init__(self, hs):
        from hszinc.sortabledict import SortableDict
        from hszinc.metadata import MetadataObject
        self.SortableDict = SortableDict
        self.MetadataObject = MetadataObject
        self.MARKER = hs.MARKER

    def val(self, v):
        # the abstract value 2 is Python's None (Haystack null): an ordinary value for an ordered map
        return self.MARKER if v == DEFAULT else None if v == NONE else v

    def unval(self, x):
        return DEFAULT if x is self.MARKER else NONE if x is None else x

    @staticmethod
    def validator(v):
        if v == BAD:
            raise Refused()

    def new(self, cls):
        return cls(validate_fn=self.validator)

    @staticmethod
    def is_refusal(e):
        return False

    def make(self, cls, order, vals):
        m = self.new(cls)
        # constructor path is itself exercised by the histories; here build the pre-state through
        # the plain store, then verify it before use
        for k in order:
            m[key_of(k)] = self.val(vals[k])
        if self.observe(m) != [[k, vals[k]] for k in order]:
            raise MachineryError('could not construct pre-state %r' % (order,))
        return m

    def observe(self, m):
        items = list(m.items())
        if len(m) != len(items):
            return [['len_mismatch', len(m)]] + [[k, v] for k, v in items]
        out = []
        for k, v in items:
            out.append([int(k[1:]), self.unval(v)])
        return out

    def observations(self, m, rng, nkeys):
        """what the read-only API answers right after a call (judged by Trace_SDict against the logged state)"""
        n = len(m)
        obs = [{'k': 'len', 'n': n}]

        def tok(f, kind):
            try:
                x = f()
            except (KeyError, IndexError, ValueError) as e:
                return [type(e).__name__]
            except Exception as e:
                return ['Unexpected' + type(e).__name__]
            if kind == 'key':
                return ['key', int(x[1:])] if isinstance(x, str) and x[:1] == 'k' and x[1:].isdigit() else ['key', -1]
            if kind == 'pos':
                return ['pos', x]
            return ['val', self.unval(x)]
        for i in sorted(set([0, -1, n - 1, n, rng.randint(-n - 1, n + 1)])):
            obs.append({'k': 'at', 'i': i, 'r': tok(lambda: m.at(i), 'key')})
            obs.append({'k': 'value_at', 'i': i, 'r': tok(lambda: m.value_at(i), 'val')})
        for k in sorted(set([rng.randint(1, nkeys), rng.randint(1, nkeys), nkeys + 7])):
            key = key_of(k)
            obs.append({'k': 'index', 'key': k, 'r': tok(lambda: m.index(key), 'pos')})
            obs.append({'k': 'getitem', 'key': k, 'r': tok(lambda: m[key], 'val')})
            obs.append({'k': 'get', 'key': k, 'd': 4, 'r': tok(lambda: m.get(key, 4), 'val')})
            obs.append({'k': 'contains', 'key': k, 'v': key in m})
        try:
            obs.append({'k': 'keys', 'ks': [int(x[1:]) for x in m.keys()]})
            obs.append({'k': 'values', 'vs': [self.unval(x) for x in m.values()]})
            same = dict(m.items())
            obs.append({'k': 'eq_copy', 'v': bool(m == same) and bool(same == m) and not (m != same) and
                        len(list(iter(m))) == n and list(reversed(list(m))) == list(m)[::-1]})
        except Exception as e:
            obs.append({'k': 'eq_copy', 'v': False, 'exc': type(e).__name__})
        return obs

    def apply(self, m, o):
        n = o['name']
        try:
            if n == 'add_item':
                kw = {'after': o['after'], 'replace': o['replace']}
                if o['index'] != NOARG:
                    kw['index'] = o['index']
                if o['pos'] != NOARG:
                    kw['pos_key'] = key_of(o['pos'])
                r = m.add_item(key_of(o['k']), self.val(o['v']), **kw)
                return ['None'] if r is None else ['unexpected_return']
            if n == 'setitem':
                m[key_of(o['k'])] = self.val(o['v'])
                return ['None']
            if n == 'delitem':
                del m[key_of(o['k'])]
                return ['None']
            if n == 'pop':
                return ['val', self.unval(m.pop(key_of(o['k'])))]
            if n == 'pop_default':
                return ['val', self.unval(m.pop(key_of(o['k']), self.val(o['v'])))]
            if n == 'pop_at':
                return ['val', self.unval(m.pop_at(o['index']))]
            if n == 'popitem':
                k, v = m.popitem()
                return ['item', int(k[1:]), self.unval(v)]
            if n == 'sort':
                return ['None'] if m.sort() is None else ['unexpected_return']
            if n == 'sort_by':
                kf = (lambda k: int(k[1:]) % 2) if o['f'] == 'mod2' else (lambda k: int(k[1:]))
                return ['None'] if m.sort(key=kf, reverse=bool(o['rev'])) is None else ['unexpected_return']
            if n == 'reverse':
                return ['None'] if m.reverse() is None else ['unexpected_return']
            if n == 'clear':
                return ['None'] if m.clear() is None else ['unexpected_return']
            if n == 'setdefault':
                return ['val', self.unval(m.setdefault(key_of(o['k']), self.val(o['v'])))]
            if n == 'append':
                r = m.append(key_of(o['k']), self.val(o['v']), replace=o['replace'])
                return ['None'] if r is None else ['unexpected_return']
            if n == 'append_default':
                r = m.append(key_of(o['k']), replace=o['replace'])
                return ['None'] if r is None else ['unexpected_return']
            if n == 'extend':
                items = [(key_of(k), self.val(v)) for k, v in o['items']]
                form = o.get('form', 'list')
                if form == 'dict':
                    items = dict(items)
                elif form == 'sdict':
                    items = self.SortableDict(items)
                elif form == 'meta':
                    items = self.MetadataObject(items)
                elif form == 'proxy':
                    items = types.MappingProxyType(dict(items))
                elif form == 'iter':
                    items = iter(items)
                r = m.extend(items, replace=o['replace'])
                return ['None'] if r is None else ['unexpected_return']
            if n == 'add_bad_index':
                # an index list.insert() refuses: sys.maxsize pushed one further by after=True, or a float
                kw = {'index': sys.maxsize, 'after': True} if o['kind'] == 'huge' else {'index': 1.0, 'after': bool(o['k'] % 2)}
                r = m.add_item(key_of(o['k']), self.val(o['v']), replace=o['replace'], **kw)
                return ['None'] if r is None else ['unexpected_return']
            raise MachineryError('unknown op %r' % n)
        except Refused:
            return ['Refused']
        except MachineryError:
            raise
        except Exception as e:
            if self.is_refusal(e):
                return ['Refused']
            return [type(e).__name__]


class ColumnsBinding(Binding):
    """The columns of a Grid (grid.column): the same ordered map, whose values are column metadata.  The abstract
    value v is the metadata {'t': v} handed over as a plain dict; the map keeps it in a metadata object bound to
    the grid, and the validator is the grid's version gate (BAD = a 3.0-only value in a grid declared 2.0)."""

    def __init__(self, hs):
        Binding.__init__(self, hs)
        self.hs = hs
        self.GridColumns = 'GridColumns'

    def new(self, cls):
        return self.hs.Grid(version='2.0').column

    def val(self, v):
        return {'t': self.hs.NA if v == BAD else Binding.val(self, v)}

    def unval(self, x):
        if isinstance(x, (dict, self.SortableDict)):
            t = dict(x.items()).get('t', 'no_t')
            return BAD if t is self.hs.NA else Binding.unval(self, t)
        return x

    @staticmethod
    def is_refusal(e):
        return isinstance(e, ValueError) and 'requires version' in str(e)


def pairs(v):
    """vals as printed by ToJson: list of [k, v] or object of them (or [] when empty)."""
    if isinstance(v, dict):
        v = list(v.values())
    return {int(k): x for k, x in v}


def features(o, pre_order, got_res, got_items, allowed):
    f = {'engine': 'sdict', 'op': o['name'], 'got_result': got_res[0]}
    if o['name'] == 'add_item':
        exists = o['k'] in pre_order
        f['exists'] = exists
        f['position'] = ('both' if o['index'] != NOARG and o['pos'] != NOARG else
                         'index' if o['index'] != NOARG else
                         'pos_key' if o['pos'] != NOARG else 'none')
        if o['pos'] != NOARG:
            f['pos_key'] = ('unknown' if o['pos'] not in pre_order else
                            'self' if o['pos'] == o['k'] else 'other')
            if exists and o['pos'] in pre_order and o['pos'] != o['k']:
                f['key_before_pos'] = pre_order.index(o['k']) < pre_order.index(o['pos'])
        f['after'] = o['after']
        f['replace'] = o['replace']
    f['result_allowed'] = any(a[0] == got_res for a in allowed)
    f['content_preserved'] = sorted(map(tuple, got_items)) in [sorted(map(tuple, a[1])) for a in allowed]
    return f


def replay_edges(rep, b, edges, classes):
    """Group TLC's edges by (pre-state, op); the real outcome must be one of the allowed ones."""
    groups = {}
    for e in edges:
        pre_o = e['o']
        pre_v = pairs(e['v'])
        key = (json.dumps(pre_o), json.dumps(sorted(pre_v.items())), json.dumps(e['op'], sort_keys=True))
        post_v = pairs(e['v2'])
        out = (e['r'], [[k, post_v[k]] for k in e['o2']])
        groups.setdefault(key, (pre_o, pre_v, e['op'], []))[3].append(out)
    n = 0
    for key, (pre_o, pre_v, o, allowed) in groups.items():
        for cname, b, cls in classes:
            if o['name'] in ('append', 'append_default', 'extend') and cname != 'MetadataObject':
                continue
            if o['name'] == 'ctor' and cname == 'GridColumns':
                continue
            forms = ['list']
            if o['name'] in ('extend', 'ctor') and len(set(k for k, _ in o['items'])) == len(o['items']):
                forms = ['list', 'dict', 'sdict', 'meta', 'proxy', 'iter'] if o['name'] == 'extend' else \
                    ['list', 'dict', 'sdict', 'meta', 'proxy']
            for form in forms:
                o2 = dict(o)
                if o['name'] in ('extend', 'ctor'):
                    o2['form'] = form
                if o['name'] == 'ctor':
                    try:
                        m = construct(b, cls, o2)[0]
                        got_res = ['None']
                    except Exception as e:
                        m, got_res = b.new(cls), [type(e).__name__]
                else:
                    m = b.make(cls, pre_o, pre_v)
                    got_res = b.apply(m, o2)
                got_items = b.observe(m)
                n += 1
                rep.case((cname, form) + key)
                if (got_res, got_items) not in [(a[0], a[1]) for a in allowed]:
                    f = features(o2, pre_o, got_res, got_items, allowed)
                    f['class'] = cname
                    if o['name'] == 'extend':
                        f['form'] = form
                    rep.violation(f, {'class': cname, 'pre_items': [[k, pre_v[k]] for k in pre_o], 'op': o2,
                                      'got': {'result': got_res, 'items': got_items},
                                      'allowed': [{'result': a[0], 'items': a[1]} for a in allowed]})
    return n, len(groups)


def construct(b, cls, o):
    """the constructor event: the map, a twin built from the same initial object, and that object"""
    items = [(key_of(k), b.val(v)) for k, v in o['items']]
    src = dict(items) if o['form'] == 'dict' else b.SortableDict(items) if o['form'] == 'sdict' else \
        b.MetadataObject(items) if o['form'] == 'meta' else types.MappingProxyType(dict(items)) if o['form'] == 'proxy' else \
        list(items)
    m = cls(src)
    twin = cls(src)
    return m, twin, src


def twin_obs(b, twin, src, init, src0=None):
    try:
        now = b.observe(twin)
        cur = [[int(k[1:]), b.unval(v)] for k, v in (src.items() if hasattr(src, 'items') else src)]
    except Exception as e:
        now, cur = [['exception', 0]], [[type(e).__name__, 0]]
    return {'k': 'twin', 'init': init, 'now': now, 'src': cur, 'src0': cur if src0 is None else src0}


def random_history(rng, b, cls, nkeys, length, ctor=None):
    """Drive the real class with a seeded random program; log op, result, projected state.  With ctor (a form:
    dict / list) the map is built by the constructor from an initial object, without a validator; a twin
    built from the same object and the object itself are observed after every call."""
    evs = []
    twin = None
    if ctor:
        ks = rng.sample(range(1, nkeys + 1), rng.randint(2, 4))
        o = {'name': 'ctor', 'form': ctor, 'items': [[k, rng.randint(1, 5)] for k in ks]}
        if ctor == 'list' and rng.random() < 0.5:
            o['items'].append([ks[0], 5])          # a repeated key: the last value, the first position
        m, twin, src = construct(b, cls, o)
        o['r'] = ['None']
        o['st'] = b.observe(m)
        init = b.observe(twin)
        o['obs'] = [twin_obs(b, twin, src, init)]
        src0 = o['obs'][0]['src']
        evs.append(o)
    else:
        m = b.new(cls)
    meta = cls is b.MetadataObject
    names = ['add_item'] * 6 + ['add_bad_index'] + ['setitem'] * 3 + ['delitem', 'pop', 'pop_default', 'pop_at', 'popitem',
                                                  'sort', 'sort_by', 'sort_by', 'reverse', 'setdefault']
    if meta:
        names += ['append', 'append_default', 'extend', 'extend']
    for _ in range(length):
        n = rng.choice(names)
        cur = [int(k[1:]) for k in m]
        def K():
            if cur and rng.random() < 0.6:
                return rng.choice(cur)
            return rng.randint(1, nkeys)
        def V():
            r = rng.random()
            return BAD if r < 0.07 and not ctor else DEFAULT if r < 0.12 else rng.randint(1, 5)
        o = {'name': n}
        if n == 'add_item':
            o.update(k=K(), v=V(), after=rng.random() < 0.5, replace=rng.random() < 0.8,
                     index=NOARG, pos=NOARG)
            r = rng.random()
            if r < 0.35:
                o['index'] = rng.randint(0, len(cur) + 2)
            elif r < 0.8:
                o['pos'] = K() if rng.random() < 0.9 else UNKNOWN
            if rng.random() < 0.04:
                o['index'] = rng.randint(0, 3)
                o['pos'] = K()
        elif n == 'add_bad_index':
            o.update(k=K(), v=V(), kind=rng.choice(['huge', 'float']), replace=rng.random() < 0.8)
        elif n in ('setitem', 'setdefault', 'pop_default'):
            o.update(k=K(), v=V())
        elif n in ('delitem', 'pop'):
            o.update(k=K())
        elif n == 'pop_at':
            o.update(index=rng.randint(0, len(cur) + 1))
        elif n == 'sort_by':
            o.update(f=rng.choice(['id', 'mod2', 'mod2']), rev=rng.random() < 0.6)
        elif n == 'append':
            o.update(k=K(), v=V(), replace=rng.random() < 0.7)
        elif n == 'append_default':
            o.update(k=K(), replace=rng.random() < 0.7)
        elif n == 'extend':
            o.update(items=[[K(), V()] for _ in range(rng.randint(0, 3))], replace=rng.random() < 0.7)
            if len(set(k for k, _ in o['items'])) == len(o['items']):
                o['form'] = rng.choice(['list', 'dict', 'sdict', 'meta', 'proxy', 'iter'])
        if n == 'clear' and rng.random() < 0.9:
            continue
        res = b.apply(m, o)
        o['r'] = res
        o['st'] = b.observe(m)
        o['obs'] = b.observations(m, rng, nkeys)
        if twin is not None:
            o['obs'].append(twin_obs(b, twin, src, init, src0))
        evs.append(o)
    return evs


def judge_traces(rep, work, traces, label, per=25):
    """validated in shards of `per` traces (one TLC run each, run side by side): a trace file with thousands of
    observation records per history does not fit one JVM heap"""
    from concurrent.futures import ThreadPoolExecutor
    shards = [list(range(i, min(i + per, len(traces)))) for i in range(0, len(traces), per)]

    def one(k):
        path = work.path('traces-%s-%d.json' % (label, k))
        with open(path, 'w') as f:
            json.dump([traces[i] for i in shards[k]], f)
        return k, run_tlc(work, 'Trace_SDict.tla', 'Trace_SDict.cfg', workers=4, env={'TRACE_FILE': path}, xmx='3g')
    verdict, done = {}, set()
    with ThreadPoolExecutor(max_workers=4) as ex:
        for k, r in ex.map(one, range(len(shards))):
            rep.tlc('trace-' + label, r)
            if r.invariant_violated:
                rep.violation({'engine': 'sdict-trace', 'invariant': r.invariant_violated},
                              {'tlc_tail': r.out[-2000:]})
            for ln in r.out.split('\n'):
                ln = ln.strip()
                if ln.startswith('<<"ACCEPT"') or ln.startswith('<<"DONE"'):
                    done.add(shards[k][int(ln.split(',')[1].strip(' >')) - 1] + 1)
                elif ln.startswith('<<"REJECT"'):
                    parts = [p.strip(' <>"') for p in ln.split(',')]
                    verdict.setdefault(shards[k][int(parts[1]) - 1] + 1, []).append((int(parts[2]), parts[3]))
    for i in range(1, len(traces) + 1):
        if i not in done:
            raise MachineryError('no verdict for trace %d (%s)' % (i, label))
        verdict.setdefault(i, []).sort()
    return verdict


def trace_features(tr, l, clause):
    ev = tr[l - 1]
    pre = [kv[0] for kv in tr[l - 2]['st']] if l >= 2 else []
    f = features(ev, pre, ev['r'], ev['st'], [])
    f.pop('result_allowed'); f.pop('content_preserved')
    f['engine'] = 'sdict-trace'
    f['clause'] = clause
    return f


def selftest_binding(rep, work, traces, verdict):
    """Demonstrate the binding: corrupt one logged field of a trace -> exactly that event is rejected."""
    good = [e for e in traces[0]]
    bad = json.loads(json.dumps(good))
    idx = next(i for i, e in enumerate(bad) if len(e['st']) >= 2)
    bad[idx]['st'][0], bad[idx]['st'][1] = bad[idx]['st'][1], bad[idx]['st'][0]
    # ... and one logged observation (the key reported by at(0)) of another copy
    bad2 = json.loads(json.dumps(good))
    idx2 = next(i for i, e in enumerate(bad2) if len(e['st']) >= 2 and any(o['k'] == 'at' and o['i'] == 0 for o in e.get('obs', [])))
    for o in bad2[idx2]['obs']:
        if o['k'] == 'at' and o['i'] == 0:
            o['r'] = ['key', bad2[idx2]['st'][1][0]]
    v = judge_traces(rep, work, [good, bad, bad2], 'selftest')
    new_rej = [x for x in v[2] if x not in v[1]]
    new_rej2 = [x for x in v[3] if x not in v[1]]
    ok = v[1] == verdict[1] and any(x[0] == idx + 1 for x in new_rej) and new_rej2 == [(idx2 + 1, 'obs_at')]
    rep.extra['binding_selftest'] = {'corrupted_event': idx + 1, 'new_rejections': new_rej[:3],
                                     'corrupted_observation': idx2 + 1, 'observation_rejections': new_rej2[:3], 'ok': ok}
    if not ok:
        raise MachineryError('binding self-test failed: %r' % (v,))


def run(tier):
    hs = use_repo()
    rep = Report('C16', tier)
    b = Binding(hs)
    rng = random.Random(seed() * 7919 + 16)
    with Work('c16') as work:
        # (A) model check
        r = run_tlc(work, 'SDict.tla', 'MC_SDict.cfg' if tier == 'quick' else 'MC_SDict_thorough.cfg',
                    coverage=False)
        rep.tlc('model-check', r)
        if r.invariant_violated:
            raise MachineryError('SDict.tla violates its own property %s' % r.invariant_violated)
        # (B) every edge replayed
        g = run_tlc(work, 'Gen_SDict.tla', 'Gen_SDict.cfg' if tier == 'quick' else 'Gen_SDict_thorough.cfg',
                    workers=1, xmx='6g')
        rep.tlc('edge-generation', g)
        edges = g.json_lines()
        if len(edges) < 1000 or len(edges) != g.generated - 1:
            raise MachineryError('edge generation incomplete: %d edges, %d generated' % (len(edges), g.generated))
        bc = ColumnsBinding(hs)
        classes = [('SortableDict', b, b.SortableDict), ('MetadataObject', b, b.MetadataObject),
                   ('GridColumns', bc, bc.GridColumns)]
        n, ngroups = replay_edges(rep, b, edges, classes)
        rep.traces += n
        rep.extra['edges_replayed'] = n
        rep.extra['distinct_pre_state_op_pairs'] = ngroups
        ops = sorted(set(e['op']['name'] for e in edges))
        rep.extra['actions_covered'] = ops
        rep.sample({'edge': edges[len(edges) // 2]})
        # (C) random histories of the real classes, judged by TLC
        nh, ln, nk = (40, 300, 12) if tier == 'quick' else (400, 400, 14)
        traces = []
        for i in range(nh):
            cname, bi, cls = classes[i % 3]
            # every fourth history of the two plain classes starts from the constructor with an initial object
            ctor = ['dict', 'list', 'sdict', 'meta', 'proxy'][(i // 4) % 5] if i % 4 == 1 and i % 3 != 2 else None
            traces.append(random_history(rng, bi, cls, nk, ln, ctor=ctor))
        verdict = judge_traces(rep, work, traces, 'random')
        rep.traces += len(traces)
        rep.extra['random_histories'] = {'count': nh, 'length': ln, 'keys': nk}
        rep.sample({'history_prefix': traces[0][:3]})
        for i, tr in enumerate(traces, 1):
            rep.case(('hist', i))
            for (l, clause) in verdict[i]:
                rep.violation(trace_features(tr, l, clause),
                              {'history_prefix': tr[max(0, l - 6):l], 'clause': clause, 'event': l,
                               'class': classes[(i - 1) % 3][0]})
        selftest_binding(rep, work, traces, verdict)
        # (C') the operation sequences the repository's own test-suite performs on its ordered maps
        import rectest
        rec, rc = rectest.record(work)
        rep.extra['suite_recording'] = rec['stats']
        for f, d in rectest.judge_maps(rep, work, rec):
            rep.violation(f, d)
    rep.rule = ('edges: every <<pre-state, operation+arguments>> pair of the bounded SDict model, replayed on '
                'SortableDict, MetadataObject and the column map of a Grid (grid.column), distinct by (class, pre-state, op); histories: seeded random '
                'programs judged event by event by Trace_SDict')
    rep.exhaustive = True
    rep.assumptions = ['keys are strings k01.. (sorted like the model integers); values are small ints / MARKER',
                       'negative index arguments are outside the property and not generated']
    return rep.finish()


def replay(path):
    """Re-run exactly the case stored in a replay file."""
    hs = use_repo()
    b = Binding(hs)
    rep = Report('C16', 'quick')
    rep.replay_dir = rep.replay_dir + '/re'
    with open(path) as f:
        d = json.load(f)
    c = d['case']
    with Work('c16r') as work:
        if c.get('class') == 'GridColumns':
            b = ColumnsBinding(hs)
        if 'op' in c:
            cls = getattr(b, c['class'])
            pre = c['pre_items']
            if c['op']['name'] == 'ctor':
                m = construct(b, cls, c['op'])[0]
                got = (['None'], b.observe(m))
            else:
                m = b.make(cls, [k for k, _ in pre], {k: v for k, v in pre})
                got = (b.apply(m, c['op']), b.observe(m))
            print('got      :', got)
            print('allowed  :', [(a['result'], a['items']) for a in c['allowed']])
            ok = got in [(a['result'], a['items']) for a in c['allowed']]
        else:
            # history prefix: re-execute the logged operations on the real class and let TLC judge
            evs = c['history_prefix']
            first = evs[0]
            cls = b.MetadataObject
            m = b.new(cls)
            # rebuild the state before the first kept event from the event before it (if any)
            new = []
            for e in evs:
                if e['name'] == 'ctor':
                    m, twin, src = construct(b, cls, e)
                    continue
                o = dict((k, v) for k, v in e.items() if k not in ('r', 'st'))
                o['r'] = b.apply(m, o)
                o['st'] = b.observe(m)
                new.append(o)
            print('re-executed events:', json.dumps(new[-2:]))
            ok = new[-1]['r'] == evs[-1]['r'] and new[-1]['st'] == evs[-1]['st']
            ok = not ok   # same behaviour as recorded == still failing
    print('property holds on this case' if ok else 'VIOLATION property=C16 replay=%s' % path)
    return 0 if ok else 1
