# C07 -- anything parsed can be re-dumped, transcoded and re-parsed unchanged.
#  (A) spec/Codec.tla (MC_Codec.cfg): the store machine; Lossless / Pure / Deterministic hold for every
#      sequence of <= 5 operations over 3 registers on the abstract value lattice (exact -> six decimals).
#  (C) seeded random walks of the real parse/dump functions over three registers, starting from documents of
#      the C03 generator (spec/ZincWrite.tla spellings: parser-made values such as fixed-offset tzinfo,
#      unofficial version strings) and of the JSON writer; every event is logged and validated by
#      spec/Trace_Codec.tla, whose registers hold what the reader machines (ZincRead, HJson) say the
#      texts denote.
import json
import multiprocessing
import random

from core import Report, Work, run_tlc, use_repo, seed, MachineryError, NCPU, write_consts
import absval
import gengrid
import zinccodec
import jsoncodec
import c03


def tree_of(text):
    return jsoncodec.strict_loads(text)


_W = {}


def _init():
    hs = use_repo()
    _W['hs'] = hs
    _W['A'] = absval.Abs(hs)


def row_keys(grids):
    """the keys each row dict holds, in their order (a dump must not add, drop or re-order entries of the rows it reads)"""
    return [[[absval.cps(str(k)) for k in r.keys()] for r in g] for g in grids]


def _walk(args):
    """one walk: start document (format, text), seeded ops -> list of events"""
    wid, fmt, text, steps, sd = args
    hs, A = _W['hs'], _W['A']
    rng = random.Random(sd)
    regs = {1: None, 2: None, 3: None}       # ('grid', [grids]) | ('zinc', str) | ('json', str)
    evs = []
    if fmt == 'zinc':
        regs[1] = ('zinc', text)
        evs.append({'op': 'load_zinc', 'j': 1, 'text': absval.cps(text), 'exc': ''})
    else:
        regs[1] = ('json', text)
        evs.append({'op': 'load_json', 'j': 1, 'tree': tree_of(text), 'exc': ''})

    def mode(f):
        return hs.MODE_ZINC if f == 'zinc' else hs.MODE_JSON
    for _ in range(steps):
        srcs = [i for i in regs if regs[i] is not None]
        i = rng.choice(srcs)
        j = rng.choice([k for k in regs if k != i])
        kind, val = regs[i]
        if kind == 'grid':
            f = rng.choice(['zinc', 'json'])
            ev = {'op': 'dump_' + f, 'i': i, 'j': j, 'exc': ''}
            try:
                before = A.doc(val)
                kb = row_keys(val)
                t1 = hs.dump(val, mode=mode(f))
                t2 = hs.dump(val, mode=mode(f))
                after = A.doc(val)
                ev.update(before=before, after=after, kb=kb, ka=row_keys(val))
                if f == 'zinc':
                    ev.update(text=absval.cps(t1), text2=absval.cps(t2))
                else:
                    ev.update(tree=tree_of(t1), tree2=tree_of(t2), q6=jsoncodec.q6_doc(before))
                regs[j] = (f, t1)
            except Exception as e:
                ev['exc'] = '%s: %s' % (type(e).__name__, str(e)[:150])
            evs.append(ev)
        else:
            if rng.random() < 0.25:
                # normalise twice: N(d) = dump(parse(d))
                ev = {'op': 'norm', 'i': i, 'fmt': kind, 'exc': ''}
                try:
                    n1 = hs.dump(hs.parse(val, mode=mode(kind), single=False), mode=mode(kind))
                    n2 = hs.dump(hs.parse(n1, mode=mode(kind), single=False), mode=mode(kind))
                    ev.update(t1=absval.cps(n1), t2=absval.cps(n2))
                except Exception as e:
                    ev['exc'] = '%s: %s' % (type(e).__name__, str(e)[:150])
                evs.append(ev)
                continue
            ev = {'op': 'parse_' + kind, 'i': i, 'j': j, 'exc': ''}
            try:
                data = val
                if kind == 'json' and rng.random() < 0.3:
                    data = json.loads(val)          # pre-decoded input form
                elif rng.random() < 0.3:
                    data = val.encode('utf-8')
                gs = hs.parse(data, mode=mode(kind), single=False)
                ev['out'] = A.doc(gs)
                ev['outq6'] = jsoncodec.q6_doc(ev['out']) if kind == 'json' else []
                regs[j] = ('grid', gs)
            except Exception as e:
                ev['exc'] = '%s: %s' % (type(e).__name__, str(e)[:150])
            evs.append(ev)
    # mode sanitisation: how dump() understood a mode argument (observed through the shape of its output)
    if wid % 5 == 0:
        g0 = hs.Grid(version='2.0', columns=[('a', [])])
        for arg in rng.sample(['zinc', 'ZINC', 'Zinc', 'json', 'JSON', 'jSoN', 'text/zinc', 'application/json', 'TEXT/ZINC',
                               'xml', '', 'zinc ', 'text/json', 'csv'], 4):
            try:
                out = hs.dump(g0, mode=arg)
                fmtobs = 'json' if out.lstrip().startswith('{') else 'zinc'
            except ValueError:
                fmtobs = 'ValueError'
            except Exception as e:
                fmtobs = type(e).__name__
            evs.append({'op': 'mode', 'text': absval.cps(arg), 'fmt': fmtobs, 'exc': ''})
    # every event carries every field (records of one shape for TLC)
    for ev in evs:
        for k, d in (('i', 0), ('j', 0), ('text', []), ('text2', []), ('tree', [0]), ('tree2', [0]), ('before', []),
                     ('after', []), ('q6', []), ('out', []), ('outq6', []), ('t1', []), ('t2', []), ('fmt', ''), ('kb', []), ('ka', [])):
            ev.setdefault(k, d)
    return wid, evs


def run(tier):
    hs = use_repo()
    rep = Report('C07', tier)
    A = absval.Abs(hs)
    rng = random.Random(seed() * 2029 + 7)
    with Work('c07') as work:
        r = run_tlc(work, 'MC_Codec.tla', 'MC_Codec.cfg')
        rep.tlc('model-check Codec', r)
        if r.invariant_violated:
            raise MachineryError('Codec.tla violates %s' % r.invariant_violated)
        # seed documents: C03 generator (ZINC spellings) + JSON dumps of catalogue grids
        plans = zinccodec.tlc_plans(rep, work)
        docs, meta = c03.abstract_docs(hs, A, plans, 'quick', rng)
        # stratified: every payload of the kinds whose parser-made objects differ from user-made ones, plus a sample
        key = [i for i, m in enumerate(meta) if m.get('t') == 'scalar' and m['kind'] in ('ref', 'dt', 'num', 'qty', 'xstr', 'uri', 'time',
                                                                                      'coord', 'bin', 'str')
               and (m['ver'] == '3.0' or m['kind'] in ('ref', 'dt'))]
        # a date-time whose UTC instant lies outside the calendar (0001-01-01T00:00+14:00) loses its zone name when parsed
        # and cannot be given one again: not an instant a grid can carry through a dump (C17: ValueError is permitted)
        beyond = ('edge_max_gmt5', 'edge_min_gmtm14')
        key = [i for i in key if meta[i].get('payload') not in beyond]
        rest = [i for i in range(len(docs)) if i not in set(key) and meta[i].get('payload') not in beyond
                and meta[i].get('payload2') not in beyond]
        rng.shuffle(rest)
        sel = key + rest[:60 if tier == 'quick' else 400]
        docs2 = [json.loads(json.dumps(docs[i])) for i in sel]
        # date-times of one offset in different seasons, side by side (spelled without zone name by dt style 5:
        # the parser returns fixed-offset tzinfo and the writer has to find a zone for each instant)
        cat0 = gengrid.Catalogue(hs, rng)
        pairs = [('adelaide_jan', 'lordhowe_jul'), ('lordhowe_jul', 'adelaide_jan'), ('berlin_jul', 'cairo_jan'),
                 ('cairo_jan', 'berlin_jul'), ('adak_jul', 'anchorage_jan'), ('anchorage_jan', 'adak_jul')]
        season_docs = []
        for a, b in pairs:
            gr = hs.Grid(version='3.0', columns=[('ts', []), ('n', [])])
            gr.extend([{'ts': cat0.value('dt', '3.0', a)[1], 'n': 1}, {'ts': cat0.value('dt', '3.0', b)[1], 'n': 2}])
            season_docs.append(A.doc([gr]))
        # fixed-offset date-times within hours of a daylight-saving switch of a zone that has that offset on one side of
        # the switch: the zone the writer picks must have the offset AT THAT INSTANT (seeded sample of zones x switches)
        import datetime as _dt
        import pytz
        near = []
        for zn in ('America/Adak', 'America/New_York', 'Europe/Berlin', 'Australia/Sydney', 'Australia/Lord_Howe',
                   'Europe/London', 'America/St_Johns', 'Pacific/Auckland', 'Australia/Adelaide', 'America/Santiago',
                   'America/Anchorage', 'Europe/Lisbon', 'Asia/Tehran', 'America/Havana'):
            z = pytz.timezone(zn)
            tt, ti = z._utc_transition_times, z._transition_info
            for i in range(1, len(tt)):
                if not (2019 <= tt[i].year <= 2023):
                    continue
                for dh in (-7, -3, -1, 1, 3, 7):
                    inst = pytz.utc.localize(tt[i] + _dt.timedelta(hours=dh, minutes=30))
                    off = inst.astimezone(z).utcoffset()       # the offset in force in that zone at that instant
                    mins = int(off.total_seconds() // 60)
                    if off.total_seconds() == mins * 60:
                        near.append(inst.astimezone(pytz.FixedOffset(mins)))
        rng.shuffle(near)
        per = 10
        for k in range(3 if tier == 'quick' else 12):
            gr = hs.Grid(version='3.0', columns=[('ts', []), ('n', [])])
            gr.extend([{'ts': v, 'n': j} for j, v in enumerate(near[k * per:(k + 1) * per])])
            season_docs.append(A.doc([gr]))
        # one instant under several fixed offsets, side by side and in both orders: the zone found for one value says
        # nothing about the next (date-times compare and hash by instant, whatever their offsets)
        inst0 = pytz.utc.localize(_dt.datetime(2020, 6, 1, 10, 0, 0))
        offs = [330, 120, -300, 0, 570, 600]
        for order in (offs, offs[::-1], offs[2:] + offs[:2]):
            gr = hs.Grid(version='3.0', columns=[('ts', []), ('n', [])])
            gr.extend([{'ts': inst0.astimezone(pytz.FixedOffset(m)), 'n': j} for j, m in enumerate(order)])
            season_docs.append(A.doc([gr]))
        docs2 = season_docs + docs2
        # unofficial version spellings are part of the quantifier: respell a share of the versions
        for k, d in enumerate(docs2):
            if k % 7 == 3 and d[0][1] == absval.cps('3.0'):
                d[0][1] = absval.cps(rng.choice(['3.0.0', '2.5', '4.0', '3']))
            if k % 11 == 5 and d[0][1] == absval.cps('2.0'):
                d[0][1] = absval.cps(rng.choice(['2.0.0', '1.0', '2']))
        # the version decides how a Bin is spelt: every other document that holds one gets a version strictly
        # between the two official ones (read and written by the rules of the nearest, 3.0)
        def has_bin(x):
            return isinstance(x, (list, tuple)) and ((len(x) > 0 and x[0] == 9 and len(x) == 2) or any(has_bin(y) for y in x))
        nb = 0
        for d in docs2:
            if d[0][1] == absval.cps('3.0') and has_bin(d[0][2:]):
                nb += 1
                if nb % 2:
                    d[0][1] = absval.cps(['2.5', '2.0.1', '2.9'][nb // 2 % 3])
        extra = [{f: rng.randint(1, c03.RANGES[f]) for f in c03.FIELDS} for _ in range(2)]
        nozone = {f: 1 for f in c03.FIELDS}
        nozone['dt'] = 5
        extra.append(nozone)
        for e in extra:
            e['fin'] = 1
        write_consts(work, 'ZwCat', {'Docs': docs2, 'ExtraStyles': extra})
        g = run_tlc(work, 'Gen_ZincWrite.tla', 'Gen_ZincWrite.cfg', workers=NCPU, lib=work.dir, xmx='8g', timeout=3000)
        rep.tlc('seed documents (ZincWrite)', g)
        if 'SPEC-DISAGREE' in g.out or g.invariant_violated:
            raise MachineryError('ZincWrite and ZincRead disagree on a seed document')
        seeds = {}
        for d in g.json_lines():
            seeds[(d['di'], json.dumps(d['sty'], sort_keys=True))] = d
        seeds = sorted(seeds.values(), key=lambda d: (d['di'], json.dumps(d['sty'], sort_keys=True)))
        rng.shuffle(seeds)
        seeds.sort(key=lambda d: 0 if (d['di'] <= len(season_docs) or d['sty'].get('dt') == 5) else 1)
        nz, nj = (320, 80) if tier == 'quick' else (4000, 1200)
        jobs = []
        for d in seeds[:nz]:
            jobs.append((len(jobs) + 1, 'zinc', ''.join(chr(c) for c in d['text']), rng.randint(6, 10), rng.randrange(1 << 30)))
        cat = gengrid.Catalogue(hs, rng)
        single = [p for p in plans if p['t'] == 'single']
        for _ in range(nj):
            p = rng.choice(single)
            grid = cat.place(p, rng.choice([l for l in cat.labels(p['kind']) if l not in beyond]))
            try:
                jt = hs.dump(grid if rng.random() < 0.7 else [grid, grid], mode=hs.MODE_JSON)
            except Exception:
                continue
            jobs.append((len(jobs) + 1, 'json', jt, rng.randint(6, 10), rng.randrange(1 << 30)))
        # documents whose rows leave cells out (a JSON row object lists only the cells it has)
        for ver in ('2.0', '3.0'):
            for rows in ('[{"a":"n:1"},{"c":"s:x"},{}]', '[{"b":"m:"},{"a":"n:2","c":"n:3"}]', '[{}]', '[{"c":"s:only last"}]'):
                jt = '{"meta":{"ver":"%s"},"cols":[{"name":"a"},{"name":"b"},{"name":"c"}],"rows":%s}' % (ver, rows)
                jobs.append((len(jobs) + 1, 'json', jt, rng.randint(6, 10), rng.randrange(1 << 30)))
        with multiprocessing.get_context('fork').Pool(NCPU, initializer=_init) as pool:
            walks = dict(pool.map(_walk, jobs, chunksize=4))
        traces = [walks[j[0]] for j in jobs]
        shards = 8
        verdicts = {}
        from concurrent.futures import ThreadPoolExecutor

        def judge(k):
            idx = list(range(k, len(traces), shards))
            path = work.path('walks-%d.json' % k)
            with open(path, 'w') as fh:
                json.dump([traces[i] for i in idx], fh)
            return idx, run_tlc(work, 'Trace_Codec.tla', 'Trace_Codec.cfg', workers=2, env={'TRACE_FILE': path}, xmx='3g',
                                lib=work.dir)
        with ThreadPoolExecutor(max_workers=shards) as ex:
            for idx, r in ex.map(judge, range(shards)):
                rep.tlc('walks judged', r)
                done = set()
                for ln in r.out.split('\n'):
                    ln = ln.strip()
                    if ln.startswith('<<"ACCEPT"') or ln.startswith('<<"DONE"'):
                        done.add(int(ln.split(',')[1].strip(' >')))
                    elif ln.startswith('<<"REJECT"'):
                        p = [x.strip(' <>"') for x in ln.split(',')]
                        verdicts.setdefault(idx[int(p[1]) - 1], []).append((int(p[2]), p[3]))
                if len(done) != len(idx):
                    raise MachineryError('walk judge: %d verdicts for %d walks\n%s' % (len(done), len(idx), r.out[-1500:]))
        rep.traces += len(traces)
        nev = 0
        ops = {}
        for w, tr in enumerate(traces):
            rep.case(('walk', w))
            nev += len(tr)
            for e in tr:
                ops[e['op']] = ops.get(e['op'], 0) + 1
            for (l, clause) in sorted(verdicts.get(w, [])):
                ev = tr[l - 1]
                start = jobs[w][1]
                if clause.startswith('spec_rejects_seed'):
                    raise MachineryError('the reader specification rejects a seed document: %s' % clause)
                rep.violation({'engine': 'codec-walk', 'clause': clause.split('_differs_')[0] if '_differs_' in clause else clause,
                               'detail': clause, 'op': ev['op'], 'start': start},
                              {'walk_start': {'format': start, 'text': jobs[w][2][:3000]},
                               'ops': [{k: v for k, v in e.items() if k in ('op', 'i', 'j', 'exc', 'fmt')} for e in tr[:l]],
                               'clause': clause, 'exception': ev['exc'], 'seed_of_walk': jobs[w][4], 'steps': jobs[w][3]})
        rep.extra['walks'] = len(traces)
        rep.extra['events'] = nev
        rep.extra['events_by_op'] = ops
        if (ops.get('dump_json', 0) < 50 or ops.get('parse_zinc', 0) < 50 or ops.get('norm', 0) < 20) and not rep.violations:
            raise MachineryError('vacuous walks: %r' % ops)
        rep.sample({'walk': [{k: v for k, v in e.items() if k in ('op', 'i', 'j', 'exc')} for e in traces[0]]})
        # binding self-test: a walk whose parse result is corrupted must be rejected at that event
        w0 = next(i for i, t in enumerate(traces) if not verdicts.get(i) and any(e['op'].startswith('parse_') and e['out'] for e in t))
        bad = json.loads(json.dumps(traces[w0]))
        k = next(i for i, e in enumerate(bad) if e['op'].startswith('parse_') and e['out'])
        bad[k]['out'][0][2] = bad[k]['out'][0][2] + [[absval.cps('zz'), [1]]]
        path = work.path('selftest.json')
        with open(path, 'w') as fh:
            json.dump([traces[w0], bad], fh)
        r = run_tlc(work, 'Trace_Codec.tla', 'Trace_Codec.cfg', workers=1, env={'TRACE_FILE': path}, lib=work.dir)
        ok = '<<"ACCEPT", 1' in r.out and ('<<"REJECT", 2, %d' % (k + 1)) in r.out
        rep.extra['binding_selftest'] = {'ok': ok, 'corrupted_event': k + 1}
        if not ok:
            raise MachineryError('binding self-test failed\n%s' % r.out[-1200:])
    rep.exhaustive = False
    rep.rule = 'one case = one seeded random walk (6-10 operations over 3 registers) from a generator document; distinct by walk'
    rep.assumptions = ['six-decimal quantisation of expected values (Q6) is computed with exact decimals in Python',
                       'a fixed-offset date-time may come back under any zone name with that offset (C17)']
    return rep.finish()


def replay(path):
    hs = use_repo()
    with open(path) as fh:
        d = json.load(fh)
    c = d['case']
    _init()
    _, evs = _walk((1, c['walk_start']['format'], c['walk_start']['text'], c['steps'], c['seed_of_walk']))
    rep = Report('C07', 'quick')
    with Work('c07r') as work:
        write_consts(work, 'ZwCat', {'Docs': [], 'ExtraStyles': []})
        p = work.path('w.json')
        with open(p, 'w') as fh:
            json.dump([evs], fh)
        r = run_tlc(work, 'Trace_Codec.tla', 'Trace_Codec.cfg', workers=1, env={'TRACE_FILE': p}, lib=work.dir)
    rej = [ln for ln in r.out.split('\n') if ln.startswith('<<"REJECT"')]
    print('\n'.join(rej[:5]) or 'walk accepted')
    ok = not rej
    print('property holds on this case' if ok else 'VIOLATION property=C07 replay=%s' % path)
    return 0 if ok else 1
