# Regenerates /verif/MANIFEST.json from the table below (single source of truth for the interface).
import json, os
VERIF = os.path.dirname(os.path.dirname(os.path.abspath(__file__)))

CHECKS = {
 'C16': dict(
    text='TLC model-checks spec/SDict.tla (ordered-map machine, full add_item argument space) exhaustively; every '
         'explored edge is replayed on SortableDict, MetadataObject and the column map of a Grid (grid.column, whose validator is the version gate) and long seeded histories (every fourth one starting from the constructor with an initial object, a twin map and the object observed throughout) of the real classes '
         'are validated by Trace_SDict.tla.  Exhaustive within the bound, independent oracle.',
    ref='DESIGN.md 5/C16', technique='TLA+ spec SDict + TLC exhaustive model check; TLC edge generation replayed on the code; TLC trace validation of recorded histories',
    note='keys/values are small abstract alphabets; negative indices not claimed; TLC, CPython trusted; extend is all or nothing (a refused item undoes the items before it), an index list.insert() refuses changes nothing (op add_bad_index), constructor / extend take a dict, a SortableDict, a MetadataObject, a mapping proxy, an iterator'),

 'C14': dict(
    text='TLC model-checks spec/GridSeq.tla (Grid as a Python list: every mutator with Python index arithmetic, refusal rules, derived grids) '
         'exhaustively; TLC prints every state with its observation table and every edge, each edge is replayed on real Grids (cold and warm id '
         'index) and all observations compared; seeded random histories (two live grids: the parent of a derivation stays parked and the history switches between them) are validated by Trace_GridSeq.tla.',
    ref='DESIGN.md 5/C14', technique='TLA+ spec GridSeq + TLC exhaustive model check; TLC state/edge generation replayed on the code; TLC trace validation',
    note='rows identified by object identity over a small alphabet; MaxLen 3 in the exhaustive part; slice assignment g[a:b] = rows follows the list model with an atomic refusal (ops setslice / setslice_row); del g[a:b:st] and g[a:b:st] with negative and positive steps (delstep / slicestep); copy.copy / copy.deepcopy / pickle round trip as operation copy (CopyFaithful; a deep copy parks the original); a derived grid is as pinned to its version as its parent; every other position is handed over as an index object (__index__)'),
 'C15': dict(
    text='Same GridSeq engine: after every replayed edge and every event of every random history, g[key] and g.get(key) for str/int/Ref keys '
         'must return a row the model\'s scan LookupAllowed(rows, key) permits, else KeyError/default.',
    ref='DESIGN.md 5/C15', technique='TLA+ spec GridSeq (LookupAllowed as a scan of the current rows) + TLC edge generation and trace validation',
    note='numeric g[key] is positional and excluded; in-place edits of a stored row are excluded (reindex() is documented for that)'),

 'C13': dict(
    text='TLC model-checks spec/FilterCache.tla (threads x counter x namespace x LRU x wrapper finalisers): the atomic-allocation design satisfies '
         'NoCrossTalk/GetNeverFails/NamesUnique/CachedWorks for every interleaving (2 threads quick, 3 thorough) and the non-atomic variant must '
         'produce the race.  Real threads are driven through every schedule with <=2 pre-emptions at source-line granularity (3 threads / deeper '
         'sampled) by a deterministic scheduler; each execution trace (namespace, cache size, hits, misses, returned rows) is validated by TLC '
         'against Trace_FilterCache.tla; sequential histories around the real capacity are validated with K=capacity.  Sampled additions: the first filters of fresh processes compiled by several threads at once (cold starts), and already compiled a->b filters evaluated by several threads at once on one grid (warm races).',
    ref='DESIGN.md 5/C13, Appendix C', technique='TLA+ spec FilterCache + TLC exhaustive model check; deterministic schedule enumeration on real threads; TLC trace validation with unlogged state',
    note='pre-emption at source lines of grid_filter.py / Grid.filter only; concurrent scenarios use a maxsize=2 re-wrap of the cache; a schedule is a VIOLATION only if TLC rejects it AND some returned result is wrong/raises (pure conformance deviations are reported but do not fail)'),
 'C17': dict(
    text='spec/TzCodec.tla (zones as transition tables, civil calendar arithmetic, date-time reader/writer, name-map fold, fixed-offset fallback) is model-checked '
         '(RoundTrip, NameBijective, FallbackSound, calendar laws); every mapped zone x transitions x deltas x formats is dumped/parsed by hszinc and TLC '
         're-derives instant/offset/zone from the emitted text and judges both directions; the map is recomputed by TLC from pytz.all_timezones.',
    ref='DESIGN.md 5/C17', technique='TLA+ spec TzCodec + TLC model check; TLC trace validation of dump/parse events over all zones and transitions',
    note='pytz transition tables define each zone; quick tier samples transitions per zone, thorough is exhaustive over all tabulated transitions'),
 'C18': dict(
    text='spec/Version.tla (Parse, Cmp, HashKey, Nearest, grammar-cache machine) is model-checked for the order laws over the bounded version set; all ordered pairs '
         '(six operators, string right-hand sides, hash, nearest, constructor) and all triples of a subset are evaluated on the real code and judged by TLC from the code points.',
    ref='DESIGN.md 5/C18', technique='TLA+ spec Version + TLC check of order laws; TLC validation of all pairs/triples evaluated on the code',
    note='version strings with <=3 groups over {0,1,2,3,10} x 5 suffixes (775 strings), plus seeded random ones in thorough'),
 'C19': dict(
    text='spec/ValueEq.tla (kind-aware Eq/Ne decision table, HashKey, GridEq, one-position mutations) is model-checked for the relation laws; all ordered pairs and triples of a '
         'catalogue of real values and TLC-generated grid mutants are evaluated on the real code and judged by TLC.',
    ref='DESIGN.md 5/C19', technique='TLA+ spec ValueEq + TLC check of relation laws; TLC-generated grid mutants replayed; TLC validation of all catalogue pairs',
    note='catalogue of ~134 values (189 thorough); bool==number and Quantity==number by value are named deviations; XStr type-name-only differences not judged'),
 'C20': dict(
    text='spec/QtyOps.tla (Python binary-operator dispatch protocol with uninterpreted arithmetic) is model-checked: every path ends in Apply with operands unwrapped and in original order, '
         'or in the unit-mismatch TypeError; all operators x configurations x catalogue operand pairs are evaluated wrapped and raw on the real code and TLC judges the outcome tokens.',
    ref='DESIGN.md 5/C20', technique='TLA+ spec QtyOps + TLC model check of the dispatch machine (and faulty variants); TLC validation of all operator/operand outcomes',
    note='the arithmetic itself is Python on both sides; BasicQuantity only (pint mode out of scope)'),

 'C01': dict(
    text='Grids built from TLC layout plans (spec/Layout.tla: every kind x position x version, every ordered kind pair, multi-grid documents) and a boundary payload catalogue are dumped '
         'and parsed by hszinc; TLC judges Abs(parse(dump(g))) = Abs(g) with the structural equality of Trace_Zinc.tla (kind-strict, ordered metadata/columns, exact numbers as normalised decimals).',
    ref='DESIGN.md 5/C01', technique='TLA+ layout plan generation (TLC) + TLC-judged structural equality of abstract documents; reader machine ZincRead.tla as cross-check',
    note='Haystack-valid domain of DESIGN.md section 5; floats compared through their shortest round-trip decimal'),
 'C04': dict(
    text='The characters hszinc emits are the trace: every dumped document is run, code point by code point, through the strict reader machine spec/ZincRead.tla (written from the ZINC grammar, '
         'sharing nothing with hszinc) which must accept it and read back exactly Abs(g).',
    ref='DESIGN.md 5/C04, Appendix A', technique='TLA+ character-level reader machine ZincRead (strict mode) executed by TLC over hszinc\'s output; layout plans generated by TLC',
    note='the strict reader accepts the spellings pinned by the repository\'s dumper tests (hex(..)/b64(..) lower-case types, {marker:M}, <<ver without a newline after <<) and refuses string escapes in a URI; grid domain as C01'),

 'C03': dict(
    text='spec/ZincWrite.tla is an independent grammar-directed writer (spelling styles for numbers, escapes, time fractions, date-time case/zone, coordinates, separators, CRLF, '
         'marker tags, list/dict blanks and trailing commas, empty cells, grid gaps, final newline).  TLC spells abstract documents in every single-choice deviation plus seeded mixed styles, '
         'checks that the reader machine ZincRead reads each back to its denotation (the two specifications agree), and prints <<text, denotation>>; hszinc.parse is run on every text '
         '(str/bytes x charset, single True/False) and TLC judges Abs(result) = denotation.',
    ref='DESIGN.md 5/C03', technique='TLA+ writer spec ZincWrite + reader spec ZincRead cross-checked by TLC; TLC-generated documents replayed into hszinc.parse; TLC-judged equality',
    note='number spellings derive from the shortest round-trip decimal of the denoted double; ambiguous URI escapes not generated'),
 'C09': dict(
    text='spec/Gen_ZincMut.tla: TLC enumerates every mutant (truncate/delete/insert/replace/duplicate/swap at every position, 22 metacharacter symbols) of seed documents written by ZincWrite; '
         'hszinc\'s outcome on each (grid / ZincParseException(line, col) / other / timeout) is judged by TLC with the reader machine: structurally broken text (reason in ZincRead.Structural) must be rejected, '
         'accepted text must be read as the machine reads it, the reported position must lie within the text; seeded random strings, splices and scalar tokens too.',
    ref='DESIGN.md 5/C09', technique='TLA+ mutation operators over ZincWrite documents enumerated by TLC; reader machine ZincRead as the oracle in TLC trace judgement',
    note='non-structural rejections of the machine (calendar ranges, cell counts, unknown tokens, ambiguous escapes) leave hszinc either outcome; 5 s CPU-time budget per call (2 min wall-clock backstop); a call during which the budget ran out counts as a time-out whatever exception comes back'),

 'C10': dict(
    text='spec/Gate.tla: the grid as a gate machine (version, given, stored kinds) with Accepts(version, kind) decided through Version.tla\'s nearest official version; TLC enumerates every declared '
         'version x every sequence of <=2 stores (42 public entry paths, incl. stores into a slice / a filter result of the grid, slice assignment in every argument form, column metadata handed over as a plain dict / a fresh metadata object / adopted from another grid, and stores into deep copies, x 6 kinds) and the constructor paths, checks the gate invariant on the model and prints the expected outcome of each step; every '
         'case is replayed on a real Grid (outcome, version after, refused store leaves the grid unchanged; after every step the versions of five slices and two filter results are compared with the version Gate.Derived computes).  The accept/refuse decision of the deciders (grid, ZINC/JSON writer, ZINC/JSON reader, both scalar readers, nested grids, grids that came out of a reader, writers given a grid edited behind the gate) '
         'for 6 versions x 5 kinds is recorded and judged by TLC (Trace_Gate.tla).  GridSeq additionally carries GateInv through arbitrary row-operation histories.',
    ref='DESIGN.md 5/C10', technique='TLA+ spec Gate (+Version.Nearest) enumerated by TLC, every case replayed on the code; TLC-judged decision table of the five deciders',
    note='pre-3.0 = nearest official version < 3.0 (pinned by the repository tests); in-place edits of row dicts already handed to the grid are outside the API (the writers still refuse them); a repeated tag name in ZINC metadata is undefined (not judged)'),

 'C08': dict(
    text='Exhaustive sweeps on the real code judged by TLC: every code point (quick: all below U+3000, every 64th above, boundaries; thorough: all 1,114,112; thorough also URI/Ref-display/XStr positions) in a string '
         'cell, every string of length <=2 (thorough <=3) over one representative per metacharacter class in nine text-carrying positions, seeded random longer strings and type-prefix look-alikes; batched many rows per grid so a break-out '
         'changes the grid shape.  The dumped text is run through the strict reader machine (ZincRead.tla / HJson.tla for JSON), which must return exactly Abs(g); and Abs(parse(dump(g))) = Abs(g).',
    ref='DESIGN.md 5/C08', technique='TLA+ reader machines (ZincRead, HJson) executed by TLC over hszinc output for exhaustive code-point and metacharacter-string sweeps; TLC-judged round-trip equality',
    note='XStr payload position uses a typed XStr; meta positions under 3.0; JSON part is active when lib/jsoncodec.py provides c08_job (see evidence formats)'),

 'C11': dict(
    text='spec/FilterSem.tla: filter AST, renderer with spacing/parenthesis styles, precedence parser machine PStep (Parse(Render(ast)) = ast model-checked for all ASTs of size <=4), Sem(ast,row,grid) as the set of allowed truth values over '
         'abstract tag valuations, limit and result-grid shape.  TLC generates every AST of size <=3 (plus and/or chains) x literal kind x operator with rows realising all valuations and the expected selection; each is run through Grid.filter '
         '(with and without limit) and row identities, order, shape and source-unchanged are compared; seeded random larger filters are judged by TLC (Trace_FilterSem.tla).  '
         'spec/FilterLex.tla reads filter TEXT by characters (recursive descent) and gives every literal the value the ZINC reader machine (ZincRead.tla) assigns to its characters; '
         'seeded filters over spelling variants of every literal kind on grids with Ref ids and near-equal values are judged by Trace_FilterLex.tla.',
    ref='DESIGN.md 5/C11, 11.6', technique='TLA+ specs FilterSem (parser machine + semantics) and FilterLex (character-level reader, literal values via ZincRead) checked with TLC; TLC-generated filters and expected selections replayed on Grid.filter; TLC trace judgement of random filters',
    note='a null cell is an absent tag; values of different Haystack kinds (or quantities of different units) are incomparable: == false, != true, ordering false; Refs compare by name; literal kinds outside the Haystack filter grammar may be refused'),
 'C12': dict(
    text='spec/FilterGen.tla: the compile pipeline Tokenise->BuildAst->Emit->Exec->Eval with provenance-tagged source tokens; invariant PayloadOnlyInLiterals holds for the constants-table emitter and TLC must find the counterexample for the repr emitter (documented reason).  '
         'TLC generates shape x payload-position cases; each is instantiated with canary payloads and evaluated under an audit hook; audit events, canary flags, module-global diffs, grid snapshot, generated-code skeleton equality and foreign names in co_names are logged and judged by TLC (Trace_FilterGen.tla).',
    ref='DESIGN.md 5/C12', technique='TLA+ spec FilterGen model-checked (safe and unsafe emitter variants); TLC-generated injection cases executed under sys.addaudithook and judged by TLC',
    note='canaries are harmless (env var / file under .work); audit events of CPython 3.12; the check is black-box through Grid.filter plus the exec audit event'),

 'C02': dict(
    text='Grids from TLC layout plans x catalogue (plus code-point and boundary sweeps) are dumped in JSON mode and parsed in every input form (text, UTF-8 bytes, pre-decoded dict, list of dicts; single object and array of grids); '
         'TLC judges VEq(Q6(Abs(g)), Q6(Abs(g2))) with spec/Trace_HJson.tla and checks the Remove spelling of the emitted tree per version (spec/HJson.tla).',
    ref='DESIGN.md 5/C02', technique='TLA+ spec HJson (reader/writer over the tagged JSON tree) + TLC-judged round-trip equality; TLC layout plans',
    note='six-decimal quantisation Q6 of expected values is computed with exact decimals in Python (delegated float arithmetic); JSON text -> tree by json.loads strict'),
 'C05': dict(
    text='spec/HJson.tla defines Enc(v, ver) as the set of legal trees (every spelling liberty) and Dec; MC_HJson model-checks Dec(Enc(v)) = v and prefix look-alike safety; TLC generates <<tree, denotation>> cases per kind x spelling x position x rows form (rows missing / null / empty also one level down, in a nested grid; dicts that look like grids); '
         'each is fed to hszinc.parse in all input forms and Abs(result) compared with the denotation by TLC; the caller\'s pre-decoded object must be unchanged.',
    ref='DESIGN.md 5/C05', technique='TLA+ writer/reader spec HJson model-checked; TLC-generated JSON trees replayed into hszinc.parse; TLC-judged equality',
    note='top-level parse_scalar of JSON-looking text is the API contract and not judged; strings whose second character is ":" with an unknown prefix are strings'),
 'C06': dict(
    text='Every JSON dump of the layout-plan grids is parsed by json.loads (strict), converted to a tagged tree and judged by TLC: shape clauses (meta.ver, cols[].name, rows objects, array of grids), prefix and payload lexical form per kind, '
         'and Dec_strict(tree) = Q6(Abs(g)) with the independent reader of spec/HJson.tla.',
    ref='DESIGN.md 5/C06', technique='TLA+ reader spec HJson (strict mode) executed by TLC over hszinc\'s JSON output; TLC layout plans',
    note='Q6 delegated as for C02'),

 'C07': dict(
    text='spec/Codec.tla: the codec as a store machine (registers holding grids or texts; ParseZ/ParseJ/DumpZ/DumpJ); TLC checks Lossless (up to the idempotent six-decimal quantiser), Pure and Deterministic for every sequence of <=5 operations over 3 registers.  '
         'Seeded random walks of the real parse/dump functions (6-10 steps, three registers, str/bytes/pre-decoded inputs, normalise-twice steps) start from documents spelled by the independent writer ZincWrite.tla (parser-made values: fixed-offset tzinfo, '
         'unofficial version strings) and from JSON dumps; every event is validated by spec/Trace_Codec.tla, whose registers hold what the reader machines ZincRead/HJson say the texts denote (register drift, source changed by dump, dump not deterministic, dump unreadable/differs, parse differs, normalise not idempotent).',
    ref='DESIGN.md 5/C07', technique='TLA+ spec Codec model-checked; TLC trace validation of random codec walks with the ZincRead/HJson reader machines as oracles',
    note='Q6 of expected values computed with exact decimals in Python; zone-name latitude for fixed offsets as in C17'),
}
NOT_YET = {}

def main():
    props = [json.loads(l) for l in open(os.path.join(VERIF, 'properties.jsonl'))]
    checks, na = [], []
    for p in props:
        pid = p['id']
        if pid in CHECKS:
            c = CHECKS[pid]
            checks.append({
                'property_id': pid,
                'quick_cmd': 'bin/check %s --tier quick' % pid,
                'thorough_cmd': 'bin/check %s --tier thorough' % pid,
                'evidence_file': 'evidence/%s.json' % pid,
                'replay_cmd_template': 'bin/check %s --replay {path}' % pid,
                'engine': 'tlc',
                'level_claimed': {'category': 'model_checking', 'text': c['text'], 'design_ref': c['ref']},
                'level_note': c['note'],
                'technique': c['technique'],
            })
        else:
            na.append({'property_id': pid, 'reason': NOT_YET.get(pid, 'not claimed yet: the TLA+ specification and binding for this property are still being built (see DESIGN.md build order); no check is registered until it is sound on the unchanged tree')})
    m = {
        'version': 1,
        'setup_cmd': 'bin/check --setup',
        'hooks': {'guard': 'HSZINC_VERIF', 'enable': 'HSZINC_VERIF=1 in the environment of the checks (set by lib/core.py); hszinc is imported from /repo\'s working tree, no build step',
                  'baseline_off_cmd': 'cd /repo && /venv/bin/python -m pytest -ra -q -p no:cacheprovider --timeout=900 --continue-on-collection-errors',
                  'source_commits': [], 'add_only': True},
        'engines': [
            {'name': 'tlc', 'path': 'bin/check', 'serves_properties': sorted(CHECKS),
             'kind_free_text': 'TLA+ specifications in spec/ checked by TLC (model check, edge/case generation, trace validation); Python only drives hszinc and moves JSON'}],
        'checks': checks,
        'not_applicable': na,
        'notes': 'known_findings.json lists genuine defects (fixed by fix: commits, or open with a signature). DESIGN.md explains the approach.',
    }
    with open(os.path.join(VERIF, 'MANIFEST.json'), 'w') as f:
        json.dump(m, f, indent=1)
    print('MANIFEST.json: %d checks, %d not_applicable' % (len(checks), len(na)))

if __name__ == '__main__':
    main()
