# Regenerates /verif/MANIFEST.json from the table below (single source of truth for the interface).
import json, os
VERIF = os.path.dirname(os.path.dirname(os.path.abspath(__file__)))

CHECKS = {
 'C16': dict(
    text='TLC model-checks spec/SDict.tla (ordered-map machine, full add_item argument space) exhaustively; every '
         'explored edge is replayed on SortableDict and MetadataObject and long seeded histories of the real classes '
         'are validated by Trace_SDict.tla.  Exhaustive within the bound, independent oracle.',
    ref='DESIGN.md 5/C16', technique='TLA+ spec SDict + TLC exhaustive model check; TLC edge generation replayed on the code; TLC trace validation of recorded histories',
    note='keys/values are small abstract alphabets; negative indices not claimed; TLC, CPython trusted'),

 'C14': dict(
    text='TLC model-checks spec/GridSeq.tla (Grid as a Python list: every mutator with Python index arithmetic, refusal rules, derived grids) '
         'exhaustively; TLC prints every state with its observation table and every edge, each edge is replayed on real Grids (cold and warm id '
         'index) and all observations compared; seeded random histories are validated by Trace_GridSeq.tla.',
    ref='DESIGN.md 5/C14', technique='TLA+ spec GridSeq + TLC exhaustive model check; TLC state/edge generation replayed on the code; TLC trace validation',
    note='rows identified by object identity over a small alphabet; MaxLen 3 in the exhaustive part; slice assignment not claimed'),
 'C15': dict(
    text='Same GridSeq engine: after every replayed edge and every event of every random history, g[key] and g.get(key) for str/int/Ref keys '
         'must return a row the model\'s scan LookupAllowed(rows, key) permits, else KeyError/default.',
    ref='DESIGN.md 5/C15', technique='TLA+ spec GridSeq (LookupAllowed as a scan of the current rows) + TLC edge generation and trace validation',
    note='numeric g[key] is positional and excluded; in-place edits of a stored row are excluded (reindex() is documented for that)'),
}
NOT_YET = {}

def main():
    props = [json.loads(l) for l in open(os.path.join(VERIF, 'properties.jsonl'))]
    checks, na = [], []
    for p in props:
        pid = p['id']
        if pid in CHECKS:
            c = CHECKS[pid]
            checks.append({
                'property_id': pid,
                'quick_cmd': 'bin/check %s --tier quick' % pid,
                'thorough_cmd': 'bin/check %s --tier thorough' % pid,
                'evidence_file': 'evidence/%s.json' % pid,
                'replay_cmd_template': 'bin/check %s --replay {path}' % pid,
                'engine': 'tlc',
                'level_claimed': {'category': 'model_checking', 'text': c['text'], 'design_ref': c['ref']},
                'level_note': c['note'],
                'technique': c['technique'],
            })
        else:
            na.append({'property_id': pid, 'reason': NOT_YET.get(pid, 'not claimed yet: the TLA+ specification and binding for this property are still being built (see DESIGN.md build order); no check is registered until it is sound on the unchanged tree')})
    m = {
        'version': 1,
        'setup_cmd': 'bin/check --setup',
        'hooks': {'guard': 'HSZINC_VERIF', 'enable': 'HSZINC_VERIF=1 in the environment of the checks (set by lib/core.py); hszinc is imported from /repo\'s working tree, no build step',
                  'baseline_off_cmd': 'cd /repo && /venv/bin/python -m pytest -ra -q -p no:cacheprovider --timeout=900 --continue-on-collection-errors',
                  'source_commits': [], 'add_only': True},
        'engines': [
            {'name': 'tlc', 'path': 'bin/check', 'serves_properties': sorted(CHECKS),
             'kind_free_text': 'TLA+ specifications in spec/ checked by TLC (model check, edge/case generation, trace validation); Python only drives hszinc and moves JSON'}],
        'checks': checks,
        'not_applicable': na,
        'notes': 'known_findings.json lists genuine defects (fixed by fix: commits, or open with a signature). DESIGN.md explains the approach.',
    }
    with open(os.path.join(VERIF, 'MANIFEST.json'), 'w') as f:
        json.dump(m, f, indent=1)
    print('MANIFEST.json: %d checks, %d not_applicable' % (len(checks), len(na)))

if __name__ == '__main__':
    main()
