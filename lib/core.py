# Harness core: TLC runner, verdict parsing, evidence, known findings, replay files.
# Python holds no model: this file only runs TLC, moves JSON around and reports.
import json
import os
import re
import shutil
import subprocess
import sys
import time
import uuid

VERIF = os.path.dirname(os.path.dirname(os.path.abspath(__file__)))
SPEC = os.path.join(VERIF, 'spec')
REPO = os.environ.get('VERIF_REPO', '/repo')
WORKROOT = os.path.join(VERIF, '.work')
JAVA_CP = '/opt/veriftools/tla/tla2tools.jar:/opt/veriftools/tla/CommunityModules-deps.jar'
NCPU = os.cpu_count() or 4


class MachineryError(Exception):
    """Raised when TLC/SANY or the harness itself fails (exit status 2, never a violation)."""


def seed():
    try:
        return int(os.environ.get('VERIF_SEED', '0'))
    except ValueError:
        return 0


def use_repo():
    """Make `import hszinc` resolve to $VERIF_REPO's working tree."""
    for m in [m for m in sys.modules if m == 'hszinc' or m.startswith('hszinc.')]:
        del sys.modules[m]
    if REPO in sys.path:
        sys.path.remove(REPO)
    sys.path.insert(0, REPO)
    os.environ.setdefault('HSZINC_VERIF', '1')
    import warnings
    warnings.simplefilter('ignore')      # Version.nearest() warns about unofficial versions
    import hszinc  # noqa
    here = os.path.realpath(os.path.dirname(os.path.dirname(hszinc.__file__)))
    if here != os.path.realpath(REPO):
        raise MachineryError('hszinc imported from %s, expected %s' % (here, REPO))
    # (until round 7 hszinc's left-over debug print()s in grid_filter.py and zincparser.py were silenced here through a
    # module-global shadow of `print`; they were defects -- C12: a side effect of every compilation, C09: another
    # exception type under a stdout that cannot take the text -- and are repaired.  Nothing is shadowed any more:
    # C12 logs every write to the standard streams as an event, C09 parses under a stdout that refuses writes.)
    return hszinc


def _quiet(*a, **k):
    return None


class Work(object):
    """Per-run scratch directory under /verif/.work, removed on exit."""

    def __init__(self, tag):
        self.dir = os.path.join(WORKROOT, '%s-%d-%s' % (tag, os.getpid(), uuid.uuid4().hex[:6]))

    def __enter__(self):
        os.makedirs(self.dir, exist_ok=True)
        return self

    def __exit__(self, *a):
        shutil.rmtree(self.dir, ignore_errors=True)

    def path(self, name):
        return os.path.join(self.dir, name)


STATES_RE = re.compile(r'(\d+) states generated, (\d+) distinct states found')
COVER_RE = re.compile(r'^<(\w+) line (\d+), col (\d+) to line (\d+), col (\d+) of module (\w+)>: (\d+):(\d+)', re.M)


class TlcResult(object):
    def __init__(self, out, rc, wall):
        self.out = out
        self.rc = rc
        self.wall = wall
        m = STATES_RE.findall(out)
        self.generated = int(m[-1][0]) if m else 0
        self.distinct = int(m[-1][1]) if m else 0
        self.completed = 'Model checking completed' in out or 'Finished computing initial states' in out and rc == 0
        m = re.search(r'Finished computing initial states: (\d+) distinct', out)
        self.initial = int(m.group(1)) if m else 0
        self.invariant_violated = None
        m = re.search(r'Invariant (\w+) is violated', out)
        if m:
            self.invariant_violated = m.group(1)
        m = re.search(r'Action property (\w+) is violated', out)
        if m:
            self.invariant_violated = m.group(1)
        self.coverage = {}
        for g in COVER_RE.finditer(out):
            name = g.group(1)
            self.coverage[name] = self.coverage.get(name, 0) + int(g.group(8))

    def printed(self):
        """Values printed by PrintT, one per line (JSON strings are printed quoted)."""
        lines = []
        for ln in self.out.split('\n'):
            ln = ln.rstrip('\r')
            if ln.startswith('"') and ln.endswith('"') and len(ln) >= 2:
                lines.append(ln)
            elif ln.startswith('<<') and ln.endswith('>>'):
                lines.append(ln)
        return lines

    def json_lines(self):
        """PrintT(ToJson(x)) prints a TLA+ string literal; decode it back to the JSON value."""
        res = []
        for ln in self.out.split('\n'):
            ln = ln.rstrip('\r')
            if len(ln) >= 2 and ln[0] == '"' and ln[-1] == '"' and ln[1] in '{[':
                body = ln[1:-1].replace('\\"', '"').replace('\\\\', '\\')
                try:
                    res.append(json.loads(body))
                except ValueError:
                    raise MachineryError('unparsable TLC JSON line: %r' % ln[:200])
        return res


def run_tlc(work, module, cfg, workers=None, env=None, timeout=3600, simulate=None, depth=None,
            coverage=False, deque=False, xmx='4g', extra=None, seed_arg=None, lib=None):
    """Run TLC on spec/<module>.tla with spec/<cfg>.  Returns TlcResult.  Raises MachineryError on
    parse/semantic errors or crashes (not on invariant violations, which the caller interprets)."""
    meta = work.path('meta-%s' % uuid.uuid4().hex[:8])
    os.makedirs(meta, exist_ok=True)
    cmd = ['java', '-XX:+UseParallelGC', '-Xmx' + xmx, '-Xss16m']
    if lib:
        cmd.append('-DTLA-Library=' + lib)
    if deque:
        cmd.append('-Dtlc2.tool.queue.IStateQueue=StateDeque')
    cmd += ['-cp', JAVA_CP, 'tlc2.TLC', '-metadir', meta, '-noGenerateSpecTE',
            '-workers', str(workers or NCPU), '-config', cfg]
    if coverage:
        cmd += ['-coverage', '1']
    if simulate:
        cmd += ['-simulate', simulate]
    if depth:
        cmd += ['-depth', str(depth)]
    if seed_arg is not None:
        cmd += ['-seed', str(seed_arg)]
    if extra:
        cmd += extra
    cmd.append(module)
    e = dict(os.environ)
    e.pop('JAVA_TOOL_OPTIONS', None)
    if env:
        e.update(env)
    t0 = time.time()
    try:
        p = subprocess.run(cmd, cwd=SPEC, env=e, stdout=subprocess.PIPE, stderr=subprocess.STDOUT,
                           timeout=timeout)
    except subprocess.TimeoutExpired:
        raise MachineryError('TLC timed out after %ss on %s/%s' % (timeout, module, cfg))
    finally:
        shutil.rmtree(meta, ignore_errors=True)
    out = p.stdout.decode('utf-8', 'replace')
    r = TlcResult(out, p.returncode, time.time() - t0)
    bad = ('Parsing or semantic analysis failed', 'TLC threw an unexpected exception',
           'java.lang.OutOfMemoryError', 'Error: TLC', 'was not assigned a value', 'Fatal errors',
           'Evaluating assumption', 'Unknown operator', 'StackOverflowError', 'Attempted to')
    if r.invariant_violated is None and 'Deadlock reached' not in out:
        for b in bad:
            if b in out:
                raise MachineryError('TLC failure on %s/%s: %s\n%s' % (module, cfg, b, out[-3000:]))
        if p.returncode != 0 and 'is violated' not in out and 'Assumption' not in out:
            raise MachineryError('TLC exit %d on %s/%s\n%s' % (p.returncode, module, cfg, out[-3000:]))
    return r


def sany(module):
    p = subprocess.run(['java', '-DTLA-Library=' + os.path.join(SPEC, 'stubs'), '-cp', JAVA_CP, 'tla2sany.SANY', module], cwd=SPEC,
                       stdout=subprocess.PIPE, stderr=subprocess.STDOUT)
    out = p.stdout.decode('utf-8', 'replace')
    ok = p.returncode == 0 and 'Semantic errors' not in out and 'Parse Error' not in out \
        and 'Fatal errors' not in out and '*** Errors' not in out
    return ok, out


# ---------------------------------------------------------------------------
# known findings

def load_findings():
    p = os.path.join(VERIF, 'known_findings.json')
    if not os.path.exists(p):
        return []
    with open(p) as f:
        return json.load(f)


def match_finding(prop, features, findings=None):
    """A violation matches an *open* finding iff every feature of the finding's signature is present
    with the same value in the violation's feature record."""
    for fd in (findings if findings is not None else load_findings()):
        if fd.get('property') != prop or fd.get('status') != 'open':
            continue
        sig = fd.get('signature', {})
        if sig and all(features.get(k) == v for k, v in sig.items()):
            return fd
    return None


# ---------------------------------------------------------------------------
# reporting

class Report(object):
    """Collects what a check covered, prints VIOLATION / KNOWN-FINDING lines, writes evidence."""

    def __init__(self, prop, tier):
        self.prop = prop
        self.tier = tier
        self.t0 = time.time()
        self.states = 0
        self.transitions = 0
        self.traces = 0
        self.evaluations = 0
        self.distinct = set()
        self.samples = []
        self.violations = 0
        self.known = {}
        self.extra = {}
        self.assumptions = []
        self.exhaustive = None
        self.rule = ''
        self.findings = load_findings()
        self.replay_dir = os.path.join(os.environ.get('VERIF_REPLAY_DIR') or os.path.join(VERIF, 'replay'), prop)
        self._nreplay = 0
        self.max_report = 5

    def tlc(self, name, r):
        self.states += r.distinct
        self.transitions += r.generated
        self.extra.setdefault('tlc_runs', []).append(
            {'run': name, 'distinct_states': r.distinct, 'states_generated': r.generated,
             'wall_s': round(r.wall, 2)})

    def sample(self, s, limit=6):
        if len(self.samples) < limit:
            self.samples.append(s)

    def case(self, key=None, nontrivial=True):
        self.evaluations += 1
        if nontrivial and key is not None and len(self.distinct) < 5000000:
            self.distinct.add(key)

    def violation(self, features, detail):
        """features: abstract feature record (for signature matching); detail: replay content."""
        fd = match_finding(self.prop, features, self.findings)
        if fd is not None:
            k = fd.get('id') or json.dumps(fd['signature'], sort_keys=True)
            if k not in self.known:
                self.known[k] = {'what': fd.get('what', ''), 'count': 0, 'example': detail}
            self.known[k]['count'] += 1
            return False
        self.violations += 1
        if self.violations <= self.max_report:
            os.makedirs(self.replay_dir, exist_ok=True)
            self._nreplay += 1
            path = os.path.join(self.replay_dir, '%s-%d.json' % (self.tier, self._nreplay))
            with open(path, 'w') as f:
                json.dump({'property': self.prop, 'seed': seed(), 'features': features,
                           'case': detail}, f, indent=1, default=str)
            print('VIOLATION property=%s replay=%s' % (self.prop, path))
            print('  detail: %s' % json.dumps(features, default=str)[:400])
            sys.stdout.flush()
        return True

    def finish(self):
        for k, v in sorted(self.known.items()):
            print('KNOWN-FINDING: property=%s %s (x%d this run)' % (self.prop, v['what'], v['count']))
        cov = {
            'states': self.states,
            'transitions': self.transitions,
            'traces_validated_against_impl': self.traces,
            'samples': self.samples or ['(none)'],
            'evaluations': self.evaluations,
            'distinct_nontrivial': len(self.distinct),
            'rule': self.rule,
            'known_findings_printed': [{'id': k, 'what': v['what'], 'count': v['count']}
                                       for k, v in sorted(self.known.items())],
        }
        if self.exhaustive is not None:
            cov['exhaustive'] = self.exhaustive
        cov.update(self.extra)
        ev = {
            'property_id': self.prop,
            'tier': self.tier,
            'seed': seed(),
            'level': 'model_checking',
            'coverage': cov,
            'assumptions': self.assumptions,
            'wall_s': round(time.time() - self.t0, 2),
            'violations': self.violations,
        }
        evdir = os.environ.get('VERIF_EVIDENCE_DIR') or os.path.join(VERIF, 'evidence')
        os.makedirs(evdir, exist_ok=True)
        with open(os.path.join(evdir, '%s.json' % self.prop), 'w') as f:
            json.dump(ev, f, indent=1, default=str)
        print('%s %s: states=%d transitions=%d impl_traces=%d evaluations=%d distinct=%d '
              'violations=%d known=%d wall=%.1fs' % (
                  self.prop, self.tier, self.states, self.transitions, self.traces,
                  self.evaluations, len(self.distinct), self.violations, len(self.known),
                  time.time() - self.t0))
        return 1 if self.violations else 0


def cps(s):
    """text -> list of code points (TLC's JSON reader cannot carry non-ASCII strings)."""
    return [ord(c) for c in s]


def uncps(a):
    return ''.join(chr(c) for c in a)


def tla_lit(x):
    """Python value -> TLA+ literal (ints, bools, ASCII strings, lists -> sequences, sets, dicts -> records)."""
    if isinstance(x, bool):
        return 'TRUE' if x else 'FALSE'
    if isinstance(x, int):
        return str(x) if x >= 0 else '(%d)' % x
    if isinstance(x, str):
        return '"%s"' % x.replace('\\', '\\\\').replace('"', '\\"')
    if isinstance(x, (list, tuple)):
        return '<<' + ', '.join(tla_lit(e) for e in x) + '>>'
    if isinstance(x, (set, frozenset)):
        return '{' + ', '.join(tla_lit(e) for e in sorted(x)) + '}'
    if isinstance(x, dict):
        return '[' + ', '.join('%s |-> %s' % (k, tla_lit(v)) for k, v in x.items()) + ']'
    raise MachineryError('no TLA+ literal for %r' % (x,))


def write_consts(work, module, defs, extends='Naturals, Sequences'):
    """Generate <work>/<module>.tla with literal definitions; use run_tlc(..., lib=work.dir)."""
    with open(work.path(module + '.tla'), 'w') as f:
        f.write('---- MODULE %s ----\nEXTENDS %s\n' % (module, extends))
        for k, v in defs.items():
            f.write('%s == %s\n' % (k, tla_lit(v)))
        f.write('====\n')
