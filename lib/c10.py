# C10 -- version gating: a pre-3.0 grid never carries 3.0-only data, in memory or on the wire.
#  (A)+(B) spec/Gate.tla + Gen_Gate.tla: TLC enumerates declared version x sequences of stores
#          (entry path x kind) and constructor paths, checks the gate invariant on the model and
#          prints the expected outcome of every step; each case is replayed on a real Grid.
#  (C)     the decision of the five deciders for every <<version, 3.0-only kind>> is recorded
#          from hszinc and judged by TLC (Trace_Gate.tla) against Gate!Accepts.
#  The row path under arbitrary operation sequences is also part of GridSeq (GateInv).
import copy
import json

from core import Report, Work, run_tlc, use_repo, seed, MachineryError
import zinccodec

VERS = ['2.0', '3.0', '2.5', '3.0.0', '1.0', '4.0', '2.0.0', '2.0.0.0', '2', '3']


def val(hs, kind):
    if kind == 'plain':
        return 'x'
    if kind == 'na':
        return hs.NA
    if kind == 'list':
        return [1]
    if kind == 'dict':
        return {'k': 1}
    if kind == 'xstr':
        return hs.XStr('hex', 'ff')
    if kind == 'grid':
        g = hs.Grid(version='3.0', columns=[('x', [])])
        g.append({'x': 1})
        return g
    raise KeyError(kind)


def snapshot(g):
    return (str(g.version), [(k, id(v)) for k, v in g.metadata.items()],
            [(c, [(k, id(v)) for k, v in m.items()]) for c, m in g.column.items()],
            [sorted((k, id(v)) for k, v in r.items()) for r in g])


def new_grid(hs, ver):
    cols = [('a', [('u', 'x')]), ('b', [])]
    g = hs.Grid(version=ver, columns=cols, metadata={'m0': 'x'}) if ver else hs.Grid(columns=cols, metadata={'m0': 'x'})
    g.append({'a': 'p', 'b': 'q'})
    return g


def prepare(hs, g, path, n):
    """the (harmless) step that precedes the store on some paths"""
    if path == 'colmeta_set_assigned':
        g.column['e' + str(n)] = {}          # the README idiom: a plain dict, tags are stored into it afterwards
    elif path == 'colmeta_set_assigned_mo':
        g.column['f' + str(n)] = hs.MetadataObject()
    elif path == 'colmeta_append_reassigned':
        g.column['a'] = {'u': 'y'}
    elif path == 'colmeta_set_adopted':
        src = hs.Grid(version='3.0', columns=[('a', [('u', 'x')])])
        g.column['h' + str(n)] = src.column['a']
        g._verif_src = src


def store(hs, g, path, kind, n):
    v = val(hs, kind)
    k = 'k'          # the same tag on every step: a second store overwrites the first
    if path == 'append':
        g.append({'a': v}); return lambda: g[-1]['a'] is v
    if path == 'insert':
        g.insert(0, {'a': v}); return lambda: g[0]['a'] is v
    if path == 'extend':
        g.extend([{'a': v}]); return lambda: g[-1]['a'] is v
    if path == 'iadd':
        g += [{'a': v}]; return lambda: g[-1]['a'] is v
    if path == 'append_undeclared':
        g.append({'zz': v}); ok = lambda: g[-1]['zz'] is v
        g.column['zz'] = {}                  # declared afterwards: the gate acted when the value was stored
        return ok
    if path == 'setitem_undeclared':
        g[0] = {'zy': v}; ok = lambda: g[0]['zy'] is v
        g.column['zy'] = {}
        return ok
    if path == 'extend_tuple':
        g.extend(({'a': v},)); return lambda: g[-1]['a'] is v
    if path == 'extend_iter':
        g.extend(iter([{'a': v}])); return lambda: g[-1]['a'] is v
    if path in ('extend_grid', 'iadd_grid'):
        # the rows come from another grid (one that may hold them: no declared version, or 3.0)
        src = hs.Grid(version='3.0', columns=[('a', [])])
        src.append({'a': v})
        if path == 'extend_grid':
            g.extend(src)
        else:
            g += src
        return lambda: g[-1]['a'] is v
    if path == 'setitem':
        g[0] = {'a': v}; return lambda: g[0]['a'] is v
    if path == 'setslice_list':
        g[0:1] = [{'a': v}]; return lambda: g[0]['a'] is v
    if path == 'setslice_iter':
        g[len(g):] = iter([{'a': 'x'}, {'a': v}]); return lambda: g[-1]['a'] is v
    if path in ('setslice_grid', 'setslice_gridslice'):
        src = hs.Grid(version='3.0', columns=[('a', [])])
        src.extend([{'a': 'x'}, {'a': v}])
        if path == 'setslice_grid':
            g[0:0] = src
            return lambda: g[1]['a'] is v
        g[0:1] = src[1:2]
        return lambda: g[0]['a'] is v
    if path == 'meta_set':
        g.metadata[k] = v; return lambda: g.metadata[k] is v
    if path == 'meta_append':
        g.metadata.append(k, v); return lambda: g.metadata[k] is v
    if path == 'meta_extend':
        g.metadata.extend([(k, v)]); return lambda: g.metadata[k] is v
    if path == 'colmeta_set':
        g.column['a'][k] = v; return lambda: g.column['a'][k] is v
    if path == 'colmeta_set_assigned':
        g.column['e' + str(n)][k] = v; return lambda: g.column['e' + str(n)][k] is v
    if path == 'colmeta_set_assigned_mo':
        g.column['f' + str(n)][k] = v; return lambda: g.column['f' + str(n)][k] is v
    if path == 'colmeta_set_adopted':
        src = g._verif_src
        g.column['h' + str(n)][k] = v
        # the grid the metadata came from keeps its own: nothing stored here shows up there
        return lambda: g.column['h' + str(n)][k] is v and list(src.column['a'].keys()) == ['u']
    if path == 'colmeta_append_reassigned':
        g.column['a'].append(k, v); return lambda: g.column['a'][k] is v
    if path == 'colmeta_append':
        g.column['a'].append(k, v); return lambda: g.column['a'][k] is v
    if path == 'meta_overwrite':
        g.metadata['m0'] = v; return lambda: g.metadata['m0'] is v
    if path == 'colmeta_overwrite':
        g.column['a']['u'] = v; return lambda: g.column['a']['u'] is v
    if path == 'meta_update':
        g.metadata.update({'m0': v}); return lambda: g.metadata['m0'] is v
    if path == 'col_reassign':
        g.column['b'] = {'t': v}; return lambda: g.column['b']['t'] is v
    if path == 'col_assign':
        g.column['c' + k] = {'t': v}; return lambda: g.column['c' + k]['t'] is v
    if path == 'col_add_item':
        g.column.add_item('d' + k, {'t': v}); return lambda: g.column['d' + k]['t'] is v
    raise MachineryError('unknown path %s' % path)


def derived_versions(hs, g):
    """the versions of the grids derived from g right now: slices (whole, reversed, stepped, last row, empty) and
    filter results -- each is a grid of its own, labelled by the grid it was taken from"""
    out = []
    for name, mk in (('g[:]', lambda: g[:]), ('g[::-1]', lambda: g[::-1]), ('g[-1:]', lambda: g[-1:]),
                     ('g[0:0]', lambda: g[0:0]), ('g[::2]', lambda: g[::2]),
                     ("filter('a or not a')", lambda: g.filter('a or not a')),
                     ("filter('a', limit=1)", lambda: g.filter('a', limit=1))):
        try:
            out.append((name, str(mk().version)))
        except Exception as e:
            out.append((name, 'exception:' + type(e).__name__))
    return out


def text(cps):
    return ''.join(chr(c) for c in cps)


def replay_case(hs, c):
    """returns list of observed [out, ver] per step and problems"""
    ver = text(c['ver']) if c['ver'] else None
    obs, problems = [], []
    c['_derived'] = []
    if c['t'] == 'ctor':
        v = val(hs, c['kind'])
        try:
            if c['path'] == 'ctor_meta':
                g = hs.Grid(version=ver, metadata={'k': v}) if ver else hs.Grid(metadata={'k': v})
                present = g.metadata['k'] is v
            else:
                g = hs.Grid(version=ver, columns=[('a', [('k', v)])]) if ver else hs.Grid(columns=[('a', [('k', v)])])
                present = g.column['a']['k'] is v
            base = ver or '2.0'
            obs.append(['stored' if str(g.version) == base else 'upgraded', str(g.version)])
            if not present:
                problems.append('value_not_stored')
            c['_derived'].append(derived_versions(hs, g))
        except ValueError:
            obs.append(['refused', ver or '2.0'])
        except Exception as e:
            obs.append(['exception:' + type(e).__name__, ver or '2.0'])
        return obs, problems
    g = new_grid(hs, ver)
    for n, (path, kind) in enumerate(c['steps']):
        if path.startswith('copy_'):
            # from here on the history runs on a deep copy (a grid of its own: its gate judges and upgrades IT)
            orig, g = g, copy.deepcopy(g)
            osnap = snapshot(orig)
            path = path[5:]
        elif path.startswith(('slice_', 'filter_')):
            # ... or on a grid derived from it: as declared, or as undeclared, as the grid it was taken from
            orig, g = g, (g[:] if path.startswith('slice_') else g.filter('a or not a'))
            osnap = snapshot(orig)
            path = path.split('_', 1)[1]
        else:
            orig = None
        prepare(hs, g, path, n)
        before = snapshot(g)
        try:
            check = store(hs, g, path, kind, n)
            if orig is not None and snapshot(orig) != osnap:
                problems.append('store_into_copy_changed_original')
            after_ver = str(g.version)
            obs.append(['stored' if after_ver == before[0] else 'upgraded', after_ver])
            if not check():
                problems.append('value_not_stored')
        except ValueError:
            obs.append(['refused', str(g.version)])
            if snapshot(g) != before:
                problems.append('refused_store_changed_grid')
        except Exception as e:
            obs.append(['exception:' + type(e).__name__, str(g.version)])
        c['_derived'].append(derived_versions(hs, g))
    return obs, problems


def deciders(hs, ver, kind):
    """the five accept/refuse decisions for <<declared version, kind>>"""
    v = val(hs, kind)
    out = {}

    def dec(fn, refusal=(ValueError,)):
        try:
            fn()
            return 'accept'
        except refusal:
            return 'refuse'
        except Exception as e:
            return 'other:' + type(e).__name__

    def grid_store():
        g = hs.Grid(version=ver, columns=[('a', [])])
        g.append({'a': v})
    out['grid'] = dec(grid_store)
    out['zinc_writer'] = dec(lambda: hs.dump_scalar(v, mode=hs.MODE_ZINC, version=hs.Version(ver)))
    out['json_writer'] = dec(lambda: hs.dump_scalar(v, mode=hs.MODE_JSON, version=hs.Version(ver)))
    zspell = {'na': 'NA', 'list': '[1]', 'dict': '{k:1}', 'xstr': 'hex("ff")', 'grid': '<<ver:"3.0"\nx\n1\n>>'}[kind]
    out['zinc_reader'] = dec(lambda: hs.parse('ver:"%s"\na\n%s\n' % (ver, zspell), mode=hs.MODE_ZINC))
    jspell = {'na': 'z:', 'list': ['n:1'], 'dict': {'k': 'n:1'}, 'xstr': 'x:hex:ff',
              'grid': {'meta': {'ver': '3.0'}, 'cols': [{'name': 'x'}], 'rows': [{'x': 'n:1'}]}}[kind]
    doc = {'meta': {'ver': ver}, 'cols': [{'name': 'a'}], 'rows': [{'a': jspell}]}
    out['json_reader'] = dec(lambda: hs.parse(json.dumps(doc), mode=hs.MODE_JSON))
    # the same value inside a nested grid that is itself labelled `ver`, in an outer 3.0 document: the label that
    # counts is the one of the grid holding the value
    out['zinc_reader_nested'] = dec(lambda: hs.parse('ver:"3.0"\na\n<<ver:"%s"\nb\n%s\n>>\n' % (ver, zspell), mode=hs.MODE_ZINC))
    ndoc = {'meta': {'ver': '3.0'}, 'cols': [{'name': 'a'}],
            'rows': [{'a': {'meta': {'ver': ver}, 'cols': [{'name': 'b'}], 'rows': [{'b': jspell}]}}]}
    out['json_reader_nested'] = dec(lambda: hs.parse(json.dumps(ndoc), mode=hs.MODE_JSON))
    if kind == 'xstr' and out['json_reader_nested'] == 'accept':
        gn = hs.parse(json.dumps(ndoc), mode=hs.MODE_JSON)
        if not isinstance(gn[0]['a'][0].get('b'), hs.XStr):
            out['json_reader_nested'] = 'refuse'

    def grid_with_cell_edit():
        g = hs.Grid(version=ver, columns=[('a', [])])
        row = {'a': 'x'}
        g.append(row)
        row['a'] = v            # the caller's own dict, edited after it was stored
        return g

    def grid_with_colmeta_edit():
        # behind the gate's back (the store the gate sees is 'x'): the writers judge what they are given
        g = hs.Grid(version=ver, columns=[('a', [])])
        g.column['c'] = {'t': 'x'}
        g.column['c']._values['t'] = v
        g.append({'a': 'x'})
        return g
    for where, mk in (('cell', grid_with_cell_edit), ('colmeta', grid_with_colmeta_edit)):
        for fmt, mode in (('zinc', hs.MODE_ZINC), ('json', hs.MODE_JSON)):
            out['%s_writer_grid_%s' % (fmt, where)] = dec(lambda: hs.dump(mk(), mode=mode))
    # the scalar readers are given the declared version by the caller
    out['zinc_scalar_reader'] = dec(lambda: hs.parse_scalar(zspell, mode=hs.MODE_ZINC, version=hs.Version(ver)))
    out['json_scalar_reader'] = dec(lambda: hs.parse_scalar(json.dumps(jspell), mode=hs.MODE_JSON, version=hs.Version(ver)))
    if kind == 'xstr' and out['json_scalar_reader'] == 'accept' and \
            not isinstance(hs.parse_scalar(json.dumps(jspell), mode=hs.MODE_JSON, version=hs.Version(ver)), hs.XStr):
        out['json_scalar_reader'] = 'refuse'
    # a grid that came out of a reader is gated like one that was built: its column metadata too
    for fmt, text_, mode in (('zinc', 'ver:"%s"\na dis:"x"\n1\n' % ver, hs.MODE_ZINC),
                             ('json', json.dumps({'meta': {'ver': ver}, 'cols': [{'name': 'a', 'dis': 's:x'}],
                                                  'rows': [{'a': 'n:1'}]}), hs.MODE_JSON)):
        def parsed_store(where, text_=text_, mode=mode):
            g = hs.parse(text_, mode=mode)
            if where == 'colmeta':
                g.column['a']['k'] = v
                assert g.column['a']['k'] is v
            elif where == 'meta':
                g.metadata['k'] = v
            else:
                g.append({'a': v})
        for where in ('colmeta', 'meta', 'row'):
            out['grid_%s_parsed_%s' % (fmt, where)] = dec(lambda: parsed_store(where))
    if kind == 'xstr' and out['json_reader'] == 'accept':
        # under a pre-3.0 version "x:..." may legitimately be read as something else than an XStr
        # (e.g. the 2.0 Remove): only an XStr in the result counts as accepting the 3.0-only kind
        g = hs.parse(json.dumps(doc), mode=hs.MODE_JSON)
        if not isinstance(g[0].get('a'), hs.XStr):
            out['json_reader'] = 'refuse'
    return out


def run(tier):
    hs = use_repo()
    rep = Report('C10', tier)
    with Work('c10') as work:
        g = run_tlc(work, 'Gen_Gate.tla', 'Gen_Gate.cfg', workers=4)
        rep.tlc('gate model + case generation', g)
        if g.invariant_violated:
            raise MachineryError('Gate.tla violates its own invariant')
        seen, cases = set(), []
        for d in g.json_lines():
            if 'table' in d:
                continue
            key = json.dumps(d['c'], sort_keys=True)
            if key not in seen:
                seen.add(key); cases.append(d)
        if len(cases) < 3000:
            raise MachineryError('only %d gate cases' % len(cases))
        nder = 0
        for d in cases:
            c = d['c']
            rep.case(json.dumps(c, sort_keys=True))
            obs, problems = replay_case(hs, c)
            dv = c.pop('_derived', [])
            exp = [[e['out'], text(e['ver'])] for e in d['expect']]
            steps = c['steps'] if c['t'] == 'seq' else [[c['path'], c['kind']]]
            # grids derived after each step (slices, filter results) carry the version TLC computes for them
            for i, (ders, e) in enumerate(zip(dv, d['expect'])):
                if obs[i][0].startswith('exception') or obs[i] != exp[i]:
                    break
                nder += len(ders)
                wrong = [(nm, v) for nm, v in ders if v != text(e['dver'])]
                if wrong:
                    rep.violation({'engine': 'gate-replay', 'clause': 'derived_grid_version', 'path': steps[i][0],
                                   'kind': steps[i][1], 'ver': text(c['ver']) or 'none', 'how': wrong[0][0]},
                                  {'case': c, 'step': i + 1, 'derived': wrong, 'expected_version': text(e['dver']),
                                   'ver_text': text(c['ver']) or None})
                    break
            for i, (o, e) in enumerate(zip(obs, exp)):
                if o != e:
                    rep.violation({'engine': 'gate-replay', 'clause': 'outcome', 'path': steps[i][0], 'kind': steps[i][1],
                                   'ver': text(c['ver']) or 'none', 'expected': e[0], 'got': o[0]},
                                  {'case': c, 'step': i + 1, 'expected': e, 'observed': o,
                                   'ver_text': text(c['ver']) or None})
                    break
            for p in problems:
                rep.violation({'engine': 'gate-replay', 'clause': p, 'ver': text(c['ver']) or 'none',
                               'path': steps[-1][0], 'kind': steps[-1][1]}, {'case': c, 'problem': p})
        rep.traces += len(cases)
        rep.extra['derived_grids_judged'] = nder
        if nder < 10000 and not rep.violations:
            raise MachineryError('only %d derived grids were compared with the model' % nder)
        rep.sample({'case': cases[len(cases) // 2]})
        # decision table
        tcases, tinfo = [], {}
        for ver in VERS:
            for kind in ('na', 'list', 'dict', 'grid', 'xstr'):
                for who, decision in sorted(deciders(hs, ver, kind).items()):
                    n = len(tcases) + 1
                    tcases.append({'id': n, 'ver': [ord(ch) for ch in ver], 'kind': kind, 'who': who,
                                   'dec': decision if decision in ('accept', 'refuse') else 'other'})
                    tinfo[n] = (ver, kind, who, decision)
        path = work.path('gate.json')
        with open(path, 'w') as fh:
            json.dump(tcases, fh)
        r = run_tlc(work, 'Trace_Gate.tla', 'Trace_Gate.cfg', workers=2, env={'TRACE_FILE': path})
        rep.tlc('decision table judged', r)
        verdict = {}
        for ln in r.out.split('\n'):
            ln = ln.strip()
            if ln.startswith('<<"OK"'):
                verdict[int(ln.split(',')[1].strip(' >'))] = ('OK', '')
            elif ln.startswith('<<"REJECT"'):
                p = [x.strip(' <>"') for x in ln.split(',')]
                verdict[int(p[1])] = ('REJECT', p[2])
        if len(verdict) != len(tcases):
            raise MachineryError('decision table: %d verdicts for %d cases' % (len(verdict), len(tcases)))
        rep.traces += len(tcases)
        for n, (v, clause) in sorted(verdict.items()):
            ver, kind, who, decision = tinfo[n]
            rep.case(('decider', ver, kind, who))
            if v == 'REJECT':
                rep.violation({'engine': 'gate-table', 'clause': clause, 'decider': who, 'kind': kind, 'ver': ver},
                              {'version': ver, 'kind': kind, 'decider': who, 'decision': decision})
        rep.extra['decision_table'] = {'%s/%s' % (v, k): {w: d for (vv, kk, w, d) in tinfo.values() if vv == v and kk == k}
                                       for v in VERS for k in ('na', 'list', 'dict', 'grid', 'xstr')}
        # binding self-test
        bad = json.loads(json.dumps(tcases[:2]))
        bad[1]['dec'] = 'refuse' if bad[1]['dec'] == 'accept' else 'accept'
        bad[0]['id'], bad[1]['id'] = 1, 2
        with open(path, 'w') as fh:
            json.dump(bad, fh)
        r2 = run_tlc(work, 'Trace_Gate.tla', 'Trace_Gate.cfg', workers=1, env={'TRACE_FILE': path})
        ok = ('<<"REJECT", 2' in r2.out) == (verdict[2][0] == 'OK')
        rep.extra['binding_selftest'] = {'ok': ok}
        if not ok:
            raise MachineryError('binding self-test failed')
    rep.exhaustive = True
    rep.rule = 'every declared version (none + 6) x every sequence of <=2 stores (12 entry paths x 6 kinds) and constructor paths; 6 versions x 5 kinds x 5 deciders'
    rep.assumptions = ['pre-3.0 is decided through the nearest official version, as the pinned tests require',
                       'in-place edits of a row dict or of a plain dict already handed to the grid are outside the API']
    return rep.finish()


def replay(path):
    hs = use_repo()
    with open(path) as fh:
        d = json.load(fh)
    c = d['case']
    if 'decider' in c:
        got = deciders(hs, c['version'], c['kind'])[c['decider']]
        print('decider %s for ver %s kind %s: %s (recorded %s)' % (c['decider'], c['version'], c['kind'], got, c['decision']))
        ok = got != c['decision']
    else:
        obs, problems = replay_case(hs, c['case'])
        print('observed:', obs, problems, ' expected step %s: %s' % (c.get('step'), c.get('expected')))
        ok = (not problems) and (c.get('expected') is None or obs[c['step'] - 1] == c['expected'])
    print('property holds on this case' if ok else 'VIOLATION property=C10 replay=%s' % path)
    return 0 if ok else 1
