# Shared engine for the ZINC codec properties (C01 round trip, C04 writer conformance, parts of C08):
# grids are built from TLC's layout plans (spec/Layout.tla) and the payload catalogue (gengrid.py);
# hszinc dumps/parses them; TLC judges with the reader machine (spec/ZincRead.tla, Trace_Zinc.tla).
import json
import zlib
import random
from concurrent.futures import ThreadPoolExecutor

from core import Report, Work, run_tlc, use_repo, seed, MachineryError, NCPU
import absval
import gengrid


def tlc_plans(rep, work):
    r = run_tlc(work, 'Layout.tla', 'Layout.cfg', workers=1)
    rep.tlc('layout plans', r)
    plans = r.json_lines()
    if len(plans) < 500:
        raise MachineryError('layout generation produced only %d plans' % len(plans))
    plans.sort(key=lambda p: json.dumps(p, sort_keys=True))
    return plans


_ZONE_RE = None
_ZONE_TABLES = {}


def zone_tables(text):
    """pytz transition tables (the definition of each zone) for the zone names written after date-times in a ZINC text"""
    global _ZONE_RE
    import re
    import pytz
    import datetime
    if _ZONE_RE is None:
        _ZONE_RE = re.compile(r'(?:[+-]\d\d:\d\d|Z) ([A-Z][A-Za-z0-9_+\-]*)')
    out = []
    for name in sorted(set(_ZONE_RE.findall(text))):
        if name not in _ZONE_TABLES:
            olson = [n for n in pytz.all_timezones if n == name or n.split('/')[-1] == name and n.count('/') == 1]
            tab = None
            if olson:
                tz = pytz.timezone(sorted(olson, key=lambda n: (n != name, n))[0])
                tt = getattr(tz, '_utc_transition_times', None)
                if not tt:
                    off = int(tz.utcoffset(datetime.datetime(2000, 1, 1)).total_seconds())
                    tab = {'name': absval.cps(name), 'pre': off, 'trans': []}
                else:
                    info = tz._transition_info
                    trans = []
                    for t, inf in zip(tt, info):
                        if t.year <= 1:
                            continue
                        days = (t - datetime.datetime(1970, 1, 1)).days
                        secs = (t - datetime.datetime(1970, 1, 1)).seconds
                        trans.append([days, secs, int(inf[0].total_seconds())])
                    tab = {'name': absval.cps(name), 'pre': int(info[0][0].total_seconds()), 'trans': trans}
            _ZONE_TABLES[name] = tab
        if _ZONE_TABLES[name] is not None:
            out.append(_ZONE_TABLES[name])
    return out


def judge_cases(rep, work, cases, label, shards=None):
    for c in cases:
        if c.get('k') == 'denotes' and 'zones' not in c:
            c['zones'] = zone_tables(''.join(chr(x) for x in c['text'])) if c.get('strict') else []
    """cases: list of dicts with unique 'id' (1..n in order).  Returns {id: (verdict, clause, pos)}."""
    n = len(cases)
    shards = shards or max(1, min(NCPU // 2, n // 150 + 1))
    parts = [cases[i::shards] for i in range(shards)]

    def one(args):
        i, part = args
        path = work.path('%s-%d.json' % (label, i))
        with open(path, 'w') as fh:
            json.dump(part, fh)
        return run_tlc(work, 'Trace_Zinc.tla', 'Trace_Zinc.cfg', workers=2, env={'TRACE_FILE': path}, xmx='3g')
    out = {}
    with ThreadPoolExecutor(max_workers=shards) as ex:
        for r in ex.map(one, [(i, p) for i, p in enumerate(parts) if p]):
            rep.tlc('judge-' + label, r)
            for ln in r.out.split('\n'):
                ln = ln.strip()
                if ln.startswith('<<"OK"'):
                    out[int(ln.split(',')[1].strip(' >'))] = ('OK', '', 0)
                elif ln.startswith('<<"REJECT"') or ln.startswith('<<"NOTE"'):
                    p = [x.strip(' <>"') for x in ln.split(',')]
                    out[int(p[1])] = (p[0], p[2], int(p[3]))
    missing = [c['id'] for c in cases if c['id'] not in out]
    if missing:
        raise MachineryError('no verdict for %d cases (%s), e.g. id %r' % (len(missing), label, missing[:3]))
    return out


def build_grids(hs, plans, tier, rng):
    """[(meta, grid-or-list-of-grids)] ; meta describes the plan/payload for violation features."""
    cat = gengrid.Catalogue(hs, rng)
    out = []
    for p in plans:
        if p['t'] == 'single':
            labels = cat.labels(p['kind'])
            if tier == 'quick' and p['pos'] not in ('cell', 'gmeta', 'list_elem'):
                k = 2 if p['pos'] in ('cmeta', 'dict_val', 'ngrid_cell', 'cell_first', 'cell_last') else 1
                labels = rng.sample(labels, min(k, len(labels)))
            for l in labels:
                out.append(({'t': 'single', 'kind': p['kind'], 'pos': p['pos'], 'ver': p['ver'], 'payload': l},
                            ('place', p, l)))
        else:
            n = 1 if tier == 'quick' else 3
            for _ in range(n):
                l1 = rng.choice(cat.labels(p['kind']))
                l2 = rng.choice(cat.labels(p['kind2']))
                out.append(({'t': 'pair', 'kind': p['kind'], 'kind2': p['kind2'], 'ver': p['ver'],
                             'payload': l1, 'payload2': l2}, ('pair', p, l1, l2)))
    for ver in ('2.0', '3.0'):
        out.append(({'t': 'empty', 'kind': 'none', 'pos': 'none', 'ver': ver, 'payload': 'empty'}, ('empty', ver)))
    return cat, out


def make(cat, recipe):
    if recipe[0] == 'empty':
        g = cat.empty_grid(recipe[1])
    elif recipe[0] == 'place':
        g = cat.place(recipe[1], recipe[2])
    else:
        g = cat.pair(recipe[1], recipe[2], recipe[3])
    # a deterministic share of the grids goes through a history first (refused operations, re-ordered columns)
    how = zlib.crc32(json.dumps(recipe, sort_keys=True, default=str).encode()) % 9
    return gengrid.disturb(cat.hs, g, how)


def run_zinc(rep, tier, want):
    """want: subset of {'C01', 'C04'} ; returns list of (prop, features, detail)."""
    hs = use_repo()
    A = absval.Abs(hs)
    rng = random.Random(seed() * 7907 + 101)
    found = []
    with Work('zinc') as work:
        plans = tlc_plans(rep, work)
        cat, items = build_grids(hs, plans, tier, rng)
        # calls that must leave no trace: comparisons of the official versions with other spellings of the same numbers,
        # documents whose headers spell them with more or fewer groups
        for a in ('3.0.0', '2.0.0', '3', '2', '3.0.0.0'):
            for b in (hs.VER_3_0, hs.VER_2_0, hs.Version('3.0'), hs.Version('2.0')):
                hs.Version(a) == b, b == hs.Version(a), hs.Version(a) < b, b <= hs.Version(a), hash(hs.Version(a))
        for t in ('ver:"3.0.0"\na\n1\n', 'ver:"2.0.0"\na\n1\n', 'ver:"3"\na\n1\n', 'ver:"2"\na\nBin(t/p)\n'):
            hs.dump(hs.parse(t, mode=hs.MODE_ZINC), mode=hs.MODE_ZINC)
        cases, info = [], {}
        nid = 0
        docs = []
        for meta, recipe in items:
            docs.append((meta, [make(cat, recipe)], True))
        # multi-grid documents
        for k in range(12 if tier == 'quick' else 200):
            pick = rng.sample(items, rng.randint(2, 3))
            if k % 3 == 0:      # a header-only grid somewhere in the document
                pick.insert(rng.randint(0, len(pick)), [it for it in items if it[0]['t'] == 'empty'][k % 2])
            docs.append(({'t': 'multi', 'of': [m for m, _ in pick], 'payload': 'multi'},
                         [make(cat, r) for _, r in pick], False))
        # every mapped zone, winter and summer
        for k, zg in enumerate(cat.zone_sweep(tier)):
            docs.append(({'t': 'zones', 'kind': 'dt', 'pos': 'cell', 'ver': str(zg.version), 'payload': 'zone_sweep', 'n': k}, [zg], True))
        # seeded random deep layouts (nesting depth <= 3)
        for k in range(150 if tier == 'quick' else 3000):
            ver = rng.choice(['2.0', '3.0', '3.0'])
            rs = seed() * 1000003 + k
            docs.append(({'t': 'random', 'ver': ver, 'payload': 'random', 'n': k, 'rseed': rs},
                         [gengrid.Catalogue(hs, random.Random(rs)).random_grid(ver)], True))
        for meta, grids, single in docs:
            try:
                ab = A.doc(grids)
            except absval.NotAbstractable as e:
                raise MachineryError('catalogue value has no abstract form: %s' % e)
            except Exception as e:
                # the grid was built through public calls only (incl. refused ones): it must still be readable
                for p in want:
                    found.append((p, dict(meta, engine='zinc', clause='grid_unreadable_after_its_history', exc=type(e).__name__),
                                  {'plan': meta, 'exception': repr(e)[:300]}))
                rep.case(json.dumps(meta, sort_keys=True))
                continue
            try:
                text = hs.dump(grids[0] if single else absval.series(grids, meta),
                               mode=[hs.MODE_ZINC, 'zinc', 'ZINC', hs.MODE_ZINC, 'Zinc'][len(docs) % 5 if not single else nid % 5])
            except Exception as e:
                if isinstance(e, ValueError) and str(meta.get('payload', '')).startswith(('fx_', 'edge_fx')):
                    # a bare offset no Haystack zone has at that instant cannot be written (C17): outside the domain
                    rep.extra['bare_offsets_without_zone'] = rep.extra.get('bare_offsets_without_zone', 0) + 1
                    rep.case(json.dumps(meta, sort_keys=True))
                    continue
                for p in want:
                    found.append((p, dict(meta, engine='zinc', clause='dump_raises', exc=type(e).__name__),
                                  {'plan': meta, 'exception': repr(e)[:300]}))
                rep.case(json.dumps(meta, sort_keys=True))
                continue
            rep.case(json.dumps(meta, sort_keys=True))
            if 'C04' in want:
                nid += 1
                cases.append({'id': nid, 'k': 'denotes', 'strict': True, 'text': absval.cps(text), 'expect': ab,
                              'verexact': absval.cps(meta['ver']) if single and meta.get('ver') in ('2.0', '3.0') else []})
                info[nid] = ('C04', meta, text)
                if nid % 3 == 0:
                    # the values the grid holds are edited in place after the grid was written once (the number of a
                    # Quantity, the payload of an XStr ...): what is written now denotes the grid as it is now
                    try:
                        if absval.edit_values(hs, grids):
                            ab_e = A.doc(grids)
                            text_e = hs.dump(grids[0] if single else list(grids), mode=hs.MODE_ZINC)
                            nid += 1
                            cases.append({'id': nid, 'k': 'denotes', 'strict': True, 'text': absval.cps(text_e),
                                          'expect': ab_e, 'verexact': []})
                            info[nid] = ('C04', dict(meta, edited_after_first_dump=True), text_e)
                    except Exception as e:
                        found.append(('C04', dict(meta, engine='zinc', clause='dump_raises_after_edit', exc=type(e).__name__),
                                      {'plan': meta, 'exception': repr(e)[:300]}))
            if 'C01' in want:
                try:
                    back = hs.parse(text, mode=hs.MODE_ZINC, single=single)
                    back = [back] if single else back
                    ab2 = A.doc(back)
                except absval.NotAbstractable as e:
                    found.append(('C01', dict(meta, engine='zinc', clause='parse_result_not_haystack', exc='-'),
                                  {'plan': meta, 'text': text, 'why': str(e)}))
                    continue
                except Exception as e:
                    found.append(('C01', dict(meta, engine='zinc', clause='parse_raises', exc=type(e).__name__),
                                  {'plan': meta, 'text': text, 'exception': repr(e)[:300]}))
                    continue
                nid += 1
                cases.append({'id': nid, 'k': 'same', 'strict': True, 'text': [], 'a': ab, 'b': ab2})
                info[nid] = ('C01', meta, text)
        # scalar level: dump_scalar / parse_scalar (the scalar is judged inside a 1x1 carrier grid)
        def carrier(ver, absv):
            return [[18, absval.cps(ver), [], [[[118], []]], [[absv]]]]
        kinds = ['null', 'marker', 'na', 'remove', 'bool', 'num', 'qty', 'str', 'uri', 'bin', 'ref', 'xstr', 'date', 'time',
                 'dt', 'coord', 'list', 'dict', 'grid']
        for kind in kinds:
            for label in cat.labels(kind):
                for ver in ('2.0', '3.0'):
                    if ver == '2.0' and kind in ('na', 'xstr', 'list', 'dict', 'grid'):
                        continue
                    _, v = cat.value(kind, ver, label)
                    meta = {'t': 'scalar', 'kind': kind, 'pos': 'scalar', 'ver': ver, 'payload': label}
                    rep.case(json.dumps(meta, sort_keys=True))
                    try:
                        av = A.val(v)
                        stext = hs.dump_scalar(v, mode=hs.MODE_ZINC, version=hs.Version(ver))
                    except Exception as e:
                        for p in want:
                            found.append((p, dict(meta, engine='zinc', clause='dump_raises', exc=type(e).__name__),
                                          {'plan': meta, 'exception': repr(e)[:300]}))
                        continue
                    if 'C04' in want:
                        nid += 1
                        cases.append({'id': nid, 'k': 'denotes', 'strict': True,
                                      'text': absval.cps('ver:"%s"\nv\n%s\n' % (ver, stext)), 'expect': carrier(ver, av)})
                        info[nid] = ('C04', meta, stext)
                    if 'C01' in want:
                        try:
                            back = A.val(hs.parse_scalar(stext, mode=hs.MODE_ZINC, version=hs.Version(ver)))
                        except Exception as e:
                            found.append(('C01', dict(meta, engine='zinc', clause='parse_raises', exc=type(e).__name__),
                                          {'plan': meta, 'text': stext, 'exception': repr(e)[:300]}))
                            continue
                        nid += 1
                        cases.append({'id': nid, 'k': 'same', 'strict': True, 'text': [], 'a': carrier(ver, av),
                                      'b': carrier(ver, back)})
                        info[nid] = ('C01', meta, stext)
        verdicts = judge_cases(rep, work, cases, 'zinc')
        rep.traces += len(cases)
        for cid, (v, clause, pos) in sorted(verdicts.items()):
            prop, meta, text = info[cid]
            if v == 'REJECT':
                found.append((prop, dict(meta, engine='zinc', clause=clause),
                              {'plan': meta, 'text': text, 'clause': clause, 'position': pos,
                               'near': text[max(0, pos - 25):pos + 10] if pos else ''}))
        # the documents the repository's own test-suite parses / produces, read by the same machine
        if 'C04' in want:
            import rectest
            rec, _ = rectest.record(work, codec=True)
            for f, d in rectest.judge_codec(rep, work, rec, {('dump', 'zinc')}):
                found.append(('C04', f, d))
        rep.sample({'plan': items[len(items) // 3][0]})
        rep.extra['plans'] = len(plans)
        rep.extra['documents'] = len(docs)
        # binding self-test: change one character of an accepted document / one cell of an abstract grid
        ok_ids = [c for c in cases if verdicts[c['id']][0] == 'OK' and c['k'] == 'denotes']
        if ok_ids:
            c0 = json.loads(json.dumps(ok_ids[len(ok_ids) // 2]))
            c1 = json.loads(json.dumps(c0)); c1['id'] = 2
            c0['id'] = 1
            c1['expect'][0][4][0][0] = [7, [122, 122]]      # first cell replaced by "zz"
            v2 = judge_cases(rep, work, [c0, c1], 'selftest', shards=1)
            ok = v2[1][0] == 'OK' and v2[2][0] == 'REJECT'
            rep.extra['binding_selftest'] = {'verdicts': [list(v2[1]), list(v2[2])], 'ok': ok}
            if not ok:
                raise MachineryError('binding self-test failed: %r' % (v2,))
    return found


def run_property(prop, tier):
    rep = Report(prop, tier)
    found = run_zinc(rep, tier, {prop})
    for p, f, d in found:
        if p == prop:
            rep.violation(f, d)
    rep.exhaustive = False
    rep.rule = ('one case = one document built from a TLC layout plan (kind x position x version, and ordered kind '
                'pairs) and a catalogue payload; distinct by (plan, payload); judged by the TLA+ reader machine')
    rep.assumptions = ['Haystack-valid grid domain of DESIGN.md section 5', 'float denotations compared as normalised '
                       'shortest round-trip decimals (repr), no float arithmetic in TLC']
    return rep.finish()


def replay(prop, path):
    """Re-run the plan stored in a replay file: rebuild the grid, dump, parse, and let TLC judge."""
    hs = use_repo()
    A = absval.Abs(hs)
    with open(path) as fh:
        d = json.load(fh)
    meta = d['case']['plan']
    rng = random.Random(0)
    cat = gengrid.Catalogue(hs, rng)
    rep = Report(prop, 'quick')

    def build(m):
        if m['t'] == 'random':
            return gengrid.Catalogue(hs, random.Random(m['rseed'])).random_grid(m['ver'])
        if m['t'] == 'empty':
            return cat.empty_grid(m['ver'])
        if m['t'] == 'zones':
            return gengrid.Catalogue(hs, random.Random(0)).zone_sweep('thorough')[m['n']]
        if m['t'] == 'single':
            return cat.place({'kind': m['kind'], 'pos': m['pos'], 'ver': m['ver']}, m['payload'])
        return cat.pair({'kind': m['kind'], 'kind2': m['kind2'], 'ver': m['ver']}, m['payload'], m['payload2'])
    grids = [build(m) for m in meta['of']] if meta['t'] == 'multi' else [build(meta)]
    single = meta['t'] != 'multi'
    ok = True
    try:
        text = hs.dump(grids[0] if single else absval.series(grids, meta), mode=hs.MODE_ZINC)
        print('dumped text:', repr(text))
        cases = [{'id': 1, 'k': 'denotes', 'strict': True, 'text': absval.cps(text), 'expect': A.doc(grids)}]
        if prop == 'C01':
            back = hs.parse(text, mode=hs.MODE_ZINC, single=single)
            cases = [{'id': 1, 'k': 'same', 'strict': True, 'text': [], 'a': A.doc(grids),
                      'b': A.doc([back] if single else back)}]
        with Work('zincr') as work:
            v = judge_cases(rep, work, cases, 'replay', shards=1)
        print('TLC verdict:', v[1])
        ok = v[1][0] == 'OK'
    except Exception as e:
        print('exception:', repr(e))
        ok = False
    print('property holds on this case' if ok else 'VIOLATION property=%s replay=%s' % (prop, path))
    return 0 if ok else 1
