# C19 -- equality of Haystack values and grids, against spec/ValueEq.tla.
#  (A) MC_ValueEq.cfg            : TLC checks the laws of the decision table over an abstract catalogue
#  (B) Gen_ValueEq[_thorough].cfg: TLC checks the grid laws and prints every <<grid, one-position mutant>>
#                                  edge; both real Grids are built and compared
#  (C) Trace_ValueEq.tla         : every ordered pair of a concrete catalogue (==, !=, hash, identity),
#                                  transitivity over a 40-value subset, singleton copies, and all grid
#                                  comparisons (mutants, faithful copies, round trips) judged by TLC
# Python holds no model: it builds values, projects them to abstract records (type dispatch only),
# logs what the real operators answer and reads TLC's verdict lines.
import copy
import datetime
import decimal
import glob
import json
import os
import random
import re
from fractions import Fraction

from core import Report, Work, run_tlc, use_repo, seed, MachineryError, cps

PAIR_CLAUSES = ('no_raise', 'eq_value', 'reflexive', 'ne_value', 'complementary', 'symmetric', 'hash',
                'singleton_identity', 'transitive')


# ---------------------------------------------------------------------------
# projection of real values to abstract records (structure only)

def num_token(x):
    if type(x) is float:
        if x != x:
            return 'nan'
        if x in (float('inf'), float('-inf')):
            return 'inf' if x > 0 else '-inf'
    return str(Fraction(x))          # exact value; -0.0 and 0 are both "0"


def abs_value(hs, x):
    dt = hs.datatypes
    t = type(x)
    if x is None:
        return {'k': 'null'}
    if t is dt.MarkerType:
        return {'k': 'marker'}
    if t is dt.NAType:
        return {'k': 'na'}
    if t is dt.RemoveType:
        return {'k': 'remove'}
    if t is bool:
        return {'k': 'bool', 'v': '1' if x else '0', 'nan': False}
    if t is int or t is float:
        v = num_token(x)
        return {'k': 'num', 'v': v, 'nan': v == 'nan', 'f': t is float}
    if t is dt.BasicQuantity:
        if type(x.value) not in (int, float):
            raise MachineryError('quantity payload outside the catalogue domain: %r' % (x,))
        v = num_token(x.value)
        return {'k': 'qty', 'v': v, 'nan': v == 'nan', 'f': type(x.value) is float,
                'un': x.unit is None, 'u': cps(x.unit or '')}
    if t is str:
        return {'k': 'str', 't': cps(x)}
    if t is dt.Uri:
        return {'k': 'uri', 't': cps(str.__str__(x))}
    if t is dt.Bin:
        return {'k': 'bin', 't': cps(str.__str__(x))}
    if t is dt.Ref:
        return {'k': 'ref', 't': cps(x.name), 'hv': bool(x.has_value), 'dn': x.value is None,
                'd': cps(x.value or '')}
    if t is dt.XStr:
        if isinstance(x.data, (bytes, bytearray)):
            return {'k': 'xstr', 't': cps(x.encoding), 'enc': 'bytes', 'b': list(bytes(x.data))}
        return {'k': 'xstr', 't': cps(x.encoding), 'enc': 'text', 'b': cps(x.data)}
    if t is datetime.datetime:
        aware = x.tzinfo is not None and x.utcoffset() is not None
        if aware:
            d = x - datetime.datetime(1970, 1, 1, tzinfo=datetime.timezone.utc)
            tz = getattr(x.tzinfo, 'zone', None) or str(x.tzinfo)
        else:
            d = x - datetime.datetime(1970, 1, 1)
            tz = ''
        return {'k': 'dt', 'aware': aware, 'inst': [d.days, d.seconds, d.microseconds], 'tz': cps(tz)}
    if t is datetime.date:
        return {'k': 'date', 'd': [x.year, x.month, x.day]}
    if t is datetime.time:
        if x.tzinfo is not None:
            raise MachineryError('aware time outside the catalogue domain')
        return {'k': 'time', 'tm': [x.hour, x.minute, x.second, x.microsecond]}
    if t is dt.Coordinate:
        la, lo = num_token(x.latitude), num_token(x.longitude)
        return {'k': 'coord', 'lat': la, 'lng': lo, 'nan': la == 'nan' or lo == 'nan'}
    if t is list:
        return {'k': 'list', 'e': [abs_value(hs, e) for e in x]}
    if t is dict:
        for k in x:
            if type(k) is not str:
                raise MachineryError('dict key outside the catalogue domain: %r' % (k,))
        return {'k': 'dict', 'e': [[cps(k), abs_value(hs, x[k])] for k in sorted(x, key=cps)]}
    raise MachineryError('no abstract form for %r' % (x,))


# ---------------------------------------------------------------------------
# the concrete catalogue

def catalogue(hs, tier, sd):
    import pytz
    Q, U, B, R, X, C = hs.Quantity, hs.Uri, hs.Bin, hs.Ref, hs.XStr, hs.Coordinate
    M, NA, RM = hs.MARKER, hs.NA, hs.REMOVE
    nan, inf = float('nan'), float('inf')
    utc = pytz.utc
    paris = pytz.timezone('Europe/Paris')
    ny = pytz.timezone('America/New_York')
    D, T, DT = datetime.date, datetime.time, datetime.datetime
    cat = [
        ('None', None),
        ('MARKER', M), ('NA', NA), ('REMOVE', RM),
        ('copy(MARKER)', copy.copy(M)), ('deepcopy(MARKER)', copy.deepcopy(M)),
        ('copy(NA)', copy.copy(NA)), ('deepcopy(NA)', copy.deepcopy(NA)),
        ('copy(REMOVE)', copy.copy(RM)), ('deepcopy(REMOVE)', copy.deepcopy(RM)),
        ('True', True), ('False', False),
        ('0', 0), ('1', 1), ('-1', -1), ('2', 2), ('2**53', 2 ** 53), ('2**53+1', 2 ** 53 + 1), ('10**30', 10 ** 30),
        ('0.0', 0.0), ('-0.0', -0.0), ('1.0', 1.0), ('-1.0', -1.0), ('0.5', 0.5), ('1.5', 1.5),
        ('2.0**53', 2.0 ** 53), ('1e30', 1e30), ('1e308', 1e308), ('5e-324', 5e-324),
        ('inf', inf), ('-inf', -inf), ('nan', nan),
        ("Q(1,'m')", Q(1, 'm')), ("Q(1.0,'m')", Q(1.0, 'm')), ("Q(1,'s')", Q(1, 's')), ('Q(1,None)', Q(1, None)),
        ('Q(1.0,None)', Q(1.0, None)), ("Q(1,'')", Q(1, '')), ("Q(0,'m')", Q(0, 'm')), ("Q(-0.0,'m')", Q(-0.0, 'm')),
        ("Q(0.5,'m')", Q(0.5, 'm')), ("Q(nan,'m')", Q(nan, 'm')), ("Q(inf,'m')", Q(inf, 'm')),
        ("Q(1,'°C')", Q(1, u'°C')), ("Q(2**53+1,'m')", Q(2 ** 53 + 1, 'm')), ("Q(2,'s')", Q(2, 's')),
        ("''", ''), ("'a'", 'a'), ("'b'", 'b'), ("'ab'", 'ab'), ("'é'", u'é'), ("'1'", '1'),
        ("'http://x/?a=b'", 'http://x/?a=b'), ("'text/plain'", 'text/plain'),
        ("Uri('')", U('')), ("Uri('a')", U('a')), ("Uri('b')", U('b')), ("Uri('ab')", U('ab')),
        ("Uri('é')", U(u'é')), ("Uri('http://x/?a=b')", U('http://x/?a=b')),
        ("Bin('')", B('')), ("Bin('a')", B('a')), ("Bin('b')", B('b')), ("Bin('text/plain')", B('text/plain')),
        ("Ref('a')", R('a')), ("Ref('a','x')", R('a', 'x')), ("Ref('a','y')", R('a', 'y')),
        ("Ref('a',None,True)", R('a', None, True)), ("Ref('a','')", R('a', '')), ("Ref('b')", R('b')),
        ("Ref('b','x')", R('b', 'x')), ("Ref('a','a')", R('a', 'a')),
        ("XStr('hex','ff')", X('hex', 'ff')), ("XStr('hex','FF')", X('hex', 'FF')), ("XStr('hex','')", X('hex', '')),
        ("XStr('hex','00')", X('hex', '00')), ("XStr('b64','/w==')", X('b64', '/w==')), ("XStr('b64','')", X('b64', '')),
        ("XStr('Foo','ff')", X('Foo', 'ff')), ("XStr('Bar','ff')", X('Bar', 'ff')), ("XStr('Foo','xyz')", X('Foo', 'xyz')),
        ('date(2020,2,29)', D(2020, 2, 29)), ('date(2020,3,1)', D(2020, 3, 1)), ('date(1,1,1)', D(1, 1, 1)),
        ('date(9999,12,31)', D(9999, 12, 31)),
        ('time(0,0,0)', T(0, 0, 0)), ('time(0,0,0,1)', T(0, 0, 0, 1)), ('time(23,59,59,999999)', T(23, 59, 59, 999999)),
        ('time(12,0)', T(12, 0)),
        ('dt utc 2020-02-29T01:00', utc.localize(DT(2020, 2, 29, 1, 0, 0))),
        ('dt Paris 2020-02-29T02:00', paris.localize(DT(2020, 2, 29, 2, 0, 0))),
        ('dt utc 2020-02-29T01:00:01', utc.localize(DT(2020, 2, 29, 1, 0, 1))),
        ('dt naive 2020-02-29T01:00', DT(2020, 2, 29, 1, 0, 0)),
        ('dt NY 2020-11-01T01:30 dst', ny.localize(DT(2020, 11, 1, 1, 30), is_dst=True)),
        ('dt NY 2020-11-01T01:30 std', ny.localize(DT(2020, 11, 1, 1, 30), is_dst=False)),
        ('Coordinate(0,0)', C(0, 0)), ('Coordinate(0.0,-0.0)', C(0.0, -0.0)), ('Coordinate(1,2)', C(1, 2)),
        ('Coordinate(1.0,2.0)', C(1.0, 2.0)), ('Coordinate(1.5,-2.5)', C(1.5, -2.5)), ('Coordinate(90,180)', C(90, 180)),
        ('Coordinate(nan,0)', C(nan, 0)), ('Coordinate(2,1)', C(2, 1)),
        # apart only beyond the sixth decimal (what the writers print): two different values
        ('Coordinate(1.5000001,-2.5)', C(1.5000001, -2.5)), ('Coordinate(1.5000002,-2.5)', C(1.5000002, -2.5)),
        ('Coordinate(1.5,-2.50000004)', C(1.5, -2.50000004)),
        ('[]', []), ('[1]', [1]), ('[1.0]', [1.0]), ('[True]', [True]), ("['a']", ['a']), ("[Uri('a')]", [U('a')]),
        ("[Bin('a')]", [B('a')]), ('[MARKER]', [M]), ('[None]', [None]), ('[nan]', [nan]),
        ("[Q(1,'m')]", [Q(1, 'm')]), ("[Q(1,'s')]", [Q(1, 's')]), ("[1,'a']", [1, 'a']), ("['a',1]", ['a', 1]),
        ('[[1]]', [[1]]), ('[[]]', [[]]), ("[Ref('a')]", [R('a')]), ("[Ref('a','x')]", [R('a', 'x')]),
        ('{}', {}), ("{'a':1}", {'a': 1}), ("{'a':1.0}", {'a': 1.0}), ("{'a':'a'}", {'a': 'a'}),
        ("{'a':Uri('a')}", {'a': U('a')}), ("{'b':1}", {'b': 1}), ("{'a':1,'b':2}", {'a': 1, 'b': 2}),
        ("{'b':2,'a':1}", {'b': 2, 'a': 1}), ("{'a':[1]}", {'a': [1]}), ("{'a':{'a':1}}", {'a': {'a': 1}}),
        ("{'a':nan}", {'a': nan}), ("{'a':Q(1,'m')}", {'a': Q(1, 'm')}), ("{'a':Q(1,'s')}", {'a': Q(1, 's')}),
    ]
    if tier == 'thorough':
        # seeded random nested lists/dicts over the scalar part of the catalogue
        rng = random.Random(sd * 7919 + 19)
        leaves = [v for _, v in cat if type(v) not in (list, dict)]

        def rnd(depth):
            r = rng.random()
            if depth == 0 or r < 0.45:
                return rng.choice(leaves)
            if r < 0.75:
                return [rnd(depth - 1) for _ in range(rng.randint(0, 3))]
            return {k: rnd(depth - 1) for k in rng.sample(['a', 'b', 'c'], rng.randint(0, 3))}
        for n in range(44):
            v = [rnd(2) for _ in range(rng.randint(1, 3))] if n % 2 == 0 else \
                {k: rnd(2) for k in rng.sample(['a', 'b', 'c'], rng.randint(1, 3))}
            cat.append(('rnd%d %r' % (n, v), v))
            if n % 4 == 0:                      # an independently built equal twin
                cat.append(('rnd%d twin' % n, copy.deepcopy(v)))
    return cat


SUBSET = ['None', 'MARKER', 'copy(MARKER)', 'NA', 'True', 'False', '0', '1', '1.0', '-0.0', 'nan', '2**53',
          '2.0**53', '2**53+1', "Q(1,'m')", "Q(1.0,'m')", "Q(1,'s')", 'Q(1,None)', "Q(0,'m')", "'a'", "Uri('a')",
          "Bin('a')", "''", "Uri('')", "Bin('')", "Ref('a')", "Ref('a','x')", "Ref('a',None,True)",
          "XStr('hex','ff')", "XStr('b64','/w==')", "XStr('Foo','ff')", 'date(2020,2,29)', 'time(0,0,0)',
          'dt utc 2020-02-29T01:00', 'dt Paris 2020-02-29T02:00', 'Coordinate(1,2)', 'Coordinate(1.0,2.0)',
          "['a']", "[Uri('a')]", "{'a':1}"]


def tok(f):
    """Outcome of a comparison as an ASCII token: T, F, or the exception class name."""
    try:
        r = f()
    except Exception as e:           # noqa: the class name is the observation
        return type(e).__name__
    if r is True:
        return 'T'
    if r is False:
        return 'F'
    return 'NonBool_' + type(r).__name__


def observe_pairs(vals):
    n = len(vals)
    hok, hv = [], []
    for v in vals:
        try:
            hv.append(hash(v))
            hok.append(True)
        except TypeError:
            hv.append(None)
            hok.append(False)
    eq = [[tok(lambda a=a, b=b: a == b) for b in vals] for a in vals]
    ne = [[tok(lambda a=a, b=b: a != b) for b in vals] for a in vals]
    traces = []
    for i in range(n):
        evs = []
        for j in range(n):
            evs.append({'j': j + 1, 'eq': eq[i][j], 'ne': ne[i][j], 'req': eq[j][i], 'rne': ne[j][i],
                        'hi': hok[i], 'hj': hok[j], 'heq': bool(hok[i] and hok[j] and hv[i] == hv[j]),
                        'same': vals[i] is vals[j]})
        traces.append({'m': 'pair', 'i': i + 1, 'evs': evs})
    return traces, eq


def observe_singletons(hs):
    evs = []
    for k, s in (('marker', hs.MARKER), ('na', hs.NA), ('remove', hs.REMOVE)):
        evs.append({'k': k, 'copy_is': copy.copy(s) is s, 'deep_is': copy.deepcopy(s) is s})
        evs.append({'k': k, 'copy_is': copy.copy([s])[0] is s, 'deep_is': copy.deepcopy({'x': [s]})['x'][0] is s})
    return {'m': 'sing', 'evs': evs}


# ---------------------------------------------------------------------------
# grids: binding of abstract cells / names to concrete ones, and the projection back

def _tables(hs):
    import pytz
    utc = pytz.utc
    Q, U, B, R, X = hs.Quantity, hs.Uri, hs.Bin, hs.Ref, hs.XStr
    return {
        'unit': {0: None, 1: 'm', 2: 's'},
        'text': {0: '', 1: 'a', 2: 'b'},
        'ref': {1: lambda: R('a'), 2: lambda: R('b'), 3: lambda: R('a', 'x')},
        'xstr': {1: lambda: X('hex', 'ff'), 2: lambda: X('hex', '00')},
        'date': {1: lambda: datetime.date(2020, 2, 29), 2: lambda: datetime.date(2020, 3, 1)},
        'time': {1: lambda: datetime.time(1, 2, 3), 2: lambda: datetime.time(1, 2, 4)},
        'dt': {1: lambda: utc.localize(datetime.datetime(2020, 2, 29, 1, 2, 3)),
               2: lambda: utc.localize(datetime.datetime(2020, 2, 29, 1, 2, 4)),
               3: lambda: pytz.timezone('Europe/Paris').localize(datetime.datetime(2020, 7, 1, 12, 0, 0)),
               # the instant of 1 in another zone (another offset, another calendar day): a different cell content
               4: lambda: pytz.timezone('America/Los_Angeles').localize(datetime.datetime(2020, 2, 28, 17, 2, 3)),
               # the instant of 3 shown in UTC
               5: lambda: utc.localize(datetime.datetime(2020, 7, 1, 10, 0, 0))},
        'list': {1: lambda: [1], 2: lambda: [], 3: lambda: [Q(1.0, 'm')], 4: lambda: [Q(1.0, 's')]},
        'dict': {1: lambda: {'a': 1}},
    }


class GridBinding(object):
    def __init__(self, hs):
        self.hs = hs
        self.t = _tables(hs)
        # reverse code tables for the projection: canonical structural key -> code
        self.codes = {}
        for kind in ('ref', 'xstr', 'date', 'time', 'dt', 'list', 'dict'):
            for code, mk in self.t[kind].items():
                self.codes[(kind, self.key(kind, mk()))] = code
        for code, u in self.t['unit'].items():
            self.codes[('unit', u)] = code
        for code, s in self.t['text'].items():
            self.codes[('text', s)] = code
        self.fresh = 1000

    def key(self, kind, v):
        # content key of a cell value: its abstract record without the informational fields
        # (int/float spelling, zone name), so that [1] and [1.0] are the same content code
        def strip(a):
            if isinstance(a, dict):
                return {k: strip(x) for k, x in a.items() if k not in ('f', 'tz')}
            if isinstance(a, list):
                return [strip(x) for x in a]
            return a
        base = strip(abs_value(self.hs, v))
        if isinstance(v, datetime.datetime) and v.utcoffset() is not None:
            # the content of a date-time CELL is what its text shows: the instant and the offset it is shown at
            base = [base, int(v.utcoffset().total_seconds())]
        return json.dumps(base, sort_keys=True)

    def code(self, table, key):
        k = (table, key)
        if k not in self.codes:
            self.fresh += 1
            self.codes[k] = self.fresh
        return self.codes[k]

    NONFINITE = {1: float('inf'), 2: float('-inf'), 3: float('nan')}

    def num(self, c):
        if c['k'] == 'num' and c['s'] in self.NONFINITE:       # s codes 1..3 of a number: +INF, -INF, NaN
            return self.NONFINITE[c['s']]
        return int(c['mu'] // 1000000) if c['i'] else c['mu'] / 1e6

    def cell(self, c):
        hs, t, k = self.hs, self.t, c['k']
        if k == 'null':
            return None
        if k in ('marker', 'na', 'remove'):
            return {'marker': hs.MARKER, 'na': hs.NA, 'remove': hs.REMOVE}[k]
        if k == 'bool':
            return c['mu'] == 1000000
        if k == 'num':
            return self.num(c)
        if k == 'qty':
            return hs.Quantity(self.num(c), t['unit'][c['s']])
        if k == 'str':
            return t['text'][c['s']]
        if k == 'uri':
            return hs.Uri(t['text'][c['s']])
        if k == 'bin':
            return hs.Bin(t['text'][c['s']])
        if k == 'coord':
            return hs.Coordinate(c['mu'] / 1e6, c['mu2'] / 1e6)
        return t[k][c['s']]()

    @staticmethod
    def micro(x):
        if type(x) is float and (x != x or x in (float('inf'), float('-inf'))):
            raise MachineryError('non-finite float in a grid cell')
        return int(decimal.Decimal(x).quantize(decimal.Decimal('0.000001'),
                                               rounding=decimal.ROUND_HALF_EVEN) * 1000000)

    def abs_cell(self, v):
        a = abs_value(self.hs, v)
        k = a['k']
        c = {'k': k, 's': 0, 'mu': 0, 'mu2': 0, 'i': 0}
        if k == 'bool':
            c['mu'] = 1000000 if v else 0
        elif k == 'num':
            if type(v) is float and (v != v or v in (float('inf'), float('-inf'))):
                c['s'] = 3 if v != v else 1 if v > 0 else 2
            else:
                c['mu'] = self.micro(v)
                c['i'] = 1 if type(v) is int else 0
        elif k == 'qty':
            c['mu'] = self.micro(v.value)
            c['i'] = 1 if type(v.value) is int else 0
            c['s'] = self.code('unit', v.unit)
        elif k in ('str', 'uri', 'bin'):
            c['s'] = self.code('text', str.__str__(v))
        elif k == 'coord':
            c['mu'] = self.micro(v.latitude)
            c['mu2'] = self.micro(v.longitude)
        elif k in ('ref', 'xstr', 'date', 'time', 'dt', 'list', 'dict'):
            c['s'] = self.code(k, self.key(k, v))
        return c

    # names: code n -> 'm<n>' (grid metadata), 'c<n>' (column), 'k<n>' (column metadata)
    def build(self, ag, omit_null=False):
        hs = self.hs
        if 'ng' in ag:
            return self.cell(ag['cell'])
        g = hs.Grid(version='3.0')
        for n in ag['meta']:
            g.metadata['m%d' % n] = hs.MARKER
        for ci, n in enumerate(ag['cols']):
            g.column['c%d' % n] = {}
            for kn in ag['cm'][ci]:
                g.column['c%d' % n]['k%d' % kn] = hs.MARKER
        for row in ag['rows']:
            d = {}
            for ci, n in enumerate(ag['cols']):
                if omit_null and row[ci]['k'] == 'null':
                    continue
                d['c%d' % n] = self.cell(row[ci])
            g.append(d)
        return g

    def name_code(self, prefix, name):
        if re.match('^%s[0-9]+$' % prefix, name):
            return int(name[1:])
        return self.code('name', name)

    def project(self, g):
        hs = self.hs
        if type(g) is not hs.Grid:
            return {'ng': 1, 'cell': self.abs_cell(g)}
        cols = list(g.column.keys())
        return {'meta': sorted(self.name_code('m', k) for k in g.metadata.keys()),
                'cols': [self.name_code('c', c) for c in cols],
                'cm': [sorted(self.name_code('k', k) for k in g.column[c].keys()) for c in cols],
                'rows': [[self.abs_cell(row.get(c)) for c in cols] for row in g]}


def norm_grid(ag):
    """TLC prints sets as arrays in its own order: sort the name sets (canonical form)."""
    if 'ng' in ag:
        return {'ng': 1, 'cell': norm_cell(ag['cell'])}
    return {'meta': sorted(ag['meta']), 'cols': list(ag['cols']), 'cm': [sorted(x) for x in ag['cm']],
            'rows': [[norm_cell(c) for c in r] for r in ag['rows']]}


def norm_cell(c):
    return {'k': c['k'], 's': c['s'], 'mu': c['mu'], 'mu2': c['mu2'], 'i': c['i']}


def grid_diff(a, b):
    """Where two abstract grids differ (labels the feature record of a finding; no judgement)."""
    if 'ng' in b or 'ng' in a:
        return {'mutation': 'not_a_grid', 'to': (b.get('cell') or a.get('cell'))['k']}
    if len(a['rows']) != len(b['rows']):
        return {'mutation': 'row_count'}
    if a['cols'] != b['cols']:
        return {'mutation': 'col_names'}
    if a['meta'] != b['meta']:
        return {'mutation': 'meta_names'}
    if a['cm'] != b['cm']:
        return {'mutation': 'colmeta_names'}
    for ra, rb in zip(a['rows'], b['rows']):
        for ca, cb in zip(ra, rb):
            if ca != cb:
                if ca['k'] != cb['k']:
                    return {'mutation': 'cell_kind', 'from': ca['k'], 'to': cb['k']}
                if ca['s'] != cb['s']:
                    return {'mutation': 'cell_str' if ca['k'] == 'str' else 'cell_content', 'from': ca['k'],
                            'to': cb['k']}
                if ca['mu'] != cb['mu'] or ca['mu2'] != cb['mu2']:
                    return {'mutation': 'cell_float', 'from': ca['k'], 'to': cb['k']}
    return {'mutation': 'none'}


def observe_grid(gb, g, h):
    return {'g': gb.project(g), 'h': gb.project(h),
            'eq': tok(lambda: g == h), 'req': tok(lambda: h == g),
            'ne': tok(lambda: g != h), 'rne': tok(lambda: h != g)}


def touched_copy(gb, ag):
    """a faithful copy reached through a history: every metadata tag is stored again where it already is (by index and
    relative to its neighbours), every row is replaced by itself"""
    h0 = gb.build(ag)
    if type(h0) is not gb.hs.Grid:
        return h0
    # the constructor copy (column metadata become MetadataObjects)
    h = gb.hs.Grid(version='3.0', metadata=h0.metadata, columns=[(c, list(h0.column[c].items())) for c in h0.column.keys()])
    h.extend(list(h0))
    for m in [h.metadata] + [h.column[c] for c in h.column.keys()]:
        if not hasattr(m, 'add_item'):
            continue
        keys = list(m.keys())
        for i, k in enumerate(keys):
            m.add_item(k, m[k], index=i)
            if i > 0:
                m.add_item(k, m[k], after=True, pos_key=keys[i - 1])
            if i + 1 < len(keys):
                m.add_item(k, m[k], pos_key=keys[i + 1])
    for i in range(len(h)):
        h[i] = h[i]
    return h


def grid_cases(hs, gb, edges):
    """From TLC's mutation edges: (label, abstract g, abstract h, event).  Faithful copies of every
    distinct base grid are added (independent rebuild, deepcopy, the object itself, round trips)."""
    cases = []
    bases = {}
    skipped = {}
    for e in edges:
        ag, ah = norm_grid(e['g']), norm_grid(e['h'])
        bases.setdefault(json.dumps(ag, sort_keys=True), ag)
        g, h = gb.build(ag), gb.build(ah)
        ev = observe_grid(gb, g, h)
        if ev['g'] != ag or ev['h'] != ah:
            raise MachineryError('a built grid does not project back to TLC\'s abstract grid: %r' % (e,))
        cases.append({'variant': 'mutant', 'mut': e['mut'].get('m'), 'exp': e['exp'], 'ag': ag, 'ah': ah, 'ev': ev})
        if any(c['k'] == 'null' for x in (ag, ah) if 'rows' in x for r in x['rows'] for c in r):
            # the same pair with null cells left out of the row dicts (sparse rows: an absent key is a null cell)
            g2 = gb.build(ag, omit_null=True) if 'rows' in ag else g
            h2 = gb.build(ah, omit_null=True) if 'rows' in ah else h
            ev2 = observe_grid(gb, g2, h2)
            if ev2['g'] != ag or ev2['h'] != ah:
                raise MachineryError('a sparse grid does not project back to TLC\'s abstract grid: %r' % (e,))
            cases.append({'variant': 'mutant_sparse', 'mut': e['mut'].get('m'), 'exp': e['exp'], 'ag': ag, 'ah': ah,
                          'ev': ev2})
    for key in sorted(bases):
        ag = bases[key]
        g = gb.build(ag)
        variants = [('self', lambda: g), ('twin', lambda: gb.build(ag, omit_null=True)), ('touched', lambda: touched_copy(gb, ag)),
                    ('deepcopy', lambda: copy.deepcopy(g)),
                    ('zinc', lambda: hs.parse(hs.dump(g, mode=hs.MODE_ZINC), mode=hs.MODE_ZINC)),
                    ('json', lambda: hs.parse(hs.dump(g, mode=hs.MODE_JSON), mode=hs.MODE_JSON))]
        for name, mk in variants:
            try:
                h = mk()
                if type(h) is not hs.Grid:
                    raise ValueError('round trip did not return one grid')
                ev = observe_grid(gb, g, h)
            except MachineryError:
                raise
            except Exception as ex:      # a codec failure is outside C19 (C01/C02 judge the codecs)
                if name in ('zinc', 'json'):
                    skipped[name + ':' + type(ex).__name__] = skipped.get(name + ':' + type(ex).__name__, 0) + 1
                    continue
                raise MachineryError('could not build variant %s: %r' % (name, ex))
            if ev['g'] != ag:
                raise MachineryError('base grid does not project back')
            cases.append({'variant': name, 'mut': 'identity', 'exp': None, 'ag': ag, 'ah': ev['h'], 'ev': ev})
    return cases, len(bases), skipped


# ---------------------------------------------------------------------------
# TLC judge

LINE_RE = re.compile(r'^<<"(REJECT|ACCEPT|DONE)", (.*)>>$')


def parse_tuple(ln):
    body = ln.replace('<<', '[').replace('>>', ']').replace('TRUE', 'true').replace('FALSE', 'false')
    return json.loads(body)


def judge(rep, work, doc, label):
    """Returns {tid: [(l, clause, info1, info2, info3)...]} with an entry for every trace."""
    path = work.path('veq-%s.json' % label)
    with open(path, 'w') as fh:
        json.dump(doc, fh)
    r = run_tlc(work, 'Trace_ValueEq.tla', 'Trace_ValueEq.cfg', workers=8, env={'TRACE_FILE': path})
    rep.tlc('trace-' + label, r)
    if r.invariant_violated:
        raise MachineryError('trace run stopped: %s\n%s' % (r.invariant_violated, r.out[-1500:]))
    verdict, done, counts = {}, {}, {}
    for ln in r.out.split('\n'):
        ln = ln.strip()
        if not LINE_RE.match(ln):
            continue
        try:
            t = parse_tuple(ln)
        except ValueError:
            raise MachineryError('unparsable verdict line %r' % ln[:200])
        if t[0] == 'REJECT':
            verdict.setdefault(t[1], []).append(tuple(t[2:]))
        else:
            done[t[1]] = t[2]
            counts[t[1]] = t[3:]
    for i in range(1, len(doc['traces']) + 1):
        if i not in done:
            raise MachineryError('no verdict for trace %d (%s)\n%s' % (i, label, r.out[-1500:]))
        verdict.setdefault(i, [])
        verdict[i].sort(key=lambda x: (x[0], str(x[1]), str(x[2])))
        if done[i] != len(set(x[0] for x in verdict[i])):
            raise MachineryError('trace %d: DONE says %d rejected events, %d REJECT lines seen' % (
                i, done[i], len(set(x[0] for x in verdict[i]))))
    return verdict, counts


def chunks(seq, n):
    return [seq[i:i + n] for i in range(0, len(seq), n)]


def kinds_of(a, b):
    return '%s/%s' % (a['k'], b['k'])


def run(tier):
    hs = use_repo()
    rep = Report('C19', tier)
    for old in glob.glob(os.path.join(rep.replay_dir, '%s-*.json' % tier)):
        os.remove(old)               # replay files of an earlier run of this tier
    sd = seed()
    gb = GridBinding(hs)
    with Work('c19') as work:
        # (A) laws of the decision table over the abstract catalogue
        r = run_tlc(work, 'MC_ValueEq.tla', 'MC_ValueEq.cfg', workers=6)
        rep.tlc('model-check values', r)
        if r.invariant_violated:
            raise MachineryError('ValueEq.tla violates its own law %s' % r.invariant_violated)
        if r.distinct < 10000:
            raise MachineryError('value model check explored only %d states' % r.distinct)
        # (A)+(B) grid laws, and every mutation edge printed
        gcfg = 'Gen_ValueEq.cfg' if tier == 'quick' else 'Gen_ValueEq_thorough.cfg'
        gr = run_tlc(work, 'MC_ValueEq.tla', gcfg, workers=1)
        rep.tlc('grid laws + mutant generation', gr)
        if gr.invariant_violated:
            raise MachineryError('ValueEq.tla violates its own grid law %s' % gr.invariant_violated)
        edges = [e for e in gr.json_lines() if e.get('t') == 'E']
        if len(edges) != gr.generated - gr.initial or len(edges) < 500:
            raise MachineryError('mutant generation incomplete: %d edges, TLC generated %d' % (
                len(edges), gr.generated - gr.initial))
        if any(e['exp'] != 'F' or e['same'] != 'T' for e in edges):
            raise MachineryError('a generated mutant is not expected unequal')
        mclasses = set(e['mut']['m'] for e in edges)
        want = {'row_add', 'row_del', 'col_rename', 'meta_rename', 'meta_add', 'meta_del', 'cmeta_rename',
                'cell_kind', 'cell_str', 'cell_content', 'cell_float', 'not_a_grid', 'cols_swapped'}
        if mclasses != want:
            raise MachineryError('mutation classes never generated: %r' % sorted(want ^ mclasses))
        rep.extra['mutation_classes'] = {m: sum(1 for e in edges if e['mut']['m'] == m) for m in sorted(want)}

        # (C) the concrete catalogue
        cat = catalogue(hs, tier, sd)
        labels = [l for l, _ in cat]
        vals = [v for _, v in cat]
        if len(set(labels)) != len(labels):
            raise MachineryError('duplicate catalogue label')
        acat = [abs_value(hs, v) for v in vals]
        kinds_present = set(a['k'] for a in acat)
        need = {'null', 'marker', 'na', 'remove', 'bool', 'num', 'qty', 'str', 'uri', 'bin', 'ref', 'xstr', 'date',
                'time', 'dt', 'coord', 'list', 'dict'}
        if kinds_present != need:
            raise MachineryError('catalogue does not cover every kind: %r' % sorted(need ^ kinds_present))
        ptraces, eq = observe_pairs(vals)
        sub = [labels.index(s) + 1 for s in SUBSET]
        rel = [[eq[a - 1][b - 1] for b in sub] for a in sub]
        ttraces = [{'m': 'tri', 'a': a + 1, 'evs': [{'b': b + 1} for b in range(len(sub))]} for a in range(len(sub))]
        straces = [observe_singletons(hs)]
        gcases, nbases, skipped = grid_cases(hs, gb, edges)
        gtraces = [{'m': 'grid', 'evs': [c['ev'] for c in ch]} for ch in chunks(gcases, 50)]
        traces = ptraces + straces + ttraces + gtraces
        doc = {'cat': acat, 'sub': sub, 'rel': rel, 'traces': traces}
        verdict, counts = judge(rep, work, doc, 'all')

        n = len(vals)
        npair = n * n
        rep.traces += npair + len(straces[0]['evs']) + len(gcases)
        # ---- pair verdicts
        found = []       # (class key, features, detail)
        for i in range(n):
            rej = verdict[i + 1]
            by_l = {}
            for x in rej:
                by_l.setdefault(x[0], []).append(x)
            for j in range(n):
                rep.case(('pair', kinds_of(acat[i], acat[j]), ptraces[i]['evs'][j]['eq'], ptraces[i]['evs'][j]['ne']))
                for (_, clause, blame, expected, same_text) in by_l.get(j + 1, []):
                    ev = ptraces[i]['evs'][j]
                    kinds = kinds_of(acat[i], acat[j])
                    f = {'engine': 'valueeq', 'clause': clause, 'kinds': blame, 'nested': blame != kinds,
                         'same_text': bool(same_text), 'expected_eq': expected, 'eq': ev['eq'], 'ne': ev['ne']}
                    if f['nested']:
                        f['container'] = kinds
                    d = {'engine': 'valueeq', 'tier': tier, 'a': labels[i], 'b': labels[j], 'abs_a': acat[i],
                         'abs_b': acat[j], 'observed': ev, 'clause': clause, 'expected_eq': expected}
                    found.append((('valueeq', clause, '/'.join(sorted(blame.split('/'))), f['nested'],
                                   f['same_text']), f, d))
        # ---- singleton verdicts
        base = n
        for x in verdict[base + 1]:
            ev = straces[0]['evs'][x[0] - 1]
            f = {'engine': 'valueeq', 'clause': 'singleton_identity', 'kinds': ev['k']}
            found.append((('valueeq', 'singleton_identity', ev['k']), f, {'engine': 'singleton', 'observed': ev}))
        # ---- transitivity verdicts
        base = n + 1
        for a in range(len(sub)):
            for x in verdict[base + a + 1]:
                b, c = x[0], x[2]
                ia, ib, ic = sub[a] - 1, sub[b - 1] - 1, sub[c - 1] - 1
                ks = '%s/%s/%s' % (acat[ia]['k'], acat[ib]['k'], acat[ic]['k'])
                f = {'engine': 'valueeq', 'clause': 'transitive', 'kinds': ks, 'a_eq_c': x[3]}
                d = {'engine': 'transitive', 'tier': tier, 'a': labels[ia], 'b': labels[ib], 'c': labels[ic],
                     'a_eq_b': rel[a][b - 1], 'b_eq_c': rel[b - 1][c - 1], 'a_eq_c': rel[a][c - 1]}
                found.append((('valueeq', 'transitive', '/'.join(sorted(ks.split('/')))), f, d))
        # ---- grid verdicts
        base = n + 1 + len(sub)
        gchunks = chunks(gcases, 50)
        for t, ch in enumerate(gchunks):
            for x in verdict[base + t + 1]:
                c = ch[x[0] - 1]
                ev = c['ev']
                f = {'engine': 'grideq', 'clause': x[1], 'variant': c['variant']}
                f.update(grid_diff(c['ag'], c['ah']))
                if f['mutation'] == 'none':
                    f['cell_kinds'] = '+'.join(sorted(set(x_['k'] for r_ in c['ag']['rows'] for x_ in r_)))
                f['expected_eq'] = x[3]
                if x[1] == 'raises':
                    side = [k for k in ('eq', 'ne', 'req', 'rne') if ev[k] not in ('T', 'F')]
                    f['exc'] = ev[side[0]]
                    f['raised_by'] = {'eq': 'g==h', 'ne': 'g!=h', 'req': 'h==g', 'rne': 'h!=g'}[side[0]]
                d = {'engine': 'grideq', 'variant': c['variant'], 'g': c['ag'], 'h': c['ah'], 'clause': x[1],
                     'observed': {k: ev[k] for k in ('eq', 'req', 'ne', 'rne')}, 'expected_eq': x[3]}
                ck = ('grideq', x[1], f['mutation'], f.get('exc'), f.get('raised_by')) if x[1] == 'raises' else \
                    ('grideq', x[1], f['mutation'], '/'.join(sorted([f.get('from', ''), f.get('to', '')])))
                found.append((ck, f, d))
        for c in gcases:
            ev = c['ev']
            rep.case(('grid', c['variant'], json.dumps(grid_diff(c['ag'], c['ah']), sort_keys=True), ev['eq'], ev['ne']))

        # ---- vacuity guards (counts computed by TLC, printed with each trace verdict)
        def total(tids, k):
            return sum(counts[t][k] for t in tids)
        ptids = range(1, n + 1)
        ttids = range(n + 2, n + 2 + len(sub))
        gtids = range(n + 2 + len(sub), len(traces) + 1)
        vac = {'pairs_judged': npair,
               'pairs_expected_equal': total(ptids, 0), 'pairs_expected_unequal': total(ptids, 1),
               'pairs_expected_TypeError': total(ptids, 2), 'pairs_unconstrained': total(ptids, 3),
               'hash_pairs_judged': total(ptids, 4),
               'triples_judged': len(sub) ** 3, 'triples_with_both_premises': total(ttids, 0),
               'grid_cases': len(gcases), 'grid_expected_unequal': total(gtids, 1),
               'grid_expected_equal': total(gtids, 0), 'grid_unconstrained': total(gtids, 3),
               'grid_bases': nbases, 'round_trips_skipped': skipped}
        rep.extra['vacuity'] = vac
        floors = {'pairs_expected_equal': n + 60, 'pairs_expected_unequal': 8000, 'pairs_expected_TypeError': 20,
                  'pairs_unconstrained': 4, 'hash_pairs_judged': n // 2, 'triples_with_both_premises': 60,
                  'grid_expected_unequal': 500, 'grid_expected_equal': 100}
        for k, fl in floors.items():
            if vac[k] < fl and not found:
                raise MachineryError('vacuity guard: %s = %d < %d' % (k, vac[k], fl))
        if vac['pairs_expected_equal'] + vac['pairs_expected_unequal'] + vac['pairs_expected_TypeError'] + \
                vac['pairs_unconstrained'] != npair:
            raise MachineryError('TLC judged %d pairs, %d logged' % (
                vac['pairs_expected_equal'] + vac['pairs_expected_unequal'] + vac['pairs_expected_TypeError'] +
                vac['pairs_unconstrained'], npair))
        if vac['grid_expected_unequal'] + vac['grid_expected_equal'] + vac['grid_unconstrained'] != len(gcases):
            raise MachineryError('TLC judged fewer grid cases than logged')

        # ---- binding self-test: corrupt one logged field of an accepted event
        selftest(rep, work, doc, verdict, ptraces, gtraces, n, len(sub))

        # ---- report: first one example of every defect class, then the rest
        classes = {}
        order = []
        for key, f, d in found:
            if key not in classes:
                classes[key] = {'features': f, 'count': 0, 'example': d, 'from_to': set()}
                order.append((key, f, d))
            classes[key]['count'] += 1
            if 'from' in f:
                classes[key]['from_to'].add('%s>%s' % (f['from'], f['to']))
        rep.max_report = max(rep.max_report, len(order))   # a replay file for the first example of every class
        seen_first = set(id(x[2]) for x in order)
        for key, f, d in order + [x for x in found if id(x[2]) not in seen_first]:
            rep.violation(f, d)
        rep.extra['violation_classes'] = [
            {'features': v['features'], 'count': v['count'], 'from_to': sorted(v['from_to']),
             'example': {k: v['example'].get(k) for k in ('a', 'b', 'c', 'observed', 'g', 'h', 'variant')
                         if k in v['example']}}
            for k, v in sorted(classes.items(), key=lambda kv: str(kv[0]))]
        if classes:
            print('C19: %d mismatching observations in %d classes:' % (len(found), len(classes)))
            for k, v in sorted(classes.items(), key=lambda kv: str(kv[0])):
                print('  x%-5d %s%s' % (v['count'], json.dumps(v['features'], sort_keys=True),
                                        ('  [from>to seen: %s]' % ' '.join(sorted(v['from_to'])))
                                        if len(v['from_to']) > 1 else ''))
        rep.sample({'pair': {'a': labels[48], 'b': labels[55], 'observed': ptraces[48]['evs'][55]}})
        rep.sample({'grid_case': {k: gcases[len(gcases) // 3][k] for k in ('variant', 'mut', 'ag', 'ah')}})
        rep.extra['catalogue'] = {'size': n, 'kinds': sorted(kinds_present), 'subset_for_triples': len(sub)}
        rep.extra['grid_mutants'] = {'edges': len(edges), 'bases': nbases, 'copies_and_round_trips': len(gcases) - len(edges)}
    rep.exhaustive = True
    rep.rule = ('values: every ordered pair of the %d-value catalogue (distinct by kinds x observed ==/!=), every '
                'triple of the %d-value subset, copy/deepcopy of the three singletons; grids: every one-position '
                'material mutation TLC enumerates over the base grids (distinct by variant x position class x '
                'outcome), plus self/twin/deepcopy/ZINC/JSON copies of every base' % (n, len(sub)))
    rep.assumptions = [
        'named deviations of ValueEq.tla: BoolIsNumber, QtyIsItsValue, NaNNotReflexive (identity shortcut inside '
        'containers = either), InstantEquality, XStrTypeFree (recorded, not judged)',
        'numbers are compared as exact rationals (fractions.Fraction tokens); grid floats are projected to integer '
        'micro-units with decimal (six decimals), a difference of one unit is not judged',
        'grid version, column order and sub-second parts of times are not material per the property text and are '
        'not mutated', 'default BasicQuantity mode (no pint)']
    return rep.finish()


def selftest(rep, work, doc, verdict, ptraces, gtraces, n, nsub):
    """Corrupt one logged field of an accepted pair event and of an accepted grid event: TLC must
    reject exactly those events."""
    pi = pj = None
    for i in range(n):
        rejected = set(x[0] for x in verdict[i + 1])
        for j in range(n):
            if i != j and (j + 1) not in rejected and ptraces[i]['evs'][j]['eq'] == 'F' and \
                    not any(x[0] == i + 1 for x in verdict[j + 1]):
                pi, pj = i, j
                break
        if pi is not None:
            break
    gt = gl = None
    gbase = n + 1 + nsub
    for t, tr in enumerate(gtraces):
        rejected = set(x[0] for x in verdict[gbase + t + 1])
        for l, ev in enumerate(tr['evs']):
            if (l + 1) not in rejected and ev['eq'] == 'F':
                gt, gl = t, l
                break
        if gt is not None:
            break
    if pi is None or gt is None:
        raise MachineryError('binding self-test: no accepted event to corrupt')
    good_p = {'m': 'pair', 'i': pi + 1, 'evs': [ptraces[pi]['evs'][pj]]}
    bad_p = json.loads(json.dumps(good_p))
    bad_p['evs'][0]['eq'] = 'T'
    good_g = {'m': 'grid', 'evs': [gtraces[gt]['evs'][gl]]}
    bad_g = json.loads(json.dumps(good_g))
    bad_g['evs'][0]['ne'] = 'F'
    d2 = {'cat': doc['cat'], 'sub': doc['sub'], 'rel': doc['rel'], 'traces': [good_p, bad_p, good_g, bad_g]}
    v, _ = judge(rep, work, d2, 'selftest')
    ok = v[1] == [] and v[3] == [] and any(x[1] == 'eq_value' for x in v[2]) and \
        any(x[1] == 'ne_value' for x in v[4])
    rep.extra['binding_selftest'] = {'corrupted': ['pair (%d,%d) eq F->T' % (pi + 1, pj + 1),
                                                   'grid case %d ne T->F' % (gt * 50 + gl + 1)],
                                     'verdicts': {str(k): [list(x[:2]) for x in v[k]] for k in v}, 'ok': ok}
    if not ok:
        raise MachineryError('binding self-test failed: %r' % (v,))


# ---------------------------------------------------------------------------

def replay(path):
    """Re-evaluate exactly the stored case on the real code and let TLC judge it again."""
    hs = use_repo()
    with open(path) as fh:
        d = json.load(fh)
    c = d['case']
    rep = Report('C19', 'quick')
    gb = GridBinding(hs)
    empty = {'cat': [{'k': 'null'}], 'sub': [1], 'rel': [['T']]}
    with Work('c19r') as work:
        if c['engine'] in ('valueeq', 'transitive'):
            cat = catalogue(hs, c.get('tier', 'quick'), d.get('seed', 0))
            labels = [l for l, _ in cat]
            names = [c['a'], c['b']] + ([c['c']] if 'c' in c else [])
            vals = [cat[labels.index(x)][1] for x in names]
            ptraces, eq = observe_pairs(vals)
            doc = {'cat': [abs_value(hs, v) for v in vals], 'sub': list(range(1, len(vals) + 1)), 'rel': eq,
                   'traces': ptraces + [{'m': 'tri', 'a': a + 1, 'evs': [{'b': b + 1} for b in range(len(vals))]}
                                        for a in range(len(vals))]}
            for i, tr in enumerate(ptraces):
                for ev in tr['evs']:
                    print('%s vs %s: == %s  != %s  hash_eq %s' % (names[i], names[ev['j'] - 1], ev['eq'], ev['ne'],
                                                                    ev['heq']))
        elif c['engine'] == 'singleton':
            doc = dict(empty, traces=[observe_singletons(hs)])
        else:
            g = gb.build(c['g'], omit_null=(c['variant'] == 'mutant_sparse'))
            mk = {'mutant': lambda: gb.build(c['h']), 'mutant_sparse': lambda: gb.build(c['h'], omit_null=True),
                  'self': lambda: g,
                  'twin': lambda: gb.build(c['g'], omit_null=True), 'deepcopy': lambda: copy.deepcopy(g),
                  'touched': lambda: touched_copy(gb, c['g']),
                  'zinc': lambda: hs.parse(hs.dump(g, mode=hs.MODE_ZINC), mode=hs.MODE_ZINC),
                  'json': lambda: hs.parse(hs.dump(g, mode=hs.MODE_JSON), mode=hs.MODE_JSON)}[c['variant']]
            ev = observe_grid(gb, g, mk())
            print('g == h: %s   h == g: %s   g != h: %s   h != g: %s' % (ev['eq'], ev['req'], ev['ne'], ev['rne']))
            doc = dict(empty, traces=[{'m': 'grid', 'evs': [ev]}])
        v, _ = judge(rep, work, doc, 'replay')
    bad = sorted(set(x[1] for t in v for x in v[t]))
    print('clauses rejected by TLC: %s' % (bad or 'none'))
    if bad:
        print('VIOLATION property=C19 replay=%s' % path)
        return 1
    print('property holds on this case')
    return 0
