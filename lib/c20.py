# C20 -- a Quantity is numerically transparent (spec/QtyOps.tla).
#  (A) MC_QtyOps.cfg      : TLC follows every protocol path (operator x operand configuration x unit
#                           relation) and checks the refinement invariants, -coverage 1; five deliberately
#                           wrong variants of the machine (Fault) must each be reported violated.
#  (C) Trace_QtyOps.tla   : every operator x configuration x unit spelling x operand pair of the
#                           catalogue is evaluated on the real hszinc.Quantity and on the unwrapped
#                           numbers; both outcomes are logged as ASCII tokens and TLC decides.
# Python holds no model: it evaluates expressions, renders outcomes as tokens, and reads verdicts.
# The expected outcome (raw token / unit-mismatch override), the unit relation and the clause are
# computed by TLC from QtyOps' protocol machine.
import json
import operator
import os
import random
import signal
import sys
import threading
import types
import warnings

from core import (Report, Work, run_tlc, use_repo, seed, MachineryError, SPEC)

INF = float('inf')
CATALOGUE = [0, 1, -1, 2, 7, -3, 2 ** 53 + 1, 10 ** 30, 0.5, -2.5, 1e308, 5e-324, INF, -INF,
             float('nan'), True, False]
# thorough tier: fixed additions to the catalogue besides the seeded random operands
EXTRA_FIXED = [-0.0, 0.1, 3.0, 2 ** 31, -2 ** 31, 2 ** 63, -2 ** 63 - 1, 2 ** 64, 1e16, -1e-300, 64, 4096]
MODULI = [5, -3, 1, 0, 10 ** 30, 2.0]
CHUNK = int(os.environ.get('C20_CHUNK', '64'))

ARITH = ['add', 'sub', 'mul', 'truediv', 'floordiv', 'mod', 'divmod', 'pow', 'lshift', 'rshift',
         'and', 'xor', 'or']
CMP = ['lt', 'le', 'eq', 'ne', 'ge', 'gt']
INPLACE = ['iadd', 'isub', 'imul', 'itruediv', 'ifloordiv', 'imod', 'ipow', 'ilshift', 'irshift',
           'iand', 'ixor', 'ior']
UNARY = ['neg', 'pos', 'abs', 'invert']
CONV = ['int', 'float', 'complex', 'index']

FN = {
    'add': operator.add, 'sub': operator.sub, 'mul': operator.mul, 'truediv': operator.truediv,
    'floordiv': operator.floordiv, 'mod': operator.mod, 'divmod': divmod, 'pow': lambda a, b: pow(a, b),
    'lshift': operator.lshift, 'rshift': operator.rshift, 'and': operator.and_, 'xor': operator.xor,
    'or': operator.or_,
    'lt': operator.lt, 'le': operator.le, 'eq': operator.eq, 'ne': operator.ne, 'ge': operator.ge,
    'gt': operator.gt,
    'pow3': lambda a, b, m: pow(a, b, m),
    'iadd': operator.iadd, 'isub': operator.isub, 'imul': operator.imul, 'itruediv': operator.itruediv,
    'ifloordiv': operator.ifloordiv, 'imod': operator.imod, 'ipow': operator.ipow,
    'ilshift': operator.ilshift, 'irshift': operator.irshift, 'iand': operator.iand,
    'ixor': operator.ixor, 'ior': operator.ior,
    'neg': operator.neg, 'pos': operator.pos, 'abs': abs, 'invert': operator.invert,
    'int': int, 'float': float, 'complex': complex, 'index': operator.index,
}

# unit spellings per operand configuration: (cfg, ul, ur); "-" = plain number, "none" = unit None
VARIANTS_ALL = [('QN', 'kW', '-'), ('QN', 'none', '-'), ('NQ', '-', 'kW'), ('NQ', '-', 'none'),
                ('QQ', 'kW', 'kW'), ('QQ', 'none', 'none'), ('QQ', 'kW', 'degC'), ('QQ', 'kW', 'none'),
                ('QQ', 'none', 'kW')]
VARIANTS_SLIM = [('QN', 'kW', '-'), ('NQ', '-', 'kW'), ('QQ', 'kW', 'kW'), ('QQ', 'kW', 'degC')]
VARIANTS_ONE = [('Q', 'kW', '-'), ('Q', 'none', '-')]

# label carried in the event; TLC re-derives the relation from ul/ur and rejects a wrong label
LABEL = {('kW', 'kW'): 'same', ('none', 'none'): 'same', ('kW', 'degC'): 'diff', ('kW', 'none'): 'diff',
         ('none', 'kW'): 'diff'}


def label_of(cfg, ul, ur):
    return LABEL[(ul, ur)] if cfg == 'QQ' else 'na'


def fresh_unit(name):
    """A new, non-interned str object per Quantity ('is' on units must not pass for equal units)."""
    if name == 'none':
        return None
    return ''.join(list(name))


def is_int(x):
    return isinstance(x, int)          # bool included


def feasible(op, a, b):
    """Size guard of the harness (not a judgement): results that cannot be materialised are skipped
    -- integer powers with a large exponent and left shifts by a large count.  The guard is
    symmetric in the operands so that an implementation that swaps them cannot hang the harness."""
    if not (is_int(a) and is_int(b)):
        return True
    if op in ('pow', 'ipow'):
        return not ((abs(a) >= 2 and b > 64) or (abs(b) >= 2 and a > 64))
    if op in ('lshift', 'ilshift'):
        return not ((a != 0 and b > 4096) or (b != 0 and a > 4096))
    return True


def enc(x):
    """operand -> JSON-safe description (replay files)."""
    if isinstance(x, bool):
        return {'t': 'bool', 'v': repr(x)}
    if isinstance(x, int):
        return {'t': 'int', 'v': str(x)}
    if isinstance(x, float):
        return {'t': 'float', 'v': x.hex(), 'repr': repr(x)}
    raise MachineryError('operand %r' % (x,))


def dec(d):
    if d['t'] == 'bool':
        return d['v'] == 'True'
    if d['t'] == 'int':
        return int(d['v'])
    return float.fromhex(d['v'])


class EvaluationTimeout(Exception):
    """Raised by the watchdog inside an evaluation that burns more than LIMIT_S of CPU."""


LIMIT_S = 0.5          # every legitimate evaluation takes microseconds (see feasible())
MAX_TIMEOUTS_PER_OP = 30
TIMEOUTS = {}


def _on_timer(signum, frame):
    raise EvaluationTimeout()


def watchdog(on):
    """A defective Quantity (e.g. pow ignoring its modulus) can turn a cheap expression into an
    astronomically large one; CPython's big-integer loops poll for signals, so a CPU-time alarm
    turns such an evaluation into the outcome token E:EvaluationTimeout instead of a hung check."""
    signal.signal(signal.SIGVTALRM, _on_timer if on else signal.SIG_DFL)


def token(thunk):
    """Outcome of an evaluation as an ASCII token: V:<type name>:<repr> or E:<exception class>."""
    try:
        with warnings.catch_warnings():
            warnings.simplefilter('ignore')
            signal.setitimer(signal.ITIMER_VIRTUAL, LIMIT_S)
            try:
                v = thunk()
            finally:
                signal.setitimer(signal.ITIMER_VIRTUAL, 0)
    except Exception as e:           # noqa -- the class of any exception is the observation
        return 'E:' + type(e).__name__
    try:
        r = repr(v)
    except Exception as e:           # noqa
        r = '<repr raised %s>' % type(e).__name__
    return ('V:%s:%s' % (type(v).__name__, r)).encode('ascii', 'backslashreplace').decode('ascii')


class Driver(object):
    """Builds the wrapped and the raw expression for one event and evaluates both on the real code."""

    def __init__(self, hs):
        self.Q = hs.Quantity
        import hszinc.datatypes as dt
        self.codes = set()
        for cls in (dt.Qty, dt.BasicQuantity):
            for v in vars(cls).values():
                if isinstance(v, types.FunctionType):
                    self.codes.add(v.__code__)

    def operands(self, cfg, ul, ur, a, b, same=False):
        x = self.Q(a, fresh_unit(ul)) if cfg in ('QN', 'QQ', 'Q') else a
        if same:
            return x, x          # one Quantity object on both sides (q == q, q - q ...)
        y = self.Q(b, fresh_unit(ur)) if cfg in ('NQ', 'QQ') else b
        return x, y

    def raw(self, op, a, b=None, m=None):
        f = FN[op]
        if op == 'pow3':
            t = token(lambda: f(a, b, m))
        elif op in UNARY or op in CONV:
            t = token(lambda: f(a))
        else:
            t = token(lambda: f(a, b))
        if t == 'E:EvaluationTimeout':
            raise MachineryError('raw evaluation %s(%r, %r, %r) exceeded %.1fs: size guard insufficient'
                                 % (op, a, b, m, LIMIT_S))
        return t

    def wrapped(self, op, cfg, ul, ur, a, b=None, m=None, same=False):
        f = FN[op]
        x, y = self.operands(cfg, ul, ur, a, b, same)
        if op == 'pow3':
            t = token(lambda: f(x, y, m))
        elif op in UNARY or op in CONV:
            t = token(lambda: f(x))
        else:
            t = token(lambda: f(x, y))
        if t == 'E:EvaluationTimeout':
            TIMEOUTS[op] = TIMEOUTS.get(op, 0) + 1
        return t

    def path(self, op, cfg, ul, ur, a, b=None, m=None):
        """Quantity methods entered directly by the interpreter while evaluating the expression."""
        f = FN[op]
        x, y = self.operands(cfg, ul, ur, a, b)
        codes = self.codes
        seen = []

        def prof(frame, event, arg):
            if event == 'call' and frame.f_code in codes:
                back = frame.f_back
                if back is None or back.f_code not in codes:
                    seen.append(frame.f_code.co_name)

        if op == 'pow3':
            thunk = lambda: f(x, y, m)      # noqa
        elif op in UNARY or op in CONV:
            thunk = lambda: f(x)            # noqa
        else:
            thunk = lambda: f(x, y)         # noqa
        sys.setprofile(prof)
        try:
            token(thunk)
        finally:
            sys.setprofile(None)
        return seen


def random_operands(rng, n):
    out = []
    for k in range(n):
        c = k % 10
        if c == 0:
            out.append(rng.randint(-20, 20))
        elif c == 1:
            out.append(rng.randint(-2 ** 31, 2 ** 31))
        elif c == 2:
            out.append(rng.choice([2 ** 63, 2 ** 53, 2 ** 31, 2 ** 64]) * rng.choice([1, -1]) + rng.randint(-2, 2))
        elif c == 3:
            out.append(rng.randint(10 ** 18, 10 ** 40) * rng.choice([1, -1]))
        elif c == 4:
            out.append(rng.randint(0, 64))
        elif c == 5:
            out.append(rng.uniform(-10, 10))
        elif c == 6:
            out.append(rng.choice([1, -1]) * 10.0 ** rng.uniform(-300, 300))
        elif c == 7:
            out.append(float(rng.randint(-1000, 1000)))
        elif c == 8:
            out.append(rng.choice([1, -1]) * rng.randint(1, 2 ** 20) * 5e-324)
        else:
            out.append(float(2 ** 53) + rng.randint(-4, 4) * 2.0)
    return out


def build(tier, drv, rng):
    """-> (operands, traces, info).  A trace is a list of events; events are independent."""
    ops = list(CATALOGUE)
    n0 = len(ops)
    pairs = [(i, j) for i in range(n0) for j in range(n0)]
    slim_pairs = []
    if tier == 'thorough':
        ops += EXTRA_FIXED + random_operands(rng, 200)
        for r in range(n0, len(ops)):
            for c in range(n0):
                slim_pairs.append((r, c))
                slim_pairs.append((c, r))
            for _ in range(3):
                slim_pairs.append((r, rng.randrange(n0, len(ops))))
            slim_pairs.append((r, r))
    traces = []
    skipped = 0
    stats = {'raw_tokens': set(), 'raw_exc': 0}

    def chunked(evs):
        # TLC carries the current trace in every state it queues: keep traces short
        for c in range(0, len(evs), CHUNK):
            traces.append(evs[c:c + CHUNK])

    def two_sided(op, plist, variants, mods):
        nonlocal skipped
        evs = {v: [] for v in variants}
        for (i, j) in plist:
            a, b = ops[i], ops[j]
            if not feasible(op, a, b):
                skipped += 1
                continue
            if TIMEOUTS.get(op, 0) >= MAX_TIMEOUTS_PER_OP:
                break       # defective tree: enough evidence for this operator, keep the check finite
            for k in mods:
                m = MODULI[k - 1] if k else None
                raw = drv.raw(op, a, b, m)
                stats['raw_tokens'].add((op, raw))
                stats['raw_exc'] += raw.startswith('E:')
                for v in variants:
                    cfg, ul, ur = v
                    evs[v].append({'t': 'o', 'op': op, 'cfg': cfg, 'ul': ul, 'ur': ur,
                                   'units': label_of(cfg, ul, ur),
                                   'wrapped': drv.wrapped(op, cfg, ul, ur, a, b, m), 'raw': raw,
                                   'i': i, 'j': j, 'k': k})
                # the same Quantity object on both sides: what the number gives against itself
                if i == j and ('QQ', 'kW', 'kW') in variants:
                    for v in (('QQ', 'kW', 'kW'), ('QQ', 'none', 'none')):
                        if v in variants:
                            evs[v].append({'t': 'o', 'op': op, 'cfg': v[0], 'ul': v[1], 'ur': v[2], 'units': 'same',
                                           'wrapped': drv.wrapped(op, v[0], v[1], v[2], a, a, m, same=True),
                                           'raw': raw, 'i': i, 'j': j, 'k': k, 'same': 1})
        for v in variants:
            chunked(evs[v])

    for op in ARITH + CMP + INPLACE:
        two_sided(op, pairs, VARIANTS_ALL, [0])
        if slim_pairs:
            two_sided(op, slim_pairs, VARIANTS_SLIM, [0])
    # pow(Q, x, m): Quantity on the left (x a number or a Quantity); pow(n, Q, m) is outside the claim
    v3 = [v for v in VARIANTS_ALL if v[0] != 'NQ']
    two_sided('pow3', pairs, v3, list(range(1, len(MODULI) + 1)))
    if slim_pairs:
        two_sided('pow3', slim_pairs, [v for v in VARIANTS_SLIM if v[0] != 'NQ'], [1, 2, 5])
    for op in UNARY + CONV:
        for v in VARIANTS_ONE:
            cfg, ul, ur = v
            evs = []
            for i, a in enumerate(ops):
                raw = drv.raw(op, a)
                stats['raw_tokens'].add((op, raw))
                stats['raw_exc'] += raw.startswith('E:')
                evs.append({'t': 'o', 'op': op, 'cfg': cfg, 'ul': ul, 'ur': ur, 'units': 'na',
                            'wrapped': drv.wrapped(op, cfg, ul, ur, a), 'raw': raw, 'i': i, 'j': 0, 'k': 0})
            chunked(evs)
    # dispatch observations: one benign operand pair per operator x configuration x unit spelling
    disp = []
    for op in ARITH + CMP + INPLACE + ['pow3']:
        for (cfg, ul, ur) in (v3 if op == 'pow3' else VARIANTS_ALL):
            m = 5 if op == 'pow3' else None
            disp.append({'t': 'd', 'op': op, 'cfg': cfg, 'ul': ul, 'ur': ur, 'units': label_of(cfg, ul, ur),
                         'path': drv.path(op, cfg, ul, ur, 7, 2, m), 'i': 4, 'j': 3, 'k': 1 if m else 0})
    for op in UNARY + CONV:
        for (cfg, ul, ur) in VARIANTS_ONE:
            disp.append({'t': 'd', 'op': op, 'cfg': cfg, 'ul': ul, 'ur': ur, 'units': 'na',
                         'path': drv.path(op, cfg, ul, ur, 7), 'i': 4, 'j': 0, 'k': 0})
    traces.append(disp)
    info = {'operands': len(ops), 'catalogue_pairs': len(pairs), 'extra_pairs': len(slim_pairs),
            'skipped_infeasible': skipped, 'distinct_raw_outcomes': len(stats['raw_tokens']),
            'raw_exception_evaluations': stats['raw_exc'], 'evaluation_timeouts': dict(TIMEOUTS)}
    return ops, traces, info


def parse_verdicts(out):
    """-> (rejects {(tid, l): clause}, finals {tid: (kind, nrej, judged, novr, nexc)})"""
    rej, fin = {}, {}
    for ln in out.split('\n'):
        ln = ln.strip()
        if not (ln.startswith('<<"') and ln.endswith('>>')):
            continue
        parts = [p.strip(' <>"') for p in ln.split(',')]
        if parts[0] == 'REJECT' and len(parts) == 4:
            rej[(int(parts[1]), int(parts[2]))] = parts[3]
        elif parts[0] in ('ACCEPT', 'DONE') and len(parts) == 6:
            fin[int(parts[1])] = (parts[0],) + tuple(int(x) for x in parts[2:])
    return rej, fin


def judge(rep, work, traces, label, workers=None):
    """Let TLC judge a list of traces; returns ({(trace index0, event index0): clause}, counters)."""
    path = work.path('qty-%s.json' % label)
    with open(path, 'w') as f:
        json.dump(traces, f, separators=(',', ':'))
    r = run_tlc(work, 'Trace_QtyOps.tla', 'Trace_QtyOps.cfg', workers=workers or 8,
                env={'TRACE_FILE': path}, xmx='6g')
    os.unlink(path)
    if r.invariant_violated:
        raise MachineryError('Trace_QtyOps: machine invariant %s violated while judging\n%s'
                             % (r.invariant_violated, r.out[-1500:]))
    if 'Model checking completed' not in r.out:
        raise MachineryError('Trace_QtyOps did not complete (%s)\n%s' % (label, r.out[-1500:]))
    rej, fin = parse_verdicts(r.out)
    tot = {'judged': 0, 'rejected': 0, 'override': 0, 'expected_exception': 0}
    for t in range(1, len(traces) + 1):
        if t not in fin:
            raise MachineryError('no verdict for trace %d (%s)\n%s' % (t, label, r.out[-1500:]))
        kind, nrej, judged, novr, nexc = fin[t]
        mine = [k for k in rej if k[0] == t]
        if judged != len(traces[t - 1]) or nrej != len(mine) or (kind == 'ACCEPT') != (nrej == 0):
            raise MachineryError('verdict lines inconsistent for trace %d (%s): %r, %d REJECT lines, %d events'
                                 % (t, label, fin[t], len(mine), len(traces[t - 1])))
        tot['judged'] += judged
        tot['rejected'] += nrej
        tot['override'] += novr
        tot['expected_exception'] += nexc
    return r, {(t - 1, l - 1): c for (t, l), c in rej.items()}, tot


def judge_sharded(rep, work, traces, label, max_events=120000, par=4):
    """Split the traces into shards of bounded size, judged by concurrent TLC runs."""
    shards, cur, n = [], [], 0
    for idx, tr in enumerate(traces):
        if cur and n + len(tr) > max_events:
            shards.append(cur)
            cur, n = [], 0
        cur.append(idx)
        n += len(tr)
    if cur:
        shards.append(cur)
    results = [None] * len(shards)
    errors = []
    sem = threading.Semaphore(par)

    def work_one(si):
        with sem:
            try:
                results[si] = judge(rep, work, [traces[i] for i in shards[si]], '%s-%d' % (label, si),
                                    workers=max(2, 16 // par))
            except BaseException as e:    # noqa -- re-raised in the main thread
                errors.append(e)

    th = [threading.Thread(target=work_one, args=(si,)) for si in range(len(shards))]
    for t in th:
        t.start()
    for t in th:
        t.join()
    if errors:
        raise errors[0]
    rej, tot = {}, {'judged': 0, 'rejected': 0, 'override': 0, 'expected_exception': 0}
    for si, (r, rj, tt) in enumerate(results):
        rep.tlc('judge-%s-%d' % (label, si), r)
        for (t, l), c in rj.items():
            rej[(shards[si][t], l)] = c
        for k in tot:
            tot[k] += tt[k]
    return rej, tot, len(shards)


def kind_of(tok):
    """token -> coarse class for the feature record: E:<class> or V:<type>"""
    p = tok.split(':')
    return ':'.join(p[:2])


def features(ev, clause, ops):
    typ = [type(ops[ev['i']]).__name__]
    if ev['cfg'] != 'Q':
        typ.append(type(ops[ev['j']]).__name__)
    if ev['k']:
        typ.append(type(MODULI[ev['k'] - 1]).__name__)
    f = {'engine': 'qty-trace', 'op': ev['op'], 'cfg': ev['cfg'], 'clause': clause,
         'operand_types': ','.join(typ), 'units': ev['units']}
    if ev['t'] == 'o':
        f['raw_kind'] = kind_of(ev['raw'])
        f['wrapped_kind'] = kind_of(ev['wrapped'])
    return f


def detail(ev, clause, ops):
    d = {'event': ev, 'clause': clause, 'left': enc(ops[ev['i']])}
    if ev['cfg'] != 'Q':
        d['right'] = enc(ops[ev['j']])
    if ev['k']:
        d['modulus'] = enc(MODULI[ev['k'] - 1])
    return d


MC_FAULTS = {
    'swap_reflected': {'OperandOrderPreserved', 'Refinement'},
    'no_unwrap': {'AlwaysUnwrapped', 'Refinement'},
    'no_unit_check': {'ComparisonUnitRule', 'Refinement'},
    'unit_check_all': {'ComparisonUnitRule', 'Refinement', 'EndsInApplyOrRaise'},
    'mirror_lost': {'OperandOrderPreserved', 'Refinement'},
}
ACTIONS = ['InplaceFallback', 'CallForward', 'QtyForward', 'RaiseUnitMismatch', 'ForwardNotImplemented',
           'CallReflected', 'TernaryNoReflected', 'Apply', 'Raise']


def model_check(rep, work):
    """(A): the protocol machine satisfies the refinement; every action taken; faulty machines caught."""
    out = {}
    errors = []

    def main():
        try:
            out['mc'] = run_tlc(work, 'MC_QtyOps.tla', 'MC_QtyOps.cfg', workers=2, coverage=True, xmx='1g')
        except BaseException as e:      # noqa
            errors.append(e)

    def fault(name):
        try:
            cfg = work.path('MC_QtyOps_%s.cfg' % name)
            with open(os.path.join(SPEC, 'MC_QtyOps.cfg')) as f:
                text = f.read()
            if 'Fault = "none"' not in text:
                raise MachineryError('MC_QtyOps.cfg: Fault constant not found')
            with open(cfg, 'w') as f:
                f.write(text.replace('Fault = "none"', 'Fault = "%s"' % name))
            out[name] = run_tlc(work, 'MC_QtyOps.tla', cfg, workers=1, xmx='1g')
        except BaseException as e:      # noqa
            errors.append(e)

    th = [threading.Thread(target=main)] + [threading.Thread(target=fault, args=(n,)) for n in MC_FAULTS]
    for t in th:
        t.start()
    for t in th:
        t.join()
    if errors:
        raise errors[0]
    r = out['mc']
    rep.tlc('model-check', r)
    if r.invariant_violated or 'is violated' in r.out:
        raise MachineryError('QtyOps.tla violates its own property %s\n%s' % (r.invariant_violated, r.out[-1500:]))
    if 'Model checking completed. No error has been found' not in r.out:
        raise MachineryError('MC_QtyOps did not complete\n%s' % r.out[-1500:])
    cov = {a: r.coverage.get(a, 0) for a in ACTIONS}
    never = [a for a, n in cov.items() if n == 0]
    if never:
        raise MachineryError('MC_QtyOps: actions never taken: %s' % never)
    rep.extra['action_coverage'] = cov
    cfgline = [ln for ln in r.out.split('\n') if ln.startswith('<<"CONFIGS"')]
    if not cfgline:
        raise MachineryError('MC_QtyOps: CONFIGS line missing')
    nums = [int(x.strip(' <>')) for x in cfgline[0].split(',')[1:]]
    rep.extra['protocol_paths'] = {'configurations': nums[0], 'claimed': nums[1], 'unit_override': nums[2],
                                   'initial_states': r.initial}
    if r.initial != nums[0] or nums[0] < 130:
        raise MachineryError('MC_QtyOps: %d initial states for %d configurations' % (r.initial, nums[0]))
    sens = {}
    for name, allowed in MC_FAULTS.items():
        fr = out[name]
        rep.tlc('model-check-fault-' + name, fr)
        sens[name] = fr.invariant_violated
        if fr.invariant_violated not in allowed:
            raise MachineryError('faulty machine %s was not caught (violated: %r)' % (name, fr.invariant_violated))
    rep.extra['invariant_sensitivity'] = sens


def selftest_binding(rep, work, traces, rej):
    """Corrupt single logged fields of accepted events; TLC must reject exactly those."""
    flat = [e for ti, tr in enumerate(traces) for li, e in enumerate(tr)
            if e['t'] == 'o' and (ti, li) not in rej and e['raw'].startswith('V:')]

    def pick(pred, what):
        for e in flat:
            if pred(e):
                return e
        raise MachineryError('binding self-test: no accepted %s event to corrupt' % what)

    def pick_opt(pred):
        for e in flat:
            if pred(e):
                return e
        return None

    # on a defective tree whole classes of events may be rejected: corrupt what was accepted
    g1 = pick_opt(lambda e: e['op'] in ARITH and e['cfg'] == 'NQ') or pick(lambda e: True, 'outcome')
    g2 = pick_opt(lambda e: e['op'] in CMP and e['cfg'] == 'QQ' and e['units'] == 'same' and e['ul'] == 'kW') \
        or pick_opt(lambda e: e['op'] in CMP and e['cfg'] == 'QQ' and e['units'] == 'same')
    g3 = pick_opt(lambda e: e['op'] in UNARY)
    tr, want = [], {}

    def add(ev, clause=None):
        tr.append(ev)
        if clause:
            want[(0, len(tr) - 1)] = clause

    add(g1)
    add(dict(g1, wrapped=g1['wrapped'] + '0'), CLAUSE_OF(g1))        # another value
    add(dict(g1, raw=g1['raw'] + '0'), CLAUSE_OF(g1))                # the other side of the comparison
    if g2:
        add(g2)
        add(dict(g2, ur='degC', units='diff'), 'unit_mismatch_rule')  # units now differ, outcome still a value
        add(dict(g2, units='diff'), 'bad_event')                      # label contradicts ul/ur
    if g3:
        add(g3)
        add(dict(g3, wrapped='E:TypeError'), 'unary_outcome')
    r, rej2, tot = judge(rep, work, [tr], 'selftest', workers=2)
    rep.tlc('judge-selftest', r)
    ok = rej2 == want
    rep.extra['binding_selftest'] = {'corrupted_events': sorted(l + 1 for (_, l) in want),
                                     'rejected': sorted([l + 1, c] for (_, l), c in rej2.items()), 'ok': ok}
    if not ok:
        raise MachineryError('binding self-test failed: wanted %r, got %r' % (want, rej2))


def CLAUSE_OF(ev):
    """Name of the clause TLC is expected to print for a corrupted event of this operator class
    (self-test only; the clause of a real rejection is always the one TLC printed)."""
    op = ev['op']
    return ('comparison_outcome' if op in CMP else 'binary_outcome' if op in ARITH else
            'ternary_outcome' if op == 'pow3' else 'inplace_outcome' if op in INPLACE else
            'unary_outcome' if op in UNARY else 'index_outcome' if op == 'index' else 'conversion_outcome')


def run(tier):
    hs = use_repo()
    try:
        sys.set_int_max_str_digits(0)
    except AttributeError:      # pragma: no cover
        pass
    rep = Report('C20', tier)
    drv = Driver(hs)
    rng = random.Random(seed() * 7919 + 20)
    import hszinc.datatypes as dt
    if dt.MODE_PINT or type(hs.Quantity(1, 'kW')).__name__ != 'BasicQuantity':
        raise MachineryError('C20 runs with the default BasicQuantity only')
    with Work('c20') as work:
        model_check(rep, work)
        watchdog(True)
        try:
            ops, traces, info = build(tier, drv, rng)
        finally:
            watchdog(False)
        nev = sum(len(t) for t in traces)
        rej, tot, nshards = judge_sharded(rep, work, traces, tier,
                                          max_events=60000 if tier == 'quick' else 150000,
                                          par=4 if tier == 'quick' else 6)
        if tot['judged'] != nev:
            raise MachineryError('TLC judged %d of %d events' % (tot['judged'], nev))
        rep.traces += nev
        divergences = []
        rejected = []
        nontrivial = 0
        for ti, tr in enumerate(traces):
            for li, ev in enumerate(tr):
                key = (ev['t'], ev['op'], ev['cfg'], ev['ul'], ev['ur'], ev['i'], ev['j'], ev['k'])
                nt = ev['t'] == 'o' and (not ev['raw'].startswith('E:TypeError') or ev['units'] == 'diff')
                nontrivial += nt
                rep.case(key, nontrivial=nt)
                c = rej.get((ti, li))
                if c is None:
                    continue
                if c == 'bad_event':
                    raise MachineryError('TLC found a malformed event: %r' % (ev,))
                if c == 'dispatch_path':
                    divergences.append({'op': ev['op'], 'cfg': ev['cfg'], 'ul': ev['ul'], 'ur': ev['ur'],
                                        'observed': ev['path']})
                    continue
                rejected.append((features(ev, c, ops), detail(ev, c, ops)))
        # one representative of every distinct feature record first (replay files are written for
        # the first rep.max_report violations only), then the rest
        classes, first, rest = {}, [], []
        for f, d in rejected:
            k = json.dumps(f, sort_keys=True)
            classes[k] = classes.get(k, 0) + 1
            (first if classes[k] == 1 else rest).append((f, d))
        for f, d in first + rest:
            rep.violation(f, d)
        rep.extra['violation_classes'] = [dict(json.loads(k), count=n) for k, n in sorted(classes.items())]
        ndisp = len(traces[-1])
        rep.extra['events'] = dict(info, events=nev, dispatch_events=ndisp, shards=nshards,
                                   judged_by_tlc=tot['judged'], rejected_by_tlc=tot['rejected'],
                                   unit_override_events=tot['override'],
                                   expected_exception_events=tot['expected_exception'],
                                   nontrivial_events=nontrivial)
        rep.extra['dispatch_model'] = {'observed_configurations': ndisp, 'divergences': divergences[:20],
                                       'divergence_count': len(divergences)}
        for d in divergences[:5]:
            print('NOTE C20: dispatch path observed on the code differs from the protocol model '
                  '(not a violation by itself): %s' % json.dumps(d))
        # vacuity guards
        floor_ev = 60000 if tier == 'quick' else 600000
        broken = any(n >= MAX_TIMEOUTS_PER_OP for n in TIMEOUTS.values())
        if broken and not rep.violations and not rep.known:
            raise MachineryError('evaluations timed out but nothing was rejected: %r' % (TIMEOUTS,))
        if not broken and (nev < floor_ev or nontrivial < floor_ev // 3 or tot['override'] < 5000 \
                or tot['expected_exception'] < 10000 or info['distinct_raw_outcomes'] < 1000 or ndisp < 280):
            raise MachineryError('vacuity guard: %r' % (rep.extra['events'],))
        mid = traces[len(traces) // 3]
        rep.sample({'event': mid[len(mid) // 2]})
        rep.sample({'event': next(e for e in traces[-2] if True)})
        rep.sample({'dispatch': traces[-1][2]})
        selftest_binding(rep, work, traces, rej)
    rep.rule = ('one evaluation of the real hszinc.Quantity per operator x operand configuration x unit spelling '
                'x operand pair (x modulus); distinct by (op, cfg, units, operand indices); non-trivial = raw outcome '
                'is a value or a non-TypeError exception, or the unit override applies')
    rep.exhaustive = True
    rep.assumptions = [
        "the arithmetic is Python's own on both sides (DESIGN section 6 (d)); TLC decides token equality, the unit "
        "relation, the override and the protocol path",
        'default BasicQuantity only (pint mode out of scope)',
        'pow(number, Quantity, modulus) is outside the claim: three-argument pow never dispatches to __rpow__ '
        '(Python < 3.14), no class can support it; the modulus itself is a plain number',
        'size guard: int ** int with |base| >= 2 and exponent > 64, and non-zero int << count > 4096 are not evaluated '
        '(in either operand order, so that a swapped implementation cannot hang the harness)',
        'bool(), hash(), round(), math.floor/ceil/trunc, str/repr are not claimed by the property',
    ]
    return rep.finish()


def replay(path):
    """Re-evaluate the stored event on the real code and let TLC judge it again."""
    hs = use_repo()
    try:
        sys.set_int_max_str_digits(0)
    except AttributeError:      # pragma: no cover
        pass
    drv = Driver(hs)
    with open(path) as f:
        d = json.load(f)
    c = d['case']
    ev = dict(c['event'])
    a = dec(c['left'])
    b = dec(c['right']) if 'right' in c else None
    m = dec(c['modulus']) if 'modulus' in c else None
    watchdog(True)
    try:
        if ev.get('same'):
            b = a                  # the same object on both sides
        ev['raw'] = drv.raw(ev['op'], a, b, m)
        ev['wrapped'] = drv.wrapped(ev['op'], ev['cfg'], ev['ul'], ev['ur'], a, b, m, same=bool(ev.get('same')))
    finally:
        watchdog(False)
    rep = Report('C20', 'quick')
    with Work('c20r') as work:
        r, rej, tot = judge(rep, work, [[ev]], 'replay', workers=1)
    print('expression : %s  cfg=%s units=%s/%s  operands=%r %r %r' % (ev['op'], ev['cfg'], ev['ul'], ev['ur'], a, b, m))
    print('wrapped    : %s' % ev['wrapped'])
    print('raw        : %s' % ev['raw'])
    if rej:
        print('TLC        : REJECT %s' % list(rej.values())[0])
        print('VIOLATION property=C20 replay=%s' % path)
        return 1
    print('TLC        : ACCEPT -- property holds on this case')
    return 0
