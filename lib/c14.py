# C14: see gridseq.py (shared GridSeq engine) and DESIGN.md
import gridseq


def run(tier):
    return gridseq.run_property('C14', tier)


def replay(path):
    return gridseq.replay('C14', path)
