# C13 -- a filter's result is independent of other filters, earlier or concurrent.
#  (A) FilterCache.tla model-checked: Atomic = TRUE (what the code must do) holds for 2 threads
#      (thorough: 3 threads); Atomic = FALSE is checked too and must produce the known
#      counterexample (documentation of why the allocation has to be one step).
#  (C) real threads under a deterministic scheduler (lib/sched.py): every schedule with <= 2
#      pre-emptions at source-line granularity inside grid_filter.py / Grid.filter (3 threads and
#      3 pre-emptions sampled); each execution's abstract-state trace is validated by TLC against
#      Trace_FilterCache.tla (unlogged LRU/counter/wrapper lifetimes chosen by the spec).
#      Sequential histories of ~1500 filters around the real capacity (500) are validated the same
#      way with K = 500.
import functools
import gc
import json
import multiprocessing
import random
import re

from core import Report, Work, run_tlc, use_repo, seed, MachineryError, NCPU
from sched import Scheduler

TRACED = {('hszinc/grid_filter.py', '_filter_function'), ('hszinc/grid_filter.py', 'filter_function'),
          ('hszinc/grid_filter.py', '__init__'), ('hszinc/grid_filter.py', 'get'),
          ('hszinc/grid_filter.py', '__del__'), ('hszinc/grid.py', 'filter')}
NAME_RE = re.compile(r'^_gen_hsfilter_(\d+)$')
# filters of the concurrent scenarios: distinct tags, two of them differing only by case; each carries a literal
# of its own (literals travel from the parser to the generated function by another route than the names do)
FILTERS = {1: 'ta and x == 1', 2: 'tb and x == 2', 3: 'tA and x == 3', 4: 'tc and x == 4'}


class World(object):
    def __init__(self, hs, k):
        import hszinc.grid_filter as gf
        self.hs, self.gf = hs, gf
        self.orig = gf._filter_function
        self.k = k
        if k is not None:
            inner = getattr(self.orig, '__wrapped__', None)
            if inner is None:
                raise MachineryError('_filter_function is not an lru_cache wrapper any more')
            gf._filter_function = functools.lru_cache(maxsize=k)(inner)   # module-global shadow, K small
        self.tags = {}

    def restore(self):
        self.gf._filter_function = self.orig

    def reset(self):
        """empty cache, no generated names; returns the index the next generated name will get
        (learnt by compiling a throw-away filter: the counter's representation is not assumed)"""
        self.gf._filter_function.cache_clear()
        for n in [n for n in list(vars(self.gf)) if NAME_RE.match(n)]:
            del vars(self.gf)[n]
        self.gf._filter_function('zzProbe')
        idx = [int(NAME_RE.match(n).group(1)) for n in vars(self.gf) if NAME_RE.match(n)]
        self.gf._filter_function.cache_clear()
        for n in [n for n in list(vars(self.gf)) if NAME_RE.match(n)]:
            del vars(self.gf)[n]
        return (max(idx) + 1) if idx else 0

    def make_grid(self, filters):
        g = self.hs.Grid(columns=[('id', []), ('x', [])])
        rows = {}
        for fid, text in sorted(filters.items()):
            r = {'id': 'r%d' % fid, text.split()[0]: self.hs.MARKER, 'x': fid}
            rows[fid] = r
            g.append(r)
        g.append({'id': 'none', 'x': 0})
        self.tags = {text.split()[0]: fid for fid, text in filters.items()}
        return g, rows

    def consts(self, code):
        out = []
        for c in code.co_consts:
            if isinstance(c, str):
                out.append(c)
            elif isinstance(c, (tuple, frozenset)):
                out.extend(x for x in c if isinstance(x, str))
            elif hasattr(c, 'co_consts'):
                out.extend(self.consts(c))
        return out

    def bound_literals(self, f):
        """the filter whose literal the generated function is bound to (scenario filters carry `x == <fid>`):
        looked for in the function's default arguments; 0 when it cannot be seen (then it is not judged)"""
        try:
            found = set()
            for d in (getattr(f, '__defaults__', None) or ()):
                for x in (d if isinstance(d, (tuple, list)) else (d,)):
                    if isinstance(x, (int, float)) and not isinstance(x, bool) and x == int(x) and int(x) in self.tags.values():
                        found.add(int(x))
            return found.pop() if len(found) == 1 else 0
        except Exception:
            return 0

    def snapshot(self, base):
        """abstract projection of the module state: (generated name -> filter), size, hits, misses"""
        ns = []
        for n, f in list(vars(self.gf).items()):
            if not n.startswith('_gen_hsfilter_'):
                continue
            m = NAME_RE.match(n)
            if not m:
                continue
            fid = 0
            code = getattr(f, '__code__', None)
            if code is not None:
                ids = [self.tags[c] for c in self.consts(code) if c in self.tags]
                fid = ids[0] if len(ids) == 1 else 0
            ns.append([int(m.group(1)), fid, self.bound_literals(f)])
        b = base[0] or 0
        ns = sorted([n - b, f, c] for n, f, c in ns)
        ci = self.gf._filter_function.cache_info()
        return {'ns': ns, 'size': ci.currsize, 'hits': ci.hits, 'misses': ci.misses}


def run_schedule(w, grid, rows, filters, progs, preempt, first=0):
    base = [w.reset()]
    evs = []
    last = [w.snapshot(base)]

    def observe(i, kind, info):
        p = w.snapshot(base)
        if p != last[0]:
            last[0] = p
            e = dict(p); e['k'] = 'state'; e['t'] = i + 1
            evs.append(e)
        if kind == 'ret':
            evs.append({'k': 'ret', 't': i + 1, 'n': info[0], 'f': info[1]})

    def body(i, s):
        out = []
        for n, fid in enumerate(progs[i], 1):
            try:
                res = grid.filter(filters[fid])
                got = [k for k, r in rows.items() if len(res) == 1 and res[0] is r]
                g = got[0] if got else 0
            except Exception as e:
                g = -1
                out.append(type(e).__name__)
            s.mark(i, 'ret', (n, g))
            out.append(g)
        return out

    s = Scheduler(TRACED, preempt, observe)
    res = s.run([body] * len(progs), first=first)
    if s.errors:
        raise MachineryError('observer failed: %r' % s.errors[:2])
    # afterwards every filter is evaluated once more, sequentially ("cached filters keep working");
    # logged as the calls of one more thread
    pt = len(progs) + 1
    # most recently completed first: those are the ones still cached (a probe in a fixed order would evict them
    # from the small cache before reaching them)
    recent = [progs[e['t'] - 1][e['n'] - 1] for e in evs if e['k'] == 'ret'][::-1]
    probe = sorted(filters, key=lambda f: (recent.index(f) if f in recent else len(recent), f))
    for n, fid in enumerate(probe, 1):
        try:
            r = grid.filter(filters[fid])
            got = [k for k, x in rows.items() if len(r) == 1 and r[0] is x]
            g = got[0] if got else 0
        except Exception:
            g = -1
        observe(pt - 1, 'ret', (n, g))
    return {'prog': progs + [probe], 'evs': evs}, s.switches, s.step, res


_PW = {}


def _pool_init():
    hs = use_repo()
    w = World(hs, 2)
    grid, rows = w.make_grid(FILTERS)
    _PW.update(w=w, grid=grid, rows=rows)


def _pool_jobs(args):
    progs, jobs = args
    w, grid, rows = _PW['w'], _PW['grid'], _PW['rows']
    out = []
    for first, pre in jobs:
        tr, sw, n2, _ = run_schedule(w, grid, rows, FILTERS, progs, set(pre), first=first)
        out.append((tr, [first] + sw))
    return out


def enumerate_schedules(pool, w, grid, rows, filters, progs, bound2, rng, budget):
    """pre-emption sets: {}, every single step, every pair (exhaustive or sampled down to `budget`),
    each with every thread going first; de-duplicated by the switch sequence that actually happened."""
    tr, sw, nsteps, _ = run_schedule(w, grid, rows, filters, progs, set())
    jobs = [(f, ()) for f in range(len(progs))]
    jobs += [(f, (k,)) for f in range(len(progs)) for k in range(1, nsteps + 1)]
    pairs = [(a, b) for a in range(1, nsteps + 1) for b in range(a + 1, nsteps + 4)] if bound2 else []
    exhaustive = len(pairs) <= budget
    if not exhaustive:
        rng.shuffle(pairs); pairs = pairs[:budget]
    jobs += [(f, p) for f in range(len(progs)) for p in pairs]
    chunks = [jobs[i::64] for i in range(64)]
    seen, out = set(), []
    for res in pool.map(_pool_jobs, [(progs, ch) for ch in chunks if ch]):
        for tr, sw in res:
            if tuple(map(tuple, [[sw[0]]] + [list(x) for x in sw[1:]])) not in seen:
                seen.add(tuple(map(tuple, [[sw[0]]] + [list(x) for x in sw[1:]])))
                out.append((tr, sw))
    out.sort(key=lambda x: json.dumps(x[1]))
    return out, len(jobs), exhaustive


def judge(rep, work, traces, cfg, label, workers=8):
    path = work.path('fc-%s.json' % label)
    with open(path, 'w') as fh:
        json.dump(traces, fh)
    r = run_tlc(work, 'Trace_FilterCache.tla', cfg, workers=workers, env={'TRACE_FILE': path}, deque=True,
                timeout=1500)
    rep.tlc('trace-' + label, r)
    acc = set()
    for ln in r.out.split('\n'):
        ln = ln.strip()
        if ln.startswith('<<"ACCEPT"'):
            acc.add(int(ln.split(',')[1].strip(' >')))
    inv = r.invariant_violated
    if not r.completed and not inv:
        raise MachineryError('TLC did not complete on %s\n%s' % (label, r.out[-1500:]))
    return acc, inv, r


def diagnose(rep, work, trace, cfg):
    """longest matched prefix of one rejected trace"""
    path = work.path('fc-diag.json')
    with open(path, 'w') as fh:
        json.dump([trace], fh)
    r = run_tlc(work, 'Trace_FilterCache.tla', cfg, workers=1, env={'TRACE_FILE': path}, deque=True)
    best = 0
    for ln in r.out.split('\n'):
        if ln.startswith('<<"AT"'):
            best = max(best, int(ln.split(',')[2].strip(' >')))
    return best, r.invariant_violated


def sequential_histories(rep, work, hs, tier, rng):
    """~1500 filters around the real capacity; one thread; judged with K = 500."""
    w = World(hs, None)
    cap = w.gf.FILTER_CACHE_LRU_SIZE
    ci = w.gf._filter_function.cache_info()
    nf = 1500 if tier == 'thorough' else 1100
    filters = {}
    for i in range(1, max(nf, 2 * cap + 200) + 1):
        filters[i] = ('tq%d' % i) if i % 7 else ('tQ%d' % (i - 1))     # case twins of a neighbour
    # the first filters carry literals that are EQUAL as Python objects but of different Haystack kinds
    # (1 and true, 0 and false, "1"): what one filter was compiled with must not reach another
    lit = {1: ('x == 1', None), 2: ('yb == true', ('yb', True)), 3: ('ys == "1"', ('ys', '1')), 4: ('x == 4.0', None),
           5: ('z == 0', ('z', 0.0)), 6: ('yb == false', ('yb', False)), 8: ('yb != false and yb == true', ('yb', True)),
           9: ('z == 1', ('z', 1.0)), 10: ('yb == true', ('yb', True))}
    for i, (cond, _) in lit.items():
        filters[i] = '%s and %s' % (filters[i], cond)
    grid, rows = w.make_grid(filters)
    for i, (_, cell) in lit.items():
        if cell:
            rows[i][cell[0]] = cell[1]
    hist = {
        'distinct': list(range(1, nf + 1)),
        'cycle_cap_minus_1': [(i % (cap - 1)) + 1 for i in range(nf)],
        'cycle_cap': [(i % cap) + 1 for i in range(nf)],
        'cycle_cap_plus_1': [(i % (cap + 1)) + 1 for i in range(nf)],
        'random_repeat': [rng.randint(1, cap + 100) for _ in range(nf)],
        # one filter is kept cached (touched every 40 calls) while more than 2 * capacity other
        # filters are compiled: generated names must stay distinct for as long as a wrapper lives
        'hot_among_distinct': [1 if i % 40 == 0 else 2 + i - i // 40 for i in range(2 * cap + 150)],
    }
    if tier == 'quick':
        for k in ('cycle_cap_minus_1',):
            hist.pop(k)
    traces, names = [], []
    for name, prog in hist.items():
        base = [w.reset()]
        evs = []
        kept = {}
        for n, fid in enumerate(prog, 1):
            try:
                res = grid.filter(filters[fid])
                got = fid if (len(res) == 1 and res[0] is rows[fid]) else 0
                if n % 97 == 1:
                    kept[n] = (fid, res, list(res))
            except Exception:
                got = -1
            p = w.snapshot(base)
            evs.append({'k': 'sum', 't': 1, 'nsn': len(p['ns']), 'size': p['size'], 'hits': p['hits'],
                        'misses': p['misses'], 'n': n, 'f': got})
        # earlier-obtained results are unchanged by later compilations
        for n, (fid, res, snap) in kept.items():
            if list(res) != snap or not (len(res) == 1 and res[0] is rows[fid]):
                evs.append({'k': 'sum', 't': 1, 'nsn': -1, 'size': -1, 'hits': -1, 'misses': -1, 'n': n, 'f': -2})
        traces.append({'prog': [prog], 'evs': evs, 'cap': ci.maxsize})
        names.append(name)
    w.reset()
    kk = ci.maxsize if ci.maxsize is not None else 1000000
    for nm_, extra in (('seq', ''), ('seq_diag', 'INVARIANT Progress\n')):
        with open(work.path('Trace_FilterCache_%s.cfg' % nm_), 'w') as fh:
            fh.write('SPECIFICATION TSpec\nCONSTANTS\n  Threads = {1}\n  Filters = {1}\n  K = %d\n  Atomic = TRUE\n  PrivateConsts = TRUE\n'
                     '  MaxCalls = 99\n  Budget = 8\nVIEW TView\nINVARIANT NoCrossTalk\nINVARIANT GetNeverFails\n'
                     'INVARIANT NamesUnique\nINVARIANT LruBound\nINVARIANT Accounting\nCHECK_DEADLOCK FALSE\n%s' % (kk, extra))
    acc, inv, r = judge(rep, work, traces, work.path('Trace_FilterCache_seq.cfg'), 'sequential', workers=len(traces))
    out = []
    for i, name in enumerate(names, 1):
        rep.case(('seq', name))
        if i not in acc:
            wrong = [e for e in traces[i - 1]['evs'] if e['f'] != traces[i - 1]['prog'][0][e['n'] - 1]]
            if not wrong:
                rep.extra.setdefault('sequential_conformance_deviations', []).append(name)
                print('CONFORMANCE-DEVIATION: history %s is not a behaviour of FilterCache with K=%s (hit/miss/size '
                      'accounting differs) although every result was right' % (name, kk))
                continue
            best, inv2 = diagnose(rep, work, traces[i - 1], work.path('Trace_FilterCache_seq_diag.cfg'))
            ev = traces[i - 1]['evs'][best - 1] if 0 < best <= len(traces[i - 1]['evs']) else None
            out.append(({'engine': 'filtercache-seq', 'history': name, 'invariant': inv2 or inv or 'none'},
                        {'history': name, 'first_unexplained_event': best, 'event': ev,
                         'previous': traces[i - 1]['evs'][max(0, best - 4):best - 1]}))
    rep.traces += len(traces)
    rep.extra['sequential_histories'] = {n: len(h) for n, h in hist.items()}
    rep.extra['capacity_observed'] = ci.maxsize
    return out


COLD = r"""
import json, sys, threading
sys.path.insert(0, sys.argv[1])
import io
sys.stdout = io.StringIO()          # hszinc prints the generated source of every filter it compiles
sys.setswitchinterval(1e-6)
import hszinc
g = hszinc.Grid(version='3.0', columns=[('id', []), ('area', []), ('dis', []), ('siteRef', [])])
g.extend([{'id': hszinc.Ref('a'), 'dis': 'A', 'area': 10.0}, {'id': hszinc.Ref('b'), 'dis': 'B', 'area': 50.0, 'siteRef': hszinc.Ref('a')},
          {'id': hszinc.Ref('c'), 'dis': 'C', 'area': 50.0, 'siteRef': hszinc.Ref('b')}])
FILTERS = ['area > 20', 'dis == "B"', 'siteRef->area > 20', 'not siteRef and area < 20', 'siteRef->dis == "A" or dis == "C"',
           'area >= 50 and dis != "A"', 'id == @a', 'siteRef']
n = int(sys.argv[2])
bar = threading.Barrier(n)
out = {}
def work(i):
    f = FILTERS[i]
    bar.wait()
    try:
        out[i] = [r['id'].name for r in g[0:3].filter(f)] if i % 2 else [r['id'].name for r in g.filter(f)]
    except BaseException as e:
        out[i] = 'EXC ' + type(e).__name__
ts = [threading.Thread(target=work, args=(i,)) for i in range(n)]
[t.start() for t in ts]; [t.join() for t in ts]
after = {}
for i, f in enumerate(FILTERS):
    try:
        after[i] = [r['id'].name for r in g.filter(f)]
    except BaseException as e:
        after[i] = 'EXC ' + type(e).__name__
sys.__stdout__.write(json.dumps({'first': [out.get(i) for i in range(n)], 'after': [after[i] for i in range(len(FILTERS))]}) + chr(10))
"""
COLD_EXPECT = [['b', 'c'], ['b'], ['c'], ['a'], ['b', 'c'], ['b', 'c'], ['a'], ['b', 'c']]


def cold_starts(rep, tier):
    """The very first filters of a process, compiled by several plain threads at once (fresh interpreters, a barrier, a
    tiny switch interval): every thread gets its own filter's rows, and every filter still works afterwards.  Unlike the
    deterministic scenarios these runs are sampled, not enumerated; a failure is reported with what was observed."""
    import subprocess
    from concurrent.futures import ThreadPoolExecutor
    from core import REPO
    runs = [(k, 2 + k % 3 * 3) for k in range(18 if tier == 'quick' else 120)]     # 2, 5 or 8 threads

    def one(job):
        k, n = job
        try:
            p = subprocess.run(['/venv/bin/python', '-c', COLD, REPO, str(n)], stdout=subprocess.PIPE, stderr=subprocess.PIPE,
                               timeout=300)
        except subprocess.TimeoutExpired:
            # threads that never come back (a second of work): no rows for anyone
            return job, {'first': ['EXC no result within 300 s'], 'after': ['EXC no result within 300 s']}
        try:
            return job, json.loads(p.stdout.decode().strip().split('\n')[-1])
        except Exception:
            return job, {'first': ['EXC no output'], 'after': [p.stderr.decode()[-300:]]}
    bad = []
    with ThreadPoolExecutor(max_workers=6) as ex:
        for (k, n), o in ex.map(one, runs):
            rep.case(('cold', k))
            wrong = [i for i in range(min(n, len(o['first']))) if o['first'][i] != COLD_EXPECT[i]]
            later = [i for i in range(len(o['after'])) if o['after'][i] != COLD_EXPECT[i]]
            if wrong or later:
                bad.append(({'engine': 'cold-start', 'threads': n, 'first_wrong': bool(wrong), 'later_wrong': bool(later)},
                            {'threads': n, 'first': o['first'], 'after': o['after'], 'expected': COLD_EXPECT}))
    rep.traces += len(runs)
    rep.extra['cold_start_processes'] = {'runs': len(runs), 'failed': len(bad)}
    return bad


WARM = r"""
import sys, json, threading
sys.path.insert(0, sys.argv[1])
sys.setswitchinterval(1e-6)
import hszinc
R = hszinc.Ref
g = hszinc.Grid(version='3.0', columns=[('id', []), ('dis', []), ('geoCity', []), ('siteRef', []), ('equipRef', [])])
g.extend([{'id': R('s1'), 'dis': 'S1', 'geoCity': 'Chicago'}, {'id': R('s2'), 'dis': 'S2', 'geoCity': 'Boston'},
          {'id': R('e1'), 'dis': 'E1', 'siteRef': R('s1')}, {'id': R('e2'), 'dis': 'E2', 'siteRef': R('s1')},
          {'id': R('e3'), 'dis': 'E3', 'siteRef': R('s2')}, {'id': R('e4'), 'dis': 'E4', 'siteRef': R('s2')},
          {'id': R('p1'), 'dis': 'P1', 'equipRef': R('e1'), 'siteRef': R('s1')},
          {'id': R('p2'), 'dis': 'P2', 'equipRef': R('e3'), 'siteRef': R('s2')}])
FILTERS = ['siteRef->geoCity == "Chicago"', 'siteRef->geoCity == "Boston"', 'siteRef->dis == "S2"',
           'equipRef->siteRef->geoCity == "Chicago"', 'not siteRef->geoCity', 'equipRef->dis == "E3" or siteRef->dis == "S1"']
EXPECT = [['e1', 'e2', 'p1'], ['e3', 'e4', 'p2'], ['e3', 'e4', 'p2'], ['p1'], ['s1', 's2'], ['e1', 'e2', 'p1', 'p2']]
for i, f in enumerate(FILTERS):          # compiled (and right) before any thread starts: what follows is evaluation only
    assert [r['id'].name for r in g.filter(f)] == EXPECT[i], (f, [r['id'].name for r in g.filter(f)])
n, rounds = int(sys.argv[2]), int(sys.argv[3])
bar = threading.Barrier(n)
bad = []
def work(t):
    bar.wait()
    for k in range(rounds):
        i = (t + k * (1 + t % 2)) % len(FILTERS)
        try:
            got = [r['id'].name for r in g.filter(FILTERS[i])]
        except BaseException as e:
            got = 'EXC ' + type(e).__name__
        if got != EXPECT[i]:
            bad.append([t, k, FILTERS[i], got, EXPECT[i]])
            return
ts = [threading.Thread(target=work, args=(t,)) for t in range(n)]
[t.start() for t in ts]; [t.join() for t in ts]
sys.__stdout__.write(json.dumps({'bad': bad[:3]}) + chr(10))
"""


def warm_races(rep, tier):
    """Filters that are already compiled, EVALUATED by several plain threads at once on one grid whose rows point at
    each other (a->b paths; consecutive rows with one target, other threads after another target): every evaluation
    gives its own filter's rows.  Sampled like the cold starts (a tiny switch interval, thousands of evaluations)."""
    import subprocess
    from concurrent.futures import ThreadPoolExecutor
    from core import REPO
    runs = [(k, 2 + k % 3, 1500 if tier == 'quick' else 6000) for k in range(8 if tier == 'quick' else 40)]

    def one(job):
        k, n, rounds = job
        try:
            p = subprocess.run(['/venv/bin/python', '-c', WARM, REPO, str(n), str(rounds)], stdout=subprocess.PIPE,
                               stderr=subprocess.PIPE, timeout=600)
            return job, json.loads(p.stdout.decode().strip().split('\n')[-1])
        except subprocess.TimeoutExpired:
            return job, {'bad': [[0, 0, 'no result within 600 s', 'none', 'rows']]}
        except Exception:
            return job, {'bad': [[0, 0, 'no output', p.stderr.decode()[-300:], 'rows']]}
    bad = []
    with ThreadPoolExecutor(max_workers=4) as ex:
        for (k, n, rounds), o in ex.map(one, runs):
            rep.case(('warm', k))
            if o['bad']:
                bad.append(({'engine': 'warm-race', 'threads': n}, {'threads': n, 'rounds': rounds, 'wrong': o['bad']}))
    rep.traces += len(runs)
    rep.extra['warm_race_processes'] = {'runs': len(runs), 'failed': len(bad),
                                        'evaluations': sum(n * r for _, n, r in runs)}
    return bad


def run(tier):
    hs = use_repo()
    rep = Report('C13', tier)
    rng = random.Random(seed() * 31337 + 13)
    found = []
    with Work('c13') as work:
        # (A)
        r = run_tlc(work, 'FilterCache.tla', 'MC_FilterCache_atomic.cfg' if tier == 'quick' else 'MC_FilterCache_atomic3.cfg',
                    coverage=False, xmx='12g', timeout=3000)
        rep.tlc('model-check atomic', r)
        if r.invariant_violated:
            raise MachineryError('FilterCache (Atomic) violates %s' % r.invariant_violated)
        r2 = run_tlc(work, 'FilterCache.tla', 'MC_FilterCache_racy.cfg')
        rep.tlc('model-check non-atomic allocation (expected counterexample)', r2)
        rep.extra['non_atomic_allocation_counterexample'] = r2.invariant_violated
        if not r2.invariant_violated:
            raise MachineryError('the non-atomic model no longer shows the race: the model lost its teeth')
        r3 = run_tlc(work, 'FilterCache.tla', 'MC_FilterCache_sharedconsts.cfg')
        rep.tlc('model-check literals through a shared module global (expected counterexample)', r3)
        rep.extra['shared_constants_slot_counterexample'] = r3.invariant_violated
        if not r3.invariant_violated:
            raise MachineryError('the shared-constants model no longer shows the race: the model lost its teeth')
        # (C) concurrent executions, K = 2 (module-global shadow of the lru wrapper)
        w = World(hs, 2)
        try:
            grid, rows = w.make_grid(FILTERS)
            scen = [
                ('cold_distinct', [[1], [2]], True, 4000),
                ('case_twins', [[1], [3]], True, 400 if tier == 'quick' else 2000),
                ('same_filter', [[1], [1]], True, 400 if tier == 'quick' else 2000),
                ('evict_and_reuse', [[1, 4], [2, 1]], True, 1500 if tier == 'quick' else 8000),
                ('three_threads', [[1], [2], [3, 1]], True, 800 if tier == 'quick' else 5000),
                # one thread fills the cache and evicts while the other still has a compilation to do: whatever a
                # finaliser does to the name of an evicted function is interleaved with the allocation of a new name
                ('evict_while_other_compiles', [[1, 2, 3], [4]], True, 1200 if tier == 'quick' else 6000),
                ('both_evict', [[1, 2, 3], [4, 2]], True, 600 if tier == 'quick' else 5000),
            ]
            traces, meta = [], []
            rep.extra['schedule_enumeration'] = {}
            with multiprocessing.get_context('fork').Pool(NCPU, initializer=_pool_init) as pool:
                for name, progs, b2, budget in scen:
                    outs, njobs, exh = enumerate_schedules(pool, w, grid, rows, FILTERS, progs, b2, rng, budget)
                    rep.extra['schedule_enumeration'][name] = {'runs': njobs, 'distinct_schedules': len(outs),
                                                               'two_preemptions_exhaustive': exh}
                    rep.evaluations += njobs
                    for tr, sw in outs:
                        traces.append(tr); meta.append((name, sw))
        finally:
            w.restore()
        if len(traces) < 500:
            raise MachineryError('only %d schedules were enumerated' % len(traces))
        shards = [list(range(i, len(traces), 4)) for i in range(4)]
        accepted, invs = set(), []
        for si, idx in enumerate(shards):
            acc, inv, r = judge(rep, work, [traces[i] for i in idx], 'Trace_FilterCache.cfg', 'sched-%d' % si, workers=4)
            accepted |= {idx[a - 1] for a in acc}
            if inv:
                invs.append(inv)
        rep.traces += len(traces)
        rep.extra['schedules'] = {}
        ndiag = 0
        deviations = []
        for i, (name, sw) in enumerate(meta):
            rep.case((name, tuple(sw)))
            rep.extra['schedules'][name] = rep.extra['schedules'].get(name, 0) + 1
            if i not in accepted:
                ndiag += 1
                best, inv2 = diagnose(rep, work, traces[i], 'Trace_FilterCache_diag.cfg') if ndiag <= 6 else (0, None)
                evs = traces[i]['evs']
                ev = evs[best - 1] if 0 < best <= len(evs) else None
                wrong = [e for e in evs if e['k'] == 'ret' and e['f'] != traces[i]['prog'][e['t'] - 1][e['n'] - 1]]
                if not wrong:
                    # the execution is not a behaviour of the model, yet every result was right: the
                    # property (which speaks about results) held on this schedule -- recorded, not an alarm
                    deviations.append((name, sw, best))
                    continue
                found.append(({'engine': 'filtercache-sched', 'scenario': name,
                               'wrong_result': bool(wrong), 'exception': any(e['f'] == -1 for e in wrong),
                               'invariant': inv2 or 'none'},
                              {'scenario': name, 'programs': traces[i]['prog'], 'switches': sw,
                               'first_unexplained_event': best, 'event': ev, 'events': evs,
                               'filters': FILTERS}))
        rep.extra['conformance_deviations_with_correct_results'] = len(deviations)
        if deviations:
            print('CONFORMANCE-DEVIATION: %d schedules are not behaviours of FilterCache (Atomic) although all their '
                  'results were right, e.g. %r' % (len(deviations), deviations[0][:2]))
        rep.sample({'schedule': {'scenario': meta[len(meta) // 2][0], 'switches': meta[len(meta) // 2][1],
                                 'events': traces[len(meta) // 2]['evs'][:6]}})
        # binding self-test: corrupt one logged field of an accepted trace
        good = traces[0]
        bad = json.loads(json.dumps(good))
        for e in bad['evs']:
            if e['k'] == 'ret':
                e['f'] = (e['f'] % 3) + 1
                break
        acc, inv, _ = judge(rep, work, [good, bad], 'Trace_FilterCache.cfg', 'selftest', workers=2)
        ok = (1 in acc) == (0 in accepted) and 2 not in acc
        rep.extra['binding_selftest'] = {'corrupted': 'ret.f of first return', 'accepted': sorted(acc), 'ok': ok}
        if not ok:
            raise MachineryError('binding self-test failed: accepted=%r' % (acc,))
        found.extend(sequential_histories(rep, work, hs, tier, rng))
        found.extend(cold_starts(rep, tier))
        found.extend(warm_races(rep, tier))
    for f, d in found:
        rep.violation(f, d)
    rep.rule = ('one case = one schedule (scenario, actual switch sequence) of real threads, distinct by switch sequence; '
                'all <=1-preemption schedules, <=2-preemption schedules exhaustively or sampled per scenario budget; '
                'each judged by TLC as a behaviour of FilterCache (Atomic); plus sequential histories around capacity')
    rep.exhaustive = False
    rep.assumptions = ['pre-emption only at source lines of grid_filter.py (_filter_function, filter_function, _FnWrapper.*) and Grid.filter',
                       'concurrent scenarios run with the lru wrapper re-created with maxsize=2 (module-global shadow); sequential '
                       'histories use the real wrapper and capacity',
                       'CPython reference counting: finalisers run when the last reference drops (modelled as nondeterministic)']
    return rep.finish()


def replay(path):
    hs = use_repo()
    with open(path) as fh:
        d = json.load(fh)
    c = d['case']
    if d.get('features', {}).get('engine') == 'cold-start':
        rep = Report('C13', 'quick')
        rep.replay_dir = rep.replay_dir + '/re'
        bad = cold_starts(rep, 'quick')
        print('cold starts (sampled, %d fresh interpreters):' % rep.extra['cold_start_processes']['runs'], rep.extra['cold_start_processes'])
        for f, dd in bad[:3]:
            print('  ', f, dd['first'], dd['after'])
        print('property holds on these runs' if not bad else 'VIOLATION property=C13 replay=%s' % path)
        return 1 if bad else 0
    if 'switches' not in c:
        print(json.dumps(c, indent=1)[:3000])
        print('sequential histories are regenerated by `bin/check C13`; VIOLATION property=C13 replay=%s' % path)
        return 1
    w = World(hs, 2)
    try:
        filters = {int(k): v for k, v in c['filters'].items()}
        grid, rows = w.make_grid(filters)
        sw = c['switches']
        first = sw[0] if sw and isinstance(sw[0], int) else 0
        steps = {s[0] for s in sw if isinstance(s, list)}
        tr, sw2, n, res = run_schedule(w, grid, rows, filters, c['programs'], steps, first=first)
    finally:
        w.restore()
    print('results per thread:', res)
    wrong = [e for e in tr['evs'] if e['k'] == 'ret' and e['f'] != tr['prog'][e['t'] - 1][e['n'] - 1]]
    rep = Report('C13', 'quick')
    with Work('c13r') as work:
        acc, inv, _ = judge(rep, work, [tr], 'Trace_FilterCache.cfg', 'replay', workers=1)
    ok = 1 in acc and not wrong
    print('trace accepted by TLC:', 1 in acc, ' wrong results:', wrong)
    print('property holds on this case' if ok else 'VIOLATION property=C13 replay=%s' % path)
    return 0 if ok else 1
