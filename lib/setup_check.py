# bin/check --setup : SANY-parse every module, verify TLC and the interpreter that imports hszinc.
import glob
import os
import subprocess
import sys

from core import SPEC, sany, use_repo, WORKROOT


def run():
    os.makedirs(WORKROOT, exist_ok=True)
    bad = 0
    for p in sorted(glob.glob(os.path.join(SPEC, '*.tla'))):
        ok, out = sany(os.path.basename(p))
        if not ok:
            bad += 1
            print('SANY FAILED %s\n%s' % (p, out[-1500:]))
    try:
        hs = use_repo()
        import pytz, pyparsing, iso8601, six  # noqa
        print('hszinc %s imported from %s' % (hs.__version__, os.path.dirname(hs.__file__)))
    except Exception as e:  # pragma: no cover
        bad += 1
        print('cannot import hszinc: %r' % (e,))
    print('setup: %d modules parsed, %d failures' % (len(glob.glob(os.path.join(SPEC, '*.tla'))), bad))
    return 1 if bad else 0
