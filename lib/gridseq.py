# Shared engine for C14 (Grid as a list), C15 (lookup by id) and the row path of C10, against
# spec/GridSeq.tla.
#  (A) MC_GridSeq.cfg      TLC model-checks the sequence machine
#  (B) Gen_GridSeq.cfg     TLC prints every state (with its observation tables) and every edge;
#                          each edge is replayed on real Grids (pre-state rebuilt along a path of
#                          TLC's own graph), with and without a lookup before the operation
#  (C) Trace_GridSeq.tla   seeded random histories of real Grids, judged by TLC
import copy as _copy
import pickle
import json
import os
import multiprocessing
import random

from core import Report, Work, run_tlc, use_repo, seed, MachineryError, NCPU, write_consts, SPEC

NOARG = 99
# which property a failing clause belongs to
CLAUSE_PROP = {
    'result': 'C14', 'rows': 'C14', 'len': 'C14', 'getitem': 'C14', 'slice': 'C14', 'contains': 'C14',
    'iter': 'C14', 'slice_shape': 'C14', 'parent_changed': 'C14', 'exception': 'C14', 'repr': 'C14',
    'rev': 'C14', 'step2': 'C14', 'slicestep': 'C14', 'index': 'C14', 'count': 'C14', 'other': 'C14', 'switch': 'C14',
    'lookup': 'C15', 'get': 'C15',
    'version': 'C10',
}


class Rows(object):
    """Concrete row objects for the abstract alphabet; fresh objects per replay."""

    def __init__(self, hs, spec):
        self.hs = hs
        self.spec = spec          # list of row descriptors, index = row id - 1
        self.objs = {}
        self.ids = {}
        self.keep = []            # copies of grids made during a history (kept alive: rows are told apart by id())
        for i, d in enumerate(spec, 1):
            o = self.build(d)
            self.objs[i] = o
            self.ids[id(o)] = i

    def build(self, d):
        hs = self.hs
        if d['t'] == 'nondict':
            return {'list': [1, 2], 'none': None, 'str': 'row', 'int': 7, 'tuple': (('id', 'a'),)}[d['v']]
        row = {}
        idk = d.get('id')
        if idk is not None:
            kind, v = idk
            row['id'] = v if kind == 'str' else int(v) if kind == 'int' else hs.Ref(v, 'Dis ' + v) if kind == 'refdis' else hs.Ref(v)
        row['v'] = d['n']
        if d.get('only3'):
            row['l'] = {'list': [1], 'dict': {'x': 1}, 'na': hs.NA}[d['only3']]
        return row

    def rid(self, o):
        return self.ids.get(id(o), -1)


def idstr(idk):
    """string form of an id descriptor (what str(row['id']) is); code table built from these."""
    kind, v = idk
    return '@' + v if kind == 'ref' else "@%s 'Dis %s'" % (v, v) if kind == 'refdis' else str(v)


MC_ROWS = [
    {'t': 'dict', 'id': ('str', 'a'), 'n': 1},
    {'t': 'dict', 'id': ('str', 'a'), 'n': 2},
    {'t': 'dict', 'id': ('int', '0'), 'n': 3},      # a falsy id
    {'t': 'dict', 'id': ('ref', 'b'), 'n': 4},
    {'t': 'dict', 'n': 5},
    {'t': 'dict', 'id': ('str', 'c'), 'n': 6, 'only3': 'list'},
    {'t': 'nondict', 'v': 'list'},
    {'t': 'nondict', 'v': 'none'},
]
# id codes of MC_GridSeq.tla: 1 'a', 2 '0' (int 0: falsy), 3 '@b', 4 'c', 5 absent
MC_CODES = {1: 'a', 2: '0', 3: '@b', 4: 'c', 5: 'zz'}


def key_variants(hs, s):
    """concrete lookup keys whose string form is s: [(key, usable_with_getitem)]"""
    out = [(s, True)]
    if s.startswith('@'):
        out.append((hs.Ref(s[1:]), True))
        if " '" in s and s.endswith("'"):
            name, dis = s[1:-1].split(" '", 1)
            out.append((hs.Ref(name, dis), True))       # the reference itself, display name and all
    if s.isdigit():
        out.append((int(s), False))       # numeric keys are positional for g[key]; only get() applies
    return out


def new_grid(hs, ver, given):
    cols = [('v', [('unit', 'x')]), ('l', []), ('id', [])]
    if given:
        g = hs.Grid(version=ver, metadata={'n': 'meta', 'm': 1}, columns=cols)
    else:
        g = hs.Grid(metadata={'n': 'meta', 'm': 1}, columns=cols)
    # columns and metadata are ORDERED, and their order is not the order they were stored in: a derived grid has
    # them in the order the grid has them now
    g.column.add_item('id', g.column['id'], index=0)
    g.metadata.add_item('m', 1, index=0)
    g.column['v'].add_item('kind', 'Number', index=0)
    return g


def shape(g):
    # (read through the keys, in the grid's own order)
    return (str(g.version), [(k, g.metadata[k]) for k in g.metadata.keys()],
            [(k, [(t, g.column[k][t]) for t in g.column[k].keys()]) for k in g.column.keys()])


def arg(x):
    return None if x == NOARG else x


class Idx(object):
    """an index object that is no number: a list takes anything that offers __index__"""

    def __init__(self, i):
        self.i = i

    def __index__(self):
        return self.i

    def __repr__(self):
        return 'Idx(%d)' % self.i


def ix(i):
    """every other position is handed over as an index object instead of an int"""
    return Idx(i) if i % 2 else i


def arg_form(hs, R, rs):
    """the rows handed to extend / += as a list, a tuple, an iterator or another Grid (chosen by the rows themselves,
    so that a replay makes the same choice); a Grid only when every row is a dict"""
    objs = [R.objs[x] for x in rs]
    k = (sum(rs) + len(rs)) % 4
    if k == 1:
        return tuple(objs)
    if k == 2:
        return iter(objs)
    if k == 3 and objs and all(isinstance(x, dict) for x in objs):
        src = hs.Grid(version='3.0')
        src._row.extend(objs)          # a carrier only: the receiving grid is the one under test
        return src
    return objs


def apply_op(hs, g, R, o):
    """Apply abstract operation o to real grid g.  Returns (result, grid the history continues on)."""
    n = o['name']
    try:
        if n == 'append':
            r = g.append(R.objs[o['r']])
            return (['None'] if r is None else ['unexpected_return']), g
        if n == 'insert':
            r = g.insert(o['i'], R.objs[o['r']])
            return (['None'] if r is None else ['unexpected_return']), g
        if n == 'setitem':
            g[ix(o['i'])] = R.objs[o['r']]
            return ['None'], g
        if n == 'delitem':
            del g[ix(o['i'])]
            return ['None'], g
        if n == 'delslice':
            del g[arg(o['a']):arg(o['b'])]
            return ['None'], g
        if n == 'delstep':
            del g[arg(o['a']):arg(o['b']):o['st']]
            return ['None'], g
        if n == 'setslice':
            g[arg(o['a']):arg(o['b'])] = arg_form(hs, R, o['rs'])
            return ['None'], g
        if n == 'setslice_row':
            g[arg(o['a']):arg(o['b'])] = R.objs[o['r']]
            return ['None'], g
        if n == 'pop':
            x = g.pop() if o['i'] == NOARG else g.pop(ix(o['i']))
            return ['row', R.rid(x)], g
        if n == 'remove':
            r = g.remove(R.objs[o['r']])
            return (['None'] if r is None else ['unexpected_return']), g
        if n == 'reverse':
            r = g.reverse()
            return (['None'] if r is None else ['unexpected_return']), g
        if n == 'clear':
            r = g.clear()
            return (['None'] if r is None else ['unexpected_return']), g
        if n == 'extend':
            r = g.extend(arg_form(hs, R, o['rs']))
            return (['None'] if r is None else ['unexpected_return']), g
        if n == 'iadd':
            g0 = g
            g += arg_form(hs, R, o['rs'])
            return (['self'] if g is g0 else ['not_self']), g0
        if n == 'slice':
            d = g[arg(o['a']):arg(o['b'])]
            return derived(hs, g, d)
        if n == 'filter_id':
            d = g.filter('id')
            return derived(hs, g, d)
        if n == 'filter_limit':
            d = g.filter('', limit=o['n'])
            return derived(hs, g, d)
        if n == 'copy':
            d = _copy.copy(g) if o['how'] == 'shallow' else _copy.deepcopy(g) if o['how'] == 'deep' else \
                pickle.loads(pickle.dumps(g, protocol=2 + (len(g) % 4)))
            return copied(hs, g, d, R, o['how'])
        raise MachineryError('unknown op %r' % (o,))
    except MachineryError:
        raise
    except Exception as e:
        return [type(e).__name__], g


def derived(hs, parent, d):
    if type(d) is not hs.Grid:
        return ['not_a_grid'], parent
    if d is parent:
        return ['same_object'], parent
    if shape(d) != shape(parent):
        return ['shape_differs'], d
    return ['grid'], d


def copied(hs, g, d, R, how):
    """the copy of a grid: the same rows in the same order (under deepcopy: their copies, which take over the
    identities of the rows they were copied from), the same shape"""
    if type(d) is not hs.Grid:
        return ['not_a_grid'], g
    if d is g:
        return ['same_object'], g
    R.keep.append(d)
    if how != 'shallow':
        olds, news = list(g), list(d)
        if len(olds) == len(news):
            for a, b in zip(olds, news):
                if a is b:
                    return ['row_shared_with_original'], d
                R.ids[id(b)] = R.rid(a)
    if shape(d) != shape(g):
        return ['shape_differs'], d
    return ['copy'], d


def observe(hs, g, R, codes, rng=None, full=False, lookups=True):
    """Observation events right after an operation.  With rng: a sample of slices (all other kinds
    always in full for small grids)."""
    obs = []
    n = None
    try:
        n = len(g)
        obs.append({'k': 'len', 'n': n})
    except Exception as e:
        obs.append({'k': 'len', 'n': -1, 'exc': type(e).__name__})
        n = 0
    try:
        obs.append({'k': 'iter', 'rows': [R.rid(x) for x in g]})
    except Exception as e:
        obs.append({'k': 'iter', 'rows': [-2], 'exc': type(e).__name__})
    lim = min(n, 4) if not full else 4
    idxs = list(range(-4, 5)) if full else list(range(-lim - 1, lim + 1)) if not rng or n <= 4 else \
        sorted(set([-n - 1, -n, -1, 0, n - 1, n] + [rng.randint(-n - 1, n) for _ in range(3)]))
    for i in idxs:
        try:
            obs.append({'k': 'getitem', 'i': i, 'r': ['row', R.rid(g[ix(i)])]})
        except Exception as e:
            obs.append({'k': 'getitem', 'i': i, 'r': [type(e).__name__]})
    bounds = [NOARG] + list(range(-3, 4))
    if rng:
        bs = bounds if full else [NOARG] + list(range(-n - 1, n + 2))
        pairs = [(rng.choice(bs), rng.choice(bs)) for _ in range(4)]
    else:
        pairs = [(a, b) for a in bounds for b in bounds]
    for a, b in pairs:
        try:
            d = g[arg(a):arg(b)]
            if type(d) is not hs.Grid or shape(d) != shape(g) or d is g:
                obs.append({'k': 'slice', 'a': a, 'b': b, 'rows': [-3]})
            else:
                obs.append({'k': 'slice', 'a': a, 'b': b, 'rows': [R.rid(x) for x in d]})
        except Exception as e:
            obs.append({'k': 'slice', 'a': a, 'b': b, 'rows': [-2], 'exc': type(e).__name__})
    for rid, o in R.objs.items():
        if R.spec[rid - 1]['t'] != 'dict':
            continue
        try:
            obs.append({'k': 'contains', 'row': rid, 'v': (o in g)})
        except Exception as e:
            obs.append({'k': 'contains', 'row': rid, 'v': type(e).__name__})
    if lookups:
        obs.extend(observe_lookups(hs, g, R, codes))
    if rng is not None and not full:
        # extended slices, index() and count() (random histories only)
        for kind, sl in (('rev', slice(None, None, -1)), ('step2', slice(None, None, 2))):
            try:
                d = g[sl]
                obs.append({'k': kind, 'rows': [R.rid(x) for x in d] if type(d) is hs.Grid and shape(d) == shape(g) else [-3]})
            except Exception as e:
                obs.append({'k': kind, 'rows': [-2], 'exc': type(e).__name__})
        nn = len(g._row)
        for _ in range(2):
            a = NOARG if rng.random() < 0.3 else rng.randint(-nn - 1, nn + 1)
            b = NOARG if rng.random() < 0.3 else rng.randint(-nn - 1, nn + 1)
            st = rng.choice([-3, -2, -1, 2, 3])
            try:
                d = g[arg(a):arg(b):st]
                obs.append({'k': 'slicestep', 'a': a, 'b': b, 'st': st,
                            'rows': [R.rid(x) for x in d] if type(d) is hs.Grid and shape(d) == shape(g) else [-3]})
            except Exception as e:
                obs.append({'k': 'slicestep', 'a': a, 'b': b, 'st': st, 'rows': [-2], 'exc': type(e).__name__})
        for rid_, o in list(R.objs.items())[:6]:
            if R.spec[rid_ - 1]['t'] != 'dict':
                continue
            try:
                obs.append({'k': 'index', 'row': rid_, 'r': ['pos', g.index(o)]})
            except ValueError:
                obs.append({'k': 'index', 'row': rid_, 'r': ['ValueError']})
            except Exception as e:
                obs.append({'k': 'index', 'row': rid_, 'r': [type(e).__name__]})
            try:
                obs.append({'k': 'count', 'row': rid_, 'n': g.count(o)})
            except Exception as e:
                obs.append({'k': 'count', 'row': rid_, 'n': -1, 'exc': type(e).__name__})
    try:
        obs.append({'k': 'repr', 'ok': isinstance(repr(g), str)})
    except Exception as e:
        obs.append({'k': 'repr', 'ok': False, 'exc': type(e).__name__})
    return obs


def observe_lookups(hs, g, R, codes):
    obs = []
    sentinel = object()
    for code, s in sorted(codes.items()):
        for key, subscript in key_variants(hs, s):
            kt = type(key).__name__
            if subscript:
                try:
                    obs.append({'k': 'lookup', 'id': code, 'kt': kt, 'r': ['row', R.rid(g[key])]})
                except KeyError:
                    obs.append({'k': 'lookup', 'id': code, 'kt': kt, 'r': ['KeyError']})
                except Exception as e:
                    obs.append({'k': 'lookup', 'id': code, 'kt': kt, 'r': [type(e).__name__]})
            try:
                x = g.get(key, sentinel)
                obs.append({'k': 'get', 'id': code, 'kt': kt,
                            'r': ['default'] if x is sentinel else ['row', R.rid(x)]})
            except Exception as e:
                obs.append({'k': 'get', 'id': code, 'kt': kt, 'r': [type(e).__name__]})
    return obs


# ---------------------------------------------------------------------------
# (B) edge replay

def skey(rows, ver, given):
    return (tuple(rows), ver, bool(given))


def check_obs(st, obs):
    """Compare real observations with the table TLC printed for the post-state.  Returns list of
    (clause, observation, expected)."""
    bad = []
    gi = {i: r for i, r in st['getitem']}
    for o in obs:
        k = o['k']
        if k == 'len':
            if o['n'] != st['len']:
                bad.append(('len', o, st['len']))
        elif k == 'iter':
            if o['rows'] != st['rows']:
                bad.append(('iter', o, st['rows']))
        elif k == 'getitem':
            if o['r'] != gi[o['i']]:
                bad.append(('getitem', o, gi[o['i']]))
        elif k == 'slice':
            a = 8 if o['a'] == NOARG else o['a'] + 4
            b = 8 if o['b'] == NOARG else o['b'] + 4
            exp = st['slices'][a - 1][b - 1]
            if o['rows'] != exp:
                bad.append(('slice', o, exp))
        elif k == 'contains':
            if o['v'] is not st['contains'][o['row'] - 1]:
                bad.append(('contains', o, st['contains'][o['row'] - 1]))
        elif k == 'repr':
            if not o['ok']:
                bad.append(('repr', o, True))
        elif k in ('lookup', 'get'):
            allowed = st['lookup'][o['id'] - 1] if isinstance(st['lookup'], list) else st['lookup'][str(o['id'])]
            if allowed:
                ok = o['r'][0] == 'row' and o['r'][1] in allowed
            else:
                ok = o['r'] == (['KeyError'] if k == 'lookup' else ['default'])
            if not ok:
                bad.append((k, o, allowed))
    return bad


_W = {}


def _init_worker(states, paths):
    hs = use_repo()
    _W['hs'] = hs
    _W['states'] = states
    _W['paths'] = paths


def build_state(hs, key, paths):
    """Rebuild a concrete grid in abstract state `key` by replaying the path TLC's graph gives."""
    init, ops = paths[key]
    R = Rows(hs, MC_ROWS)
    g = new_grid(hs, init[1], init[2])
    for o in ops:
        res, g = apply_op(hs, g, R, o)
    rows = [R.rid(x) for x in g._row]      # construction check only
    if (tuple(rows), str(g.version)) != (key[0], key[1]):
        return None, R
    return g, R


def _replay_chunk(chunk):
    hs, states, paths = _W['hs'], _W['states'], _W['paths']
    out = []
    n = 0
    for (pre, o, allowed) in chunk:
        for variant in ('cold', 'warm'):
            g, R = build_state(hs, pre, paths)
            if g is None:
                out.append(('unbuildable', pre, o, variant, None, None))
                continue
            if variant == 'warm':
                observe_lookups(hs, g, R, MC_CODES)        # builds the id index before the operation
            parent_rows = [R.rid(x) for x in g._row]
            res, g2 = apply_op(hs, g, R, o)
            n += 1
            try:
                rows2 = [R.rid(x) for x in g2._row]
                ver2 = str(g2.version)
            except Exception as e:
                out.append(('exception', pre, o, variant, [type(e).__name__], None))
                continue
            match = [a for a in allowed if a[0] == res and a[1] == rows2 and a[2] == ver2]
            if not match:
                cl = 'result' if not any(a[0] == res for a in allowed) else \
                     'rows' if not any(a[0] == res and a[1] == rows2 for a in allowed) else 'version'
                out.append((cl, pre, o, variant, {'result': res, 'rows': rows2, 'ver': ver2},
                            [{'result': a[0], 'rows': a[1], 'ver': a[2]} for a in allowed]))
                continue
            if g2 is not g and [R.rid(x) for x in g._row] != parent_rows:
                out.append(('parent_changed', pre, o, variant, {'parent_rows': [R.rid(x) for x in g._row]},
                            parent_rows))
            post = skey(rows2, ver2, match[0][3])
            st = states.get(post)
            if st is None:
                continue       # beyond MaxLen: TLC did not expand it; nothing to compare observations with
            h = hash((pre, json.dumps(o, sort_keys=True), variant)) & 0xffffffff
            rng = random.Random(h)
            obs = observe(hs, g2, R, MC_CODES, rng=None if h % 16 == 0 else rng, full=True)
            for cl, ob, exp in check_obs(st, obs)[:3]:
                out.append((cl, pre, o, variant, ob, exp))
    return n, out


def load_graph(lines):
    states, edges, inits = {}, {}, []
    for d in lines:
        if d['t'] == 'S':
            k = skey(d['rows'], d['ver'], d['given'])
            states[k] = d
            if not d['rows'] and not (d['ver'] == '3.0' and not d['given']):
                inits.append(k)
        else:
            pre = skey(d['rows'], d['ver'], d['given'])
            ok = json.dumps(d['op'], sort_keys=True)
            edges.setdefault((pre, ok), (pre, d['op'], []))[2].append(
                (d['r'], d['rows2'], d['ver2'], d['given2']))
    return states, edges, inits


PREF = {'append': 0, 'insert': 1, 'delitem': 2, 'slice': 3}


def bfs_paths(states, edges, inits):
    """One construction path per state, along TLC's edges, preferring plain appends."""
    paths = {k: (k, []) for k in inits}
    frontier = list(inits)
    by_pre = {}
    for (pre, ok), (p, o, outs) in edges.items():
        if len(outs) == 1 and outs[0][0] in (['None'], ['grid']):
            by_pre.setdefault(pre, []).append((PREF.get(o['name'], 9), ok, o, outs[0]))
    while frontier:
        nxt = []
        for s in frontier:
            for _, _, o, out in sorted(by_pre.get(s, []), key=lambda x: (x[0], x[1])):
                t = skey(out[1], out[2], out[3])
                if t not in paths and t in states:
                    paths[t] = (paths[s][0], paths[s][1] + [o])
                    nxt.append(t)
        frontier = nxt
    return paths


def run_engine(rep, tier, focus):
    """Runs (A), (B), (C); returns list of findings (clause, feature-dict, detail) for all three
    properties; the caller reports those that belong to `focus`."""
    hs = use_repo()
    found = []
    with Work('gridseq') as work:
        r = run_tlc(work, 'MC_GridSeq.tla', 'MC_GridSeq.cfg' if tier == 'quick' else 'MC_GridSeq_thorough.cfg', xmx='8g')
        rep.tlc('model-check', r)
        if r.invariant_violated:
            raise MachineryError('GridSeq.tla violates its own property %s' % r.invariant_violated)
        # two live grids (parent and derived grid, the history switching between them)
        two = 'MC_GridSeq_two.cfg'
        if tier != 'quick':
            two = work.path('MC_GridSeq_two3.cfg')
            with open(os.path.join(SPEC, 'MC_GridSeq_two.cfg')) as fh, open(two, 'w') as out:
                out.write(fh.read().replace('MaxLen = 2', 'MaxLen = 3'))
        r2 = run_tlc(work, 'MC_GridSeq.tla', two, xmx='8g')
        rep.tlc('model-check-two-grids', r2)
        if r2.invariant_violated or not r2.completed:
            raise MachineryError('GridSeq.tla (two live grids) violates %s\n%s' % (r2.invariant_violated, r2.out[-800:]))
        g = run_tlc(work, 'MC_GridSeq.tla', 'Gen_GridSeq.cfg' if tier == 'quick' else 'Gen_GridSeq_thorough.cfg', workers=1, xmx='12g',
                    timeout=3000)
        rep.tlc('state+edge generation', g)
        states, edges, inits = load_graph(g.json_lines())
        if len(states) != g.distinct or sum(len(v[2]) for v in edges.values()) != g.generated - g.initial:
            raise MachineryError('generation incomplete: %d states (TLC %d), %d edges (TLC %d)' % (
                len(states), g.distinct, sum(len(v[2]) for v in edges.values()), g.generated - g.initial))
        paths = bfs_paths(states, edges, inits)
        missing = [k for k in states if k not in paths]
        if missing:
            raise MachineryError('no construction path for %d states' % len(missing))
        work_items = [(pre, o, outs) for (pre, ok), (pre, o, outs) in sorted(edges.items(), key=lambda x: (x[0][0], x[0][1]))]
        if tier == 'quick':
            # quick: every operation from every state, but index arguments thinned deterministically
            work_items = [w for i, w in enumerate(work_items)
                          if w[1]['name'] not in ('insert', 'setitem', 'delslice', 'slice', 'extend', 'iadd', 'setslice', 'setslice_row', 'delstep')
                          or i % 3 == seed() % 3]
        chunks = [work_items[i::NCPU * 4] for i in range(NCPU * 4)]
        with multiprocessing.get_context('fork').Pool(NCPU, initializer=_init_worker,
                                                      initargs=(states, paths)) as pool:
            results = pool.map(_replay_chunk, chunks)
        nrep = 0
        for n, out in results:
            nrep += n
            for (cl, pre, o, variant, got, exp) in out:
                found.append((cl, {'engine': 'gridseq-replay', 'clause': cl, 'op': o['name'], 'index_state': variant,
                                   'id_kinds': idkinds(pre[0])},
                              {'pre_state': {'rows': list(pre[0]), 'ver': pre[1], 'given': pre[2]},
                               'path': paths[pre][1], 'op': o, 'variant': variant, 'got': got, 'expected': exp}))
        rep.traces += nrep
        rep.evaluations += nrep
        for w in work_items:
            rep.distinct.add((w[0], json.dumps(w[1], sort_keys=True)))
        rep.extra['edges_replayed'] = nrep
        rep.extra['model_states'] = len(states)
        rep.extra['actions_covered'] = sorted(set(w[1]['name'] for w in work_items))
        rep.sample({'edge': {'pre': list(work_items[len(work_items) // 2][0][0]), 'op': work_items[len(work_items) // 2][1]}})
        # (C) random histories
        found.extend(random_histories(rep, work, hs, tier))
        # (C') the operation sequences the repository's own test-suite performs, judged by the same spec
        import rectest
        rec, rc = rectest.record(work)
        rep.extra['suite_recording'] = rec['stats']
        for f, d in rectest.judge_grids(rep, work, rec):
            found.append((f['clause'], f, d))
    return found


def idkinds(rows):
    ks = set()
    for r in rows:
        d = MC_ROWS[r - 1] if 1 <= r <= len(MC_ROWS) else {}
        if d.get('id'):
            ks.add(d['id'][0])
    return sorted(ks)


# ---------------------------------------------------------------------------
# (C) random histories judged by Trace_GridSeq

def history_alphabet(rng):
    spec, codes, code_of = [], {}, {}
    idpool = [('str', 'a'), ('str', 'b'), ('int', '5'), ('int', '0'), ('ref', 'b'), ('ref', 'r1'),
              ('str', '5'), ('str', '@b'), ('str', ''), ('str', '0'), ('refdis', 'r1'), ('refdis', 'b')]
    for i in range(14):
        d = {'t': 'dict', 'n': i}
        if i % 5 != 4:
            d['id'] = idpool[i % len(idpool)] if i < 10 else idpool[10 + (i % 2)] if i in (12, 13) else rng.choice(idpool)
        if i in (6, 11):
            d['only3'] = rng.choice(['list', 'dict', 'na'])
        spec.append(d)
    spec.append({'t': 'nondict', 'v': 'list'})
    spec.append({'t': 'nondict', 'v': 'str'})
    spec.append({'t': 'nondict', 'v': 'tuple'})
    for d in spec:
        if d.get('id'):
            s = idstr(d['id'])
            if s not in code_of:
                code_of[s] = len(code_of) + 1
                codes[code_of[s]] = s
    codes[len(codes) + 1] = 'zz'
    ids = [code_of[idstr(d['id'])] if d.get('id') else 0 for d in spec]
    return spec, codes, ids


def random_history(hs, rng, spec, codes, length):
    R = Rows(hs, spec)
    given = rng.random() < 0.6
    ver = rng.choice(['2.0', '3.0']) if given else '2.0'
    g = new_grid(hs, ver, given)
    dict_ids = [i for i, d in enumerate(spec, 1) if d['t'] == 'dict']
    non_ids = [i for i, d in enumerate(spec, 1) if d['t'] != 'dict']
    evs = []
    parked = None      # the other live grid: the parent of the last derivation (or the derived grid after a switch)
    quiet = 0          # number of coming events after which no lookup by id is observed
    names = ['append'] * 5 + ['insert'] * 4 + ['setitem'] * 4 + ['delitem'] * 3 + ['delslice', 'pop', 'pop', 'remove',
             'reverse', 'extend', 'extend', 'iadd', 'slice', 'slice', 'filter_id', 'filter_limit', 'clear',
             'setslice', 'setslice', 'setslice_row', 'delstep', 'delstep', 'copy']
    for _ in range(length):
        n = len(g._row)
        name = rng.choice(names)
        if name == 'clear' and rng.random() < 0.7:
            continue
        if parked is not None and rng.random() < 0.12:
            g, parked = parked, g
            o = {'name': 'switch', 'res': ['None']}
            try:
                o['rows'] = [R.rid(x) for x in g._row]
                o['ver'] = str(g.version)
            except Exception as e:
                o['rows'] = [-9]; o['ver'] = type(e).__name__
            o['obs'] = observe(hs, g, R, codes, rng=rng, lookups=(quiet == 0))
            quiet = max(0, quiet - 1)
            evs.append(o)
            continue
        def RW():
            if rng.random() < 0.06:
                return rng.choice(non_ids)
            if n and rng.random() < 0.25:
                return R.rid(g._row[rng.randrange(n)])
            return rng.choice(dict_ids)
        def IX():
            return rng.randint(-n - 2, n + 1)
        def SL():
            return NOARG if rng.random() < 0.3 else rng.randint(-n - 1, n + 1)
        o = {'name': name}
        if name in ('append', 'remove'):
            o['r'] = RW()
        elif name in ('insert', 'setitem'):
            o['i'] = IX(); o['r'] = RW()
        elif name == 'delitem':
            o['i'] = IX()
        elif name == 'pop':
            o['i'] = NOARG if rng.random() < 0.4 else IX()
        elif name in ('delslice', 'slice'):
            o['a'] = SL(); o['b'] = SL()
            if name == 'slice' and rng.random() < 0.4:
                o['a'] = rng.choice([NOARG, 0, -n]); o['b'] = rng.choice([NOARG, n, n + 1])   # the whole grid
        elif name in ('extend', 'iadd'):
            o['rs'] = [RW() for _ in range(rng.randint(0, 3))]
        elif name == 'setslice':
            o['a'] = SL(); o['b'] = SL()
            o['rs'] = [RW() for _ in range(rng.randint(0, 3))]
        elif name == 'delstep':
            o['a'] = SL(); o['b'] = SL(); o['st'] = rng.choice([-1, -1, -2, 2, 3, -3])
        elif name == 'setslice_row':
            o['a'] = SL(); o['b'] = SL(); o['r'] = RW()
        elif name == 'filter_limit':
            o['n'] = rng.randint(1, 3)
        elif name == 'copy':
            o['how'] = rng.choice(['shallow', 'deep', 'deep', 'pickle'])
        if name in ('slice', 'filter_id', 'filter_limit') and rng.random() < 0.5 and n > 6:
            pass
        res, g2 = apply_op(hs, g, R, o)
        o['res'] = res
        try:
            o['rows'] = [R.rid(x) for x in g2._row]
            o['ver'] = str(g2.version)
        except Exception as e:
            o['rows'] = [-9]; o['ver'] = type(e).__name__
        # a lookup by id builds the id index as a side effect: for a while after a grid was derived (and in some
        # stretches at random) no lookup is made, so that mutators also meet grids whose index was never built
        if res in (['grid'], ['copy']) and rng.random() < 0.6:
            quiet = rng.randint(1, 3)
        elif quiet == 0 and rng.random() < 0.04:
            quiet = rng.randint(1, 4)
        o['obs'] = observe(hs, g2, R, codes, rng=rng, lookups=(quiet == 0))
        quiet = max(0, quiet - 1)
        evs.append(o)
        if res == ['grid'] or (res == ['copy'] and o['how'] != 'shallow'):
            parked = g
        g = g2
    return {'ver': ver, 'given': given, 'evs': evs}


def random_histories(rep, work, hs, tier):
    rng = random.Random(seed() * 104729 + 14)
    nh, ln = (60, 120) if tier == 'quick' else (600, 200)
    spec, codes, ids = history_alphabet(rng)
    traces = [random_history(hs, rng, spec, codes, ln) for _ in range(nh)]
    f = {'ids': ids, 'dict': [i for i, d in enumerate(spec, 1) if d['t'] == 'dict'],
         'nondict': [i for i, d in enumerate(spec, 1) if d['t'] != 'dict'],
         'only3': [i for i, d in enumerate(spec, 1) if d.get('only3')], 'traces': traces}
    found = []
    verdicts = judge(rep, work, f, 'random')
    rep.traces += len(traces)
    rep.extra['random_histories'] = {'count': nh, 'length': ln, 'rows_alphabet': len(spec), 'id_codes': len(codes),
                                    'switches_between_parent_and_derived_grid': sum(1 for t in traces for e in t['evs'] if e['name'] == 'switch')}
    rep.sample({'history_event': {k: v for k, v in traces[0]['evs'][0].items() if k != 'obs'}})
    for i, tr in enumerate(traces, 1):
        rep.case(('hist', i))
        evs = tr['evs']
        for (l, clause, oi) in verdicts[i]:
            ev = evs[l - 1]
            cl = clause[4:] if clause.startswith('obs_') else clause.split('_')[0]
            ob = ev['obs'][oi - 1] if oi else None
            pre_rows = evs[l - 2]['rows'] if l >= 2 else []
            found.append((cl, {'engine': 'gridseq-trace', 'clause': cl, 'op': ev['name'],
                               'id_kinds': sorted(set(spec[r - 1]['id'][0] for r in pre_rows + ev['rows']
                                                      if 1 <= r <= len(spec) and spec[r - 1].get('id')))},
                          {'events': [{k: x for k, x in e.items() if k != 'obs'} for e in evs[max(0, l - 5):l]],
                           'observation': ob, 'tlc_clause': clause, 'rows_spec': spec,
                           'trace_header': {'ver': tr['ver'], 'given': tr['given']}}))
    # binding self-test: corrupt one logged state of a trace; exactly that event must be rejected
    good = json.loads(json.dumps(traces[0]))
    bad = json.loads(json.dumps(traces[0]))
    for idx, e in enumerate(bad['evs']):
        if len(e['rows']) >= 2 and e['res'] == ['None']:
            e['rows'] = e['rows'][::-1] if e['rows'] != e['rows'][::-1] else e['rows'][1:]
            break
    f2 = dict(f); f2['traces'] = [good, bad]
    v = judge(rep, work, f2, 'selftest')
    new_rej = [x for x in v[2] if x not in v[1]]
    ok = v[1] == verdicts[1] and any(x[0] == idx + 1 for x in new_rej)
    rep.extra['binding_selftest'] = {'corrupted_event': idx + 1, 'new_rejections': new_rej[:4], 'ok': ok}
    if not ok:
        raise MachineryError('binding self-test failed: %r' % (v,))
    return found


def judge(rep, work, f, label):
    """shards of <= 50 traces per TLC run (trace files with observations are large)"""
    n = len(f['traces'])
    if n <= 50:
        return judge_one(rep, work, f, label)
    out = {}
    for k in range(0, n, 50):
        part = dict(f)
        part['traces'] = f['traces'][k:k + 50]
        v = judge_one(rep, work, part, '%s-%d' % (label, k // 50))
        for i, rej in v.items():
            out[k + i] = rej
    return out


def judge_one(rep, work, f, label):
    path = work.path('gs-%s.json' % label)
    with open(path, 'w') as fh:
        json.dump(f['traces'], fh)
    write_consts(work, 'TraceConsts', {'TIds': f['ids'], 'TDictRows': set(f['dict']), 'TNonDict': set(f['nondict']),
                                       'TOnly3': set(f['only3'])})
    r = run_tlc(work, 'Trace_GridSeq.tla', 'Trace_GridSeq.cfg', workers=8, env={'TRACE_FILE': path}, lib=work.dir)
    rep.tlc('trace-' + label, r)
    if r.invariant_violated:
        raise MachineryError('trace run stopped on invariant %s (a logged state breaks it)\n%s' % (
            r.invariant_violated, r.out[-1500:]))
    verdict, done = {}, set()
    for ln in r.out.split('\n'):
        ln = ln.strip()
        if ln.startswith('<<"ACCEPT"') or ln.startswith('<<"DONE"'):
            done.add(int(ln.split(',')[1].strip(' >')))
        elif ln.startswith('<<"REJECT"'):
            p = [x.strip(' <>"') for x in ln.split(',')]
            verdict.setdefault(int(p[1]), []).append((int(p[2]), p[3], int(p[4])))
    for i in range(1, len(f['traces']) + 1):
        if i not in done:
            raise MachineryError('no verdict for trace %d (%s)\n%s' % (i, label, r.out[-1500:]))
        verdict.setdefault(i, [])
        verdict[i].sort()
    return verdict


def run_property(prop, tier):
    rep = Report(prop, tier)
    found = run_engine(rep, tier, prop)
    other = {}
    for cl, feat, detail in found:
        p = CLAUSE_PROP.get(cl, 'C14')
        if cl == 'unbuildable':
            p = prop
        if p == prop:
            rep.violation(feat, detail)
        else:
            other[p] = other.get(p, 0) + 1
    if other:
        rep.extra['mismatches_belonging_to_other_properties'] = other
        print('note: %s mismatches found by the shared engine belong to other properties: %r' % (prop, other))
    rep.exhaustive = True
    rep.rule = ('every <<state, operation>> pair of the bounded GridSeq model (quick: index arguments thinned 1/3), replayed '
                'on real Grids with a cold and a warm id index and followed by the full observation table; plus seeded '
                'random histories judged event by event by Trace_GridSeq; distinct by (pre-state, op)')
    rep.assumptions = ['rows are identified by object identity; row contents are pairwise unequal',
                       'numeric g[key] lookups are positional and outside C15',
                       'in-place edits of a stored row dict are outside the properties']
    return rep.finish()


def replay(prop, path):
    """Re-run exactly the case stored in a replay file (expected values were computed by TLC when
    the file was written; histories are re-executed and re-judged by TLC)."""
    hs = use_repo()
    with open(path) as fh:
        d = json.load(fh)
    c = d['case']
    rep = Report(prop, 'quick')
    if 'pre_state' in c:
        pre = skey(c['pre_state']['rows'], c['pre_state']['ver'], c['pre_state']['given'])
        init = ((), '2.0' if not pre[2] else pre[1], pre[2])
        # the construction path starts from the grid header it was found with
        paths = {pre: ((tuple(), c['pre_state']['ver'] if pre[2] else '2.0', pre[2]), c['path'])}
        g, R = build_state(hs, pre, paths)
        if g is None:
            print('pre-state cannot be rebuilt along the recorded path')
            print('VIOLATION property=%s replay=%s' % (prop, path))
            return 1
        if c.get('got') is None and c.get('expected') is None:
            # recorded because the pre-state could not be built along its path; now it can
            print('pre-state rebuilt along the recorded path')
            print('property holds on this case')
            return 0
        if c['variant'] == 'warm':
            observe_lookups(hs, g, R, MC_CODES)
        res, g2 = apply_op(hs, g, R, c['op'])
        got = {'result': res, 'rows': [R.rid(x) for x in g2._row], 'ver': str(g2.version)}
        print('operation :', c['op'], 'on', c['pre_state'], c['variant'])
        print('got       :', got)
        print('recorded  :', c['got'], ' expected:', c['expected'])
        if isinstance(c['expected'], list) and c['expected'] and isinstance(c['expected'][0], dict):
            ok = got in c['expected']
        else:
            obs = observe(hs, g2, R, MC_CODES, rng=None, full=True)
            o0 = c['got']
            same = [o for o in obs if all(o.get(k) == o0.get(k) for k in ('k', 'i', 'a', 'b', 'row', 'id', 'kt'))]
            print('observation now:', same)
            ok = bool(same) and all(o != o0 for o in same)
    else:
        spec = c['rows_spec']
        for s in spec:
            if s.get('id'):
                s['id'] = tuple(s['id'])
        codes, code_of = {}, {}
        for s in spec:
            if s.get('id'):
                t = idstr(s['id'])
                if t not in code_of:
                    code_of[t] = len(code_of) + 1
                    codes[code_of[t]] = t
        print('recorded events (last is the rejected one):')
        for e in c['events']:
            print('   ', e)
        print('failing clause:', c['tlc_clause'], c.get('observation'))
        print('(histories are re-generated and re-judged by `bin/check %s`; this file documents the case)' % prop)
        ok = False
    print('property holds on this case' if ok else 'VIOLATION property=%s replay=%s' % (prop, path))
    return 0 if ok else 1
