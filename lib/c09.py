# C09 -- malformed ZINC raises ZincParseException: never mis-parsed, never a crash.
#  (B) spec/Gen_ZincMut.tla: TLC enumerates every mutant (truncate / delete / insert / replace /
#      duplicate / swap at every position, symbols from a metacharacter alphabet) of small seed
#      documents written by the independent writer (ZincWrite.tla).
#  (C) hszinc's outcome on each mutant {grid(abs) | ZincParseException(line, col) | other | timeout}
#      is judged by TLC with the reader machine (Trace_Zinc "outcome"): structurally broken text
#      must be rejected, accepted text must be read as the machine reads it, the position must lie
#      within the text, nothing else may escape.  Seeded random strings and scalar tokens too.
import json
import sys
import multiprocessing
import random
import signal

from core import Report, Work, run_tlc, use_repo, seed, MachineryError, NCPU, write_consts
import absval
import zinccodec


def seed_docs(hs, A, tier, rng):
    import datetime
    import pytz
    G = hs.Grid
    docs, names = [], []

    def add(name, ver, cols, rows, meta=None):
        g = G(version=ver, metadata=meta or {}, columns=cols)
        g.extend(rows)
        docs.append(A.doc([g])); names.append(name)
    add('str_num', '2.0', [('a', []), ('b', [])], [{'a': 'x"y', 'b': 1.5}])
    add('ref_uri', '2.0', [('a', [('dis', 'A')]), ('b', [])], [{'a': hs.Ref('r1', 'd s'), 'b': hs.Uri('u`v')}])
    add('list_dict', '3.0', [('a', []), ('b', [])], [{'a': [1, 'z', hs.MARKER], 'b': {'k': 2, 'm': hs.MARKER}}])
    add('nested', '3.0', [('a', [])], [{'a': G(version='3.0', columns=[('x', [])])}], meta={'m': hs.MARKER})
    add('meta_esc', '3.0', [('a', [('u', u'é')])], [{'a': 'q\n\\'}, {'a': None}], meta={'t': 'v', 'n': hs.NA})
    add('dt_coord', '3.0', [('a', []), ('b', [])],
        [{'a': pytz.utc.localize(datetime.datetime(2020, 1, 2, 3, 4, 5)), 'b': hs.Coordinate(1.5, -2.25)}])
    add('xstr_bin', '3.0', [('a', []), ('b', [])], [{'a': hs.XStr('hex', 'ff'), 'b': hs.Bin('t/p')}])
    add('qty_bool', '2.0', [('a', []), ('b', []), ('c', [])], [{'a': hs.Quantity(2, 'kW'), 'b': True, 'c': hs.REMOVE}])
    add('v200_null', '2.0.0', [('a', []), ('b', [])], [{'a': None, 'b': 'x'}])      # 2.0 spelled with extra zero groups
    if tier != 'quick':
        add('date_time', '2.0', [('a', []), ('b', [])], [{'a': datetime.date(2020, 2, 29), 'b': datetime.time(1, 2, 3, 500000)}])
        add('two_rows', '2.0', [('a', []), ('b', [])], [{'a': 1, 'b': 'x'}, {'a': None, 'b': hs.MARKER}])
        add('nested_rows', '3.0', [('a', []), ('b', [])],
            [{'a': G(version='3.0', columns=[('x', []), ('y', [])]), 'b': [[1], {}]}])
        add('bin2', '2.0', [('a', [])], [{'a': hs.Bin('text/plain')}])
        add('neg_exp', '3.0', [('a', []), ('b', [])], [{'a': -1.5e-07, 'b': float('inf')}])
    # 3.0-only constructs under versions that are 2.0 / pre-3.0 in other spellings (abstract documents written
    # directly: Grid itself refuses to hold them); the seeds themselves are judged (mutation "none")
    one = [5, absval.dec_of_float(1.0)]
    only3 = {'na': [2], 'list': [16, [one]], 'dict': [17, [[absval.cps('k'), one]]], 'xstr': [11, absval.cps('Xs'), absval.cps('p')],
             'grid': [18, absval.cps('3.0'), [], [[absval.cps('x'), []]], [[one]]]}
    for ver in (['2.0.0', '2'] if tier == 'quick' else ['2.0.0', '2', '1.0', '2.0.0.0', '2.0']):
        for kind, v in sorted(only3.items()):
            docs.append([[18, absval.cps(ver), [], [[absval.cps('a'), []], [absval.cps('b'), []]], [[v, [7, absval.cps('x')]]]]])
            names.append('only3_%s_under_%s' % (kind, ver))
    # ... and the same inside a NESTED grid labelled 2.0 (cell of a 3.0 document): a nested grid is a 3.0-only construct
    # whatever its own label says, so a 2.0 grid can hold neither a 3.0 grid nor another 2.0 grid
    only3n = dict(only3, grid2=[18, absval.cps('2.0'), [], [[absval.cps('x'), []]], [[one]]])
    for kind, v in sorted(only3n.items()):
        if tier == 'quick' and kind not in ('grid2', 'list', 'na'):
            continue
        inner = [18, absval.cps('2.0'), [], [[absval.cps('b'), []]], [[v]]]
        docs.append([[18, absval.cps('3.0'), [], [[absval.cps('a'), []]], [[inner]]]])
        names.append('only3_%s_in_nested_2.0' % kind)
    # a two-grid document
    g1 = G(version='2.0', columns=[('a', [])]); g1.extend([{'a': 1}])
    g2 = G(version='3.0', columns=[('b', [])]); g2.extend([{'b': [2]}])
    docs.append(A.doc([g1, g2])); names.append('two_grids')
    return docs, names


def _raw_docs():
    h3, h2 = 'ver:"3.0"\n', 'ver:"2.0"\n'
    out = []
    for n in (30, 70, 150, 400):
        out += [h3 + 'a\n' + '[' * n + '\n', h3 + 'a\n' + '{a:' * n + '\n', h3 + 'a\n' + '[' * n + ']' * n + '\n',
                h3 + 'a\n' + '{a:' * n + '1' + '}' * n + '\n', 'ver:"3.0" m:' + '[' * n + '\na\n1\n',
                h3 + 'a\n' + ('<<' + h3 + 'a\n') * min(n, 70) + '\n', h3 + 'a\n' + '"' + '\\' * n + '\n',
                h3 + 'a\n' + '(' * n + '\n', h2 + 'a\n' + '[' * n + '\n']
    # long literals that never end, or end in an escape the grammar does not have: rejected, and promptly
    for n in (28, 36, 60, 200):
        body = ('abcdefghij klmnopqrst ' * 12)[:n]
        for open_, esc in (('"', ''), ('"', '\\q'), ('`', ''), ('`', '\\q'), ('@r "', ''), ('Xs("', ''), ('hex("', '')):
            out += [h3 + 'a\n' + open_ + body + esc + '\n', h3 + 'a\nN,' + open_ + body + esc]
        out += ['ver:"' + body + '\na\n1\n', h3 + 'a dis:"' + body + '\n1\n', h3 + 'a\n<<ver:"' + body + '\nb\n1\n>>\n']
    for inner in ('[1]', '{k:1}', 'NA', 'Xs("p")', '<<' + h3 + 'x\n1\n>>', '<<' + h2 + 'x\n1\n>>'):
        # a nested grid whose header says 2.0, with a second ver tag / a 3.0-only kind in its metadata, columns, cells
        out += [h3 + 'a\n<<ver:"2.0" ver:"3.0"\nb\n%s\n>>\n' % inner, h3 + 'a\n<<ver:"2.0" m:%s\nb\n1\n>>\n' % inner,
                h3 + 'a\n<<ver:"2.0"\nb t:%s\n1\n>>\n' % inner, h3 + 'a\n<<ver:"2.0" ver:"3.0" m:%s\nb\n1\n>>\n' % inner,
                'ver:"2.0" ver:"3.0"\na\n%s\n' % inner, 'ver:"2.0" m:%s\na\n1\n' % inner, h2 + 'a t:%s\n1\n' % inner,
                'ver:"3.0" ver:"2.0"\na\n%s\n' % inner]
    return out


RAW_DOCS = _raw_docs()

SCALAR_LITERALS = [
    '9999-12-31T23:59:59Z Auckland', '0001-01-01T00:00:00Z Los_Angeles', '9999-12-31T23:59:59.999999+14:00 Kiritimati',
    '0001-01-01T00:00:00-12:00', '9999-12-31T23:59:59-11:00 Midway', '0001-01-01T00:00:00+13:00 Tongatapu',
    '2020-01-01T00:00:00Z UTC', '2020-01-01T00:00:00 UTC', '2020-02-30T00:00:00Z UTC', '2020-01-01T24:00:00Z',
    '2020-01-01T00:00:60Z UTC', '2021-03-14T02:30:00-05:00 New_York', '2021-11-07T01:30:00-04:00 New_York',
    '2020-01-01T00:00:00+99:99', '2020-13-01', '0000-01-01', '10000-01-01', '24:00:00', '23:59:60', '12:30:00.1234567',
    'C(91.0,181.0)', 'C(-90.0,-180.0)', 'C(1,2)', 'C(1.5,)', '1e400', '-1e400kW', '1e-400', '1e99999999999', '9' * 400,
    '1_', '1__0', '_1', '1e', '1e+', '.5', '5.', '0x10', 'INF', '-INF', 'NaN', 'NaNkW', 'infinity',
    'hex("zz")', 'hex("abc")', 'b64("@@@@")', 'b64("a")', 'Bin()', 'Bin("")', 'Bin(text/plain)', 'Bin("text/plain")',
    '@', '@a b', '@a "d"', '@a "d', '"\\u12"', '"\\uD800"', '"\\q"', '`a\\`', '``', '[', '[1,', '[1,,2]', '{a:}', '{a b:1}',
    '{A}', '<<', '<<>>', 'T', 'F', 'true', 'N', 'NA', 'M', 'R', 'Foo("x")', 'foo("x")', '9Foo("x")',
    # every escape the URI grammar has, one by one and all together; the string escapes; escapes it does not have
    '`a\\:b`', '`a\\/b`', '`a\\?b`', '`a\\#b`', '`a\\[b`', '`a\\]b`', '`a\\@b`', '`a\\&b`', '`a\\=b`', '`a\\;b`',
    '`a\\`b`', '`a\\\\b`', '`\\:\\/\\?\\#\\[\\]\\@\\&\\=\\;`', '`\\u0041\\u00e9`', '`a\\$b`', '`a\\"b`', '`a\\nb`', '`a\\xb`',
    # a nested grid as a scalar whose header names no version, is cut short, or is missing
    '<<ver:"three"\na\n1\n>>', '[<<ver:"three"\na\n1\n>>]', '{k:<<ver:"three"\na\n1\n>>}', '<<ver:"3.0\na\n1\n>>',
    '<<\nver:"x.y"\na\n1\n>>', '<<a\n1\n>>', '<<ver:"3.0"\na\n1\n>>', '<<ver:"2.0"\na\n[1]\n>>', '<<ver:""\na\n1\n>>',
    '"\\b\\f\\n\\r\\t\\"\\\\\\$"', '"\\u0041\\U0041"', '"\\:"', '"\\/"', '"\\`"', "\"\\'\"",
]

_W = {}


class _Timeout(Exception):
    pass


def _alarm(signum, frame):
    # (the exception alone is not enough: a catch-all handler inside the code under test may turn it into an
    # ordinary refusal -- the flag records that the budget ran out, whatever happens to the exception)
    _W['fired'] = True
    raise _Timeout()


def _budget(on):
    """5 s of the process' own CPU time (parsing is CPU work; independent of how busy the machine is), and two
    minutes of wall-clock time as a backstop for a call that waits instead of computing"""
    signal.setitimer(signal.ITIMER_VIRTUAL, 5.0 if on else 0)
    signal.setitimer(signal.ITIMER_REAL, 120.0 if on else 0)


def _timed(fn):
    """runs one outcome function under the time budget; a call during which the budget ran out is a timeout"""
    def run_(args):
        _W['fired'] = False
        cid, out = fn(args)
        _budget(False)
        if _W['fired']:
            return cid, {'out': 'timeout'}
        return cid, out
    run_.__name__ = fn.__name__
    return run_


class _NoStdout(object):
    """a standard stream that cannot take a write (a closed pipe, a full disk): reading ZINC text does not depend on it"""
    encoding = 'ascii'

    def write(self, text):
        raise OSError('standard stream is not writable')

    def flush(self):
        pass


def _init():
    sys.stdout = _NoStdout()
    hs = use_repo()
    _W['hs'] = hs
    _W['A'] = absval.Abs(hs)
    import hszinc.zincparser as zp
    _W['ZPE'] = zp.ZincParseException
    signal.signal(signal.SIGALRM, _alarm)
    signal.signal(signal.SIGVTALRM, _alarm)


def _outcome_raw(args):
    cid, text = args[0], args[1]
    single = len(args) > 2 and args[2]
    hs, A, ZPE = _W['hs'], _W['A'], _W['ZPE']
    s = ''.join(chr(c) for c in text)
    _budget(True)
    try:
        res = hs.parse(s, mode=hs.MODE_ZINC, single=single)
        if single:
            res = [] if res is None else [res]
        _budget(False)
        try:
            return cid, {'out': 'grid', 'abs': A.doc(res)}
        except absval.NotAbstractable as e:
            return cid, {'out': 'other', 'exc': 'result_not_haystack: %s' % e}
    except _Timeout:
        return cid, {'out': 'timeout'}
    except ZPE as e:
        _budget(False)
        ok = isinstance(e, ValueError) and isinstance(e.line, int) and isinstance(e.col, int)
        if not ok:
            return cid, {'out': 'other', 'exc': 'ZincParseException with bad fields'}
        gtext = e.grid_str if isinstance(e.grid_str, str) else s
        return cid, {'out': 'zpe', 'line': e.line, 'col': e.col, 'gtext': [ord(c) for c in gtext]}
    except BaseException as e:
        _budget(False)
        return cid, {'out': 'other', 'exc': type(e).__name__ + ': ' + str(e)[:120]}


def _outcome(args):
    return _timed(_outcome_raw)(args)


def _scalar_outcome(args):
    return _timed(_scalar_outcome_raw)(args)


def _scalar_outcome_raw(args):
    cid, text, ver = args
    hs = _W['hs']
    s = ''.join(chr(c) for c in text)
    _budget(True)
    try:
        hs.parse_scalar(s, mode=hs.MODE_ZINC, version=ver)
        _budget(False)
        return cid, {'out': 'value'}
    except _Timeout:
        return cid, {'out': 'timeout'}
    except ValueError:
        _budget(False)
        return cid, {'out': 'valueerror'}
    except BaseException as e:
        _budget(False)
        return cid, {'out': 'other', 'exc': type(e).__name__ + ': ' + str(e)[:120]}


ALPHA = '"\\,\n []{}<>():@`N1a\r$uTMR.-+e_%/CBin0259xZz\t'


def run(tier):
    hs = use_repo()
    rep = Report('C09', tier)
    A = absval.Abs(hs)
    rng = random.Random(seed() * 4099 + 9)
    with Work('c09') as work:
        docs, names = seed_docs(hs, A, tier, rng)
        extra = [{'num': 1, 'esc': 2, 'frac': 1, 'dt': 3, 'coord': 2, 'sep': 2, 'nl': 1, 'mark': 2, 'list': 2,
                  'empty': 1, 'gap': 2, 'fin': 2, 'ng': 2}] if tier != 'quick' else []
        write_consts(work, 'ZwCat', {'Docs': docs, 'ExtraStyles': extra})
        g = run_tlc(work, 'Gen_ZincMut.tla', 'Gen_ZincMut.cfg', workers=NCPU, lib=work.dir, xmx='8g', timeout=3000)
        rep.tlc('mutant generation', g)
        seen, muts = set(), []
        for d in g.json_lines():
            key = (d['di'], d['si'], json.dumps(d['m']))
            if key not in seen:
                seen.add(key); muts.append(d)
        if len(muts) < 3000:
            raise MachineryError('only %d mutants generated' % len(muts))
        muts.sort(key=lambda d: (d['di'], d['si'], json.dumps(d['m'])))
        if tier == 'quick':
            # every truncation/deletion/dup/swap, and a seeded third of the insert/replace mutants
            muts = [d for i, d in enumerate(muts) if d['m'][0] not in ('insert', 'replace') or (i + seed()) % 3 == 0]
        cases, info = [], {}
        for d in muts:
            cid = len(cases) + 1
            cases.append({'id': cid, 'k': 'outcome', 'strict': False, 'text': d['text']})
            info[cid] = {'seed': names[d['di'] - 1], 'style': d['si'], 'mutation': d['m'][0], 'at': d['m'][1]}
        # seeded random strings over the alphabet, and random splices of two seeds
        nrand = 1500 if tier == 'quick' else 20000
        for _ in range(nrand):
            if rng.random() < 0.5:
                s = ''.join(rng.choice(ALPHA) for _ in range(rng.randint(0, 40)))
                if rng.random() < 0.7:
                    s = 'ver:"%s"\n' % rng.choice(['2.0', '3.0']) + s
            else:
                a, b = rng.choice(muts)['text'], rng.choice(muts)['text']
                s = ''.join(chr(c) for c in a[:rng.randint(0, len(a))] + b[rng.randint(0, len(b)):])
            cid = len(cases) + 1
            cases.append({'id': cid, 'k': 'outcome', 'strict': False, 'text': [ord(c) for c in s]})
            info[cid] = {'seed': 'random', 'style': 0, 'mutation': 'random', 'at': 0}
        # hand-written documents: nesting far beyond the depth any well-formed document has (the parser must give up
        # with its own exception, not with the interpreter's), duplicate `ver` tags, 3.0-only kinds hidden in odd places
        for s in RAW_DOCS:
            cid = len(cases) + 1
            cases.append({'id': cid, 'k': 'outcome', 'strict': False, 'text': [ord(c) for c in s]})
            info[cid] = {'seed': 'raw', 'style': 0, 'mutation': 'handwritten', 'at': 0}
        for c in list(cases):
            c['single'] = False
            t = c['text']
            if any(t[i] == 10 and t[i + 1] == 10 for i in range(len(t) - 1)):
                cid = len(cases) + 1
                cases.append({'id': cid, 'k': 'outcome', 'strict': False, 'text': t, 'single': True})
                info[cid] = dict(info[c['id']], single=True)
        with multiprocessing.get_context('fork').Pool(NCPU, initializer=_init) as pool:
            outs = dict(pool.map(_outcome, [(c['id'], c['text'], c['single']) for c in cases], chunksize=40))
            # scalar tokens
            scal = []
            for _ in range(1500 if tier == 'quick' else 15000):
                s = ''.join(rng.choice(ALPHA) for _ in range(rng.randint(0, 12)))
                scal.append((len(scal) + 1, [ord(c) for c in s], rng.choice(['2.0', '3.0', '2.5'])))
            # well-formed and nearly well-formed scalar literals: boundary values of every kind and each of their
            # single-character deletions (a date-time at the end of the calendar with a zone name, a zone name without
            # offset, undecodable hex / base64 payloads, exponents beyond the double range ...)
            for lit in SCALAR_LITERALS:
                cands = [lit] + [lit[:i] + lit[i + 1:] for i in range(len(lit))]
                if tier == 'quick':
                    cands = [lit] + rng.sample(cands[1:], min(8, len(cands) - 1))
                for s_ in cands:
                    for ver in ('2.0', '3.0'):
                        scal.append((len(scal) + 1, [ord(c) for c in s_], ver))
            # many version numbers in one process: whatever the readers remember per version (grammars, nearest
            # official version), the twentieth odd version and the official ones afterwards are read like the first
            for rep_ in range(8):
                for k in range(20):
                    scal.append((len(scal) + 1, [ord(c) for c in '[1, 2]'], '3.%d' % (k + 1 + 20 * (rep_ % 2))))
                for s_ in ('[1', '"x', '1', '@', '{a:}', '<<ver:"2.0"\na\n1\n>>', '<<ver:"2.0"\na\n"\n>>', 'Bin(', '`', 'C(1,'):
                    scal.append((len(scal) + 1, [ord(c) for c in s_], '2.0'))
            souts = dict(pool.map(_scalar_outcome, scal, chunksize=100))
        for c in cases:
            o = outs[c['id']]
            c['out'] = o['out']
            c['abs'] = o.get('abs', [])
            c['line'] = o.get('line', 0); c['col'] = o.get('col', 0); c['gtext'] = o.get('gtext', [])
        base = len(cases)
        for sid, text, ver in scal:
            cases.append({'id': base + sid, 'k': 'scalar', 'strict': False, 'text': text, 'out': souts[sid]['out'], 'single': False})
            info[base + sid] = {'seed': 'scalar', 'style': 0, 'mutation': 'random_token', 'at': 0, 'ver': ver}
        verdicts = zinccodec.judge_cases(rep, work, cases, 'c09')
        rep.traces += len(cases)
        counts = {}
        for c in cases:
            v, clause, pos = verdicts[c['id']]
            m = info[c['id']]
            rep.case((m['seed'], m['style'], m['mutation'], m['at'], c['id']))
            key = v if v != 'NOTE' else 'NOTE:' + clause.split('_')[0]
            counts[key] = counts.get(key, 0) + 1
            if v == 'REJECT':
                text = ''.join(chr(x) for x in c['text'])
                o = outs.get(c['id']) if c['k'] == 'outcome' else souts.get(c['id'] - base)
                rep.violation({'engine': 'zincmut', 'clause': clause, 'mutation': m['mutation'], 'seed': m['seed'],
                               'hszinc': c['out'], 'single': bool(c.get('single'))},
                              {'text': text, 'clause': clause, 'machine_position': pos, 'hszinc_outcome': c['out'],
                               'exception': (o or {}).get('exc'), 'line': c.get('line'), 'col': c.get('col'), 'info': m})
        rep.extra['verdict_counts'] = counts
        rep.extra['mutants'] = len(muts)
        rep.extra['seeds'] = names
        rep.extra['hszinc_outcomes'] = {k: sum(1 for c in cases if c['out'] == k) for k in set(c['out'] for c in cases)}
        if (rep.extra['hszinc_outcomes'].get('grid', 0) < 50 or rep.extra['hszinc_outcomes'].get('zpe', 0) < 500) and not rep.violations:
            raise MachineryError('vacuous mutant set: %r' % rep.extra['hszinc_outcomes'])
        rep.sample({'mutant': {'text': ''.join(chr(x) for x in muts[len(muts) // 2]['text']), 'm': muts[len(muts) // 2]['m']}})
        # binding self-test: an accepted "zpe" case relabelled as a returned grid must be rejected
        okz = [c for c in cases if c['k'] == 'outcome' and c['out'] == 'zpe' and verdicts[c['id']][0] == 'OK'
               and c['text'][:4] != [118, 101, 114, 58]]
        if okz:
            # (a relabelled case is only a NOTE when the machine refuses the text for a non-structural reason, where
            # either outcome is allowed: several candidates, one of them at least must turn into a rejection)
            pick = okz[:8]
            sc = []
            for j, o in enumerate(pick):
                c0 = json.loads(json.dumps(o)); c0['id'] = 2 * j + 1
                c1 = json.loads(json.dumps(o)); c1['id'] = 2 * j + 2; c1['out'] = 'grid'; c1['abs'] = []; c1['single'] = False
                sc += [c0, c1]
            v2 = zinccodec.judge_cases(rep, work, sc, 'c09self', shards=1)
            ok = all(v2[2 * j + 1][0] == 'OK' for j in range(len(pick))) and \
                any(v2[2 * j + 2][0] == 'REJECT' for j in range(len(pick)))
            rep.extra['binding_selftest'] = {'ok': ok, 'candidates': len(pick),
                                             'rejected_when_relabelled': sum(1 for j in range(len(pick)) if v2[2 * j + 2][0] == 'REJECT')}
            if not ok:
                raise MachineryError('binding self-test failed: %r' % (v2,))
    rep.exhaustive = True
    rep.rule = ('every mutant (6 operators x every position x 22 symbols; quick: a third of the insert/replace mutants) of the seed '
                'documents, plus seeded random strings/splices and random scalar tokens; distinct by (seed, style, mutation, position, symbol)')
    rep.assumptions = ['time budget 5 s per call', 'for rejections the machine classifies as non-structural (calendar ranges, cell counts, '
                       'unknown tokens) either outcome of hszinc is accepted and only counted']
    return rep.finish()


def replay(path):
    hs = use_repo()
    with open(path) as fh:
        d = json.load(fh)
    c = d['case']
    _init()
    rep = Report('C09', 'quick')
    text = [ord(x) for x in c['text']]
    if c['info']['seed'] == 'scalar':
        _, o = _scalar_outcome((1, text, c['info'].get('ver', '3.0')))
        case = {'id': 1, 'k': 'scalar', 'strict': False, 'text': text, 'out': o['out'], 'single': False}
    else:
        _, o = _outcome((1, text, bool(c['info'].get('single'))))
        case = {'id': 1, 'k': 'outcome', 'strict': False, 'text': text, 'single': bool(c['info'].get('single')), 'out': o['out'], 'abs': o.get('abs', []),
                'line': o.get('line', 0), 'col': o.get('col', 0), 'gtext': o.get('gtext', [])}
    print('text:', repr(c['text']))
    print('hszinc outcome:', {k: v for k, v in o.items() if k not in ('abs', 'gtext')})
    with Work('c09r') as work:
        v = zinccodec.judge_cases(rep, work, [case], 'r', shards=1)
    print('TLC verdict:', v[1])
    ok = v[1][0] != 'REJECT'
    print('property holds on this case' if ok else 'VIOLATION property=C09 replay=%s' % path)
    return 0 if ok else 1
