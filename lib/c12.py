# C12 -- filter literals are data, never code (hszinc/grid_filter.py, hszinc/datatypes.py reprs),
# against spec/FilterGen.tla.
#  (A) MC_FilterGen_{consts,repr,splice,audit,reprsafe}.cfg : TLC model-checks the compile pipeline with token
#      provenance: the "consts" emitter satisfies every invariant, the "repr" emitter violates
#      PayloadOnlyInLiterals / NoRawSplice / AuditAllowed for kind xstr (and numhuge) and for no other kind.
#  (B) Gen_FilterGen_{quick,thorough}.cfg : TLC prints the case list (shape x position x payload class, the text
#      around the payload position, benign variants, texts that are not filters).
#  (C) Trace_FilterGen.tla : every text is evaluated twice on the real code under an audit hook (call A on a
#      grid without rows = cache miss, call B on a grid with rows = cache hit) and TLC judges what was logged:
#      audit alphabet per phase, canary flags, global writes, grid digests, names and skeleton of the generated
#      code against the template LEARNT by TLC from the benign variants, rejection of non-filters.
# Python holds no model: it substitutes payload strings, drives hszinc, projects what it saw to JSON and reads
# TLC's verdict lines.  Canary payloads are harmless: they set an environment variable / a builtins attribute /
# a module global, change the working directory to, or create an empty file in, <work>/canary -- nothing else.
import builtins
import dis
import hashlib
import json
import os
import re
import sys
import types
import warnings

from core import Report, Work, run_tlc, use_repo, MachineryError, cps, NCPU

C = '{CANARY}'          # replaced by the per-run canary directory

# ---------------------------------------------------------------------------
# payload catalogue (data, not a model: which of them a position can carry is computed by TLC from the code points)

PY_EXPR = ["__import__('os').environ.__setitem__('HSZINC_CANARY','1')",
           "open('" + C + "/e','w')",
           "globals().__setitem__('HSZINC_CANARY',1)",
           "setattr(__import__('builtins'),'HSZINC_CANARY',1)",
           "__import__('os').chdir('" + C + "')",
           "_entity.__setitem__('HSZINC_CANARY',1)",
           "_grid.metadata.__setitem__('HSZINC_CANARY',1)",
           "[c for c in ().__class__.__base__.__subclasses__()]"]
PY_STMT = ["import os; os.environ['HSZINC_CANARY']='1'",
           "x=1\nimport socket\n",
           "1\n  import os\n  os.environ['HSZINC_CANARY']='1'\n  return True",
           "1)\nimport os\nos.environ['HSZINC_CANARY']='1'\n(",
           "global _get_path; _get_path = None",
           "del NOT_FOUND"]
QUOTE_BS = ['"', '\\', '"+open(chr(47))+"', '\\"', "'", "')", '\n', 'a\nb', '\\n', '{x}', "{__import__('os')}",
            '%s%(x)s', '${x}', '`', '\r\n', '\t', '"""', "'''", '\\\\"', '\\x41', 'a\\', '\\N{BULLET}',
            '`+open(chr(47))+`', '\\u0022', '\\U0041', '\\$']
UNICODE = ['\\u0022+open(chr(47))+\\u0022', '\u00e9\u20ac', '\u2028x', '\u2029', '\x85', '\x7f', '\ufeff', '\u202e',
           '\U0001d4b3', '\x00', '\x1b[0m', '\uff02', '\u02ba']
NUMBER_FORM = ['1e5', '1e999', '-1.5E-3', '-1e999', '0', '007', '1_000', '0x10', '1e-999', '1.', '.5', '1__0', '1j',
               '1e', '1e5e5', '--1', '1L', '0o17', '1_', '9' * 40]
# (idempotent on purpose: a row appended per evaluated row would never let Grid.filter's loop end)
GRID_MUT = "__import__('sys')._getframe(1).f_locals['_grid'].metadata.__setitem__('HSZINC_CANARY',1)"
CALLS = [('eval', PY_EXPR[0]), ('open', '/nonexistent'), ('eval', PY_EXPR[1]), ('exec', PY_STMT[0]),
         ('__import__', 'abcd'), ('hex', 'ff'), ('eval', GRID_MUT), ('eval', PY_EXPR[2]), ('eval', PY_EXPR[3]),
         ('eval', PY_EXPR[4]),
         ('exec', "import os\nos.environ['HSZINC_CANARY']='1'"), ('exec', 'global NOT_FOUND\nNOT_FOUND = None'),
         ('open', C + '/o'), ('__import__', 'os'), ('b64', 'YWJj'), ('compile', '1'), ('print', 'x'),
         ('getattr', 'x'), ('globals', ''), ('eval', '1+1'), ('Uri', 'x'), ('id', 'x'), ('__class__', 'x'),
         ('eval', "__import__('hszinc').grid_filter.__dict__.__setitem__('HSZINC_CANARY', 1)")]

BUILTIN = {
    'ident': ['eval', 'open', 'exec', 'import', 'lambda', 'print', 'globals', 'compile', 'hex', 'id', '__import__',
              'Exception'],
    'tz': ['True', 'None', 'Exception', 'NotImplemented', 'SystemExit', 'Eval', 'eval'],
    'unit': ['eval', 'open', 'exec', 'print', 'compile', '__import__'],
    'name': ['eval', 'open', 'exec', '__import__', 'hex', 'compile', 'globals', 'print', 'getattr', 'id', 'True',
             'None', 'NOT_FOUND', '_get_path', 'Uri', 'Ref', 'b64', 'os.system',
             # names of codecs the standard library would have to IMPORT to honour
             'rot_13', 'punycode', 'hz', 'idna', 'cp037', 'bz2_codec', 'uu_codec', 'quopri_codec', 'unicode_escape', 'undefined'],
    'quoted': ['eval', '__import__', 'open', 'exec', 'os.system', '__builtins__'],
    'number': ['eval', 'inf', 'nan', 'INF', 'Nan', '-INF', 'None'],
}
DUNDER = {
    'ident': ['x__class__', 'a__dict__', '__class__', '__import__', '_x'],
    'tz': ['X__class__', 'A__dict__-x', '__class__'],
    'unit': ['x__class__', 'a__dict__', '__class__', 'kW__'],
    'name': ['__class__', '__import__', '__builtins__', '__dict__', '__subclasses__', '__globals__', '__name__',
             'a.__class__.__mro__'],
    'quoted': ['__class__', '().__class__.__bases__[0].__subclasses__()', '__builtins__.__dict__',
               'a.__class__.__mro__[-1]', '__import__'],
}
POSGROUP = {'tag': 'ident', 'path_segment': 'ident', 'tz_name': 'tz', 'unit': 'unit', 'ref_name': 'name',
            'xstr_type': 'name', 'number_text': 'number'}
QUICK_N = {'quote_bs': 4, 'call': 8, 'number_form': 4, 'unicode': 3}


def payloads(cls, pos, tier):
    """concrete payloads of a class at a position: list of (payload, second payload)"""
    pg = POSGROUP.get(pos, 'quoted')
    if cls == 'builtin_name':
        xs = [(p, '') for p in BUILTIN[pg]]
    elif cls == 'dunder':
        xs = [(p, '') for p in DUNDER[pg]]
    elif cls == 'py_expr':
        xs = [(p, '') for p in PY_EXPR]
    elif cls == 'py_stmt':
        xs = [(p, '') for p in PY_STMT]
    elif cls == 'quote_bs':
        xs = [(p, '') for p in QUOTE_BS]
    elif cls == 'unicode':
        xs = [(p, '') for p in UNICODE]
    elif cls == 'number_form':
        xs = [(p, '') for p in NUMBER_FORM]
    elif cls == 'call':
        xs = list(CALLS)
    else:
        raise MachineryError('unknown payload class %r' % cls)
    if tier == 'quick':
        keep = [x for x in xs if x[0] in ('rot_13', 'punycode')] if pos == 'xstr_type' else []
        xs = xs[:QUICK_N.get(cls, 2)] + keep
    return xs


def esc_quoted(s, quote):
    """the escaping the filter grammar offers inside "..." / `...` (checked by TLC: Esc in FilterGen.tla)"""
    out = []
    for ch in s:
        o = ord(ch)
        if ch == quote or ch == '\\':
            out.append('\\' + ch)
        elif ch in '\b\f\n\r\t':
            out.append('\\' + 'bfnrt'['\b\f\n\r\t'.index(ch)])
        elif o < 32:
            out.append('\\u%04x' % o)
        else:
            out.append(ch)
    return ''.join(out)


def place(pos, mode, p):
    if mode == 'raw':
        return p
    if pos in ('str', 'ref_display', 'xstr_payload'):
        return esc_quoted(p, '"')
    if pos == 'uri':
        return esc_quoted(p, '`')
    return p


# ---------------------------------------------------------------------------
# observation: audit hook (installed once per process), snapshots, code skeletons

class Recorder(object):
    def __init__(self):
        self.active = False
        self.events = []

    def hook(self, ev, args):
        if not self.active:
            return
        a = None
        if ev in ('open', 'exec', 'compile', 'import'):
            try:
                a = args[0]
            except Exception:
                a = None
        self.events.append((ev, a))


REC = Recorder()


class _Stream(object):
    """stands in for sys.stdout / sys.stderr during an observed call: every write is an event"""
    encoding = 'ascii'

    def __init__(self, name):
        self.name = name

    def write(self, text):
        if REC.active:
            REC.events.append((self.name, None))
        return len(text)

    def flush(self):
        pass

    def isatty(self):
        return False
_STATE = {'hook': False}


def install_hook():
    if not _STATE['hook']:
        sys.addaudithook(REC.hook)
        _STATE['hook'] = True


def _quiet_unraisable(u):
    return None


def nested_codes(code):
    out = []
    for c in code.co_consts:
        if isinstance(c, types.CodeType):
            out.append(c)
            out.extend(nested_codes(c))
    return out


def skeleton(code):
    """(digest of opcode sequences + names without constants, names referenced) of exec'd code; the names the
    code itself defines (the generated function's own name) are not counted"""
    inner = nested_codes(code)
    own = set(c.co_name for c in inner)
    names = [n for n in code.co_names if n not in own]
    parts = [('M', [i.opname for i in dis.get_instructions(code)], names)]
    for c in inner:
        parts.append(('F', [i.opname for i in dis.get_instructions(c)], list(c.co_names), c.co_argcount,
                      list(c.co_freevars)))
        names.extend(c.co_names)
    seen, uniq = set(), []
    for n in names:
        if n not in seen:
            seen.add(n)
            uniq.append(n)
    return hashlib.sha1(repr(parts).encode('utf-8', 'backslashreplace')).hexdigest()[:16], uniq


def ascii_name(n):
    return n if n.isascii() else 'U+' + '.'.join('%x' % ord(c) for c in n)


_CONTAINERS = frozenset([dict, list, set, tuple, frozenset])


class Env(object):
    """the two grids, the canary probes and the module-global snapshots"""

    def __init__(self, hs, work):
        import pyparsing
        self.hs = hs
        self.parse_base = pyparsing.ParseBaseException
        self.canary = work.path('canary')
        os.makedirs(self.canary, exist_ok=True)
        self.cwd = os.getcwd()
        self.build_grids()
        self.registry = set()          # (module, name) of generated functions the cache created
        self.ncalls = 0
        self._mods, self._nmods = None, 0
        self.judging = False           # set after the warm-up
        self.seen, self.skipped = set(), 0
        self._snap = None              # snapshots taken at the end of the previous call (nothing runs in between)
        self._probe = None

    def build_grids(self):
        cols = ['id', 'a', 'p', 'b', 'q', 'zz', 'ww', 'yy', 'vv', 'abc', 'siteRef']
        self.rows = self.hs.Grid(version='3.0', columns=[(c, {}) for c in cols])
        self.rows.metadata['dis'] = 'c12'
        # (the first two rows are identified by references, the others by strings: both are followed by a->b)
        self.rows.append({'id': self.hs.Ref('x1'), 'a': self.hs.Ref('x2'), 'p': self.hs.Ref('x2'), 'zz': self.hs.MARKER, 'ww': self.hs.MARKER,
                          'abc': 1.0})
        self.rows.append({'id': self.hs.Ref('x2', 'Second'), 'b': 'abc', 'q': 'abc', 'yy': self.hs.MARKER, 'vv': self.hs.MARKER, 'abc': 'red',
                          'siteRef': self.hs.Ref('x1')})
        self.rows.append({'id': 'x3', 'b': 5.0, 'q': 5.0})
        X = self.hs.XStr
        self.rows.append({'id': 'x4', 'b': X('Color', 'red'), 'q': X('rot_13', 'today'), 'abc': X('punycode', 'today'),
                          'a': X('hex', 'ff'), 'p': X('eval', '1')})
        self.empty = self.hs.Grid(version='3.0', columns=[(c, {}) for c in cols])
        self.empty.metadata['dis'] = 'c12'

    # -- grid
    @staticmethod
    def grid_digest(g):
        h = hashlib.sha1()
        h.update(repr((str(g.version), list(g.metadata.items()),
                       [(k, list(v.items())) for k, v in g.column.items()], len(g))).encode('utf-8', 'replace'))
        for row in g:
            h.update(repr(list(row.items())).encode('utf-8', 'replace'))
        # what the grid answers to lookups by id is part of the grid (evaluating a filter must not change it)
        rows = list(g)
        for key in ('x1', '@x1', 'x2', '@x2', "@x2 'Second'", 'x3', '@x3', 'x4', 'zz', 'Second'):
            try:
                r = g.get(key)
                ans = 'none' if r is None else str([i for i, x in enumerate(rows) if x is r])
            except Exception as e:
                ans = type(e).__name__
            h.update(('%s=%s;' % (key, ans)).encode('utf-8'))
        return h.hexdigest()[:12]

    # -- canary probes
    def probes(self):
        return {'environ': dict(os.environ), 'file': sorted(os.listdir(self.canary)),
                'builtins': dict(vars(builtins)), 'modules': set(sys.modules), 'cwd': os.getcwd(),
                'interp': (sys.getrecursionlimit(), sys.getswitchinterval(), tuple(sys.path), len(sys.meta_path),
                           len(sys.path_hooks), sys.gettrace(), sys.getprofile())}

    def flags(self, p0):
        """names of the probes that changed since p0; the changes are undone (files stay: fresh names)"""
        out = []
        env = dict(os.environ)
        if env != p0['environ']:
            out.append('environ')
            for k in list(os.environ):
                if k not in p0['environ']:
                    del os.environ[k]
            for k, v in p0['environ'].items():
                if os.environ.get(k) != v:
                    os.environ[k] = v
        if sorted(os.listdir(self.canary)) != p0['file']:
            out.append('file')
            for fn in os.listdir(self.canary):           # the harness's own (empty) canary files
                if fn not in p0['file']:
                    os.unlink(os.path.join(self.canary, fn))
        b = vars(builtins)
        if set(b) != set(p0['builtins']) or any(b[k] is not v for k, v in p0['builtins'].items()):
            out.append('builtins')
            for k in list(b):
                if k not in p0['builtins']:
                    delattr(builtins, k)
            for k, v in p0['builtins'].items():
                if b.get(k) is not v:
                    setattr(builtins, k, v)
        if set(sys.modules) - p0['modules']:
            out.append('modules')
        if os.getcwd() != p0['cwd']:
            out.append('cwd')
            os.chdir(p0['cwd'])
        now = (sys.getrecursionlimit(), sys.getswitchinterval(), tuple(sys.path), len(sys.meta_path), len(sys.path_hooks),
               sys.gettrace(), sys.getprofile())
        if now != p0['interp']:
            # interpreter-wide settings: recursion limit, switch interval, import path and hooks, trace / profile functions
            out.append('interp')
            sys.setrecursionlimit(p0['interp'][0])
            sys.setswitchinterval(p0['interp'][1])
            sys.path[:] = list(p0['interp'][2])
        return out

    # -- module globals
    def modules(self):
        if self._mods is None or self._nmods != len(sys.modules):
            self._nmods = len(sys.modules)
            self._mods = [(n, sys.modules[n]) for n in sorted(sys.modules)
                          if (n == 'hszinc' or n.startswith('hszinc.') or n == '__main__') and sys.modules[n] is not None]
        return self._mods

    def gsnap(self):
        """module -> name -> (object, len of the object when it is a container); equal identity means equal
        value for everything immutable, containers are additionally compared by size"""
        s = {}
        for n, m in self.modules():
            s[n] = {k: (v, len(v) if type(v) in _CONTAINERS else None) for k, v in list(vars(m).items())
                    if k != '__warningregistry__'}       # (the interpreter's own bookkeeping of warnings)
        return s

    def gdiff(self, s0, s1, codes, probe):
        """classes of change between two snapshots: [{'w': class, 'n': count}], the names for the replay file, and
        whether anything was put back (changes other than the cache's own are undone, so that one case cannot
        disturb the next)"""
        cnt, names, restored = {}, [], False
        undo = self.judging            # lazy initialisation during warm-up must stay

        def add(w, n, k):
            cnt[w] = cnt.get(w, 0) + 1
            names.append('%s:%s.%s' % (w, n, k))
        for n, m in self.modules():
            d0, d1 = s0.get(n, {}), s1.get(n, {})
            for k, (v, ln) in d1.items():
                if k not in d0:
                    if callable(v) and (getattr(v, '__code__', None) in codes or (not codes and probe(v))):
                        self.registry.add((n, k))
                        add('gen_fn_added', n, k)
                    else:
                        add('added', n, k)
                        if undo:
                            vars(m).pop(k, None)
                            restored = True
                elif v is not d0[k][0] or ln != d0[k][1]:
                    o = d0[k][0]
                    if type(o) is int and type(v) is int and v > o:
                        add('counter', n, k)
                    else:
                        add('changed', n, k)
                        if undo and v is not o:
                            vars(m)[k] = o
                            restored = True
            for k in d0:
                if k not in d1:
                    if (n, k) in self.registry:
                        self.registry.discard((n, k))
                        add('gen_fn_removed', n, k)
                    else:
                        add('removed', n, k)
                        if undo:
                            vars(m)[k] = d0[k][0]
                            restored = True
        return [{'w': w, 'n': cnt[w]} for w in sorted(cnt)], names, restored

    def path_class(self, a):
        try:
            p = os.fsdecode(a) if isinstance(a, (str, bytes, os.PathLike)) else None
        except Exception:
            p = None
        if p is None:
            return 'other'
        if p.startswith('<'):
            return 'pseudo'
        if '/zoneinfo/' in p:
            return 'tzdata'
        if os.path.abspath(p).startswith(self.canary):
            return 'canary'
        if p.endswith('.py') or p.endswith('.pyc'):
            return 'source'
        return 'other'

    def summarise(self, events):
        out, idx = [], {}
        for ev, a in events:
            ac = self.path_class(a) if ev == 'open' else '-'
            if (ev, ac) not in idx:
                idx[(ev, ac)] = len(out)
                out.append({'f': ascii_name(ev), 'n': 0, 'a': ac})
            out[idx[(ev, ac)]]['n'] += 1
        return out

    def call(self, grid, text):
        """one grid.filter(text) under observation"""
        self.ncalls += 1
        p0 = self._probe if self._probe is not None else self.probes()
        s0 = self._snap if self._snap is not None else self.gsnap()
        d0 = self.grid_digest(grid)
        REC.events = []
        out, exc, result = 'ok', '', None
        so, se = sys.stdout, sys.stderr
        try:
            # writing to the process's standard streams is an effect like any other: logged as an event of the call
            sys.stdout, sys.stderr = _Stream('stdout.write'), _Stream('stderr.write')
            REC.active = True
            try:
                result = grid.filter(text)
            finally:
                REC.active = False
                sys.stdout, sys.stderr = so, se
        except KeyboardInterrupt:
            raise
        except self.parse_base as e:
            out, exc = 'parse', type(e).__name__
        except RecursionError as e:
            # nesting beyond what the interpreter's stack allows is a refusal of the text, not an effect of its content
            # (only for the hand-written texts nested > 50 deep: a resource limit, outside the property)
            if text.count('(') + text.count('[') + text.count('not ') > 50:
                out, exc = 'parse', type(e).__name__
            else:
                out, exc = 'other', type(e).__name__
        except BaseException as e:          # noqa -- anything else, SystemExit included, is an observation
            out, exc = 'other', type(e).__name__
        events, REC.events = REC.events, []
        p1 = self.probes()
        fl = self.flags(p0)
        self._probe = p1 if not fl else None
        codes, first, src = set(), None, None
        for ev, a in events:
            if ev == 'exec' and isinstance(a, types.CodeType):
                if first is None:
                    first = a
                codes.add(a)
                codes.update(nested_codes(a))
            elif ev == 'compile' and src is None and isinstance(a, (str, bytes)):
                src = a if isinstance(a, str) else a.decode('utf-8', 'replace')

        def probe(v):
            # a callable added without any exec (closure / interpreter implementations): is it the filter?
            if out != 'ok' or result is None:
                return False
            try:
                sel = set(id(r) for r in result)
                ok = all(bool(v(grid, r)) == (id(r) in sel) for r in grid)
            except Exception:
                ok = False
            if self.flags(p0):
                self._probe = None
            return ok
        s1 = self.gsnap()
        gd, gnames, restored = self.gdiff(s0, s1, codes, probe)
        self._snap = None if restored else s1
        d1 = self.grid_digest(grid)
        if d1 != d0:
            self.build_grids()             # a mutated grid must not disturb the next case
        return {'out': out, 'exc': exc, 'ev': self.summarise(events), 'fl': fl, 'gd': gd, 'gnames': gnames,
                'd0': d0, 'd1': d1, 'code': first, 'src': src,
                'nsel': len(result) if out == 'ok' and result is not None else -1}

    def case(self, text, pay='', pay2='', mode='esc', escd='', cls='benign'):
        """evaluate text twice (A: no rows -> compile, B: rows -> evaluate) and log what was seen"""
        a = self.call(self.empty, text)
        b = self.call(self.rows, text)
        sk, names = 'none', []
        code = a['code'] if a['code'] is not None else (b['code'] if a['out'] != 'ok' else None)
        if code is not None:
            sk, names = skeleton(code)
        pid = []
        for n in re.findall(r'[A-Za-z_][A-Za-z0-9_]*', pay + ' ' + pay2):
            if n not in pid:
                pid.append(n)
        rec = {'cls': cls, 'mode': mode, 'pay': cps(pay), 'pay2': cps(pay2), 'esc': cps(escd),
               'oa': a['out'], 'ob': b['out'], 'ea': a['ev'], 'eb': b['ev'], 'ca': a['fl'], 'cb': b['fl'],
               'ga': a['gd'], 'gb': b['gd'], 'gm': [a['d0'], a['d1'], b['d0'], b['d1']],
               'sk': sk, 'names': [ascii_name(n) for n in names], 'pid': pid}
        info = {'text': text, 'exc_a': a['exc'], 'exc_b': b['exc'], 'source': a['src'] or b['src'],
                'globals_a': a['gnames'], 'globals_b': b['gnames'], 'selected': b['nsel']}
        return rec, info


# ---------------------------------------------------------------------------
# case list (from TLC) -> groups of logged cases

def generate(rep, work, tier):
    g = run_tlc(work, 'MC_FilterGen.tla', 'Gen_FilterGen_%s.cfg' % tier, workers=1)
    rep.tlc('generate-cases', g)
    if not g.completed or g.invariant_violated:
        raise MachineryError('case generator failed\n%s' % g.out[-1500:])
    lines = g.json_lines()
    if len(lines) < 300:
        raise MachineryError('case generator printed only %d lines' % len(lines))
    return lines


def shape_key(ln):
    return (ln['ctx'], ln['atom'], ln['kind'], ln['pos'])


def build_plan(lines, tier):
    """-> (benign, payload, invalid): lists of group descriptions with the texts to run"""
    benign, payload, invalid = [], {}, {}
    for ln in sorted(lines, key=lambda x: (x['g'], shape_key(x), x.get('cls', ''))):
        if ln['g'] == 'benign':
            benign.append({'k': 'benign', 'shape': shape_key(ln), 'items': [
                {'text': ln['t1'], 'cls': 'benign', 'mode': 'esc', 'pay': '', 'pay2': '', 'esc': ''},
                {'text': ln['t2'], 'cls': 'benign', 'mode': 'esc', 'pay': '', 'pay2': '', 'esc': ''}]})
        elif ln['g'] == 'payload':
            key = shape_key(ln)
            pos = ln['pos']
            if key not in payload:
                payload[key] = {'k': 'payload', 'shape': key, 'items': []}
                for b in (ln['b1'], ln['b2']):
                    payload[key]['items'].append(make_item(ln, 'benign', 'esc', b[0], b[1], b[0], b[1]))
            for n, (p, p2) in enumerate(payloads(ln['cls'], pos, tier)):
                for mode in ln['modes']:
                    payload[key]['items'].append(make_item(ln, ln['cls'], mode, p, p2, p, p2))
                    if n < (2 if tier == 'quick' else 6) and ' ' in (ln['pre'] + ln['mid'] + ln['suf']):
                        # the same filter with its blanks spelled as line breaks / the other white space
                        # characters a tokenizer may or may not take for a line end
                        for ws in ('\n', '\r\n', '\r', '\t'):
                            it = make_item(ln, ln['cls'], mode, p, p2, p, p2)
                            it['ws'] = ws
                            payload[key]['items'].append(it)
        elif ln['g'] == 'invalid':
            form = ln['kind']
            invalid.setdefault(form, {'k': 'invalid', 'shape': ('*', 'invalid', form, 'none'), 'items': []})
            invalid[form]['items'].append({'text': ln['text'], 'cls': 'invalid', 'mode': 'text', 'pay': '', 'pay2': '',
                                           'esc': '', 'ctx': ln['ctx']})
        else:
            raise MachineryError('unknown line kind %r' % (ln.get('g'),))
    # hand-written texts that are no filters: nesting far deeper than any filter has (a parser that raises its limits
    # for them must put them back), unterminated literals full of brackets
    some = next(iter(invalid.values()))['items'][0] if invalid else None
    if some is not None:
        texts = ['a == *', 'a == [*]', 'a == [*, *]', 'a ==  ', '*', 'a == [1,]x', '(' * 60 + 'a', '(' * 200, 'a == "' + '(' * 80, 'a and (' * 40 + 'b', '(' * 55 + 'a' + ')' * 54,
                 'a == [' + '[' * 70, 'a == `' + '(' * 60, 'not ' * 60 + 'a', '(' * 51 + ' a ==',
                 # a lone word that Python takes for an identifier but that is no tag name (tags begin with a lower-case
                 # ASCII letter): the whole filter, and as the last word of one
                 '__import__', '__class__', '__builtins__', '_site', 'Exec', 'Site', 'None', 'True', u'\u00e9', u'a\u00e9', '_',
                 ' __import__ ', 'a and __import__', 'a and Exec', 'not _site', '__import__ == 1', 'a->Site', 'a->__class__']
        invalid['handwritten_deep'] = {'k': 'invalid', 'shape': ('*', 'invalid', 'handwritten_deep', 'none'), 'items': [
            {'text': t, 'cls': 'invalid', 'mode': 'text', 'pay': '', 'pay2': '', 'esc': '', 'ctx': some['ctx']} for t in texts]}
    return benign, [payload[k] for k in sorted(payload)], [invalid[k] for k in sorted(invalid)]


def make_item(ln, cls, mode, p, p2, tpl, tpl2):
    return {'cls': cls, 'mode': mode, 'tpl': tpl, 'tpl2': tpl2, 'pre': ln['pre'], 'mid': ln['mid'], 'suf': ln['suf'],
            'pos': ln['pos']}


def instantiate(item, canary):
    """fill the payload into the text TLC rendered around the position"""
    if 'text' in item:
        return item
    p = item['tpl'].replace(C, canary)
    p2 = item['tpl2'].replace(C, canary)
    pos, mode = item['pos'], item['mode']
    if pos == 'xstr_both':
        e = place('xstr_payload', mode, p2)
        text = item['pre'] + p + item['mid'] + e + item['suf']
    else:
        e = place(pos, mode, p)
        text = item['pre'] + e + item['suf']
    if item.get('ws'):
        # the blanks TLC rendered between tokens, spelled as line breaks (pyparsing skips any white space):
        # only the text around the payload is touched, never the payload itself
        def nl(s):
            return s.replace(' ', item['ws'])
        if pos == 'xstr_both':
            text = nl(item['pre']) + p + nl(item['mid']) + e + nl(item['suf'])
        else:
            text = nl(item['pre']) + e + nl(item['suf'])
    item.update({'text': text, 'pay': p, 'pay2': p2, 'esc': e})
    return item


def run_groups(env, plan):
    """run every item of every group on the real code; -> (groups for TLC, per-case info)"""
    groups, infos = [], []
    for g in plan:
        cases, inf = [], []
        for it in g['items']:
            it = instantiate(it, env.canary)
            if it['text'] in env.seen:          # the same text again would be a cache hit (no compilation to see)
                if it['cls'] in ('benign', 'invalid'):
                    raise MachineryError('text %r occurs twice in the case list' % (it['text'],))
                env.skipped += 1
                continue
            env.seen.add(it['text'])
            rec, info = env.case(it['text'], it['pay'], it['pay2'], it['mode'], it['esc'], it['cls'])
            info.update({'cls': it['cls'], 'mode': it['mode'], 'payload': it.get('tpl', ''),
                         'payload2': it.get('tpl2', ''), 'ctx': it.get('ctx', g['shape'][0])})
            cases.append(rec)
            inf.append(info)
        groups.append({'k': g['k'], 'pos': g['shape'][3], 'cases': cases})
        infos.append({'shape': g['shape'], 'k': g['k'], 'cases': inf})
    return groups, infos


def warm_up(env, benign, payload):
    """lazy imports, the zone map, pytz zone files, linecache: every benign text once (parenthesised, so that
    the judged run of the same text is a cache miss again), and the tz_name payload cases once"""
    with warnings.catch_warnings():
        warnings.simplefilter('ignore')
        env.judging = False
        env.case('a')
        for g in benign:
            for it in g['items']:
                env.case('(' + it['text'] + ')')
        for g in payload:
            if g['shape'][3] == 'tz_name' and g['shape'][0] == 'top' and g['shape'][1] == 'cmp_eq':
                for it in g['items']:
                    it = instantiate(it, env.canary)
                    env.case('(' + it['text'] + ')')
    env.judging = True


def learn_groups(groups):
    """the benign groups reduced to what template learning needs (shards 2..n)"""
    return [{'k': 'learn', 'pos': g['pos'], 'cases': [{'names': c['names']} for c in g['cases']]}
            for g in groups if g['k'] == 'benign']


VERDICT = re.compile(r'^<<"(REJECT|STAT|ACCEPT|DONE|TNAME)"(.*)>>$')


def judge(rep, work, groups, label, workers=None):
    """Trace_FilterGen over groups -> (rejections per group {tid: [(l, clause, arg)]}, stats, template names)"""
    path = work.path('c12-%s.json' % label)
    with open(path, 'w') as f:
        json.dump({'groups': groups}, f, separators=(',', ':'))
    r = run_tlc(work, 'Trace_FilterGen.tla', 'Trace_FilterGen.cfg', workers=workers or min(NCPU, 16),
                env={'TRACE_FILE': path}, xmx='6g')
    rep.tlc('trace-' + label, r)
    if r.invariant_violated or 'Error:' in r.out:
        raise MachineryError('trace run failed (%s)\n%s' % (label, r.out[-2500:]))
    rej, stat, done, tnames = {}, {}, {}, set()
    for ln in r.out.split('\n'):
        m = VERDICT.match(ln.strip())
        if not m:
            continue
        p = [x.strip(' "') for x in m.group(2).split(',') if x.strip()]
        if m.group(1) == 'REJECT':
            rej.setdefault(int(p[0]), []).append((int(p[1]), p[2], int(p[3])))
        elif m.group(1) == 'STAT':
            stat[int(p[0])] = tuple(int(x) for x in p[1:])
        elif m.group(1) == 'TNAME':
            tnames.add(p[0])
        else:
            done[int(p[0])] = int(p[1])
    for t, g in enumerate(groups, 1):
        if g['k'] == 'learn':
            continue
        if t not in done or t not in stat:
            raise MachineryError('no verdict for group %d (%s)\n%s' % (t, label, r.out[-1500:]))
        if done[t] != len(set(x[0] for x in rej.get(t, []))):
            raise MachineryError('group %d (%s): verdict lines inconsistent' % (t, label))
        rej.setdefault(t, [])
    return rej, stat, tnames


def judge_sharded(rep, work, groups, label, limit=7000000):
    """one TLC run per <= limit bytes of JSON; the benign groups (template learning) go into every shard"""
    benign = [g for g in groups if g['k'] == 'benign']
    learn = learn_groups(groups)
    rest = [(i, g) for i, g in enumerate(groups) if g['k'] != 'benign']
    shards, cur, size = [], [], 0
    for i, g in rest:
        n = len(json.dumps(g, separators=(',', ':')))
        if cur and size + n > limit:
            shards.append(cur)
            cur, size = [], 0
        cur.append((i, g))
        size += n
    if cur:
        shards.append(cur)
    rej, stat, tnames = {}, {}, set()
    for s, sh in enumerate(shards or [[]]):
        head = benign if s == 0 else learn
        doc = head + [g for _, g in sh]
        index = ([i for i, g in enumerate(groups) if g['k'] == 'benign'] if s == 0 else [None] * len(head)) \
            + [i for i, _ in sh]
        r2, s2, tn = judge(rep, work, doc, '%s-%d' % (label, s))
        tnames |= tn
        for t, gi in enumerate(index, 1):
            if gi is not None:
                rej[gi] = r2[t]
                stat[gi] = s2[t]
    return rej, stat, tnames


# ---------------------------------------------------------------------------
# verdict -> features / replay detail

def features(group, info, case, cinfo, clause, arg):
    shape = info['shape']
    f = {'engine': 'filtergen', 'clause': clause, 'position': shape[3], 'kind': shape[2], 'group': group['k'],
         'payload_class': case['cls']}
    ph = 'compile' if arg // 1000 == 1 else 'eval'
    k = arg % 1000 - 1
    if clause == 'audit_event':
        e = (case['ea'] if ph == 'compile' else case['eb'])[k]
        f.update({'phase': ph, 'event': e['f'], 'arg_class': e['a']})
    elif clause == 'canary':
        f.update({'phase': ph, 'flag': (case['ca'] if ph == 'compile' else case['cb'])[k]})
    elif clause == 'globals_changed':
        f.update({'phase': ph, 'change': (case['ga'] if ph == 'compile' else case['gb'])[k]['w']})
    elif clause in ('payload_name_in_code', 'foreign_name_in_code'):
        f['name_is_builtin'] = hasattr(builtins, case['names'][arg - 1])
    elif clause in ('not_rejected', 'wrong_exception'):
        f.update({'form': shape[2], 'exception': cinfo['exc_a'] or cinfo['exc_b'] or 'none'})
    return f


def detail(group, info, case, cinfo, clause, arg):
    d = {'shape': {'ctx': cinfo['ctx'], 'atom': info['shape'][1], 'kind': info['shape'][2], 'pos': info['shape'][3]},
         'group': group['k'], 'clause': clause, 'arg': arg, 'text': cinfo['text'], 'payload_class': cinfo['cls'],
         'mode': cinfo['mode'], 'payload': cinfo['payload'], 'payload2': cinfo['payload2'],
         'logged': {'outcome_compile_call': case['oa'] + (':' + cinfo['exc_a'] if cinfo['exc_a'] else ''),
                    'outcome_eval_call': case['ob'] + (':' + cinfo['exc_b'] if cinfo['exc_b'] else ''),
                    'audit_compile_call': case['ea'], 'audit_eval_call': case['eb'],
                    'canary_flags': case['ca'] + case['cb'], 'globals': cinfo['globals_a'] + cinfo['globals_b'],
                    'grid_digests': case['gm'], 'generated_source': cinfo['source'],
                    'code_names': case['names'], 'skeleton': case['sk'], 'rows_selected': cinfo['selected']}}
    if clause in ('payload_name_in_code', 'foreign_name_in_code'):
        d['name'] = case['names'][arg - 1]
    return d


# ---------------------------------------------------------------------------
# binding self-test

def selftest(rep, work, groups, rej):
    """corrupt one logged field of accepted cases; TLC must reject exactly the corrupted case, with the clause"""
    base = None
    for gi, g in enumerate(groups):
        if g['k'] == 'payload' and not rej[gi] and len(g['cases']) >= 3 and g['cases'][0]['sk'] != 'none' \
                and g['cases'][0]['oa'] == 'ok' and g['cases'][0]['ob'] == 'ok':
            base = g
            break
    inv = None
    for gi, g in enumerate(groups):
        if g['k'] == 'invalid' and not rej[gi]:
            inv = g
            break
    if base is None or inv is None:
        if any(rej.values()):
            rep.extra['binding_selftest'] = {'skipped': 'the main run accepted no complete group to corrupt'}
            return
        raise MachineryError('binding self-test: no accepted group to corrupt')
    ref = base['cases'][0]

    def mut(fn):
        c = json.loads(json.dumps(ref))
        fn(c)
        return c
    tests = [
        ('os.system logged in the evaluating call', 'audit_event', mut(lambda c: c['eb'].append({'f': 'os.system', 'n': 1, 'a': '-'}))),
        ('second exec logged in the compiling call', 'audit_event', mut(lambda c: [e.update({'n': 2}) for e in c['ea'] if e['f'] == 'exec'])),
        ('compile logged on the cache hit', 'audit_event', mut(lambda c: c['eb'].append({'f': 'compile', 'n': 1, 'a': '-'}))),
        ('open of an ordinary file', 'audit_event', mut(lambda c: c['ea'].append({'f': 'open', 'n': 1, 'a': 'other'}))),
        ('environment canary set', 'canary', mut(lambda c: c['cb'].append('environ'))),
        ('a module global changed', 'globals_changed', mut(lambda c: c['gb'].append({'w': 'changed', 'n': 1}))),
        ('two functions added by one miss', 'globals_changed', mut(lambda c: c['ga'].append({'w': 'gen_fn_added', 'n': 2}) if not c['ga'] else c['ga'][0].update({'w': 'gen_fn_added', 'n': 2}))),
        ('grid digest changed', 'grid_mutated', mut(lambda c: c['gm'].__setitem__(3, 'ffffffffffff'))),
        ('other skeleton', 'skeleton_differs', mut(lambda c: c.update({'sk': '0123456789abcdef'}))),
        ('payload identifier among the code names', 'payload_name_in_code', mut(lambda c: (c['names'].append('eval'), c['pid'].append('eval')))),
        ('unknown name among the code names', 'foreign_name_in_code', mut(lambda c: c['names'].append('zzz_unknown'))),
    ]
    iref = inv['cases'][0]
    itests = [
        ('text that is no filter accepted', 'not_rejected', dict(json.loads(json.dumps(iref)), oa='ok', ob='ok')),
        ('text that is no filter raised another exception', 'wrong_exception', dict(json.loads(json.dumps(iref)), oa='other', ob='other')),
    ]
    doc = learn_groups(groups)
    nl = len(doc)
    for _, _, c in tests:
        doc.append({'k': 'payload', 'pos': base['pos'], 'cases': [ref, ref, c]})
    for _, _, c in itests:
        doc.append({'k': 'invalid', 'pos': 'none', 'cases': [iref, c]})
    r2, _, _ = judge(rep, work, doc, 'selftest', workers=4)
    res, ok = [], True
    for n, (what, clause, _) in enumerate(tests + itests):
        t = nl + n + 1
        last = 3 if n < len(tests) else 2
        got = r2[t]
        good = bool(got) and set(x[0] for x in got) == {last} and clause in [x[1] for x in got]
        ok = ok and good
        res.append({'corrupted': what, 'expected_clause': clause, 'rejections': got, 'ok': good})
    rep.extra['binding_selftest'] = {'tests': res, 'ok': ok}
    if not ok:
        raise MachineryError('binding self-test failed: %r' % ([x for x in res if not x['ok']],))


# ---------------------------------------------------------------------------

MC_RUNS = [('consts', None), ('reprsafe', None), ('repr', 'PayloadOnlyInLiterals'), ('splice', 'NoRawSplice'),
           ('audit', 'AuditAllowed')]


def model_check(rep, work):
    """role A: the consts emitter holds; the repr emitter fails exactly as documented"""
    out = {}
    for name, expect in MC_RUNS:
        r = run_tlc(work, 'MC_FilterGen.tla', 'MC_FilterGen_%s.cfg' % name, workers=4, coverage=(expect is None))
        rep.tlc('model-check-' + name, r)
        if expect is None:
            if r.invariant_violated or not r.completed or r.distinct < 5000:
                raise MachineryError('FilterGen (%s) violates %s / incomplete\n%s' % (name, r.invariant_violated, r.out[-1500:]))
            never = [a for a in ('Tokenise', 'BuildAst', 'Emit', 'Exec', 'Eval', 'EvalHit') if not r.coverage.get(a)]
            if never:
                raise MachineryError('FilterGen (%s): actions never taken: %r' % (name, never))
            out[name] = {'holds': True, 'distinct_states': r.distinct,
                         'actions': {a: r.coverage.get(a) for a in ('Tokenise', 'BuildAst', 'Emit', 'Exec', 'Eval', 'EvalHit')}}
        else:
            kinds = sorted(set(re.findall(r'kind \|-> "(\w+)"', r.out)))
            if r.invariant_violated != expect or not set(kinds) <= {'xstr', 'numhuge'}:
                raise MachineryError('FilterGen (%s): expected a %s counterexample for kind xstr, got %r %r\n%s'
                                     % (name, expect, r.invariant_violated, kinds, r.out[-800:]))
            out[name] = {'holds': False, 'violated': expect, 'counterexample_kind': kinds}
    rep.extra['model_check'] = out


def collect(rep, groups, infos, rej):
    found = []
    for gi, g in enumerate(groups):
        for (l, clause, arg) in sorted(rej[gi]):
            if clause.startswith('x_'):
                raise MachineryError('machinery clause %s rejected: group %r case %d (%r)'
                                     % (clause, infos[gi]['shape'], l, infos[gi]['cases'][l - 1]['text']))
            c, ci = g['cases'][l - 1], infos[gi]['cases'][l - 1]
            found.append((features(g, infos[gi], c, ci, clause, arg), gi, l, clause, arg))
    prio = ['canary', 'audit_event', 'payload_name_in_code', 'globals_changed', 'grid_mutated', 'not_rejected',
            'wrong_exception', 'skeleton_differs', 'foreign_name_in_code']
    found.sort(key=lambda x: (prio.index(x[3]) if x[3] in prio else 99,
                              len(infos[x[1]]['cases'][x[2] - 1]['text']), x[1], x[2]))
    seen, first, later = set(), [], []
    for x in found:
        k = json.dumps(x[0], sort_keys=True)
        (later if k in seen else first).append(x)
        seen.add(k)
    sigs = {}
    for f, gi, l, clause, arg in first + later:
        rep.violation(f, detail(groups[gi], infos[gi], groups[gi]['cases'][l - 1], infos[gi]['cases'][l - 1], clause, arg))
        k = json.dumps(f, sort_keys=True)
        sigs[k] = sigs.get(k, 0) + 1
    rep.extra['rejections_by_signature'] = sigs
    return found


def run(tier):
    hs = use_repo()
    install_hook()
    rep = Report('C12', tier)
    rep.max_report = 12
    old_hook = sys.unraisablehook
    with Work('c12') as work:
        model_check(rep, work)
        lines = generate(rep, work, tier)
        benign, payload, invalid = build_plan(lines, tier)
        env = Env(hs, work)
        sys.unraisablehook = _quiet_unraisable
        try:
            with warnings.catch_warnings():
                warnings.simplefilter('ignore')
                warm_up(env, benign, payload)
                nwarm = env.ncalls
                groups, infos = run_groups(env, benign + invalid + payload)
        finally:
            sys.unraisablehook = old_hook
            os.chdir(env.cwd)
        ncases = sum(len(g['cases']) for g in groups)
        rep.traces += ncases
        rej, stat, tnames = judge_sharded(rep, work, groups, 'impl')
        selftest(rep, work, groups, rej)
        found = collect(rep, groups, infos, rej)

        # vacuity: every position x shape exercised with the grammar accepting the filter (figures from TLC's STAT)
        per_pos, empty = {}, []
        nskel = 0
        for gi, g in enumerate(groups):
            inpos, acc, ran, skel, parse = stat[gi]
            nskel += skel
            if g['k'] == 'payload':
                d = per_pos.setdefault(g['pos'], {'shapes': 0, 'cases': 0, 'in_position': 0, 'accepted_by_grammar': 0,
                                                   'ran_to_completion': 0, 'rejected_by_grammar': 0})
                d['shapes'] += 1
                d['cases'] += len(g['cases'])
                d['in_position'] += inpos
                d['accepted_by_grammar'] += acc
                d['ran_to_completion'] += ran
                d['rejected_by_grammar'] += parse
                # more than the two benign payloads must have been accepted in position
                if acc < 3:
                    empty.append(list(infos[gi]['shape']) + [acc])
            elif g['k'] == 'invalid' and parse == 0 and not rej[gi]:
                empty.append(list(infos[gi]['shape']) + [0])
        rep.extra['per_position'] = per_pos
        rep.extra['template_names_learnt_by_tlc'] = sorted(tnames)
        rep.extra['cases'] = {'judged': ncases, 'groups': len(groups), 'benign_groups': len(benign),
                              'payload_groups': len(payload), 'invalid_groups': len(invalid),
                              'duplicate_texts_skipped': env.skipped, 'filter_calls': env.ncalls, 'warm_up_calls': nwarm, 'with_generated_code': nskel,
                              'rejected_cases': len(set((x[1], x[2]) for x in found))}
        positions = set(g['pos'] for g in groups if g['k'] == 'payload')
        want = {'str', 'uri', 'ref_name', 'ref_display', 'xstr_type', 'xstr_payload', 'xstr_both', 'bin', 'unit',
                'tz_name', 'tag', 'path_segment', 'number_text'}
        floor = 2200 if tier == 'quick' else 20000
        if (positions != want or ncases < floor or len(payload) < (150 if tier == 'quick' else 600) or empty) and not found:
            raise MachineryError('vacuous run: positions %r, %d cases, %d payload groups, groups without an accepted '
                                 'canary payload: %r' % (sorted(want - positions), ncases, len(payload), empty[:8]))
        if nskel == 0:
            rep.assumptions.append('no code was exec\'d by any filter in this run: the skeleton / code-name clauses '
                                   'had nothing to judge (interpreting implementation)')
        elif not tnames:
            raise MachineryError('code was generated but TLC learnt an empty template')
        for gi, g in enumerate(groups):
            for n, c in enumerate(g['cases']):
                rep.case((infos[gi]['shape'], c['cls'], c['mode'], tuple(c['pay']), tuple(c['pay2']), n))
        for gi, g in enumerate(groups):
            if g['k'] == 'payload' and infos[gi]['shape'][3] in ('xstr_payload', 'tz_name') and len(rep.samples) < 4:
                ci = infos[gi]['cases'][-1]
                rep.sample({'shape': list(infos[gi]['shape']), 'text': ci['text'], 'outcome': g['cases'][-1]['ob'],
                            'audit': [e['f'] for e in g['cases'][-1]['ea']], 'source': ci['source']})
    rep.rule = ('every filter shape TLC prints (context x atom x literal kind) x payload position x payload class x '
                'the concrete payloads of the class (quick: the first 2-8; all contexts only for the atoms cmp_eq, has, '
                'has_seg), escaped per the grammar of the position and, in quoted positions, also raw; two benign '
                'variants per shape; every text the specification declares not to be a filter x context; distinct by '
                '(shape, class, mode, payload)')
    rep.exhaustive = tier != 'quick'
    rep.assumptions += [
        'side effects are observed through sys.addaudithook, os.environ, a canary directory, vars(builtins), '
        'sys.modules keys, the working directory, the globals of the hszinc modules and of __main__ (identity + shallow '
        'value) and a digest of the grid; an effect outside these probes is not seen',
        'lazy initialisation is done before judging (every benign text once, every tz name once): imports, the zone '
        'map and pytz zone files loaded on FIRST use are not attributed to the filter',
        'sys.unraisablehook is replaced by a silent function while filters run (the default hook prints a traceback, '
        'which reads the source file of the finaliser); the audit event itself is tolerated by the specification',
        'open() of a pseudo file name ("<string>", probed by CPython when it builds a SyntaxError) is tolerated',
        'Python bytecode inspection (dis, co_names) of the exec\'d code is delegated (DESIGN section 6); equality '
        'of skeleton digests and membership of names in the template are decided by TLC',
        'grammar acceptance is approximated by "no ParseBaseException": an exception raised later for an accepted '
        'text (TypeError, SyntaxError of generated code, ...) is C11\'s concern and not judged here',
    ]
    return rep.finish()


def replay(path):
    """re-run the case of a replay file on the real code (with warm-up and template learning) and judge it again"""
    hs = use_repo()
    install_hook()
    rep = Report('C12', 'quick')
    rep.replay_dir = rep.replay_dir + '/re'
    with open(path) as f:
        d = json.load(f)
    c = d['case']
    sh = c['shape']
    old_hook = sys.unraisablehook
    with Work('c12r') as work:
        lines = generate(rep, work, 'thorough')
        benign, payload, invalid = build_plan(lines, 'quick')
        env = Env(hs, work)
        target = None
        if c['group'] == 'payload':
            for g in payload:
                if g['shape'] == (sh['ctx'], sh['atom'], sh['kind'], sh['pos']):
                    it = dict(g['items'][0])
                    it.update({'cls': c['payload_class'], 'mode': c['mode'], 'tpl': c['payload'], 'tpl2': c['payload2']})
                    target = {'k': 'payload', 'shape': g['shape'], 'items': g['items'][:2] + [it]}
        elif c['group'] == 'benign':
            target = next((g for g in benign if g['shape'] == (sh['ctx'], sh['atom'], sh['kind'], sh['pos'])), None)
        else:
            target = {'k': 'invalid', 'shape': ('*', 'invalid', sh['kind'], 'none'), 'items': [
                {'text': c['text'], 'cls': 'invalid', 'mode': 'text', 'pay': '', 'pay2': '', 'esc': '', 'ctx': sh['ctx']}]}
        if target is None:
            raise MachineryError('replay: shape %r is not in the generated case list' % (sh,))
        # benign groups of the top-level context suffice for learning the template
        learn = [g for g in benign if g['shape'][0] in ('top', sh['ctx'])]
        if c['group'] == 'benign':
            learn = [g for g in learn if g is not target]
        sys.unraisablehook = _quiet_unraisable
        try:
            with warnings.catch_warnings():
                warnings.simplefilter('ignore')
                warm_up(env, learn + ([target] if c['group'] == 'benign' else []), [target] if c['group'] == 'payload' else [])
                groups, infos = run_groups(env, learn + [target])
        finally:
            sys.unraisablehook = old_hook
            os.chdir(env.cwd)
        rej, stat, tnames = judge(rep, work, groups, 'replay', workers=4)
        t = len(groups)
        info = infos[-1]['cases'][-1]
        print('text     : %r' % info['text'])
        print('outcome  : compile call %s %s, evaluating call %s %s' % (groups[-1]['cases'][-1]['oa'], info['exc_a'],
                                                                        groups[-1]['cases'][-1]['ob'], info['exc_b']))
        print('audit    : %r / %r' % ([e['f'] for e in groups[-1]['cases'][-1]['ea']], [e['f'] for e in groups[-1]['cases'][-1]['eb']]))
        print('source   : %r' % (info['source'],))
        for (l, clause, arg) in rej[t]:
            print('rejected : case %d clause %s arg %d' % (l, clause, arg))
        last = len(groups[-1]['cases'])
        ok = not any(x[1] == c['clause'] and x[0] == last for x in rej[t])
    print('property holds on this case' if ok else 'VIOLATION property=C12 replay=%s' % path)
    return 0 if ok else 1
