# C06 (JSON writer): see jsoncodec.py (JSON codec engine, tree reader spec/HJson.tla) and notes/JSON.md
import jsoncodec


def run(tier):
    return jsoncodec.run_property('C06', tier)


def replay(path):
    return jsoncodec.replay('C06', path)
