# C02 (JSON round trip): see jsoncodec.py (JSON codec engine, tree reader spec/HJson.tla) and notes/JSON.md
import jsoncodec


def run(tier):
    return jsoncodec.run_property('C02', tier)


def replay(path):
    return jsoncodec.replay('C02', path)
