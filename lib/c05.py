# C05 (JSON reader): see jsoncodec.py (JSON codec engine, tree reader spec/HJson.tla) and notes/JSON.md
import jsoncodec


def run(tier):
    return jsoncodec.run_property('C05', tier)


def replay(path):
    return jsoncodec.replay('C05', path)
