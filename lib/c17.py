# C17 -- date-times through every zone and DST transition, against spec/TzCodec.tla.
#  (A) MC_TzCodec.cfg     TLC model-checks the codec machine over abstract zones with a gap and a fold
#                         (RoundTrip, NameBijective, FallbackSound, WriterDenotes, calendar laws)
#  (C) Trace_TzCodec.tla  every mapped zone x tabulated transition x delta x microsecond x format is
#                         dumped and parsed back by the real hszinc; TLC reads the dumped text code
#                         point by code point, evaluates Off() on the zone's pytz table and judges.
#                         Likewise the tz map (recomputed by TLC as the documented fold) and the
#                         fixed-offset / unmapped-zone fallback of timezone_name.
# Python holds no model: it builds values, calls hszinc, projects to integers and reads verdicts.
import concurrent.futures
import datetime
import json
import multiprocessing
import os
import random
import re
import threading
import time

from core import Report, Work, run_tlc, use_repo, seed, MachineryError, NCPU, cps, uncps

EPOCH = datetime.datetime(1970, 1, 1)
DELTAS = (-1800, -1, 0, 1, 1800)
FORMATS = ('zinc', 'json')
# instants used for zones without a transition table (fixed zones)
STATIC_INSTANTS = [datetime.datetime(1970, 1, 1), datetime.datetime(2021, 6, 15, 12, 0, 0),
                   datetime.datetime(2000, 2, 29, 23, 59, 59), datetime.datetime(1, 1, 2, 12, 0, 0),
                   datetime.datetime(9999, 12, 30, 12, 0, 0), datetime.datetime(1900, 2, 28, 23, 59, 59)]
# local wall times of well-known zones for the fixed-offset fallback
WALLS = [((2021, 3, 14, 2, 30, 0), 'skipped'),      # US spring forward
         ((2021, 11, 7, 1, 30, 0), 'ambiguous'),    # US fall back
         ((2021, 3, 28, 2, 30, 0), 'skipped'),      # central Europe
         ((2021, 10, 31, 2, 30, 0), 'ambiguous'),
         ((2021, 10, 3, 2, 30, 0), 'skipped'),      # south-east Australia
         ((2021, 4, 4, 2, 30, 0), 'ambiguous'),
         ((2021, 6, 15, 12, 0, 0), 'ordinary'),
         ((2021, 1, 15, 12, 0, 0), 'ordinary'),
         # the first and last hour of the calendar: for half of the offsets the UTC instant lies beyond it
         ((1, 1, 1, 0, 30, 0), 'edge'), ((9999, 12, 31, 23, 30, 0), 'edge')]
MACHINERY_CLAUSES = ('x_offset_table', 'unknown_trace_kind')

_G = {}      # per-process handles (set before fork)


def _handles():
    if not _G:
        hs = use_repo()
        import pytz
        import hszinc.zoneinfo as zi
        _G.update(hs=hs, pytz=pytz, zi=zi, modes={'zinc': hs.MODE_ZINC, 'json': hs.MODE_JSON},
                  utc0=pytz.utc.localize(EPOCH))
    return _G


def secs(td):
    if td.microseconds:
        raise MachineryError('offset with microseconds: %r' % (td,))
    return td.days * 86400 + td.seconds


def inst_naive(nu):
    d = nu - EPOCH
    return [d.days, d.seconds, d.microseconds]


def inst_aware(y):
    d = y - _handles()['utc0']
    return [d.days, d.seconds, d.microseconds]


def zone_table(name, olson):
    """The pytz transition table of one zone, as integers: [[days, second of day, offset secs]..]"""
    tz = _handles()['pytz'].timezone(olson)
    tt = getattr(tz, '_utc_transition_times', None)
    if tt is None:
        return {'name': cps(name), 'olson': cps(olson), 'pre': secs(tz.utcoffset(None)), 'trans': []}
    info = tz._transition_info
    if len(info) != len(tt) or not tt:
        raise MachineryError('pytz table shape of %s' % olson)
    trans = []
    for tau, inf in zip(tt, info):
        i = inst_naive(tau)
        if i[2]:
            raise MachineryError('transition with microseconds in %s' % olson)
        trans.append([i[0], i[1], secs(inf[0])])
    return {'name': cps(name), 'olson': cps(olson), 'pre': secs(info[0][0]), 'trans': trans}


def observe_dump(x, fmt):
    g = _handles()
    try:
        t = g['hs'].dump_scalar(x, mode=g['modes'][fmt])
    except Exception as e:
        return None, {'k': 'exc', 'exc': type(e).__name__}
    if not isinstance(t, str):
        return None, {'k': 'nontext', 'type': type(t).__name__}
    return t, {'k': 'text', 'text': cps(t)}


def observe_parse(t, fmt):
    g = _handles()
    try:
        y = g['hs'].parse_scalar(t, mode=g['modes'][fmt])
    except Exception as e:
        return {'k': 'exc', 'exc': type(e).__name__}
    if not isinstance(y, datetime.datetime) or y.tzinfo is None or y.utcoffset() is None:
        return {'k': 'type', 'type': type(y).__name__}
    try:
        nm = {'k': 'ok', 'cps': cps(g['zi'].timezone_name(y))}
    except Exception as e:
        nm = {'k': 'exc', 'exc': type(e).__name__}
    return {'k': 'ok', 'inst': inst_aware(y), 'off': secs(y.utcoffset()), 'name': nm}


def rt_value(olson, nu):
    g = _handles()
    return g['pytz'].utc.localize(nu).astimezone(g['pytz'].timezone(olson))


def rt_case(x, nu, fmt):
    """dump + parse back one value x of a mapped zone; nu is the naive UTC instant it denotes"""
    c = {'inst': inst_naive(nu), 'off': secs(x.utcoffset()), 'fmt': fmt}
    t, c['res'] = observe_dump(x, fmt)
    c['back'] = observe_parse(t, fmt) if t is not None else {'k': 'none'}
    return c


def pick_indices(name, n, tier):
    if tier != 'quick' or n <= 6:
        return list(range(n))
    rng = random.Random('%d/%s' % (seed(), name))
    return sorted(set([0, 1, n - 1] + rng.sample(range(2, n - 1), 3)))


def zone_trace(name, olson, tier, us_values):
    """all cases of one mapped zone"""
    tab = zone_table(name, olson)
    tz = _handles()['pytz'].timezone(olson)
    tt = getattr(tz, '_utc_transition_times', None)
    taus = list(tt) if tt is not None else STATIC_INSTANTS
    cases = []
    stat = {'out_of_range': 0, 'changing': 0, 'fold_or_gap_window': 0}
    for ti in pick_indices(name, len(taus), tier):
        tau = taus[ti]
        before = after = None
        if tt is not None:
            after = tab['trans'][ti][2]
            before = tab['trans'][ti - 1][2] if ti > 0 else tab['pre']
        for d in DELTAS:
            if tau.year == 1 and tau == datetime.datetime.min and d < 0:
                continue        # pytz's sentinel first entry
            for us in us_values:
                nu = tau + datetime.timedelta(seconds=d, microseconds=us)
                try:
                    x = rt_value(olson, nu)
                except OverflowError:
                    stat['out_of_range'] += len(FORMATS)   # local rendering outside years 1..9999: no such value
                    continue
                for fmt in FORMATS:
                    c = rt_case(x, nu, fmt)
                    c.update(ti=ti, d=d, us=us)
                    cases.append(c)
                    if before is not None and before != after:
                        stat['changing'] += 1
                        if abs(d) <= abs(after - before):
                            stat['fold_or_gap_window'] += 1   # within the repeated / skipped local span
    return tab, cases, stat


CHUNK = 400     # cases per trace (more traces = more initial states = better worker balance)


def _rt_shard(job):
    """worker: build one shard file (a group of zones) and return its summary"""
    path, zones, tier, us_values = job
    _handles()
    tabs, traces, stats, index = [], [], [], []
    for name, olson in zones:
        tab, cases, stat = zone_trace(name, olson, tier, us_values)
        if not cases:
            raise MachineryError('no cases for zone %s' % name)
        tabs.append(tab)
        stats.append(stat)
        for i in range(0, len(cases), CHUNK):
            traces.append({'k': 'rt', 'z': len(tabs), 'cases': cases[i:i + CHUNK]})
            index.append((name, len(tabs), len(traces[-1]['cases'])))
    with open(path, 'w') as f:
        json.dump({'zones': tabs, 'traces': traces}, f, separators=(',', ':'))
    return {'path': path, 'zones': [z[0] for z in zones], 'index': index,
            'stats': stats, 'bytes': os.path.getsize(path)}


# ---------------------------------------------------------------------------
# fallback cases

def fb_values(tier, used_offsets):
    """descriptors of the "any other tz-aware date-time" values"""
    if tier == 'quick':
        mins = sorted(set(range(-14 * 60, 14 * 60 + 1, 15)) | set(o // 60 for o in used_offsets if o % 60 == 0
                                                                 and abs(o) <= 14 * 3600))
    else:
        mins = list(range(-14 * 60, 14 * 60 + 1))
    out = []
    for wall, label in WALLS:
        for m in mins:
            for kind in ('fixed', 'iso'):
                out.append({'value': kind, 'wall': list(wall), 'wall_kind': label, 'min': m})
    g = _handles()
    rmap = g['zi'].get_tz_rmap()
    for olson in g['pytz'].all_timezones:
        if olson in rmap:
            continue
        tz = g['pytz'].timezone(olson)
        tt = getattr(tz, '_utc_transition_times', None)
        pts = [((2021, 6, 15, 12, 0, 0), 'ordinary'), ((2021, 1, 15, 12, 0, 0), 'ordinary')]
        if tt is not None and len(tt) > 1:
            last = tt[-1]
            for d in (-1, 0, 1800):
                p = last + datetime.timedelta(seconds=d)
                pts.append(((p.year, p.month, p.day, p.hour, p.minute, p.second), 'transition'))
        for utc, label in pts:
            out.append({'value': 'pytz-unmapped', 'olson': olson, 'utc': list(utc), 'wall_kind': label})
    # pytz values of MAPPED zones whose offset is not the zone's offset at that instant: localize() of a skipped local
    # time (either is_dst), arithmetic across a switch without normalize(), a zone attached with tzinfo= (its first,
    # LMT, offset).  No zone name and offset can both be kept: the writer names a zone that has the value's offset at
    # that instant, or raises ValueError.
    for olson in ('America/New_York', 'Europe/Berlin', 'Australia/Sydney', 'Australia/Lord_Howe', 'Europe/London',
                  'America/St_Johns', 'Pacific/Auckland', 'America/Santiago', 'Asia/Tehran', 'America/Havana'):
        if olson not in rmap:
            continue
        tz = g['pytz'].timezone(olson)
        tt, ti = tz._utc_transition_times, tz._transition_info
        for i in range(1, len(tt)):
            if not (2019 <= tt[i].year <= 2022) or ti[i][0] <= ti[i - 1][0]:
                continue
            w = tt[i] + ti[i - 1][0] + datetime.timedelta(minutes=10)        # a wall time the switch skips
            wall = [w.year, w.month, w.day, w.hour, w.minute, w.second]
            for how in ('gap_std', 'gap_dst', 'unnormalised'):
                out.append({'value': 'pytz-odd', 'olson': olson, 'wall': wall, 'how': how, 'wall_kind': 'transition'})
        out.append({'value': 'pytz-odd', 'olson': olson, 'wall': [2020, 1, 1, 0, 0, 0], 'how': 'tzinfo', 'wall_kind': 'ordinary'})
    return out


def fb_build(v):
    """the concrete tz-aware value of a descriptor"""
    g = _handles()
    if v['value'] == 'fixed':
        tz = datetime.timezone(datetime.timedelta(minutes=v['min']))
        return datetime.datetime(*v['wall']).replace(tzinfo=tz)
    if v['value'] == 'iso':
        # a FixedOffset value as hszinc itself produces it: parse a ZINC date-time without zone name
        m = v['min']
        txt = '%04d-%02d-%02dT%02d:%02d:%02d' % tuple(v['wall']) + \
              '%s%02d:%02d' % ('-' if m < 0 else '+', abs(m) // 60, abs(m) % 60)
        return g['hs'].parse_scalar(txt, mode=g['hs'].MODE_ZINC)
    if v['value'] == 'pytz-odd':
        tz = g['pytz'].timezone(v['olson'])
        naive = datetime.datetime(*v['wall'])
        if v['how'] == 'gap_std':
            return tz.localize(naive)
        if v['how'] == 'gap_dst':
            return tz.localize(naive, is_dst=True)
        if v['how'] == 'unnormalised':
            return tz.localize(naive - datetime.timedelta(hours=2)) + datetime.timedelta(hours=2)
        return naive.replace(tzinfo=tz)
    return g['pytz'].utc.localize(datetime.datetime(*v['utc'])).astimezone(g['pytz'].timezone(v['olson']))


def fb_case(v, fmt):
    x = fb_build(v)
    if not isinstance(x, datetime.datetime) or x.utcoffset() is None:
        raise MachineryError('could not build fallback value %r -> %r' % (v, x))
    c = {'inst': inst_aware(x), 'off': secs(x.utcoffset()), 'fmt': fmt, 'v': v}
    _, c['res'] = observe_dump(x, fmt)
    return c


def _fb_chunk(vals):
    _handles()
    return [fb_case(v, fmt) for v in vals for fmt in FORMATS]


# ---------------------------------------------------------------------------
# the map

def map_event():
    g = _handles()
    zi, pytz = g['zi'], g['pytz']
    m = zi.get_tz_map()
    rm = zi.get_tz_rmap()
    names = list(m.keys())
    objs = [zi.timezone(n) for n in names]
    tzs = []
    for i, n in enumerate(names):
        first = next(j for j in range(len(names)) if objs[j] is objs[i])
        tzs.append([cps(n), cps(str(objs[i].zone)), first + 1])
    return {'all': [cps(n) for n in pytz.all_timezones],
            'haystack': [cps(n) for n in sorted(zi.HAYSTACK_TIMEZONES_SET)],
            'map': [[cps(n), cps(o)] for n, o in m.items()],
            'rmap': [[cps(o), cps(n)] for o, n in rm.items()],
            'tzs': tzs}


# ---------------------------------------------------------------------------
# TLC

def judge_file(work, path, ntraces, label, workers=2):
    """-> (TlcResult, {tid: {'status': 'ACCEPT'|'DONE', 'rej': {l: [clauses]}}})"""
    r = run_tlc(work, 'Trace_TzCodec.tla', 'Trace_TzCodec.cfg', workers=workers,
                env={'TRACE_FILE': path, 'JAVA_TOOL_OPTIONS': '-XX:ParallelGCThreads=2'}, xmx='2g')
    if r.invariant_violated or not r.completed:
        raise MachineryError('Trace_TzCodec run %s did not complete\n%s' % (label, r.out[-1500:]))
    v = {}
    for ln in r.out.split('\n'):
        ln = ln.strip()
        if not (ln.startswith('<<"') and ln.endswith('>>')):
            continue
        parts = [p.strip(' <>"') for p in ln.split(',')]
        if parts[0] == 'REJECT' and len(parts) == 4:
            v.setdefault(int(parts[1]), {'status': None, 'rej': {}})['rej'].setdefault(int(parts[2]), []).append(parts[3])
        elif parts[0] in ('ACCEPT', 'DONE') and len(parts) == 3:
            e = v.setdefault(int(parts[1]), {'status': None, 'rej': {}})
            e['status'] = parts[0]
            e['n'] = int(parts[2])
    for tid in range(1, ntraces + 1):
        e = v.get(tid)
        if e is None or e['status'] is None:
            raise MachineryError('no verdict for trace %d of %s\n%s' % (tid, label, r.out[-1500:]))
        if e['n'] != len(e['rej']) or (e['status'] == 'ACCEPT') != (not e['rej']):
            raise MachineryError('inconsistent verdict for trace %d of %s: %r' % (tid, label, e))
    return r, v


def rt_features(c, clause, tab):
    return {'engine': 'tz-trace', 'clause': clause, 'fmt': c['fmt'], 'delta': c['d'],
            'us': 'zero' if c['us'] == 0 else 'nonzero', 'offset_has_seconds': c['off'] % 60 != 0,
            'sentinel': bool(tab['trans']) and c['ti'] == 0, 'fixed_zone': not tab['trans']}


def fb_features(c, clause):
    f = {'engine': 'tz-trace', 'clause': clause, 'fmt': c['fmt'], 'value': c['v']['value'],
         'wall': c['v']['wall_kind']}
    if c['res']['k'] == 'exc':
        f['exc'] = c['res']['exc']
    return f


def render(c):
    """human-readable copy of a case for replay files"""
    d = dict(c)
    if c.get('res', {}).get('k') == 'text':
        d['text_str'] = uncps(c['res']['text'])
    return d


class Classes(object):
    """violation classes seen in this run (feature record -> count, one example)"""

    def __init__(self):
        self.by = {}

    def add(self, rep, feats, detail):
        k = json.dumps(feats, sort_keys=True)
        e = self.by.setdefault(k, {'features': feats, 'count': 0, 'example': detail})
        e['count'] += 1
        rep.violation(feats, detail)

    def summary(self):
        return [{'features': e['features'], 'count': e['count']} for _, e in sorted(self.by.items())]


def selftest_binding(rep, work, good_rt, tab, good_fb, fb_tabs, mapev):
    """corrupt one logged field of accepted cases; TLC must reject exactly the corrupted ones, with the
    clause that names the corrupted field"""
    def cp(o):
        return json.loads(json.dumps(o))
    a, b, c, d, e = cp(good_rt), cp(good_rt), cp(good_rt), cp(good_rt), cp(good_rt)
    b['back']['inst'][1] = (b['back']['inst'][1] + 1) % 86400          # parsed instant off by a second
    i = 18 + (2 if c['fmt'] == 'json' else 0)                           # last digit of the seconds field
    c['res']['text'][i] = 48 + (c['res']['text'][i] - 48 + 1) % 10
    d['back']['name']['cps'] = d['back']['name']['cps'] + [50]          # other zone name
    e['back']['off'] += 3600                                            # other offset
    fa, fb_, fc = cp(good_fb), cp(good_fb), cp(good_fb)
    fb_['res'] = {'k': 'exc', 'exc': 'KeyError'}
    fc['off'] += 60
    m2 = cp(mapev)
    m2['map'][0], m2['map'][1] = [m2['map'][0][0], m2['map'][1][1]], [m2['map'][1][0], m2['map'][0][1]]
    path = work.path('selftest.json')
    z1 = dict(tab)
    with open(path, 'w') as f:
        json.dump({'zones': [z1] + [t for t in fb_tabs if t['name'] != tab['name']],
                   'traces': [{'k': 'rt', 'z': 1, 'cases': [a, b, c, d, e]},
                              {'k': 'fb', 'cases': [fa, fb_, fc]},
                              {'k': 'map', 'cases': [m2]}]}, f, separators=(',', ':'))
    r, v = judge_file(work, path, 3, 'selftest')
    rep.tlc('trace-selftest', r)
    got = {'rt': {str(k): sorted(x) for k, x in v[1]['rej'].items()},
           'fb': {str(k): sorted(x) for k, x in v[2]['rej'].items()},
           'map': {str(k): sorted(x) for k, x in v[3]['rej'].items()}}
    want = {'rt': {'2': ['back_instant'], '3': ['text_instant'], '4': ['back_zone'], '5': ['back_offset']},
            'fb': {'2': ['fallback_exception'], '3': ['fallback_offset']},
            'map': {'1': ['map_fold', 'map_injective', 'rmap_inverse']}}
    ok = got == want
    rep.extra['binding_selftest'] = {'got': got, 'want': want, 'ok': ok}
    if not ok:
        raise MachineryError('binding self-test failed: got %r want %r' % (got, want))


def model_check(work, tier, box):
    try:
        box['r'] = run_tlc(work, 'MC_TzCodec.tla', 'MC_TzCodec.cfg' if tier == 'quick' else 'MC_TzCodec_thorough.cfg',
                           workers=4, coverage=(tier != 'quick'), xmx='4g',
                           env={'JAVA_TOOL_OPTIONS': '-XX:ParallelGCThreads=2'})
    except BaseException as e:      # re-raised in the main thread
        box['e'] = e


def run(tier):
    g = _handles()
    zi, pytz = g['zi'], g['pytz']
    rep = Report('C17', tier)
    classes = Classes()
    tzmap = zi.get_tz_map()
    zones = sorted(tzmap.items())
    us_values = (0, 999999) if tier == 'quick' else (0, 1, 999999)
    with Work('c17') as work:
        # (A) model check, in the background while the implementation is driven
        box = {}
        stage = rep.extra.setdefault('stage_wall_s', {})
        t0 = time.time()
        mc = threading.Thread(target=model_check, args=(work, tier, box))
        mc.start()
        try:
            # ---- (C) cases of the mapped zones, sharded by zone
            est = []
            for name, olson in zones:
                tz = pytz.timezone(olson)
                n = len(getattr(tz, '_utc_transition_times', None) or STATIC_INSTANTS)
                est.append(len(pick_indices(name, n, tier)) * len(DELTAS) * len(us_values) * len(FORMATS))
            total = sum(est)
            per = max(2000, min(26000, total // 6 + 1))
            shards, cur, acc = [], [], 0
            for z, e in zip(zones, est):
                if cur and acc + e > per:
                    shards.append(cur)
                    cur, acc = [], 0
                cur.append(z)
                acc += e
            if cur:
                shards.append(cur)
            jobs = [(work.path('rt-%03d.json' % i), sh, tier, us_values) for i, sh in enumerate(shards)]
            t0 = time.time()
            ctx = multiprocessing.get_context('fork')
            with ctx.Pool(min(NCPU, len(jobs))) as pool:
                summaries = pool.map(_rt_shard, jobs, chunksize=1)
            stage['drive_mapped_zones'] = round(time.time() - t0, 1)
            t0 = time.time()
            # ---- fallback values
            tabs_all = [zone_table(n, o) for n, o in zones]
            used = set(t['pre'] for t in tabs_all) | set(tr[2] for t in tabs_all for tr in t['trans'])
            vals = fb_values(tier, used)
            # all values of one zone / one offset are written by the SAME process, one after the other (what the
            # writer answers must not depend on what it was asked before: winter first, then summer, and back)
            import zlib
            chunks = [[] for _ in range(NCPU * 4)]
            for v in vals:
                key = v.get('olson') or 'min%d' % v['min']
                chunks[zlib.crc32(key.encode()) % len(chunks)].append(v)
            for ch in chunks:
                ch.sort(key=lambda v: (v.get('olson') or 'min%06d' % (v['min'] + 10000)))
                ch.extend([v for v in ch if v.get('wall_kind') == 'ordinary'][:40])     # and the first ones once more
            with ctx.Pool(NCPU) as pool:
                fb_cases = [c for ch in pool.map(_fb_chunk, chunks) for c in ch]
            fb_traces = [fb_cases[i:i + CHUNK] for i in range(0, len(fb_cases), CHUNK)]
            mapev = map_event()
            fb_files = []
            nfiles = max(1, min(4 if tier == "quick" else 8, len(fb_traces)))
            for k in range(nfiles):
                trs = [{'k': 'fb', 'cases': t} for t in fb_traces[k::nfiles]]
                if k == 0:
                    trs.append({'k': 'map', 'cases': [mapev]})
                p = work.path('fb-%02d.json' % k)
                with open(p, 'w') as f:
                    json.dump({'zones': tabs_all, 'traces': trs}, f, separators=(',', ':'))
                fb_files.append((p, trs))
            stage['drive_fallback_and_map'] = round(time.time() - t0, 1)
            t0 = time.time()
            # ---- TLC judges all files, several JVMs in parallel
            njvm = 6
            results = {}
            with concurrent.futures.ThreadPoolExecutor(njvm) as ex:
                futs = {}
                for s in summaries:
                    futs[ex.submit(judge_file, work, s['path'], len(s['index']), os.path.basename(s['path']))] = s['path']
                for p, trs in fb_files:
                    futs[ex.submit(judge_file, work, p, len(trs), os.path.basename(p))] = p
                for fu in concurrent.futures.as_completed(futs):
                    results[futs[fu]] = fu.result()
            stage['tlc_judge'] = round(time.time() - t0, 1)
            t0 = time.time()
        finally:
            mc.join()
        stage['model_check_tail'] = round(time.time() - t0, 1)
        if 'e' in box:
            raise box['e']
        r = box['r']
        rep.tlc('model-check', r)
        if r.invariant_violated or 'Assumption' in r.out and 'is false' in r.out or not r.completed:
            raise MachineryError('TzCodec.tla violates its own property %s\n%s' % (r.invariant_violated, r.out[-1500:]))
        if r.distinct < 20000:
            raise MachineryError('model check explored only %d states' % r.distinct)
        if tier != 'quick':
            acts = {m.group(1): int(m.group(2)) for m in re.finditer(
                r'^<(MapStep|WriteZoned|WriteFixed|ReadBack|Reset) line [^>]*>: \d+:(\d+)', r.out, re.M)}
            rep.extra['action_coverage'] = acts
            if len(acts) < 5 or min(acts.values()) == 0:
                raise MachineryError('an action of TzCodec was never taken: %r' % acts)

        # ---- round-trip verdicts
        n_rt = n_change = n_window = n_oor = 0
        zones_seen = set()
        good_rt = None
        for s in summaries:
            rr, v = results[s['path']]
            rep.tlc('trace-' + os.path.basename(s['path']), rr)
            doc = None
            for st in s['stats']:
                n_change += st['changing']
                n_window += st['fold_or_gap_window']
                n_oor += st['out_of_range']
            zones_seen.update(s['zones'])
            for tid, (zn, zidx, nc) in enumerate(s['index'], 1):
                n_rt += nc
                rej = v[tid]['rej']
                if rej or good_rt is None:
                    if doc is None:
                        with open(s['path']) as f:
                            doc = json.load(f)
                    tab = doc['zones'][zidx - 1]
                    cases = doc['traces'][tid - 1]['cases']
                    if len(cases) != nc or uncps(tab['name']) != zn:
                        raise MachineryError('shard index mismatch in %s' % s['path'])
                    if good_rt is None and not rej:
                        c0 = next((c for c in cases if c['d'] == 1 and c['us'] and c['ti'] > 0), cases[-1])
                        good_rt = (c0, tab)
                        rep.sample({'zone': zn, 'transition': c0['ti'], 'delta': c0['d'], 'inst': c0['inst'],
                                    'off': c0['off'], 'fmt': c0['fmt'], 'text': uncps(c0['res']['text'])})
                    for l, cls in sorted(rej.items()):
                        c = cases[l - 1]
                        for cl in cls:
                            if cl in MACHINERY_CLAUSES:
                                raise MachineryError('%s: zone %s case %r' % (cl, zn, render(c)))
                            classes.add(rep, rt_features(c, cl, tab),
                                        {'kind': 'rt', 'zone': zn, 'olson': uncps(tab['olson']), 'clause': cl,
                                         'case': render(c), 'table': tab})
        rep.traces += n_rt
        rep.evaluations += n_rt
        # every case is a distinct (zone, transition, delta, microsecond, format) tuple by construction
        rep.distinct.update(('rt', i) for i in range(n_rt))
        # ---- fallback + map verdicts
        n_fb = n_fb_text = n_fb_value_error = n_fb_other = 0
        good_fb = None
        for p, trs in fb_files:
            rr, v = results[p]
            rep.tlc('trace-' + os.path.basename(p), rr)
            for tid, t in enumerate(trs, 1):
                rej = v[tid]['rej']
                if t['k'] == 'map':
                    rep.case(('map',))
                    rep.traces += 1
                    for l, cls in sorted(rej.items()):
                        for cl in cls:
                            classes.add(rep, {'engine': 'tz-trace', 'clause': cl},
                                        {'kind': 'map', 'clause': cl,
                                         'map': [[uncps(a), uncps(b)] for a, b in mapev['map']]})
                    continue
                for l, c in enumerate(t['cases'], 1):
                    n_fb += 1
                    k = c['res']['k']
                    if k == 'text':
                        n_fb_text += 1
                        if good_fb is None and l not in rej and c['off'] != 0:
                            good_fb = c
                    elif k == 'exc' and c['res']['exc'] == 'ValueError':
                        n_fb_value_error += 1
                    else:
                        n_fb_other += 1
                    for cl in rej.get(l, []):
                        if cl in MACHINERY_CLAUSES:
                            raise MachineryError('%s: fallback case %r' % (cl, render(c)))
                        classes.add(rep, fb_features(c, cl), {'kind': 'fb', 'clause': cl, 'case': render(c)})
        rep.traces += n_fb
        rep.evaluations += n_fb
        rep.distinct.update(('fb', i) for i in range(n_fb))
        if good_fb is not None:
            rep.sample({'fallback_value': good_fb['v'], 'fmt': good_fb['fmt'], 'text': uncps(good_fb['res']['text'])})
        # ---- vacuity guards
        floor = {'quick': 25000, 'thorough': 600000}[tier]
        cover = {'rt_cases': n_rt, 'rt_cases_at_offset_changing_transitions': n_change,
                 'rt_cases_inside_fold_or_gap_window': n_window, 'skipped_out_of_year_range': n_oor,
                 'zones': len(zones_seen), 'mapped_zones': len(tzmap), 'shards': len(summaries),
                 'tabulated_transitions': sum(len(t['trans']) for t in tabs_all),
                 'fallback_cases': n_fb, 'fallback_text': n_fb_text, 'fallback_ValueError': n_fb_value_error,
                 'fallback_other_exception': n_fb_other,
                 'trace_json_bytes': sum(s['bytes'] for s in summaries),
                 'max_shard_json_bytes': max(s['bytes'] for s in summaries)}
        rep.extra['c17'] = cover
        rep.extra['violation_classes'] = classes.summary()
        short = []
        if n_rt < floor or len(zones_seen) != len(tzmap) or len(tzmap) < 300:
            short.append('judged cases / zones')
        if n_change < floor // 3 or n_window < floor // 20 or n_fb < 3000 or n_fb_text < 20 or n_fb_value_error < 100:
            short.append('non-trivial cases')
        if good_rt is None or good_fb is None:
            short.append('no accepted case to run the binding self-test on')
        if short:
            # a shortfall caused by the defect TLC has just reported (e.g. a broken map leaves few zones)
            # must not mask the violation; with nothing reported it is a machinery failure
            rep.extra['vacuity_shortfall'] = short
            if not rep.violations and not rep.known:
                raise MachineryError('vacuous (%s): %r' % (', '.join(short), cover))
        else:
            selftest_binding(rep, work, good_rt[0], good_rt[1], good_fb, tabs_all, mapev)
    rep.rule = ('one case per (mapped zone, tabulated transition, delta, microsecond, format); fallback: one case '
                'per (value kind, wall time or unmapped zone + instant, whole-minute offset, format); all cases are '
                'distinct tuples by construction')
    rep.exhaustive = (tier != 'quick')
    rep.assumptions = ['pytz transition tables (tz._utc_transition_times/_transition_info) define each zone',
                       'CPython datetime arithmetic projects values to <<days, second, microsecond>>',
                       'local renderings outside years 1..9999 do not exist as datetime values and are skipped']
    return rep.finish()


def replay(path):
    """Re-run exactly the case stored in a replay file on the real code and let TLC judge it."""
    g = _handles()
    with open(path) as f:
        d = json.load(f)
    c = d['case']
    with Work('c17r') as work:
        if c['kind'] == 'rt':
            cs, tab = c['case'], c['table']
            i = cs['inst']
            nu = EPOCH + datetime.timedelta(days=i[0], seconds=i[1], microseconds=i[2])
            new = rt_case(rt_value(c['olson'], nu), nu, cs['fmt'])
            new.update(ti=cs['ti'], d=cs['d'], us=cs['us'])
            doc = {'zones': [tab], 'traces': [{'k': 'rt', 'z': 1, 'cases': [new]}]}
        elif c['kind'] == 'fb':
            new = fb_case(c['case']['v'], c['case']['fmt'])
            tabs = [zone_table(n, o) for n, o in sorted(g['zi'].get_tz_map().items())]
            doc = {'zones': tabs, 'traces': [{'k': 'fb', 'cases': [new]}]}
        else:
            new = map_event()
            doc = {'zones': [zone_table('UTC', 'UTC')], 'traces': [{'k': 'map', 'cases': [new]}]}
        p = work.path('replay.json')
        with open(p, 'w') as f:
            json.dump(doc, f, separators=(',', ':'))
        r, v = judge_file(work, p, 1, 'replay')
        if c['kind'] != 'map':
            shown = {k: x for k, x in render(new).items() if k not in ('res', 'back')}
            shown['dumped'] = new['res'] if new['res']['k'] != 'text' else uncps(new['res']['text'])
            if 'back' in new:
                shown['back'] = dict(new['back'])
                if new['back'].get('name', {}).get('k') == 'ok':
                    shown['back']['name'] = uncps(new['back']['name']['cps'])
            print('case     :', json.dumps(shown)[:800])
        print('verdict  :', v[1]['status'], sorted(set(x for cl in v[1]['rej'].values() for x in cl)))
        ok = not v[1]['rej']
    print('property holds on this case' if ok else 'VIOLATION property=C17 replay=%s' % path)
    return 0 if ok else 1
