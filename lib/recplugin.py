# pytest plugin (loaded with -p recplugin, PYTHONPATH=/verif/lib): records every public mutator call
# the repository's own tests make on hszinc.Grid and SortableDict/MetadataObject instances, as traces
# in the event format of Trace_GridSeq.tla / Trace_SDict.tla.  Nothing in the repository is changed:
# the methods are wrapped at class level for the duration of the test session only.
# Output: $VERIF_REC_OUT (JSON).  Nested calls (extend -> append -> insert, pop -> getitem + delitem,
# reverse -> setitem ...) are skipped through a depth counter: one event per top-level call.
import json
import os
import threading

NOARG = 99
_state = threading.local()
_keep = []          # strong references: ids stay unique for the session
G_TRACES = {}       # id(grid) -> dict(ver, given, evs, ok)
S_TRACES = {}       # id(map)  -> dict(cls, validator, evs, ok, keys)
ROWS = {}           # id(obj) -> row id
MAXEV = 400
FILTERS = []       # Grid.filter calls of the test-suite (VERIF_REC_FILTER)


def depth():
    return getattr(_state, 'd', 0)


class Nest(object):
    def __enter__(self):
        _state.d = depth() + 1

    def __exit__(self, *a):
        _state.d = depth() - 1


_cnt = [0, 0]


def rid(obj):
    k = id(obj)
    if k not in ROWS:
        _keep.append(obj)
        if isinstance(obj, dict):
            _cnt[0] += 1
            ROWS[k] = _cnt[0]
        else:
            _cnt[1] += 1
            ROWS[k] = 1000000 + _cnt[1]
    return ROWS[k]


def install():
    import hszinc.grid as gmod
    import hszinc.sortabledict as smod
    import hszinc.metadata as mmod
    try:
        import collections.abc as cabc
    except ImportError:  # pragma: no cover
        import collections as cabc
    Grid = gmod.Grid
    SD = smod.SortableDict
    MO = mmod.MetadataObject

    def grows(g):
        return [rid(x) for x in g._row]

    def gtrace(g):
        return G_TRACES.get(id(g))

    def gev(g, ev, res):
        t = gtrace(g)
        if t is None or not t['ok']:
            return
        ev['res'] = res
        ev['rows'] = grows(g)
        ev['ver'] = t['ver']          # the version gate is judged elsewhere (C10); kept constant here
        ev['obs'] = [{'k': 'len', 'n': len(g._row)}]
        t['evs'].append(ev)
        if len(t['evs']) > MAXEV:
            t['ok'] = False

    def invalidate(g, why):
        t = gtrace(g)
        if t is not None:
            t['ok'] = False
            t['why'] = why

    # ---- Grid -------------------------------------------------------
    orig_init = Grid.__init__

    def g_init(self, *a, **kw):
        with Nest():
            orig_init(self, *a, **kw)
        _keep.append(self)
        G_TRACES[id(self)] = {'ver': '3.0', 'given': True, 'evs': [], 'ok': True, 'derived': depth() > 0}
    Grid.__init__ = g_init

    def wrap(name, build, base=None):
        orig = getattr(base or Grid, name)

        def w(self, *a, **kw):
            if depth() > 0:
                return orig(self, *a, **kw)
            try:
                ev, a2 = build(self, a, kw)
            except Exception:
                invalidate(self, 'unsupported arguments of ' + name)
                return orig(self, *a, **kw)
            try:
                with Nest():
                    r = orig(self, *a2, **kw)
            except ValueError:
                invalidate(self, 'ValueError (version gate) in ' + name)
                raise
            except Exception as e:
                gev(self, ev, [type(e).__name__])
                raise
            if ev is not None:
                gev(self, ev, ['self'] if name == '__iadd__' else (['row', rid(r)] if name == 'pop' else ['None']))
            return r
        setattr(Grid, name, w)

    def need_int(i):
        if isinstance(i, bool) or not isinstance(i, int) or abs(i) > 100000:
            raise TypeError
        return i

    wrap('insert', lambda s, a, kw: ({'name': 'insert', 'i': need_int(a[0]), 'r': rid(a[1])}, a))
    wrap('append', lambda s, a, kw: ({'name': 'append', 'r': rid(a[0])}, a), base=cabc.MutableSequence)
    wrap('remove', lambda s, a, kw: ({'name': 'remove', 'r': rid(a[0])}, a), base=cabc.MutableSequence)
    wrap('pop', lambda s, a, kw: ({'name': 'pop', 'i': need_int(a[0]) if a else NOARG}, a), base=cabc.MutableSequence)
    wrap('reverse', lambda s, a, kw: ({'name': 'reverse'}, a), base=cabc.MutableSequence)
    wrap('clear', lambda s, a, kw: ({'name': 'clear'}, a), base=cabc.MutableSequence)

    def b_extend(s, a, kw):
        vals = list(a[0])
        return {'name': 'extend', 'rs': [rid(v) for v in vals]}, (vals,)
    wrap('extend', b_extend)

    def b_iadd(s, a, kw):
        vals = list(a[0])
        return {'name': 'iadd', 'rs': [rid(v) for v in vals]}, (vals,)
    wrap('__iadd__', b_iadd, base=cabc.MutableSequence)

    def b_set(s, a, kw):
        if isinstance(a[0], slice):
            raise TypeError
        return {'name': 'setitem', 'i': need_int(a[0]), 'r': rid(a[1])}, a
    wrap('__setitem__', b_set)

    def sl(x):
        return NOARG if x is None else need_int(x)

    def b_del(s, a, kw):
        if isinstance(a[0], slice):
            if a[0].step is not None:
                raise TypeError
            return {'name': 'delslice', 'a': sl(a[0].start), 'b': sl(a[0].stop)}, a
        return {'name': 'delitem', 'i': need_int(a[0])}, a
    wrap('__delitem__', b_del)

    orig_get = Grid.__getitem__

    def g_get(self, key):
        if depth() > 0 or not isinstance(key, slice):
            return orig_get(self, key)
        with Nest():
            r = orig_get(self, key)
        t, tr = gtrace(self), gtrace(r)
        if t is not None and tr is not None and r is not self:
            if key.step is not None or not t['ok']:
                tr['ok'] = False
            else:
                try:
                    tr['evs'] = list(t['evs']) + [{'name': 'slice', 'a': sl(key.start), 'b': sl(key.stop), 'res': ['grid'],
                                                    'rows': grows(r), 'ver': t['ver'],
                                                    'obs': [{'k': 'len', 'n': len(r._row)}]}]
                    tr['derived'] = False
                except TypeError:
                    tr['ok'] = False
        return r
    Grid.__getitem__ = g_get

    orig_filter = Grid.filter

    def rec_filter(self, a, kw):
        """Grid.filter(text[, limit]) as the tests call it: the text, the rows as abstract values, the outcome and the
        selected rows (by identity) -- judged by spec/Trace_FilterLex.tla"""
        import absval
        import hszinc
        text = a[0] if a else kw.get('filter')
        limit = a[1] if len(a) > 1 else kw.get('limit', 0)
        rows = list(self._row)
        ident = {id(o): i + 1 for i, o in enumerate(rows)}
        rec = None
        try:
            A = absval.Abs(hszinc)
            if isinstance(text, str) and isinstance(limit, int) and limit >= 0:
                rec = {'text': text, 'k': limit,
                       'arows': [[[absval.cps(k), A.val(v)] for k, v in r.items()] for r in rows]}
        except Exception:
            rec = None
        try:
            with Nest():
                r = orig_filter(self, *a, **kw)
        except Exception as e:
            if rec is not None:
                import pyparsing
                rec.update(out='parse_error' if isinstance(e, pyparsing.ParseBaseException) else 'raises', sel=[],
                           msg=type(e).__name__)
                FILTERS.append(rec)
            raise
        if rec is not None:
            try:
                rec.update(out='ok', sel=[ident.get(id(o), 0) for o in r], msg='')
                FILTERS.append(rec)
            except Exception:
                pass
        tr = gtrace(r)
        if tr is not None and r is not self:
            tr['ok'] = False
        return r

    def g_filter(self, *a, **kw):
        if depth() > 0:
            return orig_filter(self, *a, **kw)
        if os.environ.get('VERIF_REC_FILTER'):
            return rec_filter(self, a, kw)
        with Nest():
            r = orig_filter(self, *a, **kw)
        tr = gtrace(r)
        if tr is not None and r is not self:
            tr['ok'] = False          # rows selected by an arbitrary filter: not a GridSeq operation
        return r
    Grid.filter = g_filter

    # ---- SortableDict / MetadataObject ------------------------------
    s_init = SD.__init__

    def sd_init(self, initial=None, validate_fn=None):
        _keep.append(self)
        S_TRACES[id(self)] = {'cls': type(self).__name__, 'validator': validate_fn is not None, 'evs': [], 'ok': True,
                              'keys': [], 'vals': {}}
        with Nest():
            s_init(self, initial=None, validate_fn=validate_fn)
        if initial is not None:
            if isinstance(initial, dict):
                initial = list(initial.items())
            for (k, v) in initial:
                self[k] = v           # the constructor's own loop, at top level so that it is recorded
    SD.__init__ = sd_init

    def strace(m):
        return S_TRACES.get(id(m))

    def kid(t, k):
        try:
            if k not in t['keys']:
                t['keys'].append(k)
        except Exception:
            t['ok'] = False
            return 0
        return k

    def vid(t, v):
        _keep.append(v)
        return t['vals'].setdefault(id(v), 100 + len(t['vals']))

    def items(m, t):
        return [[kid(t, k), vid(t, m._values[k])] for k in m._order]

    def swrap(cls, name, build):
        orig = cls.__dict__.get(name) or getattr(cls, name)

        def w(self, *a, **kw):
            t = strace(self)
            if depth() > 0 or t is None or not t['ok']:
                return orig(self, *a, **kw)
            try:
                ev = build(self, t, a, kw)
            except Exception:
                t['ok'] = False
                return orig(self, *a, **kw)
            exc, r = None, None
            try:
                with Nest():
                    r = orig(self, *a, **kw)
                ev['r'] = ['None']
                if name in ('pop', 'pop_at'):
                    ev['r'] = ['val', vid(t, r)]
            except KeyError as e:
                ev['r'] = ['KeyError']; exc = e
            except IndexError as e:
                ev['r'] = ['IndexError']; exc = e
            except ValueError as e:
                both = ev.get('index', NOARG) != NOARG and ev.get('pos', NOARG) != NOARG
                ev['r'] = ['ValueError'] if both else ['Refused']
                if not both:
                    ev['v'] = 9          # the value the validator refused (BadVal of the model)
                    if not t['validator']:
                        t['ok'] = False
                exc = e
            except Exception:
                t['ok'] = False
                raise
            ev['st'] = items(self, t)
            t['evs'].append(ev)
            if len(t['evs']) > MAXEV:
                t['ok'] = False
            if exc is not None:
                raise exc
            return r
        setattr(cls, name, w)

    def b_add(m, t, a, kw):
        key, value = a[0], a[1]
        names = ['after', 'index', 'pos_key', 'replace']
        args = dict(zip(names, a[2:]))
        args.update(kw)
        ev = {'name': 'add_item', 'k': kid(t, key), 'v': vid(t, value), 'after': bool(args.get('after', False)),
              'replace': bool(args.get('replace', True)), 'index': NOARG, 'pos': NOARG}
        if args.get('index') is not None:
            if not isinstance(args['index'], int) or args['index'] < 0:
                raise TypeError
            ev['index'] = args['index']
        if args.get('pos_key') is not None:
            ev['pos'] = kid(t, args['pos_key']) if args['pos_key'] in m._order else ('unknown',)
        return ev
    swrap(SD, 'add_item', b_add)
    swrap(SD, '__delitem__', lambda m, t, a, kw: {'name': 'delitem', 'k': kid(t, a[0])})
    swrap(SD, 'reverse', lambda m, t, a, kw: {'name': 'reverse'} if not a and not kw else 1 / 0)
    swrap(SD, 'sort', lambda m, t, a, kw: {'name': 'sort'} if not a and not kw else 1 / 0)

    def b_popat(m, t, a, kw):
        if not isinstance(a[0], int) or a[0] < 0:
            raise TypeError
        return {'name': 'pop_at', 'index': a[0]}
    swrap(SD, 'pop_at', b_popat)

    def b_pop(m, t, a, kw):
        if len(a) > 1 or kw:
            return {'name': 'pop_default', 'k': kid(t, a[0]), 'v': vid(t, a[1] if len(a) > 1 else kw['default'])}
        return {'name': 'pop', 'k': kid(t, a[0])}
    swrap(SD, 'pop', b_pop)


CODEC = []          # recorded parse()/dump() calls of the test-suite


def install_codec():
    import hszinc
    import hszinc.parser as pmod
    import hszinc.dumper as dmod
    import absval
    A = absval.Abs(hszinc)
    orig_parse, orig_dump = pmod.parse, dmod.dump

    def norm_mode(mode):
        try:
            return pmod._parse_mode(mode)
        except Exception:
            return None

    import hszinc.datatypes as dtmod

    def rec_parse(grid_str, mode=pmod.MODE_ZINC, charset='utf-8', single=True):
        r = orig_parse(grid_str, mode=mode, charset=charset, single=single)
        if depth() == 0 and len(CODEC) < 4000:
            try:
                m = norm_mode(mode)
                text = grid_str.decode(charset) if isinstance(grid_str, bytes) else grid_str
                grids = ([] if r is None else [r]) if single else list(r)
                if isinstance(text, str):
                    CODEC.append({'op': 'parse', 'mode': m, 'text': text, 'single': bool(single), 'abs': A.doc(grids)})
                elif m == pmod.MODE_JSON:
                    CODEC.append({'op': 'parse', 'mode': m, 'text': json.dumps(text), 'single': bool(single), 'abs': A.doc(grids)})
            except Exception:
                pass
        return r

    def rec_dump(grids, mode=pmod.MODE_ZINC):
        r = orig_dump(grids, mode=mode)
        if depth() == 0 and len(CODEC) < 4000:
            try:
                m = norm_mode(mode)
                gs = [grids] if isinstance(grids, hszinc.Grid) else list(grids)
                CODEC.append({'op': 'dump', 'mode': m, 'text': r, 'single': isinstance(grids, hszinc.Grid), 'abs': A.doc(gs)})
            except Exception:
                pass
        return r
    for mod in (hszinc, pmod):
        if getattr(mod, 'parse', None) is orig_parse:
            mod.parse = rec_parse
    for mod in (hszinc, dmod):
        if getattr(mod, 'dump', None) is orig_dump:
            mod.dump = rec_dump


def dump():
    out = os.environ.get('VERIF_REC_OUT')
    if not out:
        return
    gt = []
    for t in G_TRACES.values():
        if t['ok'] and t['evs'] and not t.get('derived'):
            gt.append({'ver': t['ver'], 'given': True, 'evs': t['evs']})
    st = []
    for t in S_TRACES.values():
        if not t['ok'] or not t['evs']:
            continue
        keys = t['keys']
        try:
            order = sorted(keys)
            if any(e['name'] == 'sort' for e in t['evs']) and len(set(map(type, keys))) > 1:
                continue
        except TypeError:
            if any(e['name'] == 'sort' for e in t['evs']):
                continue
            order = list(keys)
        rank = {}
        for i, k in enumerate(order):
            rank.setdefault(k, i + 1)
        bad = False
        evs = []
        for e in t['evs']:
            e = dict(e)
            for f in ('k', 'pos'):
                if f in e and e[f] != NOARG:
                    if isinstance(e[f], tuple):
                        e[f] = 98
                    else:
                        e[f] = rank.get(e[f], 0)
            e['st'] = [[rank.get(k, 0), v] for k, v in e['st']]
            evs.append(e)
        if not bad:
            st.append({'cls': t['cls'], 'evs': evs})
    with open(out, 'w') as f:
        json.dump({'grids': gt, 'maps': st, 'codec': CODEC, 'filters': FILTERS,
                   'stats': {'grids_seen': len(G_TRACES), 'maps_seen': len(S_TRACES),
                             'grid_traces': len(gt), 'map_traces': len(st)}}, f)


def pytest_configure(config):
    install()
    if os.environ.get('VERIF_REC_CODEC'):
        install_codec()


def pytest_sessionfinish(session, exitstatus):
    dump()
