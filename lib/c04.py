# C04: see zinccodec.py (ZINC codec engine, reader machine spec/ZincRead.tla) and DESIGN.md
import zinccodec


def run(tier):
    return zinccodec.run_property('C04', tier)


def replay(path):
    return zinccodec.replay('C04', path)
