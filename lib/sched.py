# Deterministic scheduler over real threads: exactly one thread runs at a time; the baton is
# passed at "yield points" = source-line events (sys.settrace) inside selected functions of the
# code under test.  A schedule is a set of global step numbers at which the running thread is
# pre-empted (round robin to the next runnable thread).  No change to the repository is needed.
import sys
import threading


class Scheduler(object):
    def __init__(self, traced, preempt_at, observe):
        """traced: set of (filename_suffix, function_name) whose lines are yield points;
        preempt_at: set of global step numbers (1-based) at which to switch away;
        observe(tid, kind, info): called at every yield point (in the running thread)."""
        self.traced = traced
        self.preempt_at = set(preempt_at)
        self.observe = observe
        self.step = 0
        self.switches = []
        self.sems = []
        self.done = []
        self.results = []
        self.all_done = threading.Event()
        self.errors = []

    # -- tracing -------------------------------------------------------
    def _wants(self, code):
        fn = code.co_filename
        for suffix, name in self.traced:
            if code.co_name == name and fn.endswith(suffix):
                return True
        return False

    def _make_tracers(self, i):
        def local(frame, event, arg):
            if event == 'line':
                self.yield_point(i, 'line', (frame.f_code.co_name, frame.f_lineno))
            elif event == 'return':
                self.yield_point(i, 'return', (frame.f_code.co_name, frame.f_lineno))
            return local

        def glob(frame, event, arg):
            if event == 'call' and self._wants(frame.f_code):
                return local
            return None
        return glob

    # -- scheduling ----------------------------------------------------
    def _next_runnable(self, i):
        n = len(self.sems)
        for d in range(1, n + 1):
            j = (i + d) % n
            if j != i and not self.done[j]:
                return j
        return None

    def yield_point(self, i, kind, info):
        self.step += 1
        try:
            self.observe(i, kind, info)
        except Exception as e:          # pragma: no cover  (harness bug)
            self.errors.append(repr(e))
        if self.step in self.preempt_at:
            j = self._next_runnable(i)
            if j is not None:
                self.switches.append((self.step, i, j))
                self.sems[j].release()
                self.sems[i].acquire()

    def mark(self, i, kind, info):
        """explicit yield point from a thread body (e.g. after a call returned)"""
        self.yield_point(i, kind, info)

    def _worker(self, i, body):
        self.sems[i].acquire()
        sys.settrace(self._make_tracers(i))
        try:
            try:
                self.results[i] = ('ok', body(i, self))
            except BaseException as e:
                self.results[i] = ('exc', type(e).__name__, str(e)[:200])
        finally:
            sys.settrace(None)
            self.done[i] = True
            try:
                self.observe(i, 'finish', None)
            except Exception as e:      # pragma: no cover
                self.errors.append(repr(e))
            j = self._next_runnable(i)
            if j is None:
                self.all_done.set()
            else:
                self.sems[j].release()

    def run(self, bodies, first=0, timeout=60):
        n = len(bodies)
        self.sems = [threading.Semaphore(0) for _ in range(n)]
        self.done = [False] * n
        self.results = [None] * n
        ths = [threading.Thread(target=self._worker, args=(i, b), daemon=True) for i, b in enumerate(bodies)]
        for t in ths:
            t.start()
        self.sems[first].release()
        if not self.all_done.wait(timeout):
            raise RuntimeError('schedule did not terminate (deadlock in harness or code under test)')
        for t in ths:
            t.join(timeout)
        return self.results
