# Abs: projection of real hszinc values to the abstract tuples of spec/ZincRead.tla (structure only:
# exact type dispatch on the public classes; no parsing/printing logic of hszinc is used).
import base64
import binascii
import datetime
import decimal
import re

K_NULL, K_MARKER, K_NA, K_REMOVE, K_BOOL, K_NUM, K_QTY, K_STR, K_URI, K_BIN, K_REF, K_XSTR, K_DATE, K_TIME, \
    K_DT, K_COORD, K_LIST, K_DICT, K_GRID = range(19)

_REPR_RE = re.compile(r'^(-?)(\d+)(?:\.(\d+))?(?:e([+-]?\d+))?$')


class NotAbstractable(Exception):
    pass


def cps(s):
    return [ord(c) for c in s]


def normdec_from_parts(sign, ip, fp, e):
    """mirror of the *data layout* of NormDec (not used as an oracle: both sides of a comparison are
    produced by TLC or by this function from repr(), never mixed with hszinc's own printing)"""
    digits = [int(c) for c in ip + fp]
    lead = 0
    while lead < len(digits) and digits[lead] == 0:
        lead += 1
    dig = digits[lead:]
    while dig and dig[-1] == 0:
        dig.pop()
    ex = 0 if not dig else len(ip) - lead + e
    return [sign, 1 if ex < 0 else 0, abs(ex)] + dig


def dec_of_float(x):
    if x != x:
        return [9, 2]
    if x in (float('inf'), float('-inf')):
        return [9, 0] if x > 0 else [9, 1]
    r = repr(float(x))
    m = _REPR_RE.match(r)
    if not m:
        raise NotAbstractable('float repr %r' % r)
    sign = 1 if m.group(1) else 0
    return normdec_from_parts(sign, m.group(2), m.group(3) or '', int(m.group(4) or 0))


def micro(x):
    d = decimal.Decimal(float(x)).quantize(decimal.Decimal('0.000001'), rounding=decimal.ROUND_HALF_EVEN)
    n = int(abs(d) * 1000000)
    return [1 if (d < 0 and n != 0) else 0, n]


class Abs(object):
    def __init__(self, hs):
        self.hs = hs
        import hszinc.datatypes as dt
        self.Qty = dt.Qty
        from hszinc.sortabledict import SortableDict
        self.SortableDict = SortableDict

    def zone(self, tz):
        z = getattr(tz, 'zone', None)
        if not isinstance(z, str):
            return []
        return cps(z.split('/')[-1])

    def val(self, v):
        hs = self.hs
        if v is None:
            return [K_NULL]
        if v is hs.MARKER:
            return [K_MARKER]
        if v is hs.NA:
            return [K_NA]
        if v is hs.REMOVE:
            return [K_REMOVE]
        if isinstance(v, bool):
            return [K_BOOL, 1 if v else 0]
        if isinstance(v, hs.Ref):
            if v.has_value:
                if not isinstance(v.value, str):
                    raise NotAbstractable('Ref display is not text')
                return [K_REF, cps(v.name), 1, cps(v.value)]
            return [K_REF, cps(v.name), 0, []]
        if isinstance(v, hs.Bin):
            return [K_BIN, cps(v)]
        if isinstance(v, hs.XStr):
            if v.encoding == 'hex':
                p = binascii.hexlify(bytes(v.data)).decode('ascii')
            elif v.encoding == 'b64':
                p = base64.b64encode(bytes(v.data)).decode('ascii')
            else:
                p = v.data
                if not isinstance(p, str):
                    # a typed string whose payload is not text (only hex / b64 carry bytes): projected to a payload no
                    # document can spell, so that every comparison involving it fails visibly instead of stopping the run
                    p = '\x00payload of type %s' % type(p).__name__
            return [K_XSTR, cps(v.encoding), cps(p)]
        if isinstance(v, hs.Uri):
            return [K_URI, cps(v)]
        if isinstance(v, str):
            return [K_STR, cps(v)]
        if isinstance(v, datetime.datetime):
            off = v.utcoffset()
            if off is None:
                raise NotAbstractable('naive datetime')
            secs = int(off.total_seconds())
            if secs != off.total_seconds():
                raise NotAbstractable('sub-second offset')
            return [K_DT, v.year, v.month, v.day, v.hour, v.minute, v.second, v.microsecond,
                    1 if secs < 0 else 0, abs(secs), self.zone(v.tzinfo)]
        if isinstance(v, datetime.time):
            return [K_TIME, v.hour, v.minute, v.second, v.microsecond]
        if isinstance(v, datetime.date):
            return [K_DATE, v.year, v.month, v.day]
        if isinstance(v, hs.Coordinate):
            return [K_COORD] + micro(v.latitude) + micro(v.longitude)
        if isinstance(v, self.Qty):
            if type(v).__name__ != 'BasicQuantity':
                raise NotAbstractable('pint quantities are out of scope')
            if v.unit is None or v.unit == '':
                return [K_NUM, dec_of_float(v.value)]
            return [K_QTY, dec_of_float(v.value), cps(v.unit)]
        if isinstance(v, (int, float)):
            return [K_NUM, dec_of_float(v)]
        if isinstance(v, list):
            return [K_LIST, [self.val(x) for x in v]]
        if isinstance(v, hs.Grid):
            return self.grid(v)
        if isinstance(v, (dict, self.SortableDict)):
            items = sorted(((cps(k), self.val(x)) for k, x in v.items()), key=lambda kv: kv[0])
            return [K_DICT, [[k, x] for k, x in items]]
        raise NotAbstractable('no abstract form for %r' % type(v))

    def pairs(self, m):
        return [[cps(k), self.val(v)] for k, v in m.items()]

    def grid(self, g):
        cols = list(g.column.keys())
        return [K_GRID, cps(str(g.version)), self.pairs(g.metadata),
                [[cps(c), self.pairs(g.column[c])] for c in cols],
                [[self.val(row.get(c)) for c in cols] for row in g]]

    def doc(self, grids):
        return [self.grid(g) for g in grids]


def series(grids, meta):
    """A multi-grid document is handed to dump() as a list, a tuple, an iterator or a generator: any iterable of
    grids is a series of grids.  The form is a function of the plan, so that a replay makes the same choice."""
    import json as _json
    import zlib as _zlib
    k = _zlib.crc32(_json.dumps(meta, sort_keys=True, default=str).encode()) % 4
    if k == 1:
        return tuple(grids)
    if k == 2:
        return iter(list(grids))
    if k == 3:
        return (g for g in list(grids))
    return list(grids)


def scribble(hs, grids, depth=0):
    """Overwrite, in place, everything that can be reached from parse results: rows, cells, metadata, and the
    attributes of the value objects themselves (what a client may do with what it was handed).  A later parse of the
    same input is a function of that input -- it must not show any of this."""
    def val(v):
        try:
            if isinstance(v, hs.Grid):
                if depth < 4:
                    scribble(hs, [v], depth + 1)
            elif isinstance(v, list):
                for x in list(v):
                    val(x)
                v.append('scribbled')
            elif isinstance(v, dict):
                for x in list(v.values()):
                    val(x)
                v['scribbled'] = 'x'
            elif isinstance(v, hs.Quantity):
                v.value = 12345.678
                v.unit = 'scribbled'
            elif isinstance(v, hs.Ref):
                v.name = 'scribbled'
                v.value = 'scribbled'
                v.has_value = True
            elif isinstance(v, hs.Coordinate):
                v.latitude = 1.25
                v.longitude = -2.5
            elif isinstance(v, hs.XStr):
                v.data = bytearray(b'scribbled') if isinstance(v.data, (bytes, bytearray)) else 'scribbled'
        except Exception:
            pass
    for g in grids:
        try:
            for row in list(g):
                if isinstance(row, dict):
                    for k in list(row.keys()):
                        val(row[k])
                        row[k] = 'scribbled'
                    row['scribbled'] = 1.0
            for k in list(g.metadata.keys()):
                val(g.metadata[k])
                g.metadata[k] = 'scribbled'
            for c in list(g.column.keys()):
                for k in list(g.column[c].keys()):
                    val(g.column[c][k])
                    g.column[c][k] = 'scribbled'
        except Exception:
            pass


def edit_values(hs, grids, depth=0):
    """Change, in place, the content of the value objects a grid holds (the number of a Quantity, the name of a Ref,
    the payload of an XStr, a Coordinate), keeping them Haystack values.  What is written afterwards denotes the grid
    as it is NOW.  Returns the number of values changed."""
    n = [0]

    def val(v):
        try:
            if isinstance(v, hs.Grid):
                if depth < 4:
                    n[0] += edit_values(hs, [v], depth + 1)
            elif isinstance(v, list):
                for x in v:
                    val(x)
            elif isinstance(v, dict):
                for x in v.values():
                    val(x)
            elif isinstance(v, hs.Quantity):
                if v.value == v.value and v.value not in (float('inf'), float('-inf')) and abs(v.value) < 1e15:
                    v.value = v.value + 1
                    n[0] += 1
            elif isinstance(v, hs.Ref):
                v.name = v.name + 'x'
                n[0] += 1
            elif isinstance(v, hs.Coordinate):
                v.latitude = -v.latitude / 2
                n[0] += 1
            elif isinstance(v, hs.XStr):
                if isinstance(v.data, (bytes, bytearray)):
                    v.data = bytearray(bytes(v.data) + b'\x01\xfe')
                elif isinstance(v.data, str):
                    v.data = v.data + 'x'
                n[0] += 1
        except Exception:
            pass
    for g in grids:
        for row in list(g):
            for k in list(row.keys()):
                val(row[k])
        for k in list(g.metadata.keys()):
            val(g.metadata[k])
        for c in list(g.column.keys()):
            for k in list(g.column[c].keys()):
                val(g.column[c][k])
    return n[0]
