#!/usr/bin/env python3
# Regenerates the two generated tables of DESIGN.md (between the BEGIN/END markers):
#   11.3  repaired defects, from known_findings.json
#   11.5  seeded changes, from seeded/*/meta.json
import glob
import json
import os
import re
import subprocess

V = os.path.dirname(os.path.dirname(os.path.abspath(__file__)))


def cell(s, n):
    s = re.sub(r'\s+', ' ', str(s)).replace('|', '\\|')
    return s if len(s) <= n else s[:n - 1] + '…'


def fixed_table():
    d = json.load(open(os.path.join(V, 'known_findings.json')))
    by = {}
    for e in d:
        if e['status'] != 'fixed':
            continue
        by.setdefault(e['commit'], {'props': [], 'what': re.sub(r'^fixed: property=\S+ \S+ ', '', e['what'])})
        by[e['commit']]['props'].append(e['property'])
    log = subprocess.run(['git', '-C', '/repo', 'log', '--reverse', '--format=%h %s'], stdout=subprocess.PIPE,
                         universal_newlines=True).stdout.split('\n')
    rows = ['| commit | properties | what failed | repair (commit subject) |', '|---|---|---|---|']
    for ln in log:
        if ' fix:' not in ln:
            continue
        h, subj = ln.split(' ', 1)
        e = by.get(h[:7])
        if e is None:
            rows.append('| %s | ? | (not in known_findings.json) | %s |' % (h, cell(subj, 200)))
            continue
        rows.append('| %s | %s | %s | %s |' % (h, '/'.join(sorted(set(e['props']))), cell(e['what'], 260),
                                             cell(subj[5:], 200)))
    return '\n'.join(rows)


def seeded_table():
    rows = ['| id | what was changed | what it needs | detection (quick tier) |', '|---|---|---|---|']

    def key(p):
        m = re.match(r'(C\d+)-(r(\d+))?m(\d+)', os.path.basename(os.path.dirname(p)))
        return (m.group(1), int(m.group(3) or 1), int(m.group(4)))
    for p in sorted(glob.glob(os.path.join(V, 'seeded', '*', 'meta.json')), key=key):
        m = json.load(open(p))
        sid = os.path.basename(os.path.dirname(p))
        det = '; '.join('%s: exit %d, %d VIOLATION lines' % (c['run'], c['exit'], c['violations']) for c in m.get('checks', []))
        if m.get('history'):
            det += ' — ' + m['history']
        rows.append('| %s | %s | %s | %s |' % (sid, cell(m.get('what', ''), 240), cell(m.get('needs', ''), 240),
                                             cell(det, 420)))
    return '\n'.join(rows)


def main():
    p = os.path.join(V, 'DESIGN.md')
    s = open(p).read()
    for name, tab in (('FIXED', fixed_table()), ('SEEDED', seeded_table())):
        a, b = '<!-- BEGIN %s TABLE (lib/gen_design_tables.py) -->' % name, '<!-- END %s TABLE -->' % name
        if a not in s:
            raise SystemExit('marker %s missing in DESIGN.md' % a)
        s = s[:s.index(a) + len(a)] + '\n' + tab + '\n' + s[s.index(b):]
    open(p, 'w').write(s)
    print('DESIGN.md tables regenerated')


if __name__ == '__main__':
    main()
