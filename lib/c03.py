# C03 -- the ZINC reader accepts the whole surface syntax and decodes it correctly.
#  (A)+(B) spec/Gen_ZincWrite.tla: TLC spells abstract documents with the independent writer
#          spec/ZincWrite.tla in every single-deviation style plus seeded mixed styles, checks
#          that the reader machine reads them back (writer and reader specs agree) and prints
#          <<text, denotation>>; each text is fed to hszinc.parse (str / bytes x charset, single
#          True/False) and TLC judges Abs(result) = denotation (Trace_Zinc "same").
import json
import multiprocessing
import random

from core import Report, Work, run_tlc, use_repo, seed, MachineryError, NCPU, write_consts
import absval
import gengrid
import zinccodec

FIELDS = ['num', 'esc', 'frac', 'dt', 'coord', 'sep', 'nl', 'mark', 'list', 'empty', 'gap', 'fin', 'ng']
RANGES = {'num': 5, 'esc': 4, 'frac': 4, 'dt': 5, 'coord': 3, 'sep': 3, 'nl': 2, 'mark': 2, 'list': 4,
          'empty': 2, 'gap': 3, 'fin': 2, 'ng': 2}


def abstract_docs(hs, A, plans, tier, rng):
    """abstract documents (data for the TLA+ writer): every scalar payload in a two-column grid,
    sampled positional plans, kind pairs, multi-grid documents."""
    cat = gengrid.Catalogue(hs, rng)
    docs, meta = [], []

    def add(m, grids):
        try:
            docs.append(A.doc(grids)); meta.append(m)
        except absval.NotAbstractable:
            pass
    for kind in ['null', 'marker', 'na', 'remove', 'bool', 'num', 'qty', 'str', 'uri', 'bin', 'ref', 'xstr', 'date',
                 'time', 'dt', 'coord', 'list', 'dict', 'grid']:
        for label in cat.labels(kind):
            for ver in ('2.0', '3.0'):
                if ver == '2.0' and kind in ('na', 'xstr', 'list', 'dict', 'grid'):
                    continue
                if ver == '2.0' and tier == 'quick' and rng.random() < 0.6:
                    continue
                _, v = cat.value(kind, ver, label)
                g = hs.Grid(version=ver, columns=[('v', []), ('w', [])])
                g.extend([{'v': v, 'w': 'x'}, {'v': None, 'w': v}])
                add({'t': 'scalar', 'kind': kind, 'payload': label, 'ver': ver}, [g])
    for k, zg in enumerate(cat.zone_sweep(tier)):
        add({'t': 'zones', 'kind': 'dt', 'payload': 'zone_sweep', 'ver': str(zg.version), 'n': k}, [zg])
    singles = [p for p in plans if p['t'] == 'single' and p['pos'] not in ('cell', 'cell_first', 'cell_last')]
    pairs = [p for p in plans if p['t'] == 'pair']
    rng.shuffle(singles); rng.shuffle(pairs)
    for p in singles[:60 if tier == 'quick' else 100000]:
        l = rng.choice(cat.labels(p['kind']))
        add({'t': 'single', 'kind': p['kind'], 'pos': p['pos'], 'ver': p['ver'], 'payload': l}, [cat.place(p, l)])
    for p in pairs[:40 if tier == 'quick' else 400]:
        l1, l2 = rng.choice(cat.labels(p['kind'])), rng.choice(cat.labels(p['kind2']))
        add({'t': 'pair', 'kind': p['kind'], 'kind2': p['kind2'], 'ver': p['ver'], 'payload': l1, 'payload2': l2},
            [cat.pair(p, l1, l2)])
    for k in range(8 if tier == 'quick' else 60):
        ps = [rng.choice(singles) for _ in range(rng.randint(2, 3))]
        add({'t': 'multi', 'n': len(ps), 'payload': 'multi'},
            [cat.place(p, rng.choice(cat.labels(p['kind']))) for p in ps])
    return docs, meta


_W = {}


def _init():
    hs = use_repo()
    _W['hs'] = hs
    _W['A'] = absval.Abs(hs)


def _parse_case(args):
    cid, text, ngrids, variant = args
    hs, A = _W['hs'], _W['A']
    s = ''.join(chr(c) for c in text)
    single = (ngrids == 1) and variant.get('single', True)
    try:
        data = s
        if variant.get('charset'):
            data = s.encode(variant['charset'])
            res = hs.parse(data, mode=hs.MODE_ZINC, charset=variant['charset'], single=single)
        else:
            res = hs.parse(data, mode=hs.MODE_ZINC, single=single)
        if single:
            if res is None:
                return cid, 'none', None
            res = [res]
        ab = A.doc(res)
        if cid % 3 == 0:
            # the result has been edited in place by its receiver: the same text read again denotes what it denoted
            absval.scribble(hs, res)
            res2 = hs.parse(data, mode=hs.MODE_ZINC, single=single, **({'charset': variant['charset']} if variant.get('charset') else {}))
            ab = A.doc([res2] if single else res2)
        return cid, 'ok', ab
    except absval.NotAbstractable as e:
        return cid, 'not_haystack', str(e)
    except Exception as e:
        return cid, 'raises', '%s: %s' % (type(e).__name__, str(e)[:200])


def style_dev(sty):
    d = [f for f in FIELDS if sty[f] != 1]
    return d


def run(tier):
    hs = use_repo()
    rep = Report('C03', tier)
    A = absval.Abs(hs)
    rng = random.Random(seed() * 6151 + 3)
    with Work('c03') as work:
        plans = zinccodec.tlc_plans(rep, work)
        docs, meta = abstract_docs(hs, A, plans, tier, rng)
        extra = [{f: rng.randint(1, RANGES[f]) for f in FIELDS} for _ in range(6 if tier == 'quick' else 24)]
        write_consts(work, 'ZwCat', {'Docs': docs, 'ExtraStyles': extra})
        g = run_tlc(work, 'Gen_ZincWrite.tla', 'Gen_ZincWrite.cfg', workers=NCPU, lib=work.dir, xmx='8g', timeout=3000)
        rep.tlc('writer x reader agreement + case generation', g)
        if 'SPEC-DISAGREE' in g.out or g.invariant_violated:
            i = g.out.find('SPEC-DISAGREE')
            raise MachineryError('ZincWrite and ZincRead disagree (a specification fault, not hszinc):\n%s' % g.out[max(0, i - 200):i + 1500])
        seen, cases = set(), []
        for d in g.json_lines():
            key = (d['di'], json.dumps(d['sty'], sort_keys=True))
            if key not in seen:
                seen.add(key); cases.append(d)
        if len(cases) < len(docs) * 10:
            raise MachineryError('only %d generated cases for %d documents' % (len(cases), len(docs)))
        # input variants
        jobs, info = [], {}
        # "any charset": byte order marks or none, one / two / four bytes per code unit, either byte order, legacy code pages
        charsets = ['utf-8', 'utf-16', 'latin-1', 'utf-16-be', 'utf-16-le', 'utf-32', 'utf-32-be', 'utf-32-le', 'utf-8-sig',
                    'cp1252', 'ascii', 'utf-7']
        for d in cases:
            text = d['text']
            variants = [{}]
            r = rng.random()
            if r < 0.35:
                cs = rng.choice(charsets)
                try:
                    ''.join(chr(c) for c in text).encode(cs)
                    variants.append({'charset': cs})
                except UnicodeError:
                    variants.append({'charset': 'utf-8'})
            if len(d['den']) == 1 and rng.random() < 0.15:
                variants.append({'single': False})
            for v in variants:
                cid = len(jobs) + 1
                jobs.append((cid, text, len(d['den']) if v.get('single', True) else 0, v))
                info[cid] = (d, v)
        with multiprocessing.get_context('fork').Pool(NCPU, initializer=_init) as pool:
            results = pool.map(_parse_case, jobs, chunksize=50)
        tcases, tinfo = [], {}
        for cid, st, ab in results:
            d, v = info[cid]
            m = meta[d['di'] - 1]
            feat = dict(m, engine='zincwrite', style=style_dev(d['sty']), input=v.get('charset', 'str'))
            rep.case((d['di'], json.dumps(d['sty'], sort_keys=True), json.dumps(v, sort_keys=True)))
            if st == 'ok':
                n = len(tcases) + 1
                tcases.append({'id': n, 'k': 'same', 'strict': False, 'text': [], 'a': d['den'], 'b': ab})
                tinfo[n] = (d, v, feat)
            else:
                feat['clause'] = {'raises': 'parse_raises', 'none': 'parse_returned_none',
                                  'not_haystack': 'result_not_haystack'}[st]
                rep.violation(feat, {'plan': m, 'style': d['sty'], 'text': ''.join(chr(c) for c in d['text']),
                                     'input': v, 'outcome': ab})
        verdicts = zinccodec.judge_cases(rep, work, tcases, 'c03')
        rep.traces += len(tcases)
        for n, (vd, clause, pos) in sorted(verdicts.items()):
            if vd == 'REJECT':
                d, v, feat = tinfo[n]
                feat['clause'] = clause
                rep.violation(feat, {'plan': meta[d['di'] - 1], 'style': d['sty'],
                                     'text': ''.join(chr(c) for c in d['text']), 'input': v, 'denotation': d['den'],
                                     'parsed': tcases[n - 1]['b']})
        # the documents the repository's own test-suite parses, read by the reader machine: what hszinc
        # returned (and the tests assert) must be what the specification says the text denotes
        import rectest
        rec, _ = rectest.record(work, codec=True)
        for f, d in rectest.judge_codec(rep, work, rec, {('parse', 'zinc')}):
            rep.violation(f, d)
        # empty input
        for data, single, want in (('', True, None), ('', False, []), (b'', True, None), ('\n', True, None)):
            rep.case(('empty', repr(data), single))
            try:
                r = hs.parse(data, mode=hs.MODE_ZINC, single=single)
                ok = (r is None) if want is None else (r == want)
                if not ok:
                    rep.violation({'engine': 'zincwrite', 'clause': 'empty_input_result', 'single': single},
                                  {'input': repr(data), 'single': single, 'got': repr(r)})
            except Exception as e:
                rep.violation({'engine': 'zincwrite', 'clause': 'empty_input_raises', 'single': single},
                              {'input': repr(data), 'single': single, 'exception': repr(e)[:200]})
        rep.sample({'case': {'style': cases[len(cases) // 2]['sty'],
                             'text': ''.join(chr(c) for c in cases[len(cases) // 2]['text'])}})
        rep.extra['documents'] = len(docs)
        rep.extra['styles_per_document'] = len(cases) // max(1, len(docs))
        rep.extra['cases'] = len(cases)
        rep.extra['parse_calls'] = len(jobs)
        # binding self-test
        okc = [c for c in tcases if verdicts[c['id']][0] == 'OK']
        if okc:
            c0 = json.loads(json.dumps(okc[0])); c0['id'] = 1
            c1 = json.loads(json.dumps(okc[0])); c1['id'] = 2
            c1['b'][0][4][0][0] = [7, [122, 122, 122]]
            v2 = zinccodec.judge_cases(rep, work, [c0, c1], 'c03self', shards=1)
            ok = v2[1][0] == 'OK' and v2[2][0] == 'REJECT'
            rep.extra['binding_selftest'] = {'ok': ok, 'verdicts': [list(v2[1]), list(v2[2])]}
            if not ok:
                raise MachineryError('binding self-test failed')
    rep.exhaustive = False
    rep.rule = ('one case = (abstract document, spelling style, input form); styles: every single-choice deviation from the '
                'default plus seeded mixed styles; distinct by (document, style, input form)')
    rep.assumptions = ['number spellings are derived from the shortest round-trip decimal of the denoted double',
                       'URI escapes whose denotation differs between Haystack implementations (\\: \\/ ...) are not generated']
    return rep.finish()


def replay(path):
    hs = use_repo()
    A = absval.Abs(hs)
    with open(path) as fh:
        d = json.load(fh)
    c = d['case']
    rep = Report('C03', 'quick')
    text = c['text']
    v = c.get('input') or {}
    print('text:', repr(text))
    try:
        if 'denotation' not in c and 'plan' not in c:
            r = hs.parse(eval(c['input']), mode=hs.MODE_ZINC, single=c['single'])
            print('result:', r)
            ok = True
        else:
            single = len(c.get('denotation', [1])) == 1 and v.get('single', True)
            data = text.encode(v['charset']) if v.get('charset') else text
            res = hs.parse(data, mode=hs.MODE_ZINC, single=single, **({'charset': v['charset']} if v.get('charset') else {}))
            res = [res] if single else res
            with Work('c03r') as work:
                vd = zinccodec.judge_cases(rep, work, [{'id': 1, 'k': 'same', 'strict': False, 'text': [],
                                                        'a': c['denotation'], 'b': A.doc(res)}], 'r', shards=1)
            print('TLC verdict:', vd[1])
            ok = vd[1][0] == 'OK'
    except Exception as e:
        print('exception:', repr(e)[:300])
        ok = False
    print('property holds on this case' if ok else 'VIOLATION property=C03 replay=%s' % path)
    return 0 if ok else 1
