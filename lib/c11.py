# C11 -- Grid.filter selects exactly the rows the filter denotes, against spec/FilterSem.tla.
#  (A) MC_FilterSem.cfg    TLC renders every bounded AST in every style, runs the parser machine
#                          token by token (round trip) and checks the semantic laws
#  (B) Gen_FilterSem.cfg   TLC prints, per <<AST, style>>, the filter text, rows realising every
#                          valuation of the filter's atoms and per row what the property allows;
#                          each is replayed on a real Grid (filter(text), filter(text, limit=k))
#  (C) Trace_FilterSem.tla seeded random larger filters on random grids, logged and judged by TLC
# Python holds no model: it spells TLC's abstract values into hszinc objects, calls Grid.filter,
# projects the outcome (row identities, shapes) and reads TLC's expectation / verdict lines.
# Feature records of violations use labels (valuation, hop) computed here for classification only.
import datetime
import glob
import json
import os
import random

from core import Report, Work, run_tlc, use_repo, seed, MachineryError
import filterlex

KINDS = ['num', 'str', 'boolT', 'boolF', 'uri', 'ref', 'date', 'time', 'dt', 'qty', 'inf']
KIDX = {k: i + 1 for i, k in enumerate(KINDS)}
SPELL = {'num': '5', 'str': '"m"', 'boolT': 'true', 'boolF': 'false', 'uri': '`m`', 'ref': '@lit',
         'date': '2020-01-15', 'time': '12:30:00', 'dt': '2020-01-15T12:30:00Z', 'qty': '5kW', 'inf': 'INF'}
EQ, BELOW, ABOVE = 2, 3, 4
REL = {EQ: 'equal', BELOW: 'below', ABOVE: 'above'}
FAM = {'num': 'numeric', 'qty': 'numeric', 'inf': 'numeric', 'boolT': 'numeric', 'boolF': 'numeric', 'str': 'text',
       'uri': 'text', 'date': 'day', 'dt': 'day', 'time': 'time', 'ref': 'ref'}
TAGS = ['a', 'b', 'c']
CHANGED = 98
OPS = ['==', '!=', '<', '<=', '>', '>=']


class Binding(object):
    """abstract value <<kind index, relation>>  ->  fresh hszinc value (one literal per kind)."""

    def __init__(self, hs):
        import pytz
        self.hs = hs
        d, t, dt = datetime.date, datetime.time, datetime.datetime
        utc = pytz.utc
        self.table = {
            'num': {EQ: lambda: 5.0, BELOW: lambda: 3.0, ABOVE: lambda: 7.5},
            'str': {EQ: lambda: 'm', BELOW: lambda: 'd', ABOVE: lambda: 't'},
            'boolT': {EQ: lambda: True, BELOW: lambda: False},
            'boolF': {EQ: lambda: False, ABOVE: lambda: True},
            'uri': {EQ: lambda: hs.Uri('m'), BELOW: lambda: hs.Uri('d'), ABOVE: lambda: hs.Uri('t')},
            'ref': {EQ: lambda: hs.Ref('lit'), BELOW: lambda: hs.Ref('aaa'), ABOVE: lambda: hs.Ref('zzz')},
            'date': {EQ: lambda: d(2020, 1, 15), BELOW: lambda: d(2019, 12, 31), ABOVE: lambda: d(2020, 2, 1)},
            'time': {EQ: lambda: t(12, 30, 0), BELOW: lambda: t(1, 2, 3), ABOVE: lambda: t(23, 0, 0)},
            'dt': {EQ: lambda: dt(2020, 1, 15, 12, 30, 0, tzinfo=utc),
                   BELOW: lambda: dt(2019, 6, 1, 0, 0, 0, tzinfo=utc),
                   ABOVE: lambda: dt(2021, 3, 1, 8, 0, 0, tzinfo=utc)},
            'qty': {EQ: lambda: hs.Quantity(5.0, 'kW'), BELOW: lambda: hs.Quantity(3.0, 'kW'),
                    ABOVE: lambda: hs.Quantity(7.5, 'kW')},
            'inf': {EQ: lambda: float('inf'), BELOW: lambda: 1e300},
        }

    def avail(self, kind):
        return sorted(self.table[kind])

    def value(self, k, r):
        if k == 0:
            if r == 1:
                return self.hs.MARKER
            raise MachineryError('no value for code %r' % ((k, r),))
        kind = KINDS[k - 1]
        if kind == 'ref' and r >= 100:
            return self.hs.Ref('id%d' % (r - 100))
        try:
            return self.table[kind][r]()
        except KeyError:
            raise MachineryError('no concrete value for abstract value %r' % ((k, r),))

    def build(self, rows):
        """abstract rows -> (grid, row dicts, per row {tag: (object, repr, code)})."""
        hs = self.hs
        promote = getattr(self, 'promote', False) and len(rows) > 0
        if promote:
            # a grid built WITHOUT a version, raised to 3.0 by one row's value alone (a list in the hidden tag z
            # of the last row): the result of filter() must carry the version over whichever rows it selects
            g = hs.Grid(metadata={'m': 1, 'site': 'x'},
                        columns=[('id', []), ('a', [('unit', 'x')]), ('b', []), ('c', [('doc', 'y')]), ('z', [])])
        else:
            g = hs.Grid(version='3.0', metadata={'m': 1, 'site': 'x'},
                        columns=[('id', []), ('a', [('unit', 'x')]), ('b', []), ('c', [('doc', 'y')])])
        objs, origin = [], []
        for ri, r in enumerate(rows):
            row, org = {}, {}
            if promote and ri == len(rows) - 1:
                row['z'] = [1.0]
            if r[0]:
                row['id'] = 'id%d' % r[0]
            for j, tag in enumerate(TAGS):
                k, rel = r[1 + 2 * j], r[2 + 2 * j]
                if (k, rel) != (0, 0):
                    v = self.value(k, rel)
                    row[tag] = v
                    org[tag] = (v, repr(v), (k, rel))
            if getattr(self, 'warm', None) and len(rows) >= 2 and ri == len(rows) - 1:
                # the filter has been evaluated on this grid before its last row arrives
                try:
                    g.filter(self.warm)
                except Exception:
                    pass
            g.append(row)
            objs.append(row)
            origin.append(org)
        if getattr(self, 'noise', False):
            # the same rows reached through a history: rows sharing the ids of real rows are inserted in
            # front and removed again (by index and by slice), the last row is popped and re-appended --
            # reference following must see exactly the rows that are in the grid now
            ids = [r['id'] for r in objs if 'id' in r]
            junk = [{'id': i, 'junk': hs.MARKER} for i in ids[:2]] + [{'id': 'zz9', 'junk': hs.MARKER}]
            for j in junk:
                g.insert(0, j)
            g.get('zz9')                      # the id index exists before the deletions
            del g[0]
            del g[0:len(junk) - 1]
            if len(g) > 1:
                last = g.pop()
                g.append(last)
        return g, objs, origin


def shape(g):
    """version / metadata / columns as a flat list of ASCII strings."""
    try:
        out = ['V ' + str(g.version)]
        out += ['M %s=%r' % (k, v) for k, v in g.metadata.items()]
        for c, meta in g.column.items():
            out.append('C ' + str(c))
            out += ['c %s.%s=%r' % (c, k, v) for k, v in meta.items()]
        return [s.encode('ascii', 'backslashreplace').decode('ascii') for s in out]
    except Exception as e:
        return ['unreadable ' + type(e).__name__]


def snapshot(g, rows, objs, origin):
    """the source grid re-abstracted: a row / value that is no longer the object (or no longer prints
    like the value) it was built from reads as CHANGED, so that any mutation makes the lists differ."""
    out = []
    cur = list(g._row) if hasattr(g, '_row') else list(g)
    for pos, o in enumerate(cur):
        if pos >= len(objs) or o is not objs[pos] or not isinstance(o, dict):
            out.append([CHANGED] * 7)
            continue
        r, org = rows[pos], origin[pos]
        rec = [r[0] if (('id' in o) == bool(r[0]) and (not r[0] or o['id'] == 'id%d' % r[0])) else CHANGED]
        for tag in TAGS:
            if tag in o and o[tag] is None:
                rec += [CHANGED, CHANGED]
            elif tag not in o:
                rec += [0, 0] if tag not in org else [CHANGED, CHANGED]
            elif tag in org and o[tag] is org[tag][0] and repr(o[tag]) == org[tag][1]:
                rec += list(org[tag][2])
            else:
                rec += [CHANGED, CHANGED]
        if set(o) - set(['id', 'z'] + TAGS):
            rec[0] = CHANGED
        out.append(rec)
    return out


def execute(b, text, rows, limits):
    """One fresh grid; grid.filter(text) then grid.filter(text, limit=k) for the other limits."""
    from pyparsing import ParseBaseException
    g, objs, origin = b.build(rows)
    ident = {id(o): i + 1 for i, o in enumerate(objs)}
    src_shape = shape(g)
    calls = []
    for k in limits:
        c = {'k': k, 'out': 'ok', 'sel': [], 'rshape': src_shape, 'exc': ''}
        try:
            res = g.filter(text) if k == 0 else g.filter(text, limit=k)
            c['sel'] = [ident.get(id(o), 0) for o in res]
            c['rshape'] = shape(res)
        except MachineryError:
            raise
        except ParseBaseException as e:
            c['out'], c['exc'], c['msg'] = 'parse_error', type(e).__name__, str(e)[:120]
        except Exception as e:
            c['out'], c['exc'], c['msg'] = 'raises', type(e).__name__, str(e)[:120]
        c['post'] = snapshot(g, rows, objs, origin)
        c['pshape'] = shape(g)
        calls.append(c)
    return src_shape, calls


# ---------------------------------------------------------------------------
# rendering (driver side: spelling of tokens; the tokens of role C are parsed again by TLC)

def path_toks(p):
    out = []
    for i, t in enumerate(p):
        if i:
            out.append('->')
        out.append(t)
    return out


def bare(x):
    t = x['t']
    if t == 'has':
        return path_toks(x['p'])
    if t == 'missing':
        return ['not'] + path_toks(x['p'])
    if t == 'cmp':
        return path_toks(x['p']) + [x['o'], '#' + x['k']]
    if t == 'paren':
        return ['('] + bare(x['x']) + [')']
    if t in ('and', 'or'):
        out = []
        for i, y in enumerate(x['xs']):
            if i:
                out.append(t)
            out += bare(y)
        return out
    return []


def wordy(t):
    return t not in ('(', ')', '->') and t not in OPS


def spaced(toks, rng):
    """random blanks: mandatory between word-like tokens, optional elsewhere, never around `->`."""
    out = []
    if rng.random() < 0.15:
        out.append(rng.choice([' ', '  ']))
    for i, t in enumerate(toks):
        if i:
            p = toks[i - 1]
            if p != '->' and t != '->':
                if wordy(p) and wordy(t):
                    out.append(rng.choice([' ', ' ', '  ']))
                else:
                    g = rng.choice(['', '', ' ', '  '])
                    if g:
                        out.append(g)
        out.append(t)
    if rng.random() < 0.15:
        out.append(rng.choice([' ', '  ']))
    return out


def spell(toks):
    return ''.join(SPELL[t[1:]] if t.startswith('#') else t for t in toks)


def atoms_of(x, acc=None):
    acc = [] if acc is None else acc
    t = x['t']
    if t in ('has', 'missing', 'cmp'):
        if x not in acc:
            acc.append(x)
    elif t == 'paren':
        atoms_of(x['x'], acc)
    elif t in ('and', 'or'):
        for y in x['xs']:
            atoms_of(y, acc)
    return acc


def size_of(x):
    t = x['t']
    if t in ('has', 'missing', 'cmp'):
        return 1
    if t == 'paren':
        return 1 + size_of(x['x'])
    if t in ('and', 'or'):
        return 1 + sum(size_of(y) for y in x['xs'])
    return 0


def shape_of(x):
    """structural feature labels of a filter (classification only)."""
    def unparen(y):
        while y['t'] == 'paren':
            y = y['x']
        return y

    def max_ops(y):
        y = unparen(y)
        if y['t'] in ('and', 'or'):
            return max([len(y['xs'])] + [max_ops(z) for z in y['xs']])
        return 0
    t = x['t']
    f = {'max_operands': max_ops(x), 'chain': max_ops(x) >= 3}
    if t in ('and', 'or'):
        n = len(x['xs'])
        nested = any(unparen(y)['t'] in ('and', 'or') for y in x['xs'])
        f['shape'] = ('mixed' if nested else t + '_chain' if n >= 3 else t + '2')
        f['operands'] = n
    else:
        f['shape'] = 'atom' if t in ('has', 'missing', 'cmp') else t
        f['operands'] = 0
    return f


# ---------------------------------------------------------------------------
# classification of an exception (labels only; nothing here accepts or rejects)

def _val(row, tag):
    j = TAGS.index(tag)
    return (row[1 + 2 * j], row[2 + 2 * j])


def label(rows, row, atom):
    """(valuation of the resolved path w.r.t. the atom, hop) for feature records."""
    p = atom['p']
    hop = 'none'
    v = _val(row, p[0])
    for seg in p[1:]:
        tgt = None
        if v[0] == KIDX['ref'] and v[1] >= 100:
            tgt = next((r for r in rows if r[0] == v[1] - 100), None)
        if tgt is None:
            hop = ('absent' if v == (0, 0) else 'marker' if v == (0, 1) else
                   'dangling' if v[0] == KIDX['ref'] else 'value')
            return 'absent', hop
        hop = 'valid'
        v = _val(tgt, seg)
    if v == (0, 0):
        return 'absent', hop
    if atom['t'] != 'cmp':
        return 'present', hop
    if v == (0, 1):
        return 'marker', hop
    k = atom['k']
    if v[0] == KIDX[k]:
        return REL.get(v[1], 'differ'), hop
    return ('kindred' if FAM[KINDS[v[0] - 1]] == FAM[k] else 'other'), hop


def diagnose(b, ast, rows):
    """Which atoms of a raising filter raise on their own, on which valuations.  Uses
    hszinc.grid_filter.filter_function(text)(grid, row) -- the usage tests/test_filter.py pins --
    only to label violations."""
    out = []
    try:
        from hszinc.grid_filter import filter_function
    except Exception:
        return out
    g, objs, _ = b.build(rows)
    for atom in atoms_of(ast):
        base = {'atom': atom['t'], 'path': 'deref' if len(atom['p']) > 1 else 'direct'}
        if atom['t'] == 'cmp':
            base['op'] = atom['o']
            base['op_class'] = 'equality' if atom['o'] in ('==', '!=') else 'ordering'
            base['literal'] = atom['k']
        try:
            fn = filter_function(spell(bare(atom)))
        except Exception as e:
            out.append(dict(base, exc=type(e).__name__, valuation='any', hop='any', stage='compile'))
            continue
        seen, nraise = {}, 0
        for r, o in zip(rows, objs):
            try:
                fn(g, o)
            except Exception as e:
                nraise += 1
                seen.setdefault((type(e).__name__,) + label(rows, r, atom), 0)
        # `any': the atom raises on every row, rows holding a value of the literal's own kind included
        if nraise == len(rows) and rows and (atom['t'] != 'cmp' or
                                             any(k[1] in ('equal', 'below', 'above') for k in seen)):
            out.append(dict(base, exc=sorted(set(k[0] for k in seen))[0], valuation='any', hop='any',
                            stage='eval'))
        else:
            for (exc, val, hop) in sorted(seen):
                out.append(dict(base, exc=exc, valuation=val, hop=hop, stage='eval'))
    return out


def raise_features(b, role, ast, rows, call, text):
    fs = diagnose(b, ast, rows) if call['out'] == 'raises' else []
    sh = shape_of(ast)
    if call['out'] == 'parse_error':
        kinds = sorted(set(a['k'] for a in atoms_of(ast) if a['t'] == 'cmp'))
        fs = [{'exc': call['exc'], 'literals': '+'.join(kinds) if kinds else 'none',
               'qty_after_blank': (' ' + SPELL['qty']) in text}]
    elif not fs:
        fs = [{'exc': call['exc'], 'valuation': 'unknown', 'hop': 'unknown'}]
    return [dict(f, engine='filtersem', role=role, clause=call['out'], shape=sh['shape'],
                 filter_exc=call['exc']) for f in fs]


def select_features(role, clause, ast, call, exp=None):
    f = dict(shape_of(ast), engine='filtersem', role=role, clause=clause, limit=call['k'] > 0)
    if exp is not None and clause == 'selection':
        sel = set(call['sel'])
        extra = any(exp[i - 1] == 0 for i in sel if 1 <= i <= len(exp))
        missing = any(e == 1 and (i + 1) not in sel for i, e in enumerate(exp))
        f['direction'] = 'both' if extra and missing else 'extra' if extra else 'missing'
    kinds = sorted(set(a['k'] for a in atoms_of(ast) if a['t'] == 'cmp'))
    f['literals'] = '+'.join(kinds) if kinds else 'none'
    return f


# ---------------------------------------------------------------------------
# (B) replay of TLC's generated cases

def text_of(case):
    return ''.join(chr(c) for c in case['text'])


def compare_case(case, src_shape, calls):
    """Set of (call index, clause) for one generated case: the outcome against what TLC printed."""
    exp = case['exp']
    n = len(exp)
    bad = []
    lims = {k: s for k, s in case['lims']}
    first_ok = False
    for j, c in enumerate(calls):
        if c['out'] != 'ok':
            bad.append((j, c['out']))
        else:
            sel = c['sel']
            if c['k'] == 0:
                cl = set()
                if any(not (1 <= i <= n) for i in sel):
                    cl.add('selection')
                else:
                    if any(sel[i] >= sel[i + 1] for i in range(len(sel) - 1)):
                        cl.add('order')
                    if any(exp[i - 1] == 0 for i in sel) or \
                            any(e == 1 and (i + 1) not in sel for i, e in enumerate(exp)):
                        cl.add('selection')
                first_ok = not cl
                bad += [(j, x) for x in sorted(cl)]
            elif c['k'] in lims and sel != lims[c['k']]:
                bad.append((j, 'limit' if first_ok else 'selection'))
            if c['rshape'] != src_shape:
                bad.append((j, 'shape'))
        if c['post'] != [list(r) for r in case['rows']] or c['pshape'] != src_shape:
            bad.append((j, 'source_mutated'))
    return bad


def limits_of(case):
    ks = [k for k, _ in case['lims']]
    return [0] + (ks if ks else [1, 2])


def promote_of(text):
    """a deterministic fifth of the filters runs on a grid whose version was detected from a row value"""
    return sum(ord(ch) for ch in text) % 5 == 2


def replay_generated(rep, b, cases, viol):
    stats = {'cases': 0, 'calls': 0, 'rows': 0, 'both_values': 0, 'limit_exact': 0, 'undetermined_cases': 0,
             'raising_cases': 0}
    for case in cases:
        text = text_of(case)
        rows = case['rows']
        limits = limits_of(case)
        b.noise = ('->' in text)      # reference following is exercised on a grid with a mutation history
        b.promote = promote_of(text)
        b.warm = text if sum(ord(ch) for ch in text) % 3 == 1 else None
        src_shape, calls = execute(b, text, rows, limits)
        b.noise = b.promote = False
        b.warm = None
        stats['cases'] += 1
        stats['calls'] += len(calls)
        stats['rows'] += len(rows)
        nontrivial = 0 in case['exp'] and 1 in case['exp']
        stats['both_values'] += nontrivial
        stats['limit_exact'] += len(case['lims'])
        stats['undetermined_cases'] += (2 in case['exp'])
        rep.case(text, nontrivial=nontrivial)
        rep.traces += len(calls)
        bad = compare_case(case, src_shape, calls)
        if not bad:
            continue
        done = set()
        for j, clause in bad:
            c = calls[j]
            if clause in ('raises', 'parse_error'):
                if clause in done:
                    continue            # the other limits of the same filter raise alike
                done.add(clause)
                stats['raising_cases'] += 1
                fl = raise_features(b, 'B', case['ast'], rows, c, text)
            else:
                fl = [select_features('B', clause, case['ast'], c, case['exp'])]
            detail = {'role': 'B', 'text': text, 'ast': case['ast'], 'rows': rows, 'limit': c['k'],
                      'allowed_per_row': case['exp'], 'lims': case['lims'],
                      'got': {'out': c['out'], 'exc': c.get('exc', ''), 'msg': c.get('msg', ''),
                              'selected': c['sel']}}
            for f in fl:
                viol.append((f, detail))
    return stats


# ---------------------------------------------------------------------------
# (C) random larger filters, judged by TLC

def random_case(rng, b):
    kinds = rng.sample(KINDS, 2) + (['num'] if rng.random() < 0.5 else [])
    paths = [[t] for t in TAGS] * 4 + [[x, y] for x in TAGS for y in TAGS] + [['a', 'b', 'c'], ['c', 'a', 'b']]

    def atom():
        p = rng.choice(paths)
        r = rng.random()
        if r < 0.3:
            return {'t': 'has', 'p': p}
        if r < 0.5:
            return {'t': 'missing', 'p': p}
        return {'t': 'cmp', 'p': p, 'o': rng.choice(OPS), 'k': rng.choice(kinds)}

    def term(d):
        if d < 4 and rng.random() < 0.3:
            return {'t': 'paren', 'x': filt(d + 1)}
        return atom()

    def ande(d):
        n = rng.choice([1, 1, 2, 2, 3, 4])
        xs = [term(d) for _ in range(n)]
        return xs[0] if n == 1 else {'t': 'and', 'xs': xs}

    def filt(d):
        n = rng.choice([1, 1, 2, 2, 3, 4]) if d < 3 else rng.choice([1, 2])
        xs = [ande(d) for _ in range(n)]
        return xs[0] if n == 1 else {'t': 'or', 'xs': xs}

    while True:
        ast = filt(1)
        if 3 <= size_of(ast) <= 14:
            break
    toks = spaced(bare(ast), rng)
    # rows: values of the kinds the filter mentions (and one more), refs to rows that may or may not exist
    pool_k = list(kinds) + [rng.choice(KINDS)]
    ids = rng.sample(range(1, 9), rng.randint(3, 6))
    nrows = rng.randint(12, 28)

    def value():
        r = rng.random()
        if r < 0.25:
            return (0, 0)
        if r < 0.33:
            return (0, 1)
        if r < 0.75:
            k = rng.choice(pool_k)
            return (KIDX[k], rng.choice(b.avail(k)))
        if r < 0.95:
            return (KIDX['ref'], 100 + rng.randint(1, 8))
        return (KIDX['ref'], 199)
    rows = []
    idpos = set(rng.sample(range(nrows), len(ids)))
    it = iter(ids)
    for i in range(nrows):
        r = [next(it) if i in idpos else 0]
        for _ in TAGS:
            r += list(value())
        rows.append(r)
    limits = [0] + sorted(set([rng.randint(1, 4), rng.randint(1, nrows + 1)]))
    return {'ast': ast, 'toks': toks, 'rows': rows, 'limits': limits}


def run_random(b, cases):
    evs = []
    for c in cases:
        b.promote = promote_of(spell(c['toks']))
        src_shape, calls = execute(b, spell(c['toks']), c['rows'], c['limits'])
        b.promote = False
        evs.append({'ast': c['ast'], 'toks': c['toks'], 'rows': c['rows'], 'shape': src_shape, 'calls': calls})
    return evs


def to_tlc(ev):
    """the fields TLC judges (no empty objects / nulls; exception names stay with the harness)."""
    return {'ast': ev['ast'], 'toks': ev['toks'], 'rows': ev['rows'], 'shape': ev['shape'],
            'calls': [{'k': c['k'], 'out': c['out'], 'sel': c['sel'], 'rshape': c['rshape'],
                       'post': c['post'], 'pshape': c['pshape']} for c in ev['calls']]}


def judge(rep, work, traces, tag):
    """traces: list of lists of events.  Returns {(tid, l): [(call, clause)..]} for rejected cases."""
    path = work.path('traces-%s.json' % tag)
    with open(path, 'w') as f:
        json.dump([[to_tlc(ev) for ev in tr] for tr in traces], f)
    r = run_tlc(work, 'Trace_FilterSem.tla', 'Trace_FilterSem.cfg', env={'TRACE_FILE': path}, xmx='6g')
    rep.tlc('trace-' + tag, r)
    if r.invariant_violated:
        raise MachineryError('Trace_FilterSem: unexpected invariant violation\n' + r.out[-1500:])
    rej, closed = {}, {}
    for ln in r.out.split('\n'):
        ln = ln.strip()
        if ln.startswith('<<"REJECT"'):
            p = [x.strip(' <>"') for x in ln.split(',')]
            rej.setdefault((int(p[1]), int(p[2])), []).append((int(p[3]), p[4]))
        elif ln.startswith('<<"ACCEPT"') or ln.startswith('<<"DONE"'):
            p = [x.strip(' <>"') for x in ln.split(',')]
            closed[int(p[1])] = (p[0], int(p[2]))
    for i, tr in enumerate(traces, 1):
        if i not in closed:
            raise MachineryError('no verdict for trace %d (%s)\n%s' % (i, tag, r.out[-1500:]))
        n = len(set(l for (t, l) in rej if t == i))
        if closed[i] != (('ACCEPT', 0) if n == 0 else ('DONE', n)):
            raise MachineryError('verdict lines of trace %d inconsistent: %r vs %d rejected' % (i, closed[i], n))
    for (t, l), cl in rej.items():
        if any(c[1] in ('render', 'first_call_must_be_unlimited') for c in cl):
            raise MachineryError('harness logged a case TLC cannot read back: trace %d case %d %r: %r' % (
                t, l, cl, traces[t - 1][l - 1]['toks']))
    return rej


def selftest(rep, work, evs, have_violations):
    """Binding self-test: corrupt one logged field of an accepted case at a time; TLC must reject
    exactly the corrupted cases with exactly the clause of the corrupted field.  The case is a
    presence-only filter (every row determined, a law of role A), so that removing or adding one
    row index is a violation whatever the rows hold."""
    good = next((e for e in evs if e['calls'][0]['out'] == 'ok' and len(e['calls'][0]['sel']) >= 2
                 and len(e['calls'][0]['sel']) < len(e['rows'])
                 and all(a['t'] != 'cmp' for a in atoms_of(e['ast']))), None)
    if good is None:
        if have_violations:
            # the implementation is broken so broadly that no suitable execution was accepted; the
            # violations are reported, the demonstration of the binding is skipped (and says so)
            rep.extra['binding_selftest'] = {'ok': None, 'skipped': 'no accepted presence-only case to corrupt'}
            return
        raise MachineryError('binding self-test: no accepted case with >= 2 selected rows to corrupt')
    good = json.loads(json.dumps(good))
    good['calls'] = good['calls'][:1]

    def mut(fn):
        x = json.loads(json.dumps(good))
        fn(x['calls'][0], x)
        return x
    unsel = next(i for i in range(1, len(good['rows']) + 1) if i not in good['calls'][0]['sel'])
    bads = [
        ('selection', mut(lambda c, x: c['sel'].pop())),
        ('selection', mut(lambda c, x: c.update(sel=sorted(c['sel'] + [unsel])))),
        ('order', mut(lambda c, x: c.update(sel=[c['sel'][1], c['sel'][0]] + c['sel'][2:]))),
        ('shape', mut(lambda c, x: c.update(rshape=c['rshape'][:-1]))),
        ('source_mutated', mut(lambda c, x: c['post'][0].__setitem__(2, CHANGED))),
        ('raises', mut(lambda c, x: c.update(out='raises', sel=[]))),
    ]
    rej = judge(rep, work, [[good] + [m for _, m in bads]], 'selftest')
    got = {l: sorted(set(c[1] for c in cl)) for (t, l), cl in rej.items()}
    want = {i + 2: [cl] for i, (cl, _) in enumerate(bads)}
    # an accepted case must really have been accepted with its original fields
    ok = got == want
    rep.extra['binding_selftest'] = {'corrupted_fields': [cl for cl, _ in bads], 'verdicts': {str(k): v for k, v in got.items()},
                                     'ok': ok}
    if not ok:
        raise MachineryError('binding self-test failed: wanted %r, TLC said %r' % (want, got))


def check_header(hdr):
    if hdr.get('kinds') != KINDS:
        raise MachineryError('kind table differs from FilterSem.tla: %r' % (hdr.get('kinds'),))
    for k in KINDS:
        if ''.join(chr(c) for c in hdr['spell'][k]) != SPELL[k]:
            raise MachineryError('literal spelling of %s differs from FilterSem.tla' % k)


def observe_kindred(b):
    """Comparisons between kinds Python compares and Haystack keeps apart: recorded, never judged."""
    obs = []
    for lit, vk in [('boolT', 'num'), ('num', 'boolT'), ('num', 'qty'), ('qty', 'num'), ('str', 'uri'),
                    ('uri', 'str'), ('date', 'dt'), ('dt', 'date')]:
        for op in ('==', '<'):
            rows = [[0, KIDX[vk], r, 0, 0, 0, 0] for r in b.avail(vk)]
            _, calls = execute(b, 'a %s %s' % (op, SPELL[lit]), rows, [0])
            c = calls[0]
            obs.append({'filter': 'a %s %s' % (op, SPELL[lit]), 'row_kind': vk,
                        'outcome': c['exc'] if c['out'] != 'ok' else
                        [REL[rows[i - 1][2]] for i in c['sel']]})
    return obs


def report_violations(rep, viol):
    """First one example of every class (so that each gets a replay file), then the rest."""
    def coarse(f):
        if f.get('role') == 'D':
            return ('D', f.get('clause'), f.get('deref'), f.get('escape_in_literal'), f.get('bin_literal'),
                    f.get('loose_blanks'), f.get('exc'))
        if f.get('clause') == 'raises':
            return ('raises', f.get('exc'), f.get('stage'),
                    'deref_through_non_ref' if f.get('hop') in ('marker', 'value') else
                    'literal_' + str(f.get('literal')) if f.get('valuation') == 'any' or f.get('literal') == 'inf'
                    else 'valuation_' + str(f.get('valuation')), f.get('op_class'))
        if f.get('clause') == 'parse_error':
            return ('parse_error', f.get('exc'), 'qty_after_blank' if f.get('qty_after_blank') else f.get('literals'))
        return (f.get('clause'), 'chain' if f.get('chain') else 'no_chain',
                'literals_inf' if 'inf' in str(f.get('literals')) else '', 'limit' if f.get('limit') else '')
    seen, first, rest = set(), [], []
    classes = {}
    for f, d in viol:
        k = coarse(f)
        classes[k] = classes.get(k, 0) + 1
        (rest if k in seen else first).append((f, d))
        seen.add(k)
    rep.max_report = max(rep.max_report, min(len(first), 24))
    for f, d in first + rest:
        rep.violation(f, d)
    rep.extra['violation_classes'] = [{'class': [str(x) for x in k], 'count': n} for k, n in
                                      sorted(classes.items(), key=lambda kv: str(kv[0]))]


def run(tier):
    hs = use_repo()
    rep = Report('C11', tier)
    b = Binding(hs)
    rng = random.Random(seed() * 7919 + 11)
    quick = tier == 'quick'
    viol = []
    for old in glob.glob(os.path.join(rep.replay_dir, tier + '-*.json')):
        os.unlink(old)          # replay files of an earlier run of this tier
    with Work('c11') as work:
        # (A) round trip of the parser machine, semantic laws
        r = run_tlc(work, 'MC_FilterSem.tla', 'MC_FilterSem.cfg' if quick else 'MC_FilterSem_thorough.cfg')
        rep.tlc('model-check', r)
        if r.invariant_violated or not r.completed:
            raise MachineryError('FilterSem.tla violates its own law %s\n%s' % (r.invariant_violated, r.out[-1500:]))
        if r.initial < (10000 if quick else 80000):
            raise MachineryError('role A instance smaller than expected: %d <<AST, style>> pairs' % r.initial)
        rep.extra['roundtrip_ast_style_pairs'] = r.initial
        # the token-level and the character-level model agree (parse and semantics)
        r = run_tlc(work, 'MC_FilterLex.tla', 'MC_FilterLex.cfg' if quick else 'MC_FilterLex_thorough.cfg', workers=8)
        rep.tlc('model-agreement', r)
        if r.invariant_violated or not r.completed or r.initial < 4000:
            raise MachineryError('FilterSem.tla and FilterLex.tla disagree: %s\n%s' % (r.invariant_violated, r.out[-1500:]))
        rep.extra['model_agreement_ast_style_pairs'] = r.initial
        # (B) generated cases
        g = run_tlc(work, 'MC_FilterSem.tla', 'Gen_FilterSem.cfg' if quick else 'Gen_FilterSem_thorough.cfg',
                    xmx='6g')
        rep.tlc('case-generation', g)
        lines = g.json_lines()
        hdr = [x for x in lines if isinstance(x, dict) and x.get('hdr') == 'c11']
        cases = [x for x in lines if isinstance(x, dict) and 'ast' in x]
        if len(hdr) != 1:
            raise MachineryError('binding header missing from generator output')
        check_header(hdr[0])
        if len(cases) != g.initial or 2 * len(cases) != g.distinct or len(cases) < (5000 if quick else 20000):
            raise MachineryError('case generation incomplete: %d cases printed, %d initial states, %d states' % (
                len(cases), g.initial, g.distinct))
        stats = replay_generated(rep, b, cases, viol)
        rep.extra['generated'] = stats
        rep.sample({'generated_case': {'text': text_of(cases[len(cases) // 2]),
                                       'rows': len(cases[len(cases) // 2]['rows']),
                                       'allowed_per_row': cases[len(cases) // 2]['exp']}})
        if stats['both_values'] < len(cases) // 2 or stats['limit_exact'] < len(cases):
            raise MachineryError('generated cases too trivial: %r' % (stats,))
        # (C) random larger filters judged by TLC
        ntr, per = (30, 32) if quick else (250, 40)
        rcases = [random_case(rng, b) for _ in range(ntr * per)]
        evs = run_random(b, rcases)
        traces = [evs[i * per:(i + 1) * per] for i in range(ntr)]
        rej = judge(rep, work, traces, 'random')
        rep.traces += sum(len(e['calls']) for e in evs)
        big = sum(1 for e in evs if size_of(e['ast']) >= 5 and len(e['rows']) >= 10)
        okntr = sum(1 for e in evs if e['calls'][0]['out'] == 'ok' and 0 < len(e['calls'][0]['sel']) < len(e['rows']))
        rep.extra['random'] = {'cases': len(evs), 'size>=5': big, 'ok_and_nontrivial_selection': okntr,
                               'rejected_cases': len(rej),
                               'max_size': max(size_of(e['ast']) for e in evs)}
        if len(evs) < (900 if quick else 9000) or big < len(evs) // 3:
            raise MachineryError('random cases too few or too small: %r' % (rep.extra['random'],))
        rep.sample({'random_case': {'text': spell(evs[0]['toks']), 'rows': len(evs[0]['rows']),
                                    'calls': [[c['k'], c['out'], c['sel']] for c in evs[0]['calls']]}})
        for i, e in enumerate(evs):
            rep.case(('C', spell(e['toks']), i), nontrivial=size_of(e['ast']) >= 5)
        for (t, l), cl in sorted(rej.items()):
            ev = traces[t - 1][l - 1]
            done = set()
            for j, clause in sorted(cl):
                c = ev['calls'][j - 1]
                if clause in ('raises', 'parse_error'):
                    if clause in done:
                        continue
                    done.add(clause)
                    fl = raise_features(b, 'C', ev['ast'], ev['rows'], c, spell(ev['toks']))
                else:
                    fl = [select_features('C', clause, ev['ast'], c)]
                detail = {'role': 'C', 'text': spell(ev['toks']), 'ast': ev['ast'], 'toks': ev['toks'],
                          'rows': ev['rows'], 'limits': [x['k'] for x in ev['calls']], 'limit': c['k'],
                          'clause': clause,
                          'got': {'out': c['out'], 'exc': c.get('exc', ''), 'msg': c.get('msg', ''),
                                  'selected': c['sel']}}
                for f in fl:
                    viol.append((f, detail))
        accepted = [e for (ti, tr) in enumerate(traces, 1) for (li, e) in enumerate(tr, 1) if (ti, li) not in rej]
        # two fixed presence filters join the candidates (random filters are rarely presence-only)
        fixed = [{'ast': {'t': 'has', 'p': ['a']}, 'toks': ['a'], 'limits': [0],
                  'rows': [[0, 0, 0, 0, 0, 0, 0], [0, 0, 1, 0, 0, 0, 0], [0, 0, 1, 0, 1, 0, 0], [0, 0, 0, 0, 1, 0, 0]]},
                 {'ast': {'t': 'or', 'xs': [{'t': 'missing', 'p': ['b']}, {'t': 'has', 'p': ['c']}]},
                  'toks': ['not', ' ', 'b', ' ', 'or', ' ', 'c'], 'limits': [0],
                  'rows': [[0, 0, 0, 0, 1, 0, 0], [0, 0, 1, 0, 0, 0, 0], [0, 0, 1, 0, 1, 0, 1], [0, 0, 0, 0, 1, 0, 0]]}]
        fevs = run_random(b, fixed)
        frej = judge(rep, work, [fevs], 'fixed')
        for (t, l), cl in sorted(frej.items()):
            for j, clause in sorted(cl):
                c = fevs[l - 1]['calls'][j - 1]
                viol.append((select_features('C', clause, fevs[l - 1]['ast'], c) if c['out'] == 'ok' else
                             raise_features(b, 'C', fevs[l - 1]['ast'], fevs[l - 1]['rows'], c,
                                            spell(fevs[l - 1]['toks']))[0],
                             {'role': 'C', 'text': spell(fevs[l - 1]['toks']), 'ast': fevs[l - 1]['ast'],
                              'toks': fevs[l - 1]['toks'], 'rows': fevs[l - 1]['rows'], 'limits': [0],
                              'limit': 0, 'clause': clause,
                              'got': {'out': c['out'], 'exc': c.get('exc', ''), 'selected': c['sel']}}))
        accepted += [e for li, e in enumerate(fevs, 1) if (1, li) not in frej]
        selftest(rep, work, accepted, bool(viol))
        # (D) character level: literals by value, spelling variants, Ref ids, spec/FilterLex.tla
        fstats, frejs, fcases, _ = filterlex.run(rep, work, hs, tier, rng)
        rep.extra['character_level'] = fstats
        # (a rejected case is a judged case: the guard is about cases the specification could not judge at all)
        if fstats.get('judged', 0) + fstats.get('rejected', 0) < 0.85 * len(fcases) or \
                fstats.get('judged_nontrivial', 0) + fstats.get('rejected', 0) < len(fcases) // 4:
            raise MachineryError('character-level cases mostly unjudged: %r' % (fstats,))
        fstats['binding_selftest_rejected'] = filterlex.selftest(rep, work, fcases)
        for c in fcases:
            rep.case(('D', c['text'], c['id']), nontrivial=c['nontrivial'])
        rep.traces += len(fcases)
        rep.sample({'character_level_case': {'text': fcases[-1]['text'], 'rows': fcases[-1]['rows_repr'],
                                             'outcome': fcases[-1]['out'], 'selected': fcases[-1]['sel']}})
        # (E) the Grid.filter calls of the repository's own tests, judged by the same specification
        rstats, rrejs = filterlex.judge_recorded(rep, work)
        rep.extra['recorded_test_suite_filter_calls'] = rstats
        rep.traces += rstats['calls']
        frejs = frejs + rrejs
        for c, clause in frejs:
            viol.append((filterlex.features(c, clause),
                         {'role': 'D', 'text': c['text'], 'recipe': c['recipe'], 'rows': c['rows_repr'],
                          'clause': clause, 'allowed_per_row': c.get('allowed', []),
                          'got': {'out': c['out'], 'msg': c['msg'], 'selected': c['sel']}}))
        rep.extra['kindred_kind_observations_not_judged'] = observe_kindred(b)
        report_violations(rep, viol)
    rep.rule = ('generated: every <<filter AST, style>> of the bounded generator (all ASTs of size <= %d over '
                'paths a, b, c, a->b x 6 operators x 11 literal kinds, and/or chains up to 4 operands and mixed '
                'and/or/parenthesis shapes) on a grid realising the full product of the valuations its atoms '
                'distinguish, distinct by filter text; random: seeded filters of size 3..14 on random grids, '
                'judged case by case by Trace_FilterSem; character level: seeded filters over literal spellings of '
                'every kind (number forms, escapes, blanks inside literals, zone-less date-times, lists, XStr, Bin), '
                'rows with Ref ids and near-equal values, judged by Trace_FilterLex (recursive-descent reader + '
                'ZincRead literal values)' % (2 if quick else 3))
    rep.exhaustive = True
    rep.assumptions = [
        'one literal per kind (5, "m", true, false, `m`, @lit, 2020-01-15, 12:30:00, 2020-01-15T12:30:00Z, 5kW, INF); '
        'row values are that literal, one value before and one after it in the kind\'s order',
        'row ids are strings idN and references Ref("idN") (the usage the repository tests establish); ids are unique',
        'no row maps a tag to None (unconstrained by the property)',
        'comparisons between kindred kinds (bool/number/quantity, str/uri, date/date-time) and ordering '
        'inside bool, uri, ref are unconstrained (recorded under kindred_kind_observations_not_judged); '
        'they must still not raise',
        'roles A-C: blanks are spaces, no blank around ->, one literal per kind, string ids; role D: literals by '
        'value, Ref ids, tab/CR/LF between tokens may be refused but never mis-evaluated; literal kinds outside the '
        'Haystack filter grammar (Marker, NA, Remove, coord, XStr, Bin, list, dict) may be refused',
    ]
    return rep.finish()


def replay(path):
    """Re-run exactly the case stored in a replay file."""
    hs = use_repo()
    b = Binding(hs)
    with open(path) as f:
        d = json.load(f)
    c = d['case']
    rep = Report('C11', 'quick')
    rep.replay_dir = rep.replay_dir + '/re'
    if c['role'] == 'D' and c['recipe'].get('recorded'):
        with Work('c11r') as work:
            rstats, rrejs = filterlex.judge_recorded(rep, work)
        print('recorded filter calls of the test-suite:', rstats)
        for x, clause in rrejs:
            print('rejected :', repr(x['text']), 'limit', x.get('k', 0), x['out'], x['sel'], clause, x.get('allowed'))
        ok = not rrejs
    elif c['role'] == 'D':
        from absval import Abs
        text, rows = filterlex.build(hs, filterlex.pools(hs), c['recipe'])
        with Work('c11r') as work:
            rec = filterlex.record(hs, Abs(hs), text, rows, 1)
            v = filterlex.judge(rep, work, [rec], 'replay', shards=1)[1]
        print('filter   :', repr(text))
        for i, r in enumerate(rows):
            print('row %d    : %r' % (i + 1, r))
        print('outcome  : %s %s selected=%r' % (rec['out'], rec['msg'], rec['sel']))
        print('TLC      :', v)
        ok = v[0] == 'OK'
    elif c['role'] == 'B':
        case = {'text': [ord(ch) for ch in c['text']], 'rows': c['rows'], 'exp': c['allowed_per_row'],
                'lims': c['lims'], 'ast': c['ast']}
        b.promote = promote_of(c['text'])
        b.noise = ('->' in c['text'])
        b.warm = c['text'] if sum(ord(ch) for ch in c['text']) % 3 == 1 else None
        src_shape, calls = execute(b, c['text'], c['rows'], limits_of(case))
        b.promote = b.noise = False
        b.warm = None
        bad = compare_case(case, src_shape, calls)
        print('filter   :', c['text'])
        for cl in calls:
            print('limit=%d  : %s %s selected=%r' % (cl['k'], cl['out'], cl.get('exc', ''), cl['sel']))
        print('allowed  :', c['allowed_per_row'], '(0 out, 1 in, 2 either)')
        print('clauses  :', bad)
        ok = not bad
    else:
        with Work('c11r') as work:
            ev = run_random(b, [{'ast': c['ast'], 'toks': c['toks'], 'rows': c['rows'], 'limits': c['limits']}])[0]
            rej = judge(rep, work, [[ev]], 'replay')
            print('filter   :', c['text'])
            for cl in ev['calls']:
                print('limit=%d  : %s %s selected=%r' % (cl['k'], cl['out'], cl.get('exc', ''), cl['sel']))
            print('TLC      :', sorted(rej.get((1, 1), [])) or 'ACCEPT')
            ok = not rej
    print('property holds on this case' if ok else 'VIOLATION property=C11 replay=%s' % path)
    return 0 if ok else 1
