# Runs the repository's pinned test-suite under the recording plugin (recplugin.py) and validates every
# Grid / SortableDict / MetadataObject operation the tests performed against GridSeq / SDict with TLC:
# the executions the repository already has, judged at every step by the specifications.
import json
import os
import subprocess

from core import REPO, VERIF, run_tlc, MachineryError


def record(work, codec=False, filters=False, only=None):
    out = work.path('rec.json')
    env = dict(os.environ)
    if codec:
        env['VERIF_REC_CODEC'] = '1'
    if filters:
        env['VERIF_REC_FILTER'] = '1'
    env['VERIF_REC_OUT'] = out
    env['PYTHONPATH'] = os.path.join(VERIF, 'lib') + os.pathsep + REPO
    env.pop('HSZINC_VERIF', None)
    p = subprocess.run(['/venv/bin/python', '-m', 'pytest', '-q', '-p', 'no:cacheprovider', '-p', 'recplugin',
                        '--timeout=900', '-x', '--deselect', 'tests/test_parser.py::test_oddball_version'] + (only or []),
                       cwd=REPO, env=env, stdout=subprocess.PIPE, stderr=subprocess.STDOUT)
    if not os.path.exists(out):
        raise MachineryError('recording run produced no trace file:\n%s' % p.stdout.decode('utf-8', 'replace')[-1500:])
    with open(out) as f:
        return json.load(f), p.returncode


def judge_grids(rep, work, rec):
    traces = rec['grids']
    if not traces:
        return []
    path = work.path('rec-grids.json')
    with open(path, 'w') as fh:
        json.dump(traces, fh)
    with open(work.path('TraceConsts.tla'), 'w') as f:
        f.write('---- MODULE TraceConsts ----\nEXTENDS Naturals\nTIds == <<>>\nTDictRows == 1..999999\n'
                'TNonDict == 1000000..1999999\nTOnly3 == {}\n====\n')
    r = run_tlc(work, 'Trace_GridSeq.tla', 'Trace_GridSeq.cfg', workers=4, env={'TRACE_FILE': path}, lib=work.dir)
    rep.tlc('repository test-suite: Grid traces', r)
    found, done = [], set()
    for ln in r.out.split('\n'):
        ln = ln.strip()
        if ln.startswith('<<"ACCEPT"') or ln.startswith('<<"DONE"'):
            done.add(int(ln.split(',')[1].strip(' >')))
        elif ln.startswith('<<"REJECT"'):
            p = [x.strip(' <>"') for x in ln.split(',')]
            tid, l, clause = int(p[1]), int(p[2]), p[3]
            ev = traces[tid - 1]['evs'][l - 1]
            found.append(({'engine': 'gridseq-suite', 'clause': clause.split('_')[0] if not clause.startswith('obs_') else clause[4:],
                           'op': ev['name']},
                          {'events': [{k: v for k, v in e.items() if k != 'obs'} for e in traces[tid - 1]['evs'][max(0, l - 4):l]],
                           'tlc_clause': clause, 'source': 'an operation sequence performed by the repository test-suite'}))
    if len(done) != len(traces):
        raise MachineryError('suite grid traces: %d verdicts for %d traces\n%s' % (len(done), len(traces), r.out[-1200:]))
    rep.traces += len(traces)
    rep.extra['suite_grid_traces'] = {'traces': len(traces), 'events': sum(len(t['evs']) for t in traces),
                                     'rejections': len(found)}
    return found


def judge_maps(rep, work, rec):
    traces = [t['evs'] for t in rec['maps']]
    if not traces:
        return []
    path = work.path('rec-maps.json')
    with open(path, 'w') as fh:
        json.dump(traces, fh)
    r = run_tlc(work, 'Trace_SDict.tla', 'Trace_SDict.cfg', workers=4, env={'TRACE_FILE': path})
    rep.tlc('repository test-suite: ordered-map traces', r)
    found, done = [], set()
    for ln in r.out.split('\n'):
        ln = ln.strip()
        if ln.startswith('<<"ACCEPT"') or ln.startswith('<<"DONE"'):
            done.add(int(ln.split(',')[1].strip(' >')))
        elif ln.startswith('<<"REJECT"'):
            p = [x.strip(' <>"') for x in ln.split(',')]
            tid, l, clause = int(p[1]), int(p[2]), p[3]
            ev = traces[tid - 1][l - 1]
            found.append(({'engine': 'sdict-suite', 'clause': clause, 'op': ev['name'], 'class': rec['maps'][tid - 1]['cls']},
                          {'events': traces[tid - 1][max(0, l - 4):l], 'tlc_clause': clause,
                           'source': 'an operation sequence performed by the repository test-suite'}))
    if len(done) != len(traces):
        raise MachineryError('suite map traces: %d verdicts for %d traces\n%s' % (len(done), len(traces), r.out[-1200:]))
    rep.traces += len(traces)
    rep.extra['suite_map_traces'] = {'traces': len(traces), 'events': sum(len(t) for t in traces), 'rejections': len(found)}
    return found


def judge_codec(rep, work, rec, want):
    """want: subset of {('parse','zinc'), ('dump','zinc'), ('parse','json'), ('dump','json')}.
    Every document the test-suite parsed / produced is read by the specification's reader machine, which must
    give what hszinc gave (parse) or what the grid is (dump, up to six decimals for JSON)."""
    import absval
    import zinccodec
    import jsoncodec
    found = []
    zc, jc, zinfo, jinfo = [], [], {}, {}
    for c in rec['codec']:
        fmt = 'zinc' if c['mode'] == 'text/zinc' else 'json' if c['mode'] == 'application/json' else None
        if fmt is None or (c['op'], fmt) not in want:
            continue
        if fmt == 'zinc':
            n = len(zc) + 1
            exp = c['abs'] if not (c['op'] == 'parse' and c['single']) else c['abs']
            zc.append({'id': n, 'k': 'outcome' if c['op'] == 'parse' else 'denotes', 'strict': c['op'] == 'dump',
                       'text': absval.cps(c['text']), 'expect': exp, 'out': 'grid', 'abs': exp, 'single': c['single'],
                       'line': 0, 'col': 0, 'gtext': []})
            zinfo[n] = c
        else:
            try:
                tree = jsoncodec.strict_loads(c['text'])
            except Exception:
                continue
            n = len(jc) + 1
            jc.append({'id': n, 'k': 'denotes', 'tree': tree, 'strict': False, 'top': 'any', 'hasden': False, 'den': [],
                       'q6': True, 'expect': jsoncodec.q6_doc(c['abs']) if c['op'] == 'dump' or not c['single'] else jsoncodec.q6_doc(c['abs'])})
            jinfo[n] = c
    if zc:
        v = zinccodec.judge_cases(rep, work, zc, 'suite-zinc', shards=2)
        for n, (vd, clause, pos) in sorted(v.items()):
            if vd == 'REJECT':
                c = zinfo[n]
                found.append(({'engine': 'suite-codec', 'op': c['op'], 'format': 'zinc', 'clause': clause},
                              {'text': c['text'][:2000], 'clause': clause, 'position': pos,
                               'source': 'a %s() call made by the repository test-suite' % c['op']}))
        rep.traces += len(zc)
    if jc:
        v = jsoncodec.judge_cases(rep, work, jc, 'suite-json', shards=2)
        for n, (vd, clause) in sorted(v.items()):
            if vd == 'REJECT':
                c = jinfo[n]
                found.append(({'engine': 'suite-codec', 'op': c['op'], 'format': 'json', 'clause': clause},
                              {'text': c['text'][:2000], 'clause': clause,
                               'source': 'a %s() call made by the repository test-suite' % c['op']}))
        rep.traces += len(jc)
    rep.extra['suite_codec_calls'] = {'zinc': len(zc), 'json': len(jc), 'rejections': len(found)}
    return found
