# Concrete payload catalogue and instantiation of TLC's layout plans (spec/Layout.tla) as real grids.
# Only construction: no expectation about dump/parse lives here.
import base64
import zlib
import datetime
import random

import pytz


class Catalogue(object):
    def __init__(self, hs, rng):
        self.hs = hs
        self.rng = rng

    # ---- scalar payloads per kind: list of (label, value) ; fresh objects on each call
    def scalars(self, kind, ver='3.0'):
        hs = self.hs
        B = pytz.timezone('Europe/Berlin')
        NY = pytz.timezone('America/New_York')
        if kind == 'null':
            return [('none', None)]
        if kind == 'marker':
            return [('marker', hs.MARKER)]
        if kind == 'na':
            return [('na', hs.NA)]
        if kind == 'remove':
            return [('remove', hs.REMOVE)]
        if kind == 'bool':
            return [('true', True), ('false', False)]
        if kind == 'num':
            return [('int0', 0), ('int', 5), ('negint', -7), ('big_int', 10 ** 6), ('float', 0.1), ('third', 1 / 3.0),
                    ('neg', -2.5), ('tiny_repr', 1e-05), ('small', 0.0001), ('e15', 1e15), ('e16', 1e16),
                    ('e21', 1e21), ('e22', 1e22), ('denorm', 5e-324), ('minnorm', 2.2250738585072014e-308),
                    ('max', 1.7976931348623157e308), ('int53', 2 ** 53 - 1), ('negzero', -0.0),
                    ('digits', 123456.789), ('inf', float('inf')), ('neginf', float('-inf')), ('nan', float('nan'))]
        if kind == 'qty':
            Q = hs.Quantity
            return [('kW', Q(1.5, 'kW')), ('pct', Q(0, '%')), ('degF', Q(-40.0, u'°F')), ('per', Q(3, 'm/s')),
                    ('dollar', Q(9.99, '$')), ('under', Q(2, 'kW_h')), ('eunit', Q(5, 'eV')), ('Eunit', Q(7, 'E')),
                    ('exp', Q(2.5e-07, 'kg')), ('unicode_unit', Q(1, u'Ωm')), ('nounit', Q(4.5, None)),
                    ('emptyunit', Q(6, ''))]
        if kind == 'str':
            return [(l, s) for l, s in self.strings()]
        if kind == 'uri':
            return [('plain', hs.Uri('http://www.example.com/a?b=c#d')), ('backtick', hs.Uri('a`b')),
                    ('backslash', hs.Uri('a\\b')), ('space', hs.Uri('a b')), ('unicode', hs.Uri(u'éሴ')),
                    ('nl', hs.Uri('a\nb')), ('quote', hs.Uri('a"b$c')), ('x', hs.Uri('x')), ('tab', hs.Uri('a\tb')),
                    ('c0', hs.Uri('a\x01b')), ('astral', hs.Uri(u'\U0001F600'))]
        if kind == 'bin':
            return [('mime', hs.Bin('text/plain')), ('params', hs.Bin('text/html; a=foo; bar="sep"')),
                    ('image', hs.Bin('image/jpeg'))]
        if kind == 'ref':
            R = hs.Ref
            return [('plain', R('abc')), ('chars', R('a-b.c:d~e_1')), ('dis', R('a-ref', 'a value')),
                    ('dis_quote', R('x', 'Display "q" \\ $ z')), ('dis_nl', R('y', 'line1\nline2')),
                    ('dis_empty', R('z', '')), ('dis_unicode', R('u', u'café \U0001F600')),
                    ('dis_comma', R('c', 'a, b')), ('dis_colon', R('d', 'n:1'))]
        if kind == 'xstr':
            X = hs.XStr
            return [('hex', X('hex', 'deadbeef')), ('hex_empty', X('hex', '')), ('b64', X('b64', '3q2+7w==')),
                    ('typed', X('Color', 'red')), ('typed_quote', X('Color', 'a "q" \\ b')),
                    ('typed_nl', X('Note', 'l1\nl2')), ('typed_unicode', X('Span', u'é中')),
                    # type names that differ from the built-in codecs only by case are ordinary typed strings
                    ('Hex_cap', X('Hex', 'deadbeef')), ('B64_cap', X('B64', '3q2+7w==')), ('HEX_up', X('HEX', '00ff')),
                    # payloads longer than one line of MIME base64 (57 bytes) / 76 hex digits
                    ('b64_long', X('b64', base64.b64encode(bytes(bytearray(range(33, 33 + 95)))).decode('ascii'))),
                    ('hex_long', X('hex', 'a7' * 70))]
        if kind == 'date':
            D = datetime.date
            return [('min', D(1, 1, 1)), ('y2k', D(1999, 12, 31)), ('leap', D(2000, 2, 29)), ('max', D(9999, 12, 31)),
                    ('plain', D(2016, 1, 13))]
        if kind == 'time':
            T = datetime.time
            return [('midnight', T(0, 0, 0)), ('us1', T(7, 51, 43, 1)), ('us', T(7, 51, 43, 12345)),
                    ('half', T(12, 30, 15, 500000)), ('max', T(23, 59, 59, 999999)), ('plain', T(1, 2, 3))]
        if kind == 'dt':
            DT = datetime.datetime
            return [('berlin', B.localize(DT(2016, 1, 13, 7, 51, 42, 12345))),
                    ('utc', pytz.utc.localize(DT(2016, 1, 13, 7, 51, 42))),
                    ('ny_dst', NY.localize(DT(2021, 7, 4, 12, 0, 0))),
                    ('ny_fold', NY.localize(DT(2021, 11, 7, 1, 30, 0), is_dst=False)),
                    ('ny_fold_dst', NY.localize(DT(2021, 11, 7, 1, 30, 0), is_dst=True)),
                    ('kolkata', pytz.timezone('Asia/Kolkata').localize(DT(2000, 2, 29, 23, 59, 59, 999999))),
                    ('sydney', pytz.timezone('Australia/Sydney').localize(DT(1999, 12, 31, 0, 0, 0, 1))),
                    # the same offset reached by different zones in different seasons
                    ('adelaide_jan', pytz.timezone('Australia/Adelaide').localize(DT(2021, 1, 15, 12, 0, 0))),
                    ('lordhowe_jul', pytz.timezone('Australia/Lord_Howe').localize(DT(2021, 7, 15, 12, 0, 0))),
                    ('berlin_jul', B.localize(DT(2021, 7, 15, 12, 0, 0))),
                    ('cairo_jan', pytz.timezone('Africa/Cairo').localize(DT(2021, 1, 15, 12, 0, 0))),
                    ('adak_jul', pytz.timezone('America/Adak').localize(DT(2021, 7, 15, 12, 0, 0))),
                    ('anchorage_jan', pytz.timezone('America/Anchorage').localize(DT(2021, 1, 15, 12, 0, 0))),
                    # zero offset outside UTC
                    ('london_winter', pytz.timezone('Europe/London').localize(DT(2021, 1, 15, 12, 0, 0))),
                    ('reykjavik', pytz.timezone('Atlantic/Reykjavik').localize(DT(2021, 7, 15, 12, 0, 0))),
                    ('abidjan', pytz.timezone('Africa/Abidjan').localize(DT(2021, 7, 15, 12, 0, 0))),
                    # zones whose first recorded offset is the -00 placeholder
                    ('troll', pytz.timezone('Antarctica/Troll').localize(DT(2021, 7, 15, 12, 0, 0))),
                    ('iqaluit', pytz.timezone('America/Iqaluit').localize(DT(2021, 1, 15, 12, 0, 0))),
                    # one instant in three zones
                    ('same_berlin', B.localize(DT(2019, 3, 5, 9, 30, 0))),
                    ('same_sydney', pytz.timezone('Australia/Sydney').localize(DT(2019, 3, 5, 19, 30, 0))),
                    ('same_utc', pytz.utc.localize(DT(2019, 3, 5, 8, 30, 0))),
                    # foreign fixed-offset tzinfo (no zone name): the writer has to find a zone for each instant
                    ('fixed_m8_jan', DT(2020, 1, 15, 12, 30, 0, tzinfo=datetime.timezone(datetime.timedelta(hours=-8)))),
                    ('fixed_m8_jul', DT(2020, 7, 15, 12, 30, 0, tzinfo=datetime.timezone(datetime.timedelta(hours=-8)))),
                    ('fixed_p1030_jan', DT(2020, 1, 15, 12, 0, 0, tzinfo=datetime.timezone(datetime.timedelta(hours=10, minutes=30)))),
                    ('fixed_p1030_jul', DT(2020, 7, 15, 12, 0, 0, tzinfo=datetime.timezone(datetime.timedelta(hours=10, minutes=30))))] + \
                   self.dt_edges()
        if kind == 'coord':
            C = hs.Coordinate
            return [('zero', C(0, 0)), ('max', C(90, 180)), ('min', C(-90, -180)), ('richmond', C(37.545, -77.449)),
                    ('tiny', C(1e-7, -1e-7)), ('round', C(12.3456785, -0.0000005)), ('ints', C(-27, 153))]
        raise KeyError(kind)

    def strings(self):
        return [('empty', ''), ('a', 'a'), ('words', 'hello world'), ('quote', 'say "hi"'), ('backslash', 'a\\b'),
                ('dollar', 'cost $5'), ('backtick', 'a`b'), ('comma', 'a,b'), ('colon', 'n:1'), ('nl', 'l1\nl2'),
                ('cr', 'a\rb'), ('crlf', 'a\r\nb'), ('tab', 'a\tb'), ('bs', 'a\bb'), ('ff', 'a\fb'),
                ('nul', 'a\x00b'), ('c0', '\x01\x1f'), ('del', 'a\x7fb'), ('gtgt', '>>'), ('ltlt', '<<x'),
                ('blankline', 'a\n\nb'), ('latin1', u'café'), ('ls', u'a b'), ('bmp', u'中文'),
                ('astral', u'\U0001F600'), ('N', 'N'), ('marker_like', 'm:'), ('ver', 'ver:"2.0"'),
                ('trailing_bs', 'end\\'), ('quote_only', '"'), ('esc_like', '\\n\\u0041'), ('brackets', '[1,2]{a}'),
                ('spaces', '  lead and trail  '), ('uprefix', 'u:x'), ('highbmp', u'￮￿'),
                ('boundaries', u'\x7e\x7f\x80\x81\xff\u0100\ud7ff\ue000\uffff\U00010000\U0010ffff'),
                ('esc_lookalike', 'C:\\temp\\u00e9t \\u0041 \\U0041 \\\\u0022')]

    # ---- composite values
    def value(self, kind, ver, label=None, depth=0):
        hs = self.hs
        if kind == 'list':
            return 'list', [1, 'two', hs.MARKER, None, hs.Ref('r'), [3.5, []]]
        if kind == 'dict':
            return 'dict', {'a': 1, 'marker': hs.MARKER, 'str': 'x y', 'nested': {'k': [True]}}
        if kind == 'grid':
            g = hs.Grid(version=ver, metadata={'inner': hs.MARKER}, columns=[('x', []), ('y', [('unit', 'kW')])])
            g.extend([{'x': 1, 'y': 'a'}, {'x': None, 'y': hs.Quantity(2, 'kW')}])
            return 'grid', g
        vals = self.scalars(kind, ver)
        if label is not None:
            for l, v in vals:
                if l == label:
                    return l, v
        return vals[self.rng.randrange(len(vals))]

    def dt_edges(self):
        """date-times at the edges of their domain: the first and last moments of the calendar (in UTC, in zones whose
        UTC equivalent leaves the calendar, with bare offsets), and a bare offset for every whole hour from -12:00 to
        +14:00 plus the fractional ones some zone has"""
        DT, TZ, TD = datetime.datetime, datetime.timezone, datetime.timedelta
        out = [('edge_max_gmt5', pytz.timezone('Etc/GMT+5').localize(DT(9999, 12, 31, 23, 59, 59))),
               ('edge_min_gmtm14', pytz.timezone('Etc/GMT-14').localize(DT(1, 1, 1, 0, 0, 0))),
               ('edge_max_utc', pytz.utc.localize(DT(9999, 12, 31, 23, 59, 59, 999999))),
               ('edge_min_utc', pytz.utc.localize(DT(1, 1, 1, 0, 0, 0))),
               ('edge_fx_max_p1', DT(9999, 12, 31, 23, 30, 0, tzinfo=TZ(TD(hours=1)))),
               ('edge_fx_max_p0530', DT(9999, 12, 31, 23, 0, 0, tzinfo=TZ(TD(hours=5, minutes=30)))),
               ('edge_fx_min_m5', DT(1, 1, 1, 0, 30, 0, tzinfo=TZ(TD(hours=-5))))]
        # (a bare offset whose UTC instant leaves the calendar -- 0001-01-01T00:30+01:00 -- has no zone that could be
        # named: ValueError is the permitted answer, C17 judges it; it is not a Haystack-valid grid value)
        for h in range(-12, 15):
            if h in (0, -8):
                continue
            month = 1 if h % 2 else 7
            out.append(('fx_%s%02d' % ('m' if h < 0 else 'p', abs(h)), DT(2021, month, 15, 12, 0, 0, tzinfo=TZ(TD(hours=h)))))
        for name, mins, month in (('fx_p0530', 330, 1), ('fx_p0930', 570, 7), ('fx_p0545', 345, 1), ('fx_m0330', -210, 1),
                                  ('fx_m0230', -150, 7), ('fx_p1245', 765, 7), ('fx_p1345', 825, 1), ('fx_p0845', 525, 7)):
            out.append((name, DT(2021, month, 15, 12, 0, 0, tzinfo=TZ(TD(minutes=mins)))))
        return out

    def labels(self, kind):
        if kind in ('list', 'dict', 'grid'):
            return [kind]
        return [l for l, _ in self.scalars(kind)]

    # ---- plans -> grids
    def place(self, plan, label):
        """Builds the grid of a 'single' plan with payload `label` of plan.kind at plan.pos."""
        hs = self.hs
        ver = plan['ver']
        _, v = self.value(plan['kind'], ver, label)
        pos = plan['pos']
        g = hs.Grid(version=ver)
        # (a column tag may be called ver and a grid tag name: only the grid's ver and a column's name are special)
        cols = [('first', []), ('mid', []), ('last', [('ver', 'cv')])]
        if pos == 'cmeta':
            cols = [('first', [('before', 'x'), ('tag', v), ('after', hs.MARKER)]), ('mid', []), ('last', [('ver', 'cv')])]
        g = hs.Grid(version=ver, metadata={'dis': 'grid', 'tag': v, 'z': hs.MARKER} if pos == 'gmeta' else {'dis': 'grid', 'name': 'gn'},
                    columns=cols)
        filler = lambda: {'first': 'L', 'mid': 1, 'last': 'R'}
        row = filler()
        if pos == 'cell':
            row['mid'] = v
        elif pos == 'cell_first':
            row['first'] = v
        elif pos == 'cell_last':
            row['last'] = v
        elif pos == 'list_elem':
            row['mid'] = ['before', v, 'after']
        elif pos == 'dict_val':
            row['mid'] = {'before': 1, 'tag': v, 'zafter': 'x'}
        elif pos == 'list_in_dict':
            row['mid'] = {'k': [v, 'after']}
        elif pos == 'dict_in_list':
            row['mid'] = [{'tag': v}, 'after'] if v is not None else [{'tag': hs.MARKER}, None]
        elif pos in ('ngrid_cell', 'ngrid_gmeta', 'ngrid_cmeta', 'grid_in_list'):
            ncols = [('x', [('tag', v)] if pos == 'ngrid_cmeta' else []), ('y', [])]
            # a nested grid has a version of its own: where the payload allows it, the inner grid is a 2.0 grid
            # inside its 3.0 holder (every second payload, chosen by the payload's label)
            inner = ver
            if plan['kind'] not in ('na', 'xstr', 'list', 'dict', 'grid') and zlib.crc32(str(label).encode()) % 2:
                inner = '2.0'
            ng = hs.Grid(version=inner, metadata={'tag': v} if pos == 'ngrid_gmeta' else {}, columns=ncols)
            ng.extend([{'x': v if pos in ('ngrid_cell', 'grid_in_list') else 1, 'y': 'ny'}, {'x': 2, 'y': 'last'}])
            row['mid'] = [ng, 'after'] if pos == 'grid_in_list' else ng
        g.extend([filler(), row, filler()])
        return g

    def pair(self, plan, l1, l2):
        hs = self.hs
        ver = plan['ver']
        _, a = self.value(plan['kind'], ver, l1)
        _, b = self.value(plan['kind2'], ver, l2)
        g = hs.Grid(version=ver, columns=[('a', []), ('b', []), ('c', [])])
        g.extend([{'a': a, 'b': b, 'c': 'end'}, {'a': 'start', 'b': a, 'c': b}])
        return g


    # ---- seeded random deep layouts (beyond the exhaustive plan space): nesting depth <= 3
    SCALARS = ['null', 'marker', 'remove', 'bool', 'num', 'qty', 'str', 'uri', 'bin', 'ref', 'date', 'time', 'dt', 'coord']

    def random_value(self, ver, depth=0, allow_null=True):
        rng, hs = self.rng, self.hs
        kinds = list(self.SCALARS)
        if ver == '3.0':
            kinds += ['na', 'xstr']
            if depth < 3:
                kinds += ['list', 'dict', 'grid'] * 2
        if not allow_null:
            kinds.remove('null')
        k = rng.choice(kinds)
        if k == 'list':
            return [self.random_value(ver, depth + 1) for _ in range(rng.randint(0, 3))]
        if k == 'dict':
            return dict(('t%s' % rng.choice('abcdeXYZ_9'), self.random_value(ver, depth + 1, allow_null=False))
                        for _ in range(rng.randint(0, 3)))
        if k == 'grid':
            return self.random_grid(ver, depth + 1)
        return self.value(k, ver)[1]

    def random_grid(self, ver, depth=0):
        rng, hs = self.rng, self.hs
        ncol = rng.randint(1, 4)
        names = rng.sample(['a', 'b', 'cC', 'd_1', 'e9', 'fooBar', 'id', 'val'], ncol)
        cols = [(n, [('m%d' % j, self.random_value(ver, depth + 1, allow_null=False)) for j in range(rng.randint(0, 2))])
                for n in names]
        meta = dict(('g%d' % j, self.random_value(ver, depth + 1, allow_null=False)) for j in range(rng.randint(0, 2)))
        g = hs.Grid(version=ver, metadata=meta, columns=cols)
        for _ in range(rng.randint(0, 4 if depth else 6)):
            row = {}
            for n in names:
                if rng.random() < 0.85:
                    row[n] = self.random_value(ver, depth + 1)
            if ncol == 1 and (names[0] not in row or row[names[0]] is None):
                row[names[0]] = 0          # an empty line in a one-column grid is a grid separator
            g.append(row)
        return g


    def empty_grid(self, ver):
        """a header-only grid (no rows): falsy in Python, because len() counts rows"""
        return self.hs.Grid(version=ver, metadata={'dis': 'empty'}, columns=[('a', []), ('b', [('unit', 'kW')])])


    def zone_sweep(self, tier):
        """one grid per batch of mapped zones: a winter and a summer date-time in every zone hszinc maps
        (names taken from the implementation's map, whose correctness is C17's subject)"""
        import hszinc.zoneinfo as zi
        names = sorted(zi.get_tz_map().keys())
        if tier == 'quick':
            names = [n for i, n in enumerate(names) if i % 4 == self.rng.randrange(4) or n in (
                'Troll', 'Rothera', 'Iqaluit', 'Casey', 'London', 'Lord_Howe', 'Adak', 'UTC', 'GMT', 'Reykjavik', 'Kolkata')]
        out = []
        for i in range(0, len(names), 60):
            g = self.hs.Grid(version='3.0' if (i // 60) % 2 else '2.0', columns=[('zone', []), ('winter', []), ('summer', [])])
            for n in names[i:i + 60]:
                tz = zi.timezone(n)
                g.append({'zone': n, 'winter': tz.localize(datetime.datetime(2021, 1, 15, 12, 0, 0)),
                          'summer': tz.localize(datetime.datetime(2021, 7, 15, 12, 0, 0, 250000))})
            out.append(g)
        return out


def disturb(hs, g, how):
    """A history that leaves a legitimate grid behind (what it denotes is read off the grid AFTERWARDS):
       1  operations that must be refused and change nothing (3.0-only values offered to a pre-3.0 grid, non-dict rows,
          contradictory positions, duplicate keys with replace=False) -- only the documented exception classes are caught
       2  columns reversed    3  columns sorted    4  first column re-located to the end by add_item(index=...)"""
    import zlib  # noqa: F401  (callers derive `how` with zlib.crc32)
    if how == 1:
        only3 = [hs.NA, [1.0], {'k': 1.0}, hs.XStr('T', 'p')]
        pre3 = str(g.version) in ('2.0', '1.0', '2.0.0', '2')
        c0 = list(g.column.keys())[0] if len(g.column) else 'zz'
        for v in only3 if pre3 else []:
            for op in (lambda: g.append({c0: v}), lambda: g.insert(0, {c0: v}), lambda: g.append({'zz': v}),
                       lambda: g.metadata.add_item('zz', v), lambda: g.metadata.__setitem__('zz', v),
                       lambda: g.column.add_item('zz', {'t': v}),
                       lambda: g.column[list(g.column.keys())[0]].add_item('zz', v) if len(g.column) else None,
                       lambda: g.__setitem__(0, {c0: v}) if len(g) else None,
                       lambda: g.extend([{c0: v}])):
                try:
                    op()
                except ValueError:
                    pass
        for op in (lambda: g.append([1]), lambda: g.insert(0, None), lambda: g.extend([None]),
                   lambda: g.__setitem__(len(g) + 3, {}),
                   lambda: g.metadata.add_item('zq', 1.0, index=0, pos_key='zq'),
                   lambda: g.metadata.add_item('zq', 1.0, pos_key='no such key'),
                   lambda: g.metadata.add_item(list(g.metadata.keys())[0], 1.0, replace=False) if len(g.metadata) else None,
                   lambda: g.metadata.pop_at(len(g.metadata) + 2)):
            try:
                op()
            except (ValueError, TypeError, KeyError, IndexError):
                pass
    elif how == 2 and len(g.column) > 1:
        g.column.reverse()
    elif how == 3 and len(g.column) > 1:
        g.column.sort()
    elif how == 4 and len(g.column) > 1:
        k = list(g.column.keys())[0]
        g.column.add_item(k, g.column[k], index=len(g.column))
    return g
