---------------------------- MODULE FilterCache ----------------------------
(***************************************************************************)
(* The compiled-filter cache of hszinc (grid_filter.py:242-322):            *)
(*   filter_function(f) == _filter_function(f).get()                        *)
(*   _filter_function is wrapped by functools.lru_cache(maxsize = K): a     *)
(*   miss parses f, allocates a generated function name from a module-wide  *)
(*   counter, and builds a _FnWrapper whose constructor exec()s             *)
(*   "def <name>(...)" into the module namespace; wrapper.get() looks the   *)
(*   name up again; wrapper.__del__ deletes the name when the wrapper dies  *)
(*   (evicted from the LRU and no longer referenced).                       *)
(*                                                                         *)
(* One action per atomic step of the code (C-level steps of lru_cache are   *)
(* atomic under the GIL; Python-level steps are separated by source lines). *)
(*   Lookup    C: cache probe; hit -> wrapper, moved to MRU; miss counted    *)
(*   ReadCtr   grid_filter.py: fun_name = "_gen_hsfilter_" + str(counter)   *)
(*   IncCtr    grid_filter.py: counter += 1   (a separate line when the     *)
(*             allocation is not atomic: Atomic = FALSE)                    *)
(*   Publish   (only when the literal constants travel through a shared     *)
(*             module global: PrivateConsts = FALSE) module._consts = ...   *)
(*   Define    _FnWrapper.__init__: exec(def ...) binds name -> function;   *)
(*             the function's literals (_c default) are bound from a        *)
(*             namespace private to the constructor (PrivateConsts) or from *)
(*             the shared slot                                              *)
(*   Insert    C: after the call returns: store unless the key appeared     *)
(*             meanwhile; evict the LRU entry when full                     *)
(*   Get       wrapper.get(): globals()[name]                               *)
(*   Call      the obtained function is applied to the rows                 *)
(*   Finalise  wrapper.__del__: del globals()[name]                         *)
(***************************************************************************)
EXTENDS Naturals, Sequences, FiniteSets, TLC

CONSTANTS Threads,   \* thread identities
          Filters,   \* filter identities (naturals > 0)
          K,         \* LRU capacity
          Atomic,    \* BOOLEAN: name allocation is one step
          PrivateConsts, \* BOOLEAN: the literals reach the generated function through a private namespace
          MaxCalls   \* bound on the number of Lookups (model checking only)

VARIABLES pc,      \* thread -> control state
          want,    \* thread -> filter it is evaluating
          hold,    \* thread -> wrapper id it references (0: none)
          nm,      \* thread -> name read from the counter (between ReadCtr and Define)
          fn,      \* thread -> filter whose code it obtained (0: none)
          fc,      \* thread -> filter whose literal constants the obtained function is bound to
          cs,      \* generated name -> filter whose constants the function of that name is bound to
          shared,  \* the module-global constants slot (0: unset; unused when PrivateConsts)
          ctr,     \* the module-wide name counter
          ns,      \* module namespace: generated name -> filter whose code it holds
          wr,      \* live wrappers: wrapper id -> [f, name]
          nwr,     \* number of wrappers created so far (ghost: wrapper identities)
          lru,     \* sequence of wrapper ids, least recently used first
          hits, misses, calls

vars == <<pc, want, hold, nm, fn, fc, cs, shared, ctr, ns, wr, nwr, lru, hits, misses, calls>>

Range(s) == {s[i] : i \in 1..Len(s)}
Restrict(f, S) == [x \in S |-> f[x]]
Put(f, k, v) == [x \in (DOMAIN f) \cup {k} |-> IF x = k THEN v ELSE f[x]]
Without(s, x) == SelectSeq(s, LAMBDA y : y # x)

Init == /\ pc = [t \in Threads |-> "idle"]
        /\ want = [t \in Threads |-> 0]
        /\ hold = [t \in Threads |-> 0]
        /\ nm = [t \in Threads |-> 0]
        /\ fn = [t \in Threads |-> 0]
        /\ fc = [t \in Threads |-> 0]
        /\ cs = <<>>
        /\ shared = 0
        /\ ctr = 0
        /\ ns = <<>>
        /\ wr = <<>>
        /\ nwr = 0
        /\ lru = <<>>
        /\ hits = 0 /\ misses = 0 /\ calls = 0

Cached(f) == {w \in Range(lru) : wr[w].f = f}

Lookup(t, f) ==
    /\ pc[t] = "idle"
    /\ calls' = calls + 1
    /\ want' = [want EXCEPT ![t] = f]
    /\ fn' = [fn EXCEPT ![t] = 0]
    /\ fc' = [fc EXCEPT ![t] = 0]
    /\ IF Cached(f) # {}
       THEN LET w == CHOOSE x \in Cached(f) : TRUE
            IN /\ hits' = hits + 1 /\ UNCHANGED misses
               /\ lru' = Append(Without(lru, w), w)
               /\ hold' = [hold EXCEPT ![t] = w]
               /\ pc' = [pc EXCEPT ![t] = "have"]
       ELSE /\ misses' = misses + 1 /\ UNCHANGED <<hits, lru, hold>>
            /\ pc' = [pc EXCEPT ![t] = "miss"]
    /\ UNCHANGED <<nm, ctr, ns, cs, shared, wr, nwr>>

ReadCtr(t) ==
    /\ pc[t] = "miss"
    /\ nm' = [nm EXCEPT ![t] = ctr]
    /\ IF Atomic THEN ctr' = ctr + 1 /\ pc' = [pc EXCEPT ![t] = "counted"]
                 ELSE UNCHANGED ctr /\ pc' = [pc EXCEPT ![t] = "named"]
    /\ UNCHANGED <<want, hold, fn, fc, cs, shared, ns, wr, nwr, lru, hits, misses, calls>>

IncCtr(t) ==
    /\ pc[t] = "named"
    /\ ctr' = ctr + 1
    /\ pc' = [pc EXCEPT ![t] = "counted"]
    /\ UNCHANGED <<want, hold, nm, fn, fc, cs, shared, ns, wr, nwr, lru, hits, misses, calls>>

Publish(t) ==
    /\ ~PrivateConsts
    /\ pc[t] = "counted"
    /\ shared' = want[t]
    /\ pc' = [pc EXCEPT ![t] = "published"]
    /\ UNCHANGED <<want, hold, nm, fn, fc, cs, ctr, ns, wr, nwr, lru, hits, misses, calls>>

Define(t) ==
    /\ pc[t] = (IF PrivateConsts THEN "counted" ELSE "published")
    /\ ns' = Put(ns, nm[t], want[t])
    /\ cs' = Put(cs, nm[t], IF PrivateConsts THEN want[t] ELSE shared)
    /\ nwr' = nwr + 1
    /\ wr' = Put(wr, nwr + 1, [f |-> want[t], name |-> nm[t]])
    /\ hold' = [hold EXCEPT ![t] = nwr + 1]
    /\ pc' = [pc EXCEPT ![t] = "defined"]
    /\ UNCHANGED <<want, nm, fn, fc, shared, ctr, lru, hits, misses, calls>>

Insert(t) ==
    /\ pc[t] = "defined"
    /\ IF Cached(want[t]) # {} THEN UNCHANGED lru                    \* key appeared meanwhile: not stored
       ELSE lru' = Append(IF Len(lru) >= K THEN Tail(lru) ELSE lru, hold[t])
    /\ pc' = [pc EXCEPT ![t] = "have"]
    /\ UNCHANGED <<want, hold, nm, fn, fc, cs, shared, ctr, ns, wr, nwr, hits, misses, calls>>

Get(t) ==
    /\ pc[t] = "have"
    /\ LET n == wr[hold[t]].name
       IN IF n \in DOMAIN ns
          THEN fn' = [fn EXCEPT ![t] = ns[n]] /\ fc' = [fc EXCEPT ![t] = cs[n]] /\ pc' = [pc EXCEPT ![t] = "got"]
          ELSE fn' = fn /\ fc' = fc /\ pc' = [pc EXCEPT ![t] = "keyerror"]
    /\ hold' = [hold EXCEPT ![t] = 0]                                \* the temporary reference is dropped
    /\ UNCHANGED <<want, nm, cs, shared, ctr, ns, wr, nwr, lru, hits, misses, calls>>

Call(t) ==
    /\ pc[t] = "got"
    /\ pc' = [pc EXCEPT ![t] = "idle"]
    /\ UNCHANGED <<want, hold, nm, fn, fc, cs, shared, ctr, ns, wr, nwr, lru, hits, misses, calls>>

Referenced(w) == w \in Range(lru) \/ \E t \in Threads : hold[t] = w
Unreferenced  == DOMAIN wr \ (Range(lru) \cup {hold[t] : t \in Threads})   \* computed once per step

Finalise(w) ==
    /\ w \in DOMAIN wr
    /\ ~Referenced(w)
    /\ wr' = Restrict(wr, DOMAIN wr \ {w})
    /\ ns' = Restrict(ns, DOMAIN ns \ {wr[w].name})     \* deletes the *name*, whoever defined it last
    /\ cs' = Restrict(cs, DOMAIN cs \ {wr[w].name})
    /\ UNCHANGED <<pc, want, hold, nm, fn, fc, shared, ctr, nwr, lru, hits, misses, calls>>

ThreadStep(t) == \/ \E f \in Filters : Lookup(t, f)
                 \/ ReadCtr(t) \/ IncCtr(t) \/ Publish(t) \/ Define(t) \/ Insert(t) \/ Get(t) \/ Call(t)

Next == \/ \E t \in Threads : ThreadStep(t)
        \/ \E w \in Unreferenced : Finalise(w)

Spec == Init /\ [][Next]_vars

Bound == calls <= MaxCalls

(***************************************************************************)
(* Properties (C13).                                                       *)
(***************************************************************************)
\* a thread that obtained a function obtained the code of the filter it asked for, bound to that filter's literals
NoCrossTalk   == \A t \in Threads : pc[t] = "got" => fn[t] = want[t] /\ fc[t] = want[t]
\* wrapper.get() never fails
GetNeverFails == \A t \in Threads : pc[t] # "keyerror"
\* cached wrappers have pairwise distinct names, and each name holds its own filter's code
NamesUnique   == Cardinality({wr[lru[i]].name : i \in 1..Len(lru)}) = Len(lru)
CachedWorks   == \A i \in 1..Len(lru) :
                     LET w == lru[i] IN wr[w].name \in DOMAIN ns /\ ns[wr[w].name] = wr[w].f /\ cs[wr[w].name] = wr[w].f
LruBound      == Len(lru) <= K
OneEntryPerFilter == Cardinality({wr[lru[i]].f : i \in 1..Len(lru)}) = Len(lru)
Accounting    == hits + misses = calls
TypeOK        == /\ \A t \in Threads : hold[t] = 0 \/ hold[t] \in DOMAIN wr
                 /\ Range(lru) \subseteq DOMAIN wr
                 /\ DOMAIN cs = DOMAIN ns
=============================================================================
