SPECIFICATION GenSpec
CONSTANTS
  Emitter = "consts"
  Tier = "quick"
CHECK_DEADLOCK FALSE
