------------------------------ MODULE Gen_Gate ------------------------------
(* Case enumeration for C10: every declared version x every sequence of one or two stores    *)
(* (entry path x kind), and every constructor path; TLC checks the gate invariant on every   *)
(* run of the model and prints the expected outcomes for the replayer.                       *)
EXTENDS Gate, Json

VerArgs == VersionTexts \cup {<<>>}
Steps1 == {<< <<p, k>> >> : p \in Paths, k \in Kinds}
Steps2 == {<< <<p, k>>, <<q, j>> >> : p \in Paths, k \in Kinds, q \in {"append", "meta_set", "colmeta_set", "setitem"}, j \in Kinds}
CtorCases == {[t |-> "ctor", ver |-> v, path |-> p, kind |-> k] : v \in VerArgs, p \in CtorPaths, k \in Kinds}
SeqVers == {T20, T30, T25, T200, T3, <<>>}      \* sequences of stores: a representative subset of the version spellings
SeqCases  == {[t |-> "seq", ver |-> v, steps |-> s] : v \in VerArgs, s \in Steps1}
             \cup {[t |-> "seq", ver |-> v, steps |-> s] : v \in SeqVers, s \in Steps2}

VARIABLE c
Init == c \in CtorCases \cup SeqCases
Next == UNCHANGED c
Spec == Init /\ [][Next]_c

Expect(x) == IF x.t = "ctor"
             THEN LET s == New(x.ver) IN <<[out |-> Outcome(s, x.kind), ver |-> After(s, x.kind).ver,
                                              dver |-> Derived(After(s, x.kind)).ver]>>
             ELSE Run(New(x.ver), x.steps)
Holds == LET f == IF c.t = "ctor" THEN After(New(c.ver), c.kind) ELSE Final(New(c.ver), c.steps)
         IN GateInv(f) /\ GateInv(Derived(f))
Emit == /\ Holds
        /\ PrintT(ToJson([c |-> c, expect |-> Expect(c)]))
\* the decision table of the five deciders
Table == [v \in VersionTexts |-> [k \in Only3 |-> Accepts(v, k)]]
ASSUME PrintT(ToJson([table |-> [i \in 1..10 |-> LET v == <<T20, T30, T25, T300, T10, T40, T200, T2000, T2, T3>>[i]
                                                 IN [ver |-> v, pre3 |-> Pre3(v)]]]))
=============================================================================
