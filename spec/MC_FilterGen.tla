---------------------------- MODULE MC_FilterGen ----------------------------
(***************************************************************************)
(* Bounded instances of FilterGen (role A) and the case generator (role B).*)
(*                                                                         *)
(* Role A configurations:                                                  *)
(*   MC_FilterGen_consts.cfg   Emitter = "consts": every invariant holds    *)
(*   MC_FilterGen_repr.cfg     Emitter = "repr"  : PayloadOnlyInLiterals    *)
(*                             must be VIOLATED (kind xstr / numhuge)       *)
(*   MC_FilterGen_splice.cfg   Emitter = "repr"  : NoRawSplice VIOLATED     *)
(*   MC_FilterGen_audit.cfg    Emitter = "repr"  : AuditAllowed VIOLATED    *)
(*                             (the call named by the filter text runs)     *)
(* Role B: Gen_FilterGen_{quick,thorough}.cfg print, for every filter of    *)
(* the bounded space, the text around the payload position (pre, mid, suf), *)
(* the payload classes to place there, two benign payloads, and the fully   *)
(* rendered benign variants / invalid texts.  Python only substitutes       *)
(* concrete payload strings.                                               *)
(***************************************************************************)
EXTENDS FilterGen, Json

---------------------------------------------------------------------------
(* Rendering: names used by variant v (1, 2).  The two variants share no    *)
(* piece of filter text, so a name of the generated code that appears in    *)
(* both does not come from the filter text (template learning).             *)

N(v) == IF v = 1
        THEN [a |-> "a", b |-> "b", s1 |-> "zz", s2 |-> "yy", k |-> "k", ref |-> "abc", dis |-> "dis",
              xt |-> "Color", xa |-> "abcd", num |-> "5", unit |-> "kW", one |-> "1",
              stamp |-> "2020-01-01T00:00:00+01:00 "]
        ELSE [a |-> "p", b |-> "q", s1 |-> "ww", s2 |-> "vv", k |-> "j", ref |-> "r1", dis |-> "lbl",
              xt |-> "Shade", xa |-> "cdef", num |-> "9", unit |-> "m", one |-> "2",
              stamp |-> "2021-06-15T12:30:00+02:00 "]

\* two benign payloads per position: <<payload, second payload (xstr_both only)>>
Benign(pos, v) ==
    CASE pos = "str"          -> IF v = 1 THEN <<"abc", "">> ELSE <<"x y z", "">>
      [] pos = "uri"          -> IF v = 1 THEN <<"http://h/b", "">> ELSE <<"urn:x", "">>
      [] pos = "ref_name"     -> IF v = 1 THEN <<"abc", "">> ELSE <<"p1.q-2", "">>
      [] pos = "ref_display"  -> IF v = 1 THEN <<"Abc def", "">> ELSE <<"x", "">>
      [] pos = "xstr_type"    -> IF v = 1 THEN <<"Color", "">> ELSE <<"Shade", "">>
      [] pos = "xstr_payload" -> IF v = 1 THEN <<"red", "">> ELSE <<"dark blue", "">>
      [] pos = "xstr_both"    -> IF v = 1 THEN <<"Color", "crimson">> ELSE <<"Shade", "navy">>
      [] pos = "bin"          -> IF v = 1 THEN <<"text/plain", "">> ELSE <<"image/png", "">>
      [] pos = "unit"         -> IF v = 1 THEN <<"kW", "">> ELSE <<"m", "">>
      [] pos = "number_text"  -> IF v = 1 THEN <<"42", "">> ELSE <<"7.5", "">>
      [] pos = "tz_name"      -> IF v = 1 THEN <<"Paris", "">> ELSE <<"London", "">>
      [] pos \in {"tag", "path_segment"} -> IF v = 1 THEN <<"abc", "">> ELSE <<"siteRef", "">>

\* the benign payloads of the payload groups (other strings, so that no judged text occurs twice:
\* a repeated text would be a cache hit and would show no generated code)
BenignP(pos, v) ==
    CASE pos = "str"          -> IF v = 1 THEN <<"abd", "">> ELSE <<"x y", "">>
      [] pos = "uri"          -> IF v = 1 THEN <<"http://h/c?d=1", "">> ELSE <<"urn:y", "">>
      [] pos = "ref_name"     -> IF v = 1 THEN <<"abd", "">> ELSE <<"p2.q-3", "">>
      [] pos = "ref_display"  -> IF v = 1 THEN <<"Abd efg", "">> ELSE <<"y", "">>
      [] pos = "xstr_type"    -> IF v = 1 THEN <<"Colour", "">> ELSE <<"Tint", "">>
      [] pos = "xstr_payload" -> IF v = 1 THEN <<"green", "">> ELSE <<"light blue", "">>
      [] pos = "xstr_both"    -> IF v = 1 THEN <<"Colour", "green">> ELSE <<"Tint", "light blue">>
      [] pos = "bin"          -> IF v = 1 THEN <<"text/html", "">> ELSE <<"image/jpeg", "">>
      [] pos = "unit"         -> IF v = 1 THEN <<"kWh", "">> ELSE <<"ft", "">>
      [] pos = "number_text"  -> IF v = 1 THEN <<"43", "">> ELSE <<"8.25", "">>
      [] pos = "tz_name"      -> IF v = 1 THEN <<"Berlin", "">> ELSE <<"New_York", "">>
      [] pos \in {"tag", "path_segment"} -> IF v = 1 THEN <<"abd", "">> ELSE <<"equipRef", "">>

\* text before / between / after the payload inside the literal
LitPre(k, pos, n) ==
    CASE pos = "str" -> "\""
      [] pos = "uri" -> "`"
      [] pos = "ref_name" -> "@"
      [] pos = "ref_display" -> "@" \o n.ref \o " \""
      [] pos = "xstr_payload" -> n.xt \o "(\""
      [] pos = "bin" -> "Bin("
      [] pos = "unit" -> n.num
      [] pos = "tz_name" -> n.stamp
      [] OTHER -> ""
LitMid(k, pos) == IF pos = "xstr_both" THEN "(\"" ELSE ""
LitSuf(k, pos, n) ==
    CASE pos = "str" -> "\""
      [] pos = "uri" -> "`"
      [] pos = "ref_name" /\ k = "refdis" -> " \"" \o n.dis \o "\""
      [] pos = "ref_display" -> "\""
      [] pos = "xstr_type" -> "(\"" \o n.xa \o "\")"
      [] pos \in {"xstr_payload", "xstr_both"} -> "\")"
      [] pos = "bin" -> ")"
      [] pos = "number_text" /\ k = "qty" -> n.unit
      [] OTHER -> ""

\* literals without a payload position
PlainLit(k, v) ==
    CASE k = "date"   -> IF v = 1 THEN "2020-01-01" ELSE "2021-06-15"
      [] k = "time"   -> IF v = 1 THEN "12:10:05" ELSE "08:30:15"
      [] k = "dtz"    -> IF v = 1 THEN "2020-01-01T10:20:30+01:00" ELSE "2021-06-15T12:30:45+02:00"
      [] k = "coord"  -> IF v = 1 THEN "C(1.5,2.5)" ELSE "C(-3.0,4.25)"
      [] k = "bool"   -> IF v = 1 THEN "true" ELSE "false"
      [] k = "null"   -> "N"
      [] k = "marker" -> "M"
      [] k = "na"     -> "NA"

\* hs_quantity is declared leaveWhitespace(): a quantity must follow the operator directly
Tight(k) == k = "qty"

AtomPre(a, k, n) ==
    CASE a = "cmp_eq"   -> IF Tight(k) THEN n.a \o "==" ELSE n.a \o " == "
      [] a = "cmp_lt"   -> IF Tight(k) THEN n.a \o "<" ELSE n.a \o " < "
      [] a = "path_cmp" -> IF Tight(k) THEN n.a \o "->" \o n.b \o "!=" ELSE n.a \o "->" \o n.b \o " != "
      [] a = "in_list"  -> n.a \o " == ["
      [] a = "in_dict"  -> n.a \o " == {" \o n.k \o ":"
      [] a = "not"      -> "not "
      [] a = "dict_key" -> n.a \o " == {"
      [] a = "has_seg"  -> n.a \o "->"
      [] a = "not_seg"  -> "not " \o n.a \o "->"
      [] a = "cmp_seg"  -> n.a \o "->"
      [] OTHER -> ""                                  \* has, cmp_lhs, path_first
AtomSuf(a, k, n) ==
    CASE a = "in_list"    -> "]"
      [] a = "in_dict"    -> "}"
      [] a = "cmp_lhs"    -> " == " \o n.one
      [] a = "cmp_seg"    -> " != " \o n.one
      [] a = "dict_key"   -> ":" \o n.one \o "}"
      [] a = "path_first" -> "->" \o n.b
      [] OTHER -> ""

CtxPre(c, n) ==
    CASE c = "paren"     -> "("
      [] c = "and_r"     -> n.s1 \o " and "
      [] c = "or_r"      -> n.s1 \o " or "
      [] c = "and_in_or" -> n.s1 \o " or "
      [] c = "paren_and" -> "("
      [] c = "deep"      -> "((" \o n.s1 \o " and ("
      [] OTHER -> ""
CtxSuf(c, n) ==
    CASE c = "paren"     -> ")"
      [] c = "and_l"     -> " and " \o n.s1
      [] c = "or_l"      -> " or " \o n.s1
      [] c = "and_in_or" -> " and " \o n.s2
      [] c = "paren_and" -> " or " \o n.s1 \o ") and " \o n.s2
      [] c = "deep"      -> ")) or not " \o n.s2 \o ")"
      [] OTHER -> ""

Pre(f, v) == CtxPre(f.ctx, N(v)) \o AtomPre(f.atom, f.kind, N(v)) \o LitPre(f.kind, f.pos, N(v))
Suf(f, v) == LitSuf(f.kind, f.pos, N(v)) \o AtomSuf(f.atom, f.kind, N(v)) \o CtxSuf(f.ctx, N(v))

\* the benign variant v of a filter, fully rendered
BenignText(f, v) ==
    IF f.pos = "none"
    THEN CtxPre(f.ctx, N(v)) \o AtomPre(f.atom, f.kind, N(v)) \o PlainLit(f.kind, v)
         \o AtomSuf(f.atom, f.kind, N(v)) \o CtxSuf(f.ctx, N(v))
    ELSE Pre(f, v) \o Benign(f.pos, v)[1]
         \o (IF f.pos = "xstr_both" THEN LitMid(f.kind, f.pos) \o Benign(f.pos, v)[2] ELSE "")
         \o Suf(f, v)

---------------------------------------------------------------------------
(* Text that is not a filter (reading (f)).  None of these is derivable     *)
(* from the filter grammar: a value is one of the Haystack literals, a term *)
(* is a path, "not" path, path cmpOp value or a parenthesised filter.       *)

InvalidAtom(form) ==
    CASE form = "attr"           -> "a == (1).__class__"
      [] form = "bare_name"      -> "a == __import__"
      [] form = "lambda"         -> "a == lambda: 0"
      [] form = "dotted_call"    -> "a == os.system(\"id\")"
      [] form = "arith"          -> "a == 1 + 1"
      [] form = "sq_string"      -> "a == 'abc'"
      [] form = "unterminated"   -> "a == \"abc"
      [] form = "fstring"        -> "a == f\"{a}\""
      [] form = "subscript"      -> "a == a[0]"
      [] form = "call_noarg"     -> "a == open()"
      [] form = "call_two"       -> "a == open(\"a\", \"w\")"
      [] form = "call_sq"        -> "a == open('a')"
      [] form = "call_num"       -> "a == eval(1)"
      [] form = "call_nested"    -> "a == eval(eval(\"1\"))"
      [] form = "bytes"          -> "a == b\"x\""
      [] form = "triple"         -> "a == \"\"\"x\"\"\""
      [] form = "walrus"         -> "a == (b := 1)"
      [] form = "ternary"        -> "a == 1 if b else 2"
      [] form = "py_none"        -> "a == None"
      [] form = "py_true"        -> "a == True"
      [] form = "str_attr"       -> "a == \"\".__class__"
      [] form = "bs_x"           -> "a == \"\\x41\""
      [] form = "stmt_suffix"    -> "a == 1; import os"
      [] form = "assign_suffix"  -> "a == 1; x = 1"
      [] form = "attr_suffix"    -> "a == 1.__class__"
      [] form = "plus_suffix"    -> "a == 1 + b"
      [] form = "call_suffix"    -> "a == 1()"
      [] form = "if_suffix"      -> "a == 1 if b else c"
      [] form = "is_suffix"      -> "a == 1 is None"
      [] form = "in_suffix"      -> "a == 1 in b"
      [] form = "comment_suffix" -> "a == 1 # x"
      [] form = "comma_suffix"   -> "a == 1, b"
      [] form = "import_prefix"  -> "import os; a == 1"
      [] form = "lambda_prefix"  -> "lambda: a == 1"
      [] form = "minus_prefix"   -> "-a == 1"
      [] form = "tilde_prefix"   -> "~a == 1"
      [] form = "call_wrap"      -> "print(a)"
      [] form = "bare_xstr"      -> "__import__(\"os\")"
      [] form = "call_lhs"       -> "eval(\"1\") == 1"
      [] form = "chain_eq"       -> "a == 1 == 2"
      [] form = "single_eq"      -> "a = 1"
      [] form = "triple_eq"      -> "a === 1"
      [] form = "open_paren"     -> "(a"
      [] form = "close_paren"    -> "a)"
      [] form = "empty_paren"    -> "()"
      [] form = "number_only"    -> "1"
      [] form = "string_only"    -> "\"abc\""
      [] form = "dangling_and"   -> "a and"

InvalidText(f) == CtxPre(f.ctx, N(1)) \o InvalidAtom(f.kind) \o CtxSuf(f.ctx, N(1))

---------------------------------------------------------------------------
(* Payload classes per position                                            *)

QuotedLike == Quoted \cup {"uri"}

ClassesAt(pos) ==
    CASE pos \in QuotedLike \cup {"bin"} -> {"builtin_name", "dunder", "py_expr", "py_stmt", "quote_bs", "unicode"}
      [] pos = "number_text" -> {"number_form", "builtin_name"}
      [] pos = "xstr_both"   -> {"call"}
      [] OTHER               -> {"builtin_name", "dunder", "py_expr"}      \* identifier positions

\* "esc": escaped per the grammar of the position (identity where the position has no escapes);
\* "raw": pasted unescaped into a quoted position (the text may then be another filter or none)
ModesAt(pos, cls) == IF pos \in QuotedLike /\ cls \in {"py_expr", "quote_bs", "unicode"} THEN <<"esc", "raw">> ELSE <<"esc">>

---------------------------------------------------------------------------
(* Role B: the case list                                                   *)

FullCtxAtoms == {"cmp_eq", "has", "has_seg"}

InTier(f) ==
    /\ f.kind # "numhuge"                 \* placed through the payload class number_form on kind num
    /\ \/ Tier = "thorough"
       \/ f.valid /\ (f.ctx = "top" \/ f.atom \in FullCtxAtoms)
       \/ ~f.valid /\ f.ctx \in {"top", "or_l"}

Lines(f) ==
    IF ~f.valid
    THEN {[g |-> "invalid", ctx |-> f.ctx, atom |-> f.atom, kind |-> f.kind, pos |-> f.pos, text |-> InvalidText(f)]}
    ELSE {[g |-> "benign", ctx |-> f.ctx, atom |-> f.atom, kind |-> f.kind, pos |-> f.pos,
           t1 |-> BenignText(f, 1), t2 |-> BenignText(f, 2)]}
         \cup (IF f.pos = "none" THEN {}
               ELSE {[g |-> "payload", ctx |-> f.ctx, atom |-> f.atom, kind |-> f.kind, pos |-> f.pos, cls |-> c,
                      modes |-> ModesAt(f.pos, c), pre |-> Pre(f, 1), mid |-> LitMid(f.kind, f.pos), suf |-> Suf(f, 1),
                      b1 |-> BenignP(f.pos, 1), b2 |-> BenignP(f.pos, 2)] : c \in ClassesAt(f.pos)})

GenInit == /\ Init
           /\ InTier(flt)
           /\ \A ln \in Lines(flt) : PrintT(ToJson(ln))
GenNext == FALSE /\ UNCHANGED vars
GenSpec == GenInit /\ [][GenNext]_vars
=============================================================================
