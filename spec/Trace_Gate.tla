----------------------------- MODULE Trace_Gate -----------------------------
(* C10: the decision each of the five deciders (grid, ZINC writer, JSON writer, ZINC reader,  *)
(* JSON reader) took for <<declared version, 3.0-only kind>>, recorded from hszinc, is judged   *)
(* against Gate!Accepts (nearest official version).  One verdict line per case.                *)
EXTENDS Gate, Json, IOUtils
VARIABLES cid, done
Cases == TLCGet(1)
Judge(c) ==
    IF c.dec \notin {"accept", "refuse"} THEN PrintT(<<"REJECT", c.id, "other_exception", 0>>)
    ELSE IF (c.dec = "accept") # Accepts(c.ver, c.kind)
         THEN PrintT(<<"REJECT", c.id, IF c.dec = "accept" THEN "accepted_under_pre3" ELSE "refused_under_v3", 0>>)
    ELSE PrintT(<<"OK", c.id>>)
Init == \E f \in {JsonDeserialize(IOEnv.TRACE_FILE)} : TLCSet(1, f) /\ cid \in 1..Len(f) /\ done = FALSE
Next == ~done /\ Judge(Cases[cid]) /\ done' = TRUE /\ UNCHANGED cid
Spec == Init /\ [][Next]_<<cid, done>>
=============================================================================
