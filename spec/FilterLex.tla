------------------------------ MODULE FilterLex ------------------------------
(***************************************************************************)
(* C11 / C12 -- the Haystack filter language at the level of characters.   *)
(*                                                                         *)
(* FilterSem.tla fixes one literal per kind and works on tokens; this      *)
(* module reads the filter TEXT (code points) by recursive descent and     *)
(* gives every literal the value its characters denote: the literal is     *)
(* handed to the ZINC reader machine of ZincRead.tla inside a 1x1 carrier  *)
(* grid (a filter literal is a ZINC scalar; `true' / `false' are the       *)
(* filter's own spelling of Bool).  Row values are the abstract values of  *)
(* ZincRead (what lib/absval.py projects real hszinc values to).           *)
(*                                                                         *)
(*   filter ::= condOr        condOr ::= condAnd ("or" condAnd)*           *)
(*   condAnd ::= term ("and" term)*                                        *)
(*   term ::= "(" filter ")" | "not" path | path cmpOp val | path          *)
(*   path ::= name ("->" name)*         name ::= [a-z][a-zA-Z0-9_]*        *)
(*                                                                         *)
(* AST: [t |-> "has" | "missing", p], [t |-> "cmp", p, o, lit] (lit = the  *)
(* literal's characters), [t |-> "paren", x], [t |-> "and" | "or", xs]     *)
(* (n-ary, operands in order), [t |-> "empty"].                            *)
(*                                                                         *)
(* FSem(x, row, rows) is the SET of truth values the property allows:      *)
(*   ==  !=     by value for two values of one kind (numbers by numeric    *)
(*              value and unit, date-times by instant, Refs by name);      *)
(*              across kinds == is FALSE and != TRUE                       *)
(*   <  <= > >= numbers, quantities of one unit, strings (code points),    *)
(*              dates, times, date-times; FALSE across kinds and units     *)
(*   a null cell is an absent tag                                          *)
(*   NaN, ordering inside an unordered kind, the literal N: not constrained*)
(***************************************************************************)
EXTENDS ZincRead

\* ------------------------------------------------------------------ characters
FBlank(c) == c \in {32, 9, 10, 13}
OnlySpaces(s) == \A i \in 1..Len(s) : FBlank(s[i]) => s[i] = SP

RECURSIVE FSkip(_, _)
FSkip(s, i) == IF i <= Len(s) /\ FBlank(s[i]) THEN FSkip(s, i + 1) ELSE i
RECURSIVE FSpanId(_, _)
FSpanId(s, i) == IF i <= Len(s) /\ IsIdChar(s[i]) THEN FSpanId(s, i + 1) ELSE i
RECURSIVE FSpanRef(_, _)
FSpanRef(s, i) == IF i <= Len(s) /\ IsRefChar(s[i]) THEN FSpanRef(s, i + 1) ELSE i
RECURSIVE FSpanTz(_, _)
FSpanTz(s, i) == IF i <= Len(s) /\ IsTzChar(s[i]) THEN FSpanTz(s, i + 1) ELSE i
\* a plain token ends at a blank, a parenthesis or the end of the text
RECURSIVE FSpanPlain(_, _)
FSpanPlain(s, i) == IF i <= Len(s) /\ ~FBlank(s[i]) /\ s[i] \notin {LP, RP} THEN FSpanPlain(s, i + 1) ELSE i

\* index of the closing quote q of a string / uri whose first inner character is at i; 0: unterminated
RECURSIVE FStrEnd(_, _, _)
FStrEnd(s, i, q) == IF i > Len(s) THEN 0
                    ELSE IF s[i] = BSL THEN FStrEnd(s, i + 2, q)
                    ELSE IF s[i] = q THEN i
                    ELSE FStrEnd(s, i + 1, q)
\* index of the bracket closing `depth' open ones, strings and uris skipped as units; 0: unbalanced
RECURSIVE FBrEnd(_, _, _)
FBrEnd(s, i, depth) ==
    IF i > Len(s) THEN 0
    ELSE IF s[i] \in {DQ, BT} THEN (LET e == FStrEnd(s, i + 1, s[i]) IN IF e = 0 THEN 0 ELSE FBrEnd(s, e + 1, depth))
    ELSE IF s[i] \in {LB, LC, LP} THEN FBrEnd(s, i + 1, depth + 1)
    ELSE IF s[i] \in {RB, RC, RP} THEN (IF depth = 1 THEN i ELSE FBrEnd(s, i + 1, depth - 1))
    ELSE FBrEnd(s, i + 1, depth)

FAtWord(s, i, w) == /\ i + Len(w) - 1 <= Len(s)
                    /\ SubSeq(s, i, i + Len(w) - 1) = w
                    /\ (i + Len(w) > Len(s) \/ ~IsIdChar(s[i + Len(w)]))
wNot == <<110, 111, 116>>   wAnd == <<97, 110, 100>>   wOr == <<111, 114>>
wTrue == <<116, 114, 117, 101>>   wFalse == <<102, 97, 108, 115, 101>>
FKeywords == {wNot, wAnd, wOr, wTrue, wFalse}

\* the comparison operator at i (as a string), "" when there is none
FOpAt(s, i) ==
    IF i > Len(s) THEN ""
    ELSE LET two == i + 1 <= Len(s) /\ s[i + 1] = 61
         IN CASE s[i] = 61 /\ two -> "=="
              [] s[i] = 33 /\ two -> "!="
              [] s[i] = LTc /\ two -> "<="
              [] s[i] = GTc /\ two -> ">="
              [] s[i] = LTc -> "<"
              [] s[i] = GTc -> ">"
              [] OTHER -> ""
OpLen(o) == IF o \in {"<", ">"} THEN 1 ELSE 2

\* last character of the literal starting at i (0: no literal there)
FLitEnd(s, i) ==
    IF i > Len(s) THEN 0
    ELSE IF s[i] \in {DQ, BT} THEN FStrEnd(s, i + 1, s[i])
    ELSE IF s[i] \in {LB, LC} THEN FBrEnd(s, i + 1, 1)
    ELSE IF s[i] = ATc THEN          \* @name, optionally followed by a display string
        LET j == FSpanRef(s, i + 1)
            k == FSkip(s, j)
        IN IF k > j /\ k <= Len(s) /\ s[k] = DQ THEN FStrEnd(s, k + 1, DQ) ELSE j - 1
    ELSE LET j == FSpanPlain(s, i)
         IN IF j = i THEN 0
            ELSE IF j <= Len(s) /\ s[j] = LP THEN FBrEnd(s, j + 1, 1)      \* Type("..."), C(..), Bin(..)
            ELSE IF j - i >= 19 /\ DateShape(s, i) /\ s[i + 10] \in {84, 116} THEN
                 \* a date-time may be followed by its zone name
                 LET k == FSkip(s, j)
                 IN IF k > j /\ k <= Len(s) /\ IsUpper(s[k]) THEN FSpanTz(s, k) - 1 ELSE j - 1
            ELSE j - 1

\* ------------------------------------------------------------------ recursive descent
FFail == [ok |-> FALSE, ast |-> <<>>, pos |-> 0]
FOk(a, p) == [ok |-> TRUE, ast |-> a, pos |-> p]

RECURSIVE FPath(_, _, _)
FPath(s, i, acc) ==
    IF i > Len(s) \/ ~IsLower(s[i]) THEN FFail
    ELSE LET j == FSpanId(s, i)
             name == SubSeq(s, i, j - 1)
         IN IF name \in FKeywords THEN FFail
            ELSE IF j + 1 <= Len(s) /\ s[j] = MINUS /\ s[j + 1] = GTc THEN FPath(s, j + 2, Append(acc, name))
            ELSE FOk(Append(acc, name), j)

RECURSIVE FOr(_, _), FAnd(_, _), FTerm(_, _), FOrRest(_, _, _), FAndRest(_, _, _)
FTerm(s, i0) ==
    LET i == FSkip(s, i0)
    IN IF i > Len(s) THEN FFail
       ELSE IF s[i] = LP THEN
            LET r == FOr(s, i + 1)
            IN IF ~r.ok THEN FFail
               ELSE LET j == FSkip(s, r.pos)
                    IN IF j <= Len(s) /\ s[j] = RP THEN FOk([t |-> "paren", x |-> r.ast], j + 1) ELSE FFail
       ELSE IF FAtWord(s, i, wNot) THEN
            LET p == FPath(s, FSkip(s, i + 3), <<>>)
            IN IF p.ok THEN FOk([t |-> "missing", p |-> p.ast], p.pos) ELSE FFail
       ELSE LET p == FPath(s, i, <<>>)
            IN IF ~p.ok THEN FFail
               ELSE LET j  == FSkip(s, p.pos)
                        op == FOpAt(s, j)
                    IN IF op = "" THEN FOk([t |-> "has", p |-> p.ast], p.pos)
                       ELSE LET k == FSkip(s, j + OpLen(op))
                                e == FLitEnd(s, k)
                            IN IF e = 0 THEN FFail
                               ELSE FOk([t |-> "cmp", p |-> p.ast, o |-> op, lit |-> SubSeq(s, k, e)], e + 1)
FAndRest(s, i0, acc) ==
    LET i == FSkip(s, i0)
    IN IF FAtWord(s, i, wAnd) THEN
            LET t == FTerm(s, i + 3) IN IF t.ok THEN FAndRest(s, t.pos, Append(acc, t.ast)) ELSE FFail
       ELSE FOk(IF Len(acc) = 1 THEN acc[1] ELSE [t |-> "and", xs |-> acc], i0)
FAnd(s, i) == LET t == FTerm(s, i) IN IF t.ok THEN FAndRest(s, t.pos, <<t.ast>>) ELSE FFail
FOrRest(s, i0, acc) ==
    LET i == FSkip(s, i0)
    IN IF FAtWord(s, i, wOr) THEN
            LET t == FAnd(s, i + 2) IN IF t.ok THEN FOrRest(s, t.pos, Append(acc, t.ast)) ELSE FFail
       ELSE FOk(IF Len(acc) = 1 THEN acc[1] ELSE [t |-> "or", xs |-> acc], i0)
FOr(s, i) == LET t == FAnd(s, i) IN IF t.ok THEN FOrRest(s, t.pos, <<t.ast>>) ELSE FFail

\* the whole text; the empty filter is all blanks
FParse(s) ==
    IF FSkip(s, 1) = Len(s) + 1 THEN FOk([t |-> "empty"], Len(s) + 1)
    ELSE LET r == FOr(s, 1) IN IF r.ok /\ FSkip(s, r.pos) = Len(s) + 1 THEN r ELSE FFail

\* blanks between tokens other than the space (tab, CR, LF): characters of the text that are blank, not a
\* space and outside every literal.  A filter with such blanks may also be refused.
RECURSIVE FLitSpans(_)
FLitSpans(x) == CASE x.t = "cmp" -> {x.lit}
                  [] x.t = "paren" -> FLitSpans(x.x)
                  [] x.t \in {"and", "or"} -> UNION {FLitSpans(x.xs[i]) : i \in 1..Len(x.xs)}
                  [] OTHER -> {}

\* ------------------------------------------------------------------ literal values
Carrier(lit) == <<118, 101, 114, 58, 34, 51, 46, 48, 34, 10, 118, 10>> \o lit \o <<10>>   \* ver:"3.0" / v / lit
FNoVal == <<99>>
\* <<valid, value, strict>>: strict = a scalar of the ZINC grammar proper; otherwise one only the liberal reading
\* of ZincRead accepts (a date-time without zone name, blanks inside a list, ...), which a filter parser may refuse
FCell(lit, strict) ==
    LET r == Result(ZRead(Carrier(lit), strict))
    IN IF r.ok /\ ~r.amb /\ Len(r.grids) = 1 /\ Len(r.grids[1][5]) = 1 /\ Len(r.grids[1][5][1]) = 1
       THEN <<TRUE, r.grids[1][5][1][1]>>
       ELSE <<FALSE, FNoVal>>
FLitVal(lit) ==
    IF lit = wTrue THEN <<TRUE, <<4, 1>>, TRUE>>
    ELSE IF lit = wFalse THEN <<TRUE, <<4, 0>>, TRUE>>
    ELSE IF lit \in {cT, cF} THEN <<FALSE, FNoVal, FALSE>>   \* ZINC's spelling of Bool is not the filter's
    ELSE LET a == FCell(lit, TRUE)
         IN IF a[1] THEN <<TRUE, a[2], TRUE>>
            ELSE LET b == FCell(lit, FALSE) IN <<b[1], b[2], FALSE>>

\* the AST with every literal replaced by <<valid, value>> (computed once per filter)
RECURSIVE FResolveLits(_)
FResolveLits(x) ==
    CASE x.t = "cmp" -> [x EXCEPT !.lit = FLitVal(x.lit)]
      [] x.t = "paren" -> [x EXCEPT !.x = FResolveLits(x.x)]
      [] x.t \in {"and", "or"} -> [x EXCEPT !.xs = [i \in 1..Len(x.xs) |-> FResolveLits(x.xs[i])]]
      [] OTHER -> x
RECURSIVE FAllValid(_)
FAllValid(x) ==
    CASE x.t = "cmp" -> x.lit[1]
      [] x.t = "paren" -> FAllValid(x.x)
      [] x.t \in {"and", "or"} -> \A i \in 1..Len(x.xs) : FAllValid(x.xs[i])
      [] OTHER -> TRUE

\* the literal kinds of the Haystack filter grammar (bool, number, quantity, str, uri, ref, date, time) and the
\* date-time; literals of the other kinds are an extension a filter parser may refuse
FCoreKinds == {4, 5, 6, 7, 8, 10, 12, 13, 14}
RECURSIVE FAllCore(_)
FAllCore(x) ==
    CASE x.t = "cmp" -> x.lit[2][1] \in FCoreKinds /\ x.lit[3]
      [] x.t = "paren" -> FAllCore(x.x)
      [] x.t \in {"and", "or"} -> \A i \in 1..Len(x.xs) : FAllCore(x.xs[i])
      [] OTHER -> TRUE

\* ------------------------------------------------------------------ values: equality and order
IsSpecialDec(d) == d[1] = 9
IsNaNDec(d)     == d = <<9, 2>>
DecSign(d) == IF d[1] = 9 THEN (IF d[2] = 0 THEN 2 ELSE 0 - 2)
              ELSE IF Len(d) = 3 THEN 0 ELSE IF d[1] = 1 THEN 0 - 1 ELSE 1
DecExp(d)  == IF d[2] = 1 THEN 0 - d[3] ELSE d[3]
DecDigits(d) == SubSeq(d, 4, Len(d))
MagCmp(a, b) == IF DecExp(a) < DecExp(b) THEN 0 - 1 ELSE IF DecExp(a) > DecExp(b) THEN 1
                ELSE V!SeqCmp(DecDigits(a), DecDigits(b))
\* -1, 0, 1 (not defined on NaN)
DecCmp(a, b) ==
    LET sa == DecSign(a)  sb == DecSign(b)
    IN IF sa < sb THEN 0 - 1 ELSE IF sa > sb THEN 1
       ELSE IF sa = 1 THEN MagCmp(a, b) ELSE IF sa = 0 - 1 THEN 0 - MagCmp(a, b) ELSE 0

InstCmp(a, b) == LET x == InstantOf(a)  y == InstantOf(b)
                 IN V!SeqCmp(x, y)

FOrdered == {5, 6, 7, 12, 13, 14}

\* allowed outcomes of `==' between two values of one kind.  The elements of a list and the members of a dict are
\* compared by the same rules as cells (Haystack kinds: [true] is not [1]; units; a Ref is its identifier), so a
\* list equals a list of the same length whose elements are pairwise equal, a dict a dict with the same tags.
\* (Until the defect hunt of round 7 nested values were constrained by identity only.)
AllOf(BS) == (IF \A b \in BS : TRUE \in b THEN {TRUE} ELSE {}) \cup (IF \E b \in BS : FALSE \in b THEN {FALSE} ELSE {})
RECURSIVE SameKindEq(_, _)
SameKindEq(l, v) ==
    CASE l[1] = 5  -> IF IsNaNDec(l[2]) \/ IsNaNDec(v[2]) THEN BOOLEAN ELSE {DecCmp(l[2], v[2]) = 0}
      [] l[1] = 6  -> IF l[3] # v[3] THEN {FALSE}
                      ELSE IF IsNaNDec(l[2]) \/ IsNaNDec(v[2]) THEN BOOLEAN ELSE {DecCmp(l[2], v[2]) = 0}
      [] l[1] = 10 -> {l[2] = v[2]}                 \* a Ref is its identifier; the display name is a decoration
      [] l[1] = 14 -> {InstCmp(l, v) = 0}
      [] l[1] = 16 -> IF Len(l[2]) # Len(v[2]) THEN {FALSE}
                      ELSE AllOf({IF l[2][i][1] # v[2][i][1] THEN {FALSE} ELSE SameKindEq(l[2][i], v[2][i]) : i \in 1..Len(l[2])})
      [] l[1] = 17 -> IF Len(l[2]) # Len(v[2]) \/ \E i \in 1..Len(l[2]) : l[2][i][1] # v[2][i][1] THEN {FALSE}
                      ELSE AllOf({IF l[2][i][2][1] # v[2][i][2][1] THEN {FALSE} ELSE SameKindEq(l[2][i][2], v[2][i][2])
                                  : i \in 1..Len(l[2])})
      [] l[1] = 18 -> IF l = v THEN {TRUE} ELSE BOOLEAN                  \* nested grids: only identity is constrained
      [] l[1] = 15 -> IF l = v THEN {TRUE} ELSE BOOLEAN                  \* coordinates are rounded on the way
      [] OTHER -> {l = v}                           \* an XStr is its type name and its payload

\* -1 / 0 / 1 for two values of one ordered kind; 2 when the order is not defined; 3 when the two are not comparable
SameKindCmp(l, v) ==
    CASE l[1] = 5  -> IF IsNaNDec(l[2]) \/ IsNaNDec(v[2]) THEN 2 ELSE DecCmp(v[2], l[2])
      [] l[1] = 6  -> IF l[3] # v[3] THEN 3 ELSE IF IsNaNDec(l[2]) \/ IsNaNDec(v[2]) THEN 2 ELSE DecCmp(v[2], l[2])
      [] l[1] = 7  -> V!SeqCmp(v[2], l[2])
      [] l[1] = 12 -> V!SeqCmp(Tail(v), Tail(l))
      [] l[1] = 13 -> V!SeqCmp(Tail(v), Tail(l))
      [] l[1] = 14 -> InstCmp(v, l)
      [] OTHER -> 2

FAbsent == <<98>>
FCmpSem(o, lit, v) ==
    IF v = FAbsent \/ v = <<0>> THEN {FALSE}                           \* a null cell is an absent tag
    ELSE IF lit = <<0>> THEN BOOLEAN                                    \* the literal N: not constrained
    ELSE IF v[1] # lit[1] THEN {o = "!="}                              \* another kind: unequal, and not ordered
    ELSE IF o = "==" THEN SameKindEq(lit, v)
    ELSE IF o = "!=" THEN {~b : b \in SameKindEq(lit, v)}
    ELSE IF lit[1] \notin FOrdered THEN BOOLEAN
    ELSE LET c == SameKindCmp(lit, v)       \* v relative to the literal
         IN IF c = 2 THEN BOOLEAN
            ELSE IF c = 3 THEN {FALSE}
            ELSE CASE o = "<"  -> {c < 0}
                   [] o = "<=" -> {c <= 0}
                   [] o = ">"  -> {c > 0}
                   [] o = ">=" -> {c >= 0}

\* ------------------------------------------------------------------ rows
\* row = sequence of <<tag name, value>>; the id tag is a Ref
cId == <<105, 100>>
FHas(row, name) == \E k \in 1..Len(row) : row[k][1] = name
FGet(row, name) == IF FHas(row, name) THEN row[CHOOSE k \in 1..Len(row) : row[k][1] = name][2] ELSE FAbsent
\* "the row whose id matches a reference": its id is a Ref of that name -- or, in hand-built grids (the repository's
\* own tests), the name as a plain string
FIdRows(rows, name) == {i \in 1..Len(rows) : LET v == FGet(rows[i], cId) IN (v[1] = 10 \/ v[1] = 7) /\ v[2] = name}

\* <<determined, value>>: following a Ref that several rows answer to is not determined
RECURSIVE FResolveFrom(_, _, _, _)
FResolveFrom(p, i, row, rows) ==
    LET v == FGet(row, p[i])
    IN IF i = Len(p) THEN <<TRUE, v>>
       ELSE IF v[1] = 10 THEN
            LET I == FIdRows(rows, v[2])
            IN IF I = {} THEN <<TRUE, FAbsent>>
               ELSE IF Cardinality(I) > 1 THEN <<FALSE, FAbsent>>
               ELSE FResolveFrom(p, i + 1, rows[CHOOSE k \in I : TRUE], rows)
       ELSE <<TRUE, FAbsent>>

RECURSIVE FSem(_, _, _)
FSem(x, row, rows) ==
    CASE x.t \in {"has", "missing", "cmp"} ->
           LET r == FResolveFrom(x.p, 1, row, rows)
           IN IF ~r[1] THEN BOOLEAN
              ELSE IF x.t = "has" THEN {r[2] # FAbsent /\ r[2] # <<0>>}
              ELSE IF x.t = "missing" THEN {r[2] = FAbsent \/ r[2] = <<0>>}
              ELSE FCmpSem(x.o, x.lit[2], r[2])
      [] x.t = "paren" -> FSem(x.x, row, rows)
      [] x.t = "and"   -> FoldLeft(LAMBDA acc, y : {p /\ q : p \in acc, q \in FSem(y, row, rows)}, {TRUE}, x.xs)
      [] x.t = "or"    -> FoldLeft(LAMBDA acc, y : {p \/ q : p \in acc, q \in FSem(y, row, rows)}, {FALSE}, x.xs)
      [] x.t = "empty" -> {TRUE}

\* 0 must be left out, 1 must be selected, 2 not constrained
FCode(bs) == IF bs = {TRUE} THEN 1 ELSE IF bs = {FALSE} THEN 0 ELSE 2
FAllowed(x, rows) == [i \in 1..Len(rows) |-> FCode(FSem(x, rows[i], rows))]
=============================================================================
