----------------------------- MODULE MC_ValueEq -----------------------------
(* Bounded instance of ValueEq: an abstract catalogue covering every kind x *)
(* boundary payloads (role A), and the base grids whose one-position        *)
(* mutants are emitted for replay on the real Grid class (role B).          *)
EXTENDS ValueEq, Json

S0 == [k \in {"null", "marker", "na", "remove"} |-> [k |-> k]]
Bo(v)            == [k |-> "bool", v |-> v, nan |-> FALSE]
Nu(v, f)         == [k |-> "num", v |-> v, nan |-> (v = "nan"), f |-> f]
Qt(v, un, u)     == [k |-> "qty", v |-> v, nan |-> (v = "nan"), f |-> TRUE, un |-> un, u |-> u]
Tx(k, t)         == [k |-> k, t |-> t]
Rf(t, hv, dn, d) == [k |-> "ref", t |-> t, hv |-> hv, dn |-> dn, d |-> d]
Xs(t, enc, b)    == [k |-> "xstr", t |-> t, enc |-> enc, b |-> b]
Da(d)            == [k |-> "date", d |-> d]
Ti(tm)           == [k |-> "time", tm |-> tm]
Dt(aw, inst, tz) == [k |-> "dt", aware |-> aw, inst |-> inst, tz |-> tz]
Co(lat, lng)     == [k |-> "coord", lat |-> lat, lng |-> lng, nan |-> (lat = "nan" \/ lng = "nan")]
Li(e)            == [k |-> "list", e |-> e]
Di(e)            == [k |-> "dict", e |-> e]

NumToks == <<"0", "1", "-1", "1/2", "9007199254740993", "inf", "-inf", "nan">>
Texts   == << <<>>, <<97>>, <<98>>, <<97, 98>>, <<233>> >>
Units   == << <<TRUE, <<>>>>, <<FALSE, <<>>>>, <<FALSE, <<109>>>>, <<FALSE, <<115>>>> >>   \* None '' 'm' 's'
QToks   == <<"0", "1", "1/2", "nan">>

Singles == <<S0["null"], S0["marker"], S0["na"], S0["remove"], Bo("0"), Bo("1")>>
Nums    == [i \in 1..(2 * Len(NumToks)) |->
              Nu(NumToks[((i - 1) % Len(NumToks)) + 1], i > Len(NumToks))]     \* int and float twins
Qtys    == [i \in 1..(Len(QToks) * Len(Units)) |->
              LET q == ((i - 1) % Len(QToks)) + 1  u == ((i - 1) \div Len(QToks)) + 1
              IN Qt(QToks[q], Units[u][1], Units[u][2])]
TextVals == [i \in 1..(3 * Len(Texts)) |->
              Tx((<<"str", "uri", "bin">>)[((i - 1) \div Len(Texts)) + 1], Texts[((i - 1) % Len(Texts)) + 1])]
Refs    == <<Rf(<<97>>, FALSE, TRUE, <<>>), Rf(<<97>>, TRUE, TRUE, <<>>), Rf(<<97>>, TRUE, FALSE, <<>>),
             Rf(<<97>>, TRUE, FALSE, <<120>>), Rf(<<97>>, TRUE, FALSE, <<121>>), Rf(<<98>>, FALSE, TRUE, <<>>),
             Rf(<<98>>, TRUE, FALSE, <<120>>)>>
XStrs   == <<Xs(<<104, 101, 120>>, "bytes", <<255>>), Xs(<<104, 101, 120>>, "bytes", <<>>),
             Xs(<<98, 54, 52>>, "bytes", <<255>>), Xs(<<98, 54, 52>>, "bytes", <<0>>),
             Xs(<<70>>, "text", <<102, 102>>), Xs(<<71>>, "text", <<102, 102>>), Xs(<<70>>, "text", <<255>>)>>
Dates   == <<Da(<<2020, 2, 29>>), Da(<<2020, 3, 1>>), Da(<<1, 1, 1>>)>>
Times   == <<Ti(<<0, 0, 0, 0>>), Ti(<<0, 0, 0, 1>>), Ti(<<23, 59, 59, 999999>>)>>
Dts     == <<Dt(TRUE, <<18321, 3600, 0>>, <<85, 84, 67>>), Dt(TRUE, <<18321, 3600, 0>>, <<80>>),
             Dt(TRUE, <<18321, 3601, 0>>, <<85, 84, 67>>), Dt(FALSE, <<18321, 3600, 0>>, <<>>)>>
Coords  == <<Co("0", "0"), Co("0", "1"), Co("1", "0"), Co("1/2", "-1"), Co("nan", "0"), Co("0", "nan")>>

Scalars == Singles \o Nums \o Qtys \o TextVals \o Refs \o XStrs \o Dates \o Times \o Dts \o Coords

\* container payloads: a subset that still has every kind, the text triple, twins, NaN, unit clashes
Leafs   == <<Singles[1], Singles[2], Singles[5], Singles[6], Nums[1], Nums[2], Nums[9], Nums[10], Nums[16],
             Qtys[2], Qtys[3], Qtys[4], Qtys[6], Qtys[10], Qtys[14], TextVals[1], TextVals[2], TextVals[7],
             TextVals[12], Refs[1], Refs[4], XStrs[1], XStrs[3], Dates[1], Times[1], Dts[1], Dts[2],
             Coords[2], Coords[5]>>
Lists1  == [i \in 1..Len(Leafs) |-> Li(<<Leafs[i]>>)]
Lists2  == <<Li(<<>>), Li(<<Leafs[1], Leafs[2]>>), Li(<<Leafs[2], Leafs[1]>>), Li(<<Leafs[1]>> \o <<Leafs[1]>>),
             Li(<<Lists1[3]>>), Li(<<Lists1[4]>>), Li(<<Li(<<>>)>>)>>
Dicts1  == [i \in 1..Len(Leafs) |-> Di(<< <<<<97>>, Leafs[i]>> >>)]
Dicts2  == <<Di(<<>>), Di(<< <<<<98>>, Leafs[3]>> >>), Di(<< <<<<97>>, Leafs[3]>>, <<<<98>>, Leafs[4]>> >>),
             Di(<< <<<<97>>, Lists1[3]>> >>), Di(<< <<<<97>>, Dicts1[3]>> >>)>>

MCCat == Scalars \o Lists1 \o Lists2 \o Dicts1 \o Dicts2

(***************************************************************************)
(* Grid cells: [k, s, mu, mu2, i].  s: discrete content code (unit, text,  *)
(* date, ... -- the harness owns the code -> concrete table); mu, mu2:     *)
(* float content in micro-units; i = 1: written as a Python int.           *)
(***************************************************************************)
Ce(k, s, mu, mu2, i) == [k |-> k, s |-> s, mu |-> mu, mu2 |-> mu2, i |-> i]
MCCells == <<
    Ce("null", 0, 0, 0, 0), Ce("marker", 0, 0, 0, 0), Ce("na", 0, 0, 0, 0), Ce("remove", 0, 0, 0, 0),
    Ce("bool", 0, 1000000, 0, 0), Ce("bool", 0, 0, 0, 0),
    Ce("num", 0, 1000000, 0, 1), Ce("num", 0, 0, 0, 1), Ce("num", 0, 1500000, 0, 0), Ce("num", 0, 1500002, 0, 0),
    Ce("num", 0, -1500000, 0, 0),
    Ce("num", 1, 0, 0, 0), Ce("num", 2, 0, 0, 0), Ce("num", 3, 0, 0, 0),     \* +INF, -INF, NaN (content code s)
    Ce("qty", 1, 1500000, 0, 0), Ce("qty", 1, 1500002, 0, 0), Ce("qty", 2, 1500000, 0, 0),
    Ce("qty", 0, 1500000, 0, 0), Ce("qty", 1, 1000000, 0, 1),
    Ce("str", 0, 0, 0, 0), Ce("str", 1, 0, 0, 0), Ce("str", 2, 0, 0, 0),
    Ce("uri", 1, 0, 0, 0), Ce("uri", 0, 0, 0, 0), Ce("bin", 1, 0, 0, 0),
    Ce("ref", 1, 0, 0, 0), Ce("ref", 2, 0, 0, 0), Ce("ref", 3, 0, 0, 0),
    Ce("xstr", 1, 0, 0, 0), Ce("xstr", 2, 0, 0, 0),
    Ce("date", 1, 0, 0, 0), Ce("date", 2, 0, 0, 0),
    Ce("time", 1, 0, 0, 0), Ce("time", 2, 0, 0, 0),
    Ce("dt", 1, 0, 0, 0), Ce("dt", 2, 0, 0, 0), Ce("dt", 3, 0, 0, 0),
    Ce("dt", 4, 0, 0, 0), Ce("dt", 5, 0, 0, 0),      \* the instants of 1 and 3 in other zones: other cell contents
    Ce("coord", 0, 1500000, 2500000, 0), Ce("coord", 0, 1500002, 2500000, 0), Ce("coord", 0, 1500000, 2500002, 0),
    Ce("list", 1, 0, 0, 0), Ce("list", 2, 0, 0, 0), Ce("dict", 1, 0, 0, 0),
    Ce("list", 3, 0, 0, 0), Ce("list", 4, 0, 0, 0),       \* lists holding quantities of different units
    \* the tolerance is absolute: two thousand and two thousand plus two millionths differ like 1.5 and 1.500002 do
    \* (a relative tolerance of 1e-9 would call them equal)
    Ce("num", 0, 2000000000, 0, 0), Ce("num", 0, 2000000002, 0, 0),
    Ce("qty", 1, 2000000000, 0, 0), Ce("qty", 1, 2000000002, 0, 0) >>

MCNonGrids == <<MCCells[1], MCCells[2], MCCells[7], MCCells[21], MCCells[43], MCCells[45]>>

G1x1(x) == [meta |-> {}, cols |-> <<1>>, cm |-> <<{}>>, rows |-> << <<MCCells[x]>> >>]
\* a 2 x 2 grid with metadata on the grid and on one column; background cells of assorted kinds
Bg == << <<MCCells[21], MCCells[9]>>, <<MCCells[26], MCCells[2]>> >>
G2x2 == [meta |-> {1, 2}, cols |-> <<1, 2>>, cm |-> <<{3, 4}, {}>>, rows |-> Bg]
GEmpty == [meta |-> {1}, cols |-> <<1>>, cm |-> <<{}>>, rows |-> <<>>]
\* the same 2 x 2 grid with every cell of the domain placed at a focus position
G2x2At(r, c, x) == [G2x2 EXCEPT !.rows = SetAt(Bg, r, SetAt(Bg[r], c, MCCells[x]))]

MCBaseQuick    == {G1x1(x) : x \in 1..Len(MCCells)} \cup {G2x2, GEmpty}
MCBaseThorough == MCBaseQuick \cup {G2x2At(1, 2, x) : x \in 1..Len(MCCells)}
                              \cup {G2x2At(2, 1, x) : x \in 1..Len(MCCells)}

\* role B: every explored mutation edge, printed once
JGrid(x) == IF IsGrid(x)
            THEN [meta |-> x.meta, cols |-> x.cols, cm |-> x.cm, rows |-> x.rows]
            ELSE [ng |-> 1, cell |-> x]
EmitEdge == PrintT(ToJson([t |-> "E", g |-> JGrid(g), h |-> JGrid(h'), mut |-> mut',
                           exp |-> GridEq(g, h'), same |-> GridEq(g, g)]))
=============================================================================
