SPECIFICATION TSpec
CONSTANTS
  Fault = "none"
VIEW TView
INVARIANT TEnds
INVARIANT TOrder
INVARIANT TUnwrap
CHECK_DEADLOCK FALSE
