------------------------------ MODULE Version ------------------------------
(***************************************************************************)
(* Project Haystack version numbers (hszinc/version.py) and the            *)
(* version-keyed grammar caches of hszinc/zincparser.py.                   *)
(*                                                                         *)
(* A version string is a sequence of code points.  A version VALUE is the  *)
(* pair <<nums, extra>>: nums a non-empty sequence of naturals (the dotted *)
(* digit groups), extra the remaining text as code points (<<>> = none;    *)
(* a present extra is never empty).  The order (Cmp) pads the shorter nums *)
(* with zeros, compares group by group, then the extras: no extra comes    *)
(* before any extra, two extras compare lexicographically by code point.   *)
(* Everything else (six operators, hashing key, nearest official version)  *)
(* is derived from Cmp.                                                    *)
(***************************************************************************)
EXTENDS Naturals, Integers, Sequences, FiniteSets, TLC

CONSTANTS CacheVersions     \* version values looked up by the cache machine

VARIABLES cacheN,           \* NearestMatch : canonical key -> grammar id
          cacheG,           \* GenerateMatch: canonical key -> grammar id
          last              \* <<kind, version, grammar>> of the last lookup

cvars == <<cacheN, cacheG, last>>

(***************************************************************************)
(* Reading a version string (VERSION_RE in version.py, no line breaks): a  *)
(* string is a version iff it starts with an ASCII digit.                  *)
(* The head is the longest prefix of digits and dots; it is split at the   *)
(* dots and an empty group counts as 0 ("2..0" = 2.0.0, "2." = 2.0); the   *)
(* rest, if any, is the extra.                                             *)
(***************************************************************************)
IsDigit(c) == c \in 48..57
DotC       == 46
Valid(s)   == Len(s) > 0 /\ IsDigit(s[1])

RECURSIVE HeadLen(_, _)
HeadLen(s, i) == IF i <= Len(s) /\ (IsDigit(s[i]) \/ s[i] = DotC) THEN HeadLen(s, i + 1) ELSE i - 1

RECURSIVE Groups(_, _, _, _)
Groups(s, i, n, cur) ==
    IF i > n THEN <<cur>>
    ELSE IF s[i] = DotC THEN <<cur>> \o Groups(s, i + 1, n, 0)
    ELSE Groups(s, i + 1, n, cur * 10 + (s[i] - 48))

Parse(s) == LET n == HeadLen(s, 1) IN <<Groups(s, 1, n, 0), SubSeq(s, n + 1, Len(s))>>

Nums(v)  == v[1]
Extra(v) == v[2]

(***************************************************************************)
(* The order.                                                              *)
(***************************************************************************)
Max2(a, b) == IF a > b THEN a ELSE b
Min2(a, b) == IF a < b THEN a ELSE b
Pad(n, k)  == [i \in 1..k |-> IF i <= Len(n) THEN n[i] ELSE 0]

\* lexicographic comparison of two sequences of naturals; a proper prefix comes first
SeqCmp(x, y) ==
    LET m == Min2(Len(x), Len(y))
        D == {i \in 1..m : x[i] # y[i]}
    IN IF D = {} THEN (IF Len(x) < Len(y) THEN -1 ELSE IF Len(x) > Len(y) THEN 1 ELSE 0)
       ELSE LET i == CHOOSE d \in D : \A e \in D : d <= e
            IN IF x[i] < y[i] THEN -1 ELSE 1

NumCmp(n1, n2) == LET k == Max2(Len(n1), Len(n2)) IN SeqCmp(Pad(n1, k), Pad(n2, k))

ExtraCmp(e1, e2) ==
    IF e1 = <<>> THEN (IF e2 = <<>> THEN 0 ELSE -1)
    ELSE IF e2 = <<>> THEN 1
    ELSE SeqCmp(e1, e2)

Cmp(a, b) == LET c == NumCmp(Nums(a), Nums(b)) IN IF c # 0 THEN c ELSE ExtraCmp(Extra(a), Extra(b))

Lt(a, b) == Cmp(a, b) < 0
Le(a, b) == Cmp(a, b) < 1
Eq(a, b) == Cmp(a, b) = 0
Ne(a, b) == Cmp(a, b) # 0
Ge(a, b) == Cmp(a, b) > -1
Gt(a, b) == Cmp(a, b) > 0

\* what operator number k (1 lt, 2 le, 3 eq, 4 ne, 5 ge, 6 gt) returns when the comparison is c
OpNames == <<"lt", "le", "eq", "ne", "ge", "gt">>
OpHolds(k, c) == CASE k = 1 -> c < 0  [] k = 2 -> c < 1  [] k = 3 -> c = 0
                   [] k = 4 -> c # 0  [] k = 5 -> c > -1 [] k = 6 -> c > 0

(***************************************************************************)
(* Hashing: equal versions must hash equally.  HashKey is the canonical    *)
(* form of an equivalence class (trailing zero groups removed); it is      *)
(* itself a version value equal to v, and Cmp(a,b) = 0 <=> same HashKey.    *)
(***************************************************************************)
RECURSIVE Strip(_)
Strip(n) == IF Len(n) > 1 /\ n[Len(n)] = 0 THEN Strip(SubSeq(n, 1, Len(n) - 1)) ELSE n
HashKey(v) == <<Strip(Nums(v)), Extra(v)>>

(***************************************************************************)
(* Official versions and the nearest official version.                     *)
(* The property fixes three things: the result is official, it is an equal *)
(* one when one exists, and the function is monotone.  NearestChoices is   *)
(* the pointwise part; Nearest is the function hszinc documents (a scan of *)
(* the officials in descending order: an equal one; else, when every       *)
(* official is older, the newest; else the oldest of the newer ones).      *)
(***************************************************************************)
V20 == <<<<2, 0>>, <<>>>>
V30 == <<<<3, 0>>, <<>>>>
Official == {V20, V30}

NearestChoices(v) == {o \in Official : (\E e \in Official : Eq(e, v)) => Eq(o, v)}

MaxOf(S) == CHOOSE m \in S : \A x \in S : Le(x, m)
MinOf(S) == CHOOSE m \in S : \A x \in S : Le(m, x)

Nearest(v) ==
    IF \E o \in Official : Eq(o, v) THEN CHOOSE o \in Official : Eq(o, v)
    ELSE IF \A o \in Official : Lt(o, v) THEN MaxOf(Official)
    ELSE MinOf({o \in Official : Gt(o, v)})

\* the scan as the code performs it (checked equal to Nearest by MC_Version)
RECURSIVE SortDesc(_)
SortDesc(S) == IF S = {} THEN <<>> ELSE LET m == MaxOf(S) IN <<m>> \o SortDesc(S \ {m})
NoBest == <<>>
RECURSIVE Scan(_, _, _)
Scan(cands, v, best) ==
    IF cands = <<>> THEN best
    ELSE LET c == Head(cands)
         IN IF Eq(c, v) THEN c
            ELSE IF best = NoBest /\ Lt(c, v) THEN c
            ELSE Scan(Tail(cands), v, IF Gt(c, v) THEN c ELSE best)
NearestScan(v) == Scan(SortDesc(Official), v, NoBest)

(***************************************************************************)
(* Version-keyed grammar caches.  A cache maps the canonical key of a      *)
(* version to a grammar (an identity, here a number): at most one entry    *)
(* per equivalence class, so equal versions always get the same grammar.   *)
(*   NearestMatch : starts with the grammars of the official versions; a   *)
(*                  miss stores and returns the grammar of Nearest(v).     *)
(*   GenerateMatch: starts empty; a miss generates a new grammar.          *)
(***************************************************************************)
NoGram == 0
CacheHit(cache, v)    == HashKey(v) \in DOMAIN cache
CacheLookup(cache, v) == IF CacheHit(cache, v) THEN cache[HashKey(v)] ELSE NoGram
CachePut(cache, v, g) == IF CacheHit(cache, v) THEN cache ELSE (HashKey(v) :> g) @@ cache

OfficialGram(o) == IF Eq(o, V20) THEN 1 ELSE 2
NextGram(cache) == Cardinality(DOMAIN cache) + 1

NearestGet(cache, v)  == IF CacheHit(cache, v) THEN cache[HashKey(v)] ELSE cache[HashKey(Nearest(v))]
GenerateGet(cache, v) == IF CacheHit(cache, v) THEN cache[HashKey(v)] ELSE NextGram(cache)

CInit == /\ cacheN = [k \in {HashKey(o) : o \in Official} |-> OfficialGram(k)]
         /\ cacheG = <<>>
         /\ last = <<"init", V20, NoGram>>

GetN(v) == LET g == NearestGet(cacheN, v)
           IN cacheN' = CachePut(cacheN, v, g) /\ last' = <<"N", v, g>> /\ UNCHANGED cacheG
GetG(v) == LET g == GenerateGet(cacheG, v)
           IN cacheG' = CachePut(cacheG, v, g) /\ last' = <<"G", v, g>> /\ UNCHANGED cacheN

CNext == \E v \in CacheVersions : GetN(v) \/ GetG(v)
CSpec == CInit /\ [][CNext]_cvars

\* invariants of the cache machine
NearestGrammar ==      \* NearestMatch hands out the grammar of the nearest official version
    /\ last[1] = "N" => last[3] = OfficialGram(Nearest(last[2]))
    /\ \A k \in DOMAIN cacheN : cacheN[k] = OfficialGram(Nearest(k))
SameForEqual ==        \* a lookup of any equal version now returns the same grammar
    \A w \in CacheVersions :
        Eq(w, last[2]) => /\ last[1] = "N" => CacheLookup(cacheN, w) = last[3]
                          /\ last[1] = "G" => CacheLookup(cacheG, w) = last[3]
OneEntryPerClass ==
    \A c \in {cacheN, cacheG} : \A k1, k2 \in DOMAIN c : Eq(k1, k2) => k1 = k2
GeneratedDistinct ==   \* GenerateMatch generates once per class
    \A k1, k2 \in DOMAIN cacheG : cacheG[k1] = cacheG[k2] => k1 = k2
\* action property: entries are never replaced or dropped
CacheStable == [][\A c \in {<<cacheN, cacheN'>>, <<cacheG, cacheG'>>} :
                    \A k \in DOMAIN c[1] : k \in DOMAIN c[2] /\ c[2][k] = c[1][k]]_cvars
=============================================================================
