SPECIFICATION Spec
CONSTANTS
  Emitter = "repr"
  Tier = "thorough"
INVARIANT TypeOK
INVARIANT OneDefinitionPerMiss
INVARIANT GlobalWritesAllowed
INVARIANT RejectedClean
INVARIANT InvalidNeverCompiled
INVARIANT ValidNeverRejected
INVARIANT AuditAllowed
CHECK_DEADLOCK FALSE
