SPECIFICATION Spec
CONSTANTS
  Emitter = "repr"
  Tier = "thorough"
INVARIANT TypeOK
INVARIANT NoRawSplice
CHECK_DEADLOCK FALSE
