-------------------------- MODULE Trace_FilterGen --------------------------
(***************************************************************************)
(* Judgement of executions recorded from the real hszinc (role C, C12).    *)
(*                                                                         *)
(* File (one JSON object, parsed once in TInit, parked in TLC register 1): *)
(*   groups : [ [k, pos, cases] .. ]                                       *)
(*     k = "benign"  : the two benign variants of one filter shape; they   *)
(*                     share no piece of filter text                        *)
(*     k = "payload" : one filter shape x payload position; cases 1, 2 are *)
(*                     the benign payloads, the others canary payloads      *)
(*     k = "invalid" : texts the specification declares not to be filters  *)
(* A case is what the harness saw when it evaluated the text twice:        *)
(*   call A on a grid without rows  (a cache miss: Tokenise .. Exec)        *)
(*   call B on a grid with rows     (a cache hit iff A succeeded: Eval)     *)
(*   oa, ob   outcome: "ok" | "parse" (pyparsing ParseBaseException family) *)
(*            | "other"                                                     *)
(*   ea, eb   audit events in order of first occurrence: [f: name, n: how   *)
(*            often, a: argument class (open: pseudo|tzdata|source|canary|  *)
(*            other; else "-")]                                             *)
(*   ca, cb   canary flags found set (names of the probes)                  *)
(*   ga, gb   changes to module globals of hszinc: [w: class, n: count]     *)
(*   gm       digests of the two grids before / after: <<a0, a1, b0, b1>>   *)
(*   sk       digest of the generated code's skeleton (opcode sequence and  *)
(*            names, no constants) or "none" when nothing was exec'd        *)
(*   names    names referenced by the generated code (co_names)            *)
(*   pid      identifiers that occur in the payload text                    *)
(*   mode, pay, pay2, esc   how the payload was placed (code points)        *)
(* The template name set is LEARNT here from the benign groups: a name      *)
(* belongs to the template iff, for some shape, it occurs in the generated  *)
(* code of both variants.                                                  *)
(* One step per case; every failing clause is printed as                    *)
(*   <<"REJECT", tid, l, clause, arg>>                                      *)
(* and each group ends with <<"STAT", ...>> and ACCEPT / DONE.              *)
(***************************************************************************)
EXTENDS FilterGen, Json, IOUtils

VARIABLES tid, l, nrej

tvars == <<flt, phase, toks, ctab, audit, gw, res, tid, l, nrej>>
TView == <<tid, l, nrej>>

File == TLCGet(1)
Template == TLCGet(2)
grp == File.groups[tid]

SetOf(s) == {s[i] : i \in 1..Len(s)}

Common(g) == IF Len(g.cases) < 2 THEN {} ELSE SetOf(g.cases[1].names) \cap SetOf(g.cases[2].names)
\* ("learn": the benign groups again, names only, in the second and later shards of a large run)
Learn(f) == UNION {Common(f.groups[i]) : i \in {j \in 1..Len(f.groups) : f.groups[j].k \in {"benign", "learn"}}}

TInit == \E f \in {JsonDeserialize(IOEnv.TRACE_FILE)} :
         /\ TLCSet(1, f)
         /\ \E tn \in {Learn(f)} : TLCSet(2, tn) /\ \A n \in tn : PrintT(<<"TNAME", n>>)
         /\ tid \in {i \in 1..Len(f.groups) : f.groups[i].k # "learn"}
         /\ l = 1 /\ nrej = 0
         /\ flt = [valid |-> FALSE] /\ phase = "start" /\ toks = << >> /\ ctab = << >>
         /\ audit = << >> /\ gw = {} /\ res = "none"

---------------------------------------------------------------------------
(* clauses: sets of <<name, argument>>                                      *)

\* events of one call; miss = the call may compile (Exec phase alphabet), else Eval phase only
EventOK(evs, k, miss) ==
    LET e == evs[k] IN
    \/ e.f \in Harmless \cup Tolerated
    \/ e.f = "open" /\ e.a \in ToleratedOpenArgs
    \/ /\ miss /\ e.f \in MissAlphabet /\ e.n <= 1
       /\ (e.f = "exec" => ~\E j \in (k+1)..Len(evs) : evs[j].f = "compile")
AuditClauses(evs, miss, base) == {<<"audit_event", base + k>> : k \in {j \in 1..Len(evs) : ~EventOK(evs, j, miss)}}

GwOK(w, miss) == w.w \in AllowedGW(IF miss THEN "Exec" ELSE "Eval") /\ (w.w = "gen_fn_added" => w.n <= 1)
GwClauses(ws, miss, base) == {<<"globals_changed", base + k>> : k \in {j \in 1..Len(ws) : ~GwOK(ws[j], miss)}}

CanaryClauses(fl, base) == {<<"canary", base + k>> : k \in 1..Len(fl)}

NameClauses(c) ==
    {<<IF c.names[k] \in SetOf(c.pid) THEN "payload_name_in_code" ELSE "foreign_name_in_code", k>> :
        k \in {j \in 1..Len(c.names) : c.names[j] \notin Template}}

\* the payload of a case stays inside its position (so the filter has the shape of the group)
InPosition(c) == grp.k = "benign" \/ (grp.k = "payload" /\ c.mode = "esc" /\ Expressible(grp.pos, c.pay))

\* non-interference: same code skeleton as the benign payload of the group
SkeletonClauses(c) ==
    LET r == grp.cases[1] IN
    IF l > 1 /\ InPosition(c) /\ InPosition(r) /\ c.sk # "none" /\ r.sk # "none" /\ c.sk # r.sk
    THEN {<<"skeleton_differs", 0>>} ELSE {}

\* (f) text that is not a filter: a parse error and nothing else
RejectClauses(c) ==
    IF grp.k # "invalid" THEN {}
    ELSE (IF c.oa = "ok" \/ c.ob = "ok" THEN {<<"not_rejected", 0>>} ELSE {})
         \cup (IF c.oa = "other" \/ c.ob = "other" THEN {<<"wrong_exception", 0>>} ELSE {})

\* the harness placed the payload as the grammar of the position prescribes (machinery clause)
EscapeClauses(c) ==
    IF grp.k = "payload" /\ c.mode = "esc"
       /\ c.esc # (IF grp.pos = "xstr_both" THEN Esc("xstr_payload", c.pay2) ELSE Esc(grp.pos, c.pay))
    THEN {<<"x_escape", 0>>} ELSE {}

Clauses(c) ==
    LET missB == c.oa # "ok" IN          \* nothing was cached when call A failed
    AuditClauses(c.ea, TRUE, 1000) \cup AuditClauses(c.eb, missB, 2000)
    \cup GwClauses(c.ga, TRUE, 1000) \cup GwClauses(c.gb, missB, 2000)
    \cup CanaryClauses(c.ca, 1000) \cup CanaryClauses(c.cb, 2000)
    \cup (IF c.gm[1] # c.gm[2] \/ c.gm[3] # c.gm[4] THEN {<<"grid_mutated", 0>>} ELSE {})
    \cup NameClauses(c) \cup SkeletonClauses(c) \cup RejectClauses(c) \cup EscapeClauses(c)

\* vacuity figures of a group, computed here: cases whose payload stays in position, how many of
\* those the grammar accepted, how many ran to the end of both calls, how many got a skeleton
Count(P(_)) == Cardinality({i \in 1..Len(grp.cases) : P(grp.cases[i])})
Stat == <<"STAT", tid,
          Count(LAMBDA c : InPosition(c)),
          Count(LAMBDA c : InPosition(c) /\ c.oa # "parse"),
          Count(LAMBDA c : InPosition(c) /\ c.oa = "ok" /\ c.ob = "ok"),
          Count(LAMBDA c : c.sk # "none"),
          Count(LAMBDA c : c.oa = "parse" /\ c.ob = "parse")>>

TNext ==
    /\ l <= Len(grp.cases)
    /\ \E cl \in {Clauses(grp.cases[l])} :
          /\ \A k \in cl : PrintT(<<"REJECT", tid, l, k[1], k[2]>>)
          /\ nrej' = nrej + (IF cl = {} THEN 0 ELSE 1)
          /\ l' = l + 1
          /\ (l = Len(grp.cases) => PrintT(Stat) /\ PrintT(<<IF nrej' = 0 THEN "ACCEPT" ELSE "DONE", tid, nrej'>>))
    /\ UNCHANGED <<flt, phase, toks, ctab, audit, gw, res, tid>>

TSpec == TInit /\ [][TNext]_tvars
=============================================================================
