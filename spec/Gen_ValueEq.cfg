SPECIFICATION SpecG
CONSTANTS
  Cat <- MCCat
  CellDom <- MCCells
  BaseGrids <- MCBaseQuick
  NonGrids <- MCNonGrids
INVARIANT FaithfulEqual
INVARIANT MutantUnequal
INVARIANT MutantDiffers
ACTION_CONSTRAINT EmitEdge
CHECK_DEADLOCK FALSE
