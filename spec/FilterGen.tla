----------------------------- MODULE FilterGen -----------------------------
(***************************************************************************)
(* C12 -- filter literals are data, never code.                            *)
(*                                                                         *)
(* The compile pipeline of hszinc.grid_filter as a state machine over      *)
(* ABSTRACT filters:                                                       *)
(*                                                                         *)
(*   start --Tokenise--> tokens --BuildAst--> ast --Emit--> source         *)
(*         --Exec--> defined --Eval--> evaluated --EvalHit--> done         *)
(*   start --Tokenise--> rejected                 (text that is no filter)  *)
(*                                                                         *)
(* An abstract filter is a shape (an enclosing context ctx around one atom  *)
(* -- has / not / comparison with a literal of kind k, possibly inside a    *)
(* list or dict literal, possibly over a path a->b) with ONE payload        *)
(* position among                                                          *)
(*   str uri ref_name ref_display xstr_type xstr_payload bin unit tz_name   *)
(*   tag path_segment number_text        (+ xstr_both = type and payload)   *)
(* Every token of the emitted Python source carries its provenance:        *)
(*   template  written by the code generator itself                        *)
(*   payload   derived from the filter text at the payload position        *)
(*   text      derived from the filter text elsewhere (sibling tags, ...)  *)
(* and the way text got into it (q): "repr" = printed by a quoting          *)
(* function that yields a closed literal, "splice" = pasted between         *)
(* template quotes, "none" for template tokens.                             *)
(*                                                                         *)
(* Two emitters (CONSTANT Emitter):                                        *)
(*   "repr"    every literal is printed with the repr() of its value       *)
(*             (grid_filter.py: def_filter.append(repr(node))).  Kinds     *)
(*             whose repr is NOT a closed literal put filter text into     *)
(*             code positions: XStr prints  name("payload")  -- the type   *)
(*             name becomes a CALL token of provenance payload and the     *)
(*             payload is spliced between quotes unquoted; a number beyond *)
(*             the double range prints  inf  -- a NAME.                    *)
(*             => PayloadOnlyInLiterals is VIOLATED (expected, documented) *)
(*   "consts"  every literal (and path) is referenced from a constants     *)
(*             table:  _c[i]  -- the source consists of template tokens     *)
(*             only, the values never become source.  => all invariants hold*)
(*                                                                         *)
(* The module also fixes what the trace judge (Trace_FilterGen) uses:      *)
(* the audit alphabet per phase, the allowed global writes, and the        *)
(* character-level grammar of each payload position (Expressible, Esc).    *)
(***************************************************************************)
EXTENDS Naturals, Sequences, FiniteSets, TLC, SequencesExt

CONSTANTS Emitter,   \* "repr" | "consts"
          Tier       \* "quick" | "thorough" : only sizes the generated case list (role B)

VARIABLES flt,     \* the abstract filter being compiled
          phase,   \* pipeline state
          toks,    \* emitted source tokens: sequence of [cls, prov, q]
          ctab,    \* constants table ("consts" emitter): sequence of provenances
          audit,   \* audit events raised so far: sequence of [ph, ev]
          gw,      \* global writes so far: set of [ph, what]
          res      \* "none" | "ok" | "ParseException"

vars == <<flt, phase, toks, ctab, audit, gw, res>>

---------------------------------------------------------------------------
(* Bounded space of abstract filters                                       *)

Ctxs == {"top", "paren", "and_l", "and_r", "or_l", "or_r", "and_in_or", "paren_and", "deep"}

LitAtoms == {"cmp_eq", "cmp_lt", "in_list", "in_dict", "path_cmp"}

\* literal kind x payload position (numhuge: a number literal beyond the double range)
LitKP == {<<"str", "str">>, <<"uri", "uri">>, <<"ref", "ref_name">>, <<"refdis", "ref_name">>,
          <<"refdis", "ref_display">>, <<"xstr", "xstr_type">>, <<"xstr", "xstr_payload">>,
          <<"xstr", "xstr_both">>, <<"bin", "bin">>, <<"num", "number_text">>,
          <<"numhuge", "number_text">>, <<"qty", "number_text">>, <<"qty", "unit">>,
          <<"dt", "tz_name">>}

\* literal kinds that have no free-text position (exercised as benign shapes only)
PlainKinds == {"date", "time", "dtz", "coord", "bool", "null", "marker", "na"}

\* identifier positions: atom x position
IdentAP == {<<"has", "tag">>, <<"not", "tag">>, <<"cmp_lhs", "tag">>, <<"dict_key", "tag">>,
            <<"path_first", "tag">>, <<"has_seg", "path_segment">>, <<"not_seg", "path_segment">>,
            <<"cmp_seg", "path_segment">>}

\* forms of text that is not a filter (f): slot "lit" = in the literal slot of  a == <X>,
\* "suf" = appended to the valid filter  a == 1, "pre" = prepended to it, "all" = the whole atom
InvalidForms == {"attr", "bare_name", "lambda", "dotted_call", "arith", "sq_string", "unterminated",
                 "fstring", "subscript", "call_noarg", "call_two", "call_sq", "call_num",
                 "call_nested", "bytes", "triple", "walrus", "ternary", "py_none", "py_true",
                 "str_attr", "bs_x", "stmt_suffix", "assign_suffix", "attr_suffix", "plus_suffix",
                 "call_suffix", "if_suffix", "is_suffix", "in_suffix", "comment_suffix",
                 "comma_suffix", "import_prefix", "lambda_prefix", "minus_prefix", "tilde_prefix",
                 "call_wrap", "bare_xstr", "call_lhs", "chain_eq", "single_eq", "triple_eq",
                 "open_paren", "close_paren", "empty_paren", "number_only", "string_only",
                 "dangling_and"}
InvalidCtxs == {"top", "paren", "and_r", "or_l"}

Positions == {kp[2] : kp \in LitKP} \cup {ap[2] : ap \in IdentAP}

ValidFilters ==
    {[ctx |-> c, atom |-> a, kind |-> kp[1], pos |-> kp[2], valid |-> TRUE] :
        c \in Ctxs, a \in LitAtoms, kp \in LitKP}
    \cup {[ctx |-> c, atom |-> a, kind |-> k, pos |-> "none", valid |-> TRUE] :
        c \in Ctxs, a \in LitAtoms, k \in PlainKinds}
    \cup {[ctx |-> c, atom |-> ap[1], kind |-> "none", pos |-> ap[2], valid |-> TRUE] :
        c \in Ctxs, ap \in IdentAP}
InvalidFilters ==
    {[ctx |-> c, atom |-> "invalid", kind |-> f, pos |-> "none", valid |-> FALSE] :
        c \in InvalidCtxs, f \in InvalidForms}
Filters == ValidFilters \cup InvalidFilters

---------------------------------------------------------------------------
(* Source tokens                                                           *)

Classes == {"KEYWORD", "NAME", "CALL", "OP", "STRING_CONSTANT", "NUMBER_CONSTANT"}
Lits == {"STRING_CONSTANT", "NUMBER_CONSTANT"}

T(c) == [cls |-> c, prov |-> "template", q |-> "none"]

\* positions covered by the payload of a case
Covers(pos) == IF pos = "xstr_both" THEN {"xstr_type", "xstr_payload"} ELSE {pos}

\* a token made from filter text that sits at position p, in a filter whose payload position is pos
D(c, p, pos, quoting) == [cls |-> c, prov |-> IF p \in Covers(pos) THEN "payload" ELSE "text", q |-> quoting]

\* repr() of one literal of kind k, as Python tokens
ReprLit(k, pos) ==
    CASE k = "str"     -> << D("STRING_CONSTANT", "str", pos, "repr") >>
      [] k = "uri"     -> << T("CALL"), T("OP"), D("STRING_CONSTANT", "uri", pos, "repr"), T("OP") >>
      [] k = "ref"     -> << T("CALL"), T("OP"), D("STRING_CONSTANT", "ref_name", pos, "repr"), T("OP"),
                             T("NAME"), T("OP"), T("NAME"), T("OP") >>
      [] k = "refdis"  -> << T("CALL"), T("OP"), D("STRING_CONSTANT", "ref_name", pos, "repr"), T("OP"),
                             D("STRING_CONSTANT", "ref_display", pos, "repr"), T("OP"), T("NAME"), T("OP") >>
      \* XStr.__repr__ :  '%s("%s")' % (self.encoding, self.data_to_string())
      [] k = "xstr"    -> << D("CALL", "xstr_type", pos, "splice"), T("OP"),
                             D("STRING_CONSTANT", "xstr_payload", pos, "splice"), T("OP") >>
      [] k = "bin"     -> << T("CALL"), T("OP"), D("STRING_CONSTANT", "bin", pos, "repr"), T("OP") >>
      [] k = "num"     -> << D("NUMBER_CONSTANT", "number_text", pos, "repr") >>
      \* repr(float("1e999")) = 'inf' : a name looked up in the module globals
      [] k = "numhuge" -> << D("NAME", "number_text", pos, "repr") >>
      [] k = "qty"     -> << T("CALL"), T("OP"), D("NUMBER_CONSTANT", "number_text", pos, "repr"), T("OP"),
                             D("STRING_CONSTANT", "unit", pos, "repr"), T("OP") >>
      \* datetime.datetime(y, m, d, ..., tzinfo=<DstTzInfo 'Zone' ...>) (not even valid Python: C11)
      [] k = "dt"      -> << T("NAME"), T("OP"), T("CALL"), T("OP"), D("NUMBER_CONSTANT", "digits", pos, "repr"),
                             T("OP"), T("NAME"), T("OP"), T("OP"), T("NAME"),
                             D("STRING_CONSTANT", "tz_name", pos, "repr"), T("OP"), T("OP") >>
      [] k \in {"date", "time", "dtz"}
                       -> << T("NAME"), T("OP"), T("CALL"), T("OP"), D("NUMBER_CONSTANT", "digits", pos, "repr"), T("OP") >>
      [] k = "coord"   -> << T("CALL"), T("OP"), D("NUMBER_CONSTANT", "digits", pos, "repr"), T("OP"),
                             D("NUMBER_CONSTANT", "digits", pos, "repr"), T("OP") >>
      [] k \in {"bool", "null", "marker", "na"} -> << T("NAME") >>

\* reference into the constants table:  _c [ i ]
ConstRef == << T("NAME"), T("OP"), T("NUMBER_CONSTANT"), T("OP") >>

Lit(k, pos) == IF Emitter = "repr" THEN ReprLit(k, pos) ELSE ConstRef

\* _get_path(_grid, _entity, ['a', 'b'])  -- segs: the position label of each segment
PathSegs(segs, pos) ==
    IF Emitter = "repr"
    THEN << T("OP") >> \o [i \in 1..Len(segs) |-> D("STRING_CONSTANT", segs[i], pos, "repr")] \o << T("OP") >>
    ELSE ConstRef
Path(segs, pos) == << T("CALL"), T("OP"), T("NAME"), T("OP"), T("NAME"), T("OP") >> \o PathSegs(segs, pos) \o << T("OP") >>

\* (id(<path>) != id(NOT_FOUND))      has / not
Has(segs, pos) == << T("OP"), T("CALL"), T("OP") >> \o Path(segs, pos)
                  \o << T("OP"), T("OP"), T("CALL"), T("OP"), T("NAME"), T("OP"), T("OP") >>
Cmp(segs, pos, rhs) == << T("OP") >> \o Path(segs, pos) \o << T("OP") >> \o rhs \o << T("OP") >>

OneText == IF Emitter = "repr" THEN << [cls |-> "NUMBER_CONSTANT", prov |-> "text", q |-> "repr"] >> ELSE ConstRef

AtomToks(f) ==
    LET a == f.atom  k == f.kind  p == f.pos IN
    CASE a \in {"cmp_eq", "cmp_lt"} -> Cmp(<<"sib">>, p, Lit(k, p))
      [] a = "path_cmp"  -> Cmp(<<"sib", "sib">>, p, Lit(k, p))
      \* a list / dict literal is ONE constant for the consts emitter, [repr, ...] / {'k': repr} otherwise
      [] a = "in_list"   -> Cmp(<<"sib">>, p, IF Emitter = "repr" THEN << T("OP") >> \o Lit(k, p) \o << T("OP") >> ELSE ConstRef)
      [] a = "in_dict"   -> Cmp(<<"sib">>, p, IF Emitter = "repr"
                                THEN << T("OP"), D("STRING_CONSTANT", "sib", p, "repr"), T("OP") >> \o Lit(k, p) \o << T("OP") >>
                                ELSE ConstRef)
      [] a \in {"has", "not"} -> Has(<<"tag">>, p)
      [] a = "path_first" -> Has(<<"tag", "sib">>, p)
      [] a \in {"has_seg", "not_seg"} -> Has(<<"sib", "path_segment">>, p)
      [] a = "cmp_lhs"   -> Cmp(<<"tag">>, p, OneText)
      [] a = "cmp_seg"   -> Cmp(<<"sib", "path_segment">>, p, OneText)
      [] a = "dict_key"  -> Cmp(<<"sib">>, p, IF Emitter = "repr"
                                THEN << T("OP"), D("STRING_CONSTANT", "tag", p, "repr"), T("OP") >> \o OneText \o << T("OP") >>
                                ELSE ConstRef)

Sib(pos) == Has(<<"sib">>, pos)
Bin2(l, r) == << T("OP") >> \o l \o << T("OP") >> \o r \o << T("OP") >>

\* parentheses disappear in the AST
CtxToks(f) ==
    LET x == AtomToks(f)  s == Sib(f.pos)  c == f.ctx IN
    CASE c \in {"top", "paren"} -> x
      [] c \in {"and_l", "or_l"} -> Bin2(x, s)
      [] c \in {"and_r", "or_r"} -> Bin2(s, x)
      [] c = "and_in_or" -> Bin2(s, Bin2(x, s))
      [] c = "paren_and" -> Bin2(Bin2(x, s), s)
      [] c = "deep"      -> Bin2(Bin2(s, x), s)

\* def _gen_hsfilter_N(_grid, _entity):\n  return <expr>
Header == << T("KEYWORD"), T("NAME"), T("OP"), T("NAME"), T("OP"), T("NAME"), T("OP"), T("OP"), T("KEYWORD") >>
Source(f) == Header \o CtxToks(f)

\* what the constants table holds (consts emitter): one entry per value, never a token
ConstTable(f) == IF Emitter = "consts" THEN << "payload", "text" >> ELSE << >>

---------------------------------------------------------------------------
(* Audit alphabet per phase and allowed global writes                      *)

Phases == {"Tokenise", "BuildAst", "Emit", "Exec", "Eval"}

\* events without an effect outside the interpreter (attribute access on internals, frame
\* inspection, id() -- the template itself calls id())
Harmless == {"object.__getattr__", "sys._getframe", "sys._getframemodulename", "builtins.id"}

\* raised when an exception escapes a finaliser; reports a failure, performs nothing
Tolerated == {"sys.unraisablehook"}

\* a cache miss may compile and run ONE generated definition
MissAlphabet == {"compile", "exec"}

Alphabet(ph) == IF ph = "Exec" THEN Harmless \cup Tolerated \cup MissAlphabet ELSE Harmless \cup Tolerated

\* CPython probes the pseudo file name "<string>" when it builds a SyntaxError for generated
\* source: no file of that name exists, nothing is opened
ToleratedOpenArgs == {"pseudo"}

\* global writes: what the cache itself does to the module namespace
AllowedGW(ph) == IF ph = "Exec" THEN {"gen_fn_added", "gen_fn_removed", "counter"} ELSE {"gen_fn_removed"}

---------------------------------------------------------------------------
(* The pipeline                                                            *)

Init == /\ flt \in Filters
        /\ phase = "start"
        /\ toks = << >> /\ ctab = << >> /\ audit = << >> /\ gw = {} /\ res = "none"

Tokenise == /\ phase = "start"
            /\ IF flt.valid THEN phase' = "tokens" /\ res' = res
                            ELSE phase' = "rejected" /\ res' = "ParseException"
            /\ UNCHANGED <<flt, toks, ctab, audit, gw>>

BuildAst == /\ phase = "tokens"
            /\ phase' = "ast"
            /\ UNCHANGED <<flt, toks, ctab, audit, gw, res>>

Emit == /\ phase = "ast"
        /\ phase' = "source"
        /\ toks' = Source(flt)
        /\ ctab' = ConstTable(flt)
        /\ UNCHANGED <<flt, audit, gw, res>>

\* exec(def ...) : one compile + one exec, the new name (and the counter) in the module namespace;
\* inserting into the LRU may evict and finalise an older wrapper
Exec == /\ phase = "source"
        /\ phase' = "defined"
        /\ audit' = audit \o << [ph |-> "Exec", ev |-> "compile"], [ph |-> "Exec", ev |-> "exec"] >>
        /\ \E evict \in BOOLEAN :
             gw' = gw \cup {[ph |-> "Exec", what |-> "gen_fn_added"], [ph |-> "Exec", what |-> "counter"]}
                      \cup (IF evict THEN {[ph |-> "Exec", what |-> "gen_fn_removed"]} ELSE {})
        /\ UNCHANGED <<flt, toks, ctab, res>>

\* what running the generated function does: template calls are _get_path / id / constructors of
\* hszinc value classes; a CALL or NAME token that is not template is whatever the filter text named
CallEvents(ph) ==
    LET idx == {i \in 1..Len(toks) : toks[i].cls = "CALL" /\ toks[i].prov # "template"}
    IN  IF idx = {} THEN << [ph |-> ph, ev |-> "builtins.id"] >>
        ELSE << [ph |-> ph, ev |-> "builtins.id"], [ph |-> ph, ev |-> "call_named_by_filter_text"] >>

Eval == /\ phase = "defined"
        /\ phase' = "evaluated"
        /\ audit' = audit \o CallEvents("Eval")
        /\ res' = "ok"
        /\ UNCHANGED <<flt, toks, ctab, gw>>

\* second evaluation of the same text: cache hit, only Eval happens
EvalHit == /\ phase = "evaluated"
           /\ phase' = "done"
           /\ audit' = audit \o CallEvents("Eval")
           /\ UNCHANGED <<flt, toks, ctab, gw, res>>

Next == Tokenise \/ BuildAst \/ Emit \/ Exec \/ Eval \/ EvalHit
Spec == Init /\ [][Next]_vars

---------------------------------------------------------------------------
(* Invariants                                                              *)

TypeOK == /\ flt \in Filters
          /\ phase \in {"start", "tokens", "ast", "source", "defined", "evaluated", "done", "rejected"}
          /\ \A i \in 1..Len(toks) : toks[i].cls \in Classes /\ toks[i].prov \in {"template", "payload", "text"}
          /\ res \in {"none", "ok", "ParseException"}

\* THE property: whatever sits at the payload position reaches the source only as a constant
PayloadOnlyInLiterals == \A i \in 1..Len(toks) : toks[i].prov = "payload" => toks[i].cls \in Lits

\* ... and so does every other piece of filter text
TextOnlyInLiterals == \A i \in 1..Len(toks) : toks[i].prov # "template" => toks[i].cls \in Lits

\* filter text is never pasted between template quotes (safety would then depend on the filter
\* grammar's escapes being a subset of Python's)
NoRawSplice == \A i \in 1..Len(toks) : toks[i].prov # "template" => toks[i].q = "repr"

AuditAllowed == \A i \in 1..Len(audit) : audit[i].ev \in Alphabet(audit[i].ph)
OneDefinitionPerMiss == Cardinality({i \in 1..Len(audit) : audit[i].ev = "exec"}) <= 1
                        /\ Cardinality({i \in 1..Len(audit) : audit[i].ev = "compile"}) <= 1
GlobalWritesAllowed == \A w \in gw : w.what \in AllowedGW(w.ph)
RejectedClean == phase = "rejected" => toks = << >> /\ audit = << >> /\ gw = {} /\ res = "ParseException"
\* the repr emitter is unsafe for exactly these kinds (their repr is not a closed literal) ...
ReprUnsafeKinds == {"xstr", "numhuge"}
\* ... and safe for all the others
ReprSafeElsewhere == flt.kind \notin ReprUnsafeKinds =>
                         PayloadOnlyInLiterals /\ TextOnlyInLiterals /\ NoRawSplice /\ AuditAllowed
InvalidNeverCompiled == ~flt.valid => phase \in {"start", "rejected"}
ValidNeverRejected == flt.valid => phase # "rejected"

---------------------------------------------------------------------------
(* Character level: which payloads a position can carry, and how they are  *)
(* escaped there (written from the filter grammar: hs_str, hs_uri, hs_ref,  *)
(* hs_xstr, hs_bin, hs_unit, hs_tzName, hs_id, hs_decimal)                  *)

Lower == 97..122
Upper == 65..90
Digit == 48..57
AlnumU == Lower \cup Upper \cup Digit \cup {95}

HexDigit(n) == IF n < 10 THEN 48 + n ELSE 87 + n

\* inside "..." : anything from U+0020 except " and \ stands for itself; escapes \b \f \n \r \t \\ \" \uXXXX
EscStrCp(c) ==
    IF c = 34 THEN <<92, 34>> ELSE IF c = 92 THEN <<92, 92>>
    ELSE IF c = 8 THEN <<92, 98>> ELSE IF c = 12 THEN <<92, 102>> ELSE IF c = 10 THEN <<92, 110>>
    ELSE IF c = 13 THEN <<92, 114>> ELSE IF c = 9 THEN <<92, 116>>
    ELSE IF c < 32 THEN <<92, 117, 48, 48, HexDigit(c \div 16), HexDigit(c % 16)>>
    ELSE <<c>>
\* inside `...` : the same with ` instead of "
EscUriCp(c) == IF c = 96 THEN <<92, 96>> ELSE IF c = 34 THEN <<34>> ELSE EscStrCp(c)

Quoted == {"str", "ref_display", "xstr_payload"}

Esc(pos, s) ==
    IF pos \in Quoted THEN FoldLeft(LAMBDA acc, c : acc \o EscStrCp(c), << >>, s)
    ELSE IF pos = "uri" THEN FoldLeft(LAMBDA acc, c : acc \o EscUriCp(c), << >>, s)
    ELSE s

All(s, S) == \A i \in 1..Len(s) : s[i] \in S

\* -?digits(.digits)?([eE][+-]?digits)?   (no underscores: float() refuses most placements)
NumStep(st, c) ==
    IF c \in Digit THEN (CASE st \in {0, 1, 2} -> 2 [] st \in {3, 4} -> 4 [] st \in {5, 6, 7} -> 7 [] OTHER -> 9)
    ELSE IF c = 45 THEN (CASE st = 0 -> 1 [] st = 5 -> 6 [] OTHER -> 9)
    ELSE IF c = 43 THEN (CASE st = 5 -> 6 [] OTHER -> 9)
    ELSE IF c = 46 THEN (CASE st = 2 -> 3 [] OTHER -> 9)
    ELSE IF c \in {101, 69} THEN (CASE st \in {2, 4} -> 5 [] OTHER -> 9)
    ELSE 9
NumOK(s) == FoldLeft(NumStep, 0, s) \in {2, 4, 7}

NotPrefix(s) == Len(s) >= 3 /\ s[1] = 110 /\ s[2] = 111 /\ s[3] = 116       \* "not..." is read as  not <rest>
Reserved == {<<97, 110, 100>>, <<111, 114>>}                                \* and, or

\* the payload, placed (escaped by Esc) at the position, stays inside that position
Expressible(pos, s) ==
    CASE pos \in Quoted \cup {"uri"} -> TRUE
      [] pos = "bin"       -> All(s, (32..39) \cup (42..127))
      [] pos = "ref_name"  -> All(s, AlnumU \cup {58, 45, 46, 126})
      [] pos \in {"xstr_type", "xstr_both"} -> Len(s) > 0 /\ All(s, AlnumU)
      [] pos = "unit"      -> Len(s) > 0 /\ All(s, Lower \cup Upper \cup {37, 95, 47, 36} \cup (128..65534)) /\ s[1] # 95
      [] pos = "tz_name"   -> Len(s) > 0 /\ s[1] \in Upper /\ All(s, AlnumU \cup {45})
      [] pos \in {"tag", "path_segment"}
                           -> Len(s) > 0 /\ s[1] \in Lower /\ All(s, AlnumU) /\ ~NotPrefix(s) /\ s \notin Reserved
      [] pos = "number_text" -> NumOK(s)
      [] OTHER -> FALSE
=============================================================================
