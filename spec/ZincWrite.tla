----------------------------- MODULE ZincWrite -----------------------------
(***************************************************************************)
(* An independent, grammar-directed ZINC writer: abstract value x spelling  *)
(* style -> code points.  It makes the spelling choices the ZINC grammar     *)
(* and the liberties listed in property C03 allow, independently of what    *)
(* hszinc's own dumper prints.  A style is a record of small naturals, one   *)
(* per kind of choice.  Documents produced here are                          *)
(*   (A) read back by the reader machine: ZRead(Spell(d, sty)) = d           *)
(*   (B) fed to hszinc.parse; Abs(result) must equal the denotation d        *)
(*   and are the seeds of the mutation operators (C09).                     *)
(***************************************************************************)
EXTENDS ZincRead

Ch(s) == s   \* code point literals below are written as tuples
DigitC(d) == d + 48
RECURSIVE NatCps(_)
NatCps(n) == IF n < 10 THEN <<DigitC(n)>> ELSE NatCps(n \div 10) \o <<DigitC(n % 10)>>
Pad2(n) == <<DigitC(n \div 10), DigitC(n % 10)>>
Pad4(n) == Pad2(n \div 100) \o Pad2(n % 100)
Pad6(n) == Pad2(n \div 10000) \o Pad4(n % 10000)
Zeros(k) == [i \in 1..k |-> 48]
Digs(D) == [i \in 1..Len(D) |-> DigitC(D[i])]
Join(parts, sep) == IF parts = <<>> THEN <<>>
                   ELSE FoldLeft(LAMBDA acc, p : acc \o sep \o p, parts[1], Tail(parts))
HexDigit(n, up) == IF n < 10 THEN 48 + n ELSE (IF up THEN 55 ELSE 87) + n
Hex4(c, up) == <<HexDigit((c \div 4096) % 16, up), HexDigit((c \div 256) % 16, up),
                 HexDigit((c \div 16) % 16, up), HexDigit(c % 16, up)>>
\* groups of three digits separated by '_' (digit separators are legal after the first digit)
RECURSIVE Under3(_)
Under3(D) == IF Len(D) <= 3 THEN D ELSE SubSeq(D, 1, 3) \o <<USC>> \o Under3(SubSeq(D, 4, Len(D)))

(***************************************************************************)
(* Numbers: dec = <<sign, expSign, expAbs, d1..dn>> = 0.d1..dn * 10^exp      *)
(***************************************************************************)
SignedExp(e, plus) == IF e < 0 THEN <<MINUS>> \o NatCps(0 - e) ELSE (IF plus THEN <<PLUS>> ELSE <<>>) \o NatCps(e)
SpellNum(dec, sty) ==
    IF dec = <<9, 0>> THEN cINF ELSE IF dec = <<9, 1>> THEN cNINF ELSE IF dec = <<9, 2>> THEN cNaN
    ELSE
    LET sg == IF dec[1] = 1 THEN <<MINUS>> ELSE <<>>
        ex == IF dec[2] = 1 THEN 0 - dec[3] ELSE dec[3]
        D  == Digs(SubSeq(dec, 4, Len(dec)))
        n  == Len(D)
        Sci(lower, plus) == SubSeq(D, 1, 1) \o (IF n > 1 THEN <<DOT>> \o SubSeq(D, 2, n) ELSE <<>>)
                            \o <<IF lower THEN 101 ELSE 69>> \o SignedExp(ex - 1, plus)
        IntMant == Under3(D) \o <<69>> \o SignedExp(ex - n, TRUE)
        \* digits := digit (digit | "_")* : two separators in a row, a separator ending a digit run (also in the exponent)
        OddU    == (IF n = 1 THEN D \o <<USC>> ELSE SubSeq(D, 1, 1) \o <<USC, USC>> \o SubSeq(D, 2, n) \o <<USC>>)
                   \o <<101>> \o SignedExp(ex - n, FALSE) \o <<USC>>
        Pos == IF ex >= n THEN D \o Zeros(ex - n) \o (IF sty.num = 4 THEN <<DOT, 48>> ELSE <<>>)
               ELSE IF ex > 0 THEN SubSeq(D, 1, ex) \o <<DOT>> \o SubSeq(D, ex + 1, n)
               ELSE <<48, DOT>> \o Zeros(0 - ex) \o D
        posOk == ex <= 22 /\ ex >= -8
    IN IF n = 0 THEN sg \o (CASE sty.num = 1 -> <<48>> [] sty.num = 2 -> <<48, DOT, 48>>
                              [] sty.num = 3 -> <<48, 101, 48>> [] sty.num = 5 -> <<48, USC, USC, 48, USC>> [] OTHER -> <<48, DOT, 48, 48>>)
       ELSE sg \o (CASE sty.num = 1 -> (IF posOk THEN Pos ELSE Sci(TRUE, FALSE))
                     [] sty.num = 2 -> Sci(TRUE, FALSE)
                     [] sty.num = 3 -> IntMant
                     [] sty.num = 5 -> OddU
                     [] OTHER -> (IF posOk THEN Pos ELSE Sci(FALSE, TRUE)))

(***************************************************************************)
(* Text: strings and URIs.  esc style 1: shortest legal form; 2: every       *)
(* non-ASCII BMP character as \uxxxx and $ escaped; 3: \uXXXX with upper-case *)
(* hex digits, also for the C0 characters that have short escapes; 4: the    *)
(* quote, the backslash, $ and the C0 characters as \uxxxx.                   *)
(***************************************************************************)
ShortEsc(c) == CASE c = 8 -> 98 [] c = 12 -> 102 [] c = 10 -> 110 [] c = 13 -> 114 [] c = 9 -> 116 [] OTHER -> 0
\* esc style 4: every character that cannot stand for itself is \uxxxx -- the quote and the backslash too
StrChar(c, sty) ==
    IF sty.esc = 4 /\ (c \in {DQ, BSL, DOLLAR} \/ c < 32) THEN <<BSL, 117>> \o Hex4(c, FALSE)
    ELSE IF c = DQ \/ c = BSL THEN <<BSL, c>>
    ELSE IF c = DOLLAR THEN (IF sty.esc = 1 THEN <<c>> ELSE <<BSL, c>>)
    ELSE IF c < 32 THEN (IF ShortEsc(c) # 0 /\ sty.esc # 3 THEN <<BSL, ShortEsc(c)>> ELSE <<BSL, 117>> \o Hex4(c, sty.esc = 3))
    ELSE IF c >= 128 /\ c < 65536 /\ sty.esc # 1 THEN <<BSL, 117>> \o Hex4(c, sty.esc = 3)
    ELSE <<c>>
SpellStr(t, sty) == <<DQ>> \o FoldLeft(LAMBDA acc, c : acc \o StrChar(c, sty), <<>>, t) \o <<DQ>>
\* the grammar gives a URI no short escapes (\n, \t ... belong to strings): a control character is \uxxxx
UriChar(c, sty) ==
    IF sty.esc = 4 /\ (c \in {BT, BSL} \/ c < 32) THEN <<BSL, 117>> \o Hex4(c, FALSE)
    ELSE IF c = BT \/ c = BSL THEN <<BSL, c>>
    ELSE IF c < 32 THEN <<BSL, 117>> \o Hex4(c, sty.esc = 3)
    ELSE IF c >= 128 /\ c < 65536 /\ sty.esc # 1 THEN <<BSL, 117>> \o Hex4(c, sty.esc = 3)
    ELSE <<c>>
SpellUri(t, sty) == <<BT>> \o FoldLeft(LAMBDA acc, c : acc \o UriChar(c, sty), <<>>, t) \o <<BT>>

(***************************************************************************)
(* Dates, times, date-times, coordinates.                                   *)
(***************************************************************************)
SpellDate(y, m, d) == Pad4(y) \o <<MINUS>> \o Pad2(m) \o <<MINUS>> \o Pad2(d)
Frac(us, sty) ==      \* 1: shortest (none when zero); 2: always six digits; 3: shortest but at least one digit; 4: nine digits
    LET six == Pad6(us)
        trimmed == [i \in 1..Len(StripTrail([j \in 1..6 |-> six[j] - 48])) |-> six[i]]
    IN CASE sty.frac = 1 -> (IF us = 0 THEN <<>> ELSE <<DOT>> \o trimmed)
         [] sty.frac = 2 -> <<DOT>> \o six
         [] sty.frac = 4 -> <<DOT>> \o six \o <<48, 48, 48>>       \* nine digits (any number of fraction digits is legal)
         [] OTHER -> <<DOT>> \o (IF us = 0 THEN <<48>> ELSE trimmed)
SpellTime(h, mi, s, us, sty) == Pad2(h) \o <<COLON>> \o Pad2(mi) \o <<COLON>> \o Pad2(s) \o Frac(us, sty)
SpellOffset(sgn, secs, sty) ==
    IF secs = 0 /\ sty.dt \in {1, 2} THEN (IF sty.dt = 1 THEN <<90>> ELSE <<122>>)
    ELSE <<IF sgn = 1 THEN MINUS ELSE PLUS>> \o Pad2(secs \div 3600) \o <<COLON>> \o Pad2((secs % 3600) \div 60)
SpellDt(v, sty) ==   \* v = <<14, y, m, d, h, mi, s, us, sgn, secs, zone>> ; dt style 2,4: lower-case t/z ; 5: no zone
    SpellDate(v[2], v[3], v[4]) \o <<IF sty.dt \in {2, 4} THEN 116 ELSE 84>> \o SpellTime(v[5], v[6], v[7], v[8], sty)
    \o SpellOffset(v[9], v[10], sty) \o (IF v[11] = <<>> \/ sty.dt = 5 THEN <<>> ELSE <<SP>> \o v[11])
DtDenotes(v, sty) == IF sty.dt = 5 THEN [v EXCEPT ![11] = <<>>] ELSE v
SpellDeg(sgn, mic, sty) ==
    LET ip == mic \div 1000000
        six == Pad6(mic % 1000000)
        trimmed == [i \in 1..Len(StripTrail([j \in 1..6 |-> six[j] - 48])) |-> six[i]]
    IN (IF sgn = 1 THEN <<MINUS>> ELSE <<>>)
       \o (CASE sty.coord = 1 -> NatCps(ip) \o <<DOT>> \o six
             [] sty.coord = 2 -> NatCps(ip) \o (IF trimmed = <<>> THEN <<>> ELSE <<DOT>> \o trimmed)
             [] OTHER -> (IF ip = 0 /\ trimmed # <<>> THEN <<>> ELSE NatCps(ip)) \o (IF trimmed = <<>> THEN <<>> ELSE <<DOT>> \o trimmed))
SpellCoord(v, sty) == <<67, LP>> \o SpellDeg(v[2], v[3], sty)
                      \o (IF sty.sep = 1 THEN <<COMMA>> ELSE IF sty.sep = 2 THEN <<COMMA, SP>> ELSE <<SP, COMMA, SP>>)
                      \o SpellDeg(v[4], v[5], sty) \o <<RP>>

(***************************************************************************)
(* Values, metadata, grids.                                                 *)
(***************************************************************************)
Sep(sty) == IF sty.sep = 1 THEN <<COMMA>> ELSE IF sty.sep = 2 THEN <<COMMA, SP>> ELSE <<SP, COMMA, SP>>
Nl(sty)  == IF sty.nl = 1 THEN <<NL>> ELSE <<CR, NL>>

RECURSIVE SpellVal(_, _, _), SpellGrid(_, _), SpellTags(_, _, _)
SpellTags(pairs, sty, pre3) ==     \* "k:v k2" ; a marker tag is bare (style 1) or written k:M
    Join([i \in 1..Len(pairs) |->
            IF pairs[i][2] = <<1>> /\ sty.mark = 1 THEN pairs[i][1]
            ELSE pairs[i][1] \o <<COLON>> \o SpellVal(pairs[i][2], sty, pre3)], <<SP>>)
SpellVal(v, sty, pre3) ==
    CASE v[1] = 0 -> cN [] v[1] = 1 -> cM [] v[1] = 2 -> cNA [] v[1] = 3 -> cR
      [] v[1] = 4 -> (IF v[2] = 1 THEN cT ELSE cF)
      [] v[1] = 5 -> SpellNum(v[2], sty)
      [] v[1] = 6 -> SpellNum(v[2], sty) \o v[3]
      [] v[1] = 7 -> SpellStr(v[2], sty)
      [] v[1] = 8 -> SpellUri(v[2], sty)
      [] v[1] = 9 -> (IF pre3 THEN cBin \o <<LP>> \o v[2] \o <<RP>> ELSE cBin \o <<LP>> \o SpellStr(v[2], sty) \o <<RP>>)
      [] v[1] = 10 -> <<ATc>> \o v[2] \o (IF v[3] = 1 THEN <<SP>> \o SpellStr(v[4], sty) ELSE <<>>)
      [] v[1] = 11 -> v[2] \o <<LP>> \o SpellStr(v[3], sty) \o <<RP>>
      [] v[1] = 12 -> SpellDate(v[2], v[3], v[4])
      [] v[1] = 13 -> SpellTime(v[2], v[3], v[4], v[5], sty)
      [] v[1] = 14 -> SpellDt(v, sty)
      [] v[1] = 15 -> SpellCoord(v, sty)
      [] v[1] = 16 -> (IF v[2] = <<>> THEN (IF sty.list = 1 THEN <<LB, RB>> ELSE <<LB, SP, RB>>)
                       ELSE (IF sty.list = 3 THEN <<LB, SP>> ELSE <<LB>>)
                            \o Join([i \in 1..Len(v[2]) |-> SpellVal(v[2][i], sty, pre3)], Sep(sty))
                            \o (IF sty.list = 2 THEN <<COMMA>> ELSE IF sty.list = 3 THEN <<SP>>
                                ELSE IF sty.list = 4 THEN <<SP, COMMA, SP>> ELSE <<>>) \o <<RB>>)
      [] v[1] = 17 -> <<LC>> \o (IF sty.list = 3 /\ v[2] # <<>> THEN <<SP>> ELSE <<>>)
                       \o SpellTags(v[2], sty, pre3)
                       \o (IF sty.list = 3 /\ v[2] # <<>> THEN <<SP>> ELSE <<>>) \o <<RC>>
      [] v[1] = 18 -> <<LTc, LTc>> \o (IF sty.ng = 2 THEN Nl(sty) ELSE <<>>)     \* ng 2: the grid starts on the next line
                      \o SpellGrid(v, [sty EXCEPT !.empty = 1]) \o <<GTc, GTc>>      \* (line ends as in the whole document)

\* the denotation of what SpellVal writes (only the zone-less date-time style changes it)
RECURSIVE Denotes(_, _)
Denotes(v, sty) ==
    CASE v[1] = 14 -> DtDenotes(v, sty)
      [] v[1] = 16 -> <<16, [i \in 1..Len(v[2]) |-> Denotes(v[2][i], sty)]>>
      [] v[1] = 17 -> <<17, [i \in 1..Len(v[2]) |-> <<v[2][i][1], Denotes(v[2][i][2], sty)>>]>>
      [] v[1] = 18 -> <<18, v[2], [i \in 1..Len(v[3]) |-> <<v[3][i][1], Denotes(v[3][i][2], sty)>>],
                        [c \in 1..Len(v[4]) |-> <<v[4][c][1], [i \in 1..Len(v[4][c][2]) |->
                                                   <<v[4][c][2][i][1], Denotes(v[4][c][2][i][2], sty)>>]>>],
                        [r \in 1..Len(v[5]) |-> [c \in 1..Len(v[5][r]) |-> Denotes(v[5][r][c], sty)]]>>
      [] OTHER -> v

Pre3Of(ver) == V!Valid(ver) /\ V!Lt(V!Nearest(V!Parse(ver)), V!V30)

SpellGrid(g, sty) ==     \* g = <<18, ver, meta, cols, rows>>
    LET p3 == Pre3Of(g[2])
        ncol == Len(g[4])
        Cell(v) == IF v = <<0>> /\ sty.empty = 2 /\ ncol > 1 THEN <<>> ELSE SpellVal(v, sty, p3)
    IN cVer \o <<COLON>> \o SpellStr(g[2], [sty EXCEPT !.esc = 1])
       \o (IF g[3] = <<>> THEN <<>> ELSE <<SP>> \o SpellTags(g[3], sty, p3)) \o Nl(sty)
       \o Join([c \in 1..ncol |-> g[4][c][1] \o (IF g[4][c][2] = <<>> THEN <<>> ELSE <<SP>> \o SpellTags(g[4][c][2], sty, p3))],
               Sep(sty)) \o Nl(sty)
       \o FoldLeft(LAMBDA acc, row : acc \o Join([c \in 1..ncol |-> Cell(row[c])], Sep(sty)) \o Nl(sty), <<>>, g[5])

\* a document: grids separated by sty.gap blank lines; the final newline may be dropped (sty.fin = 2)
SpellDoc(grids, sty) ==
    LET blank == FoldLeft(LAMBDA acc, k : acc \o Nl(sty), <<>>, [k \in 1..sty.gap |-> k])    \* CRLF documents have CRLF blank lines
        body == Join([i \in 1..Len(grids) |-> SpellGrid(grids[i], sty)], blank)
    IN IF sty.fin = 2 /\ body # <<>> /\ body[Len(body)] = NL
       THEN SubSeq(body, 1, Len(body) - (IF sty.nl = 2 THEN 2 ELSE 1)) ELSE body
DocDenotes(grids, sty) == [i \in 1..Len(grids) |-> Denotes(grids[i], sty)]

DefaultStyle == [num |-> 1, esc |-> 1, frac |-> 1, dt |-> 1, coord |-> 1, sep |-> 1, nl |-> 1, mark |-> 1,
                 list |-> 1, empty |-> 1, gap |-> 1, fin |-> 1, ng |-> 1]
StyleRanges == [num |-> 5, esc |-> 4, frac |-> 4, dt |-> 5, coord |-> 3, sep |-> 3, nl |-> 2, mark |-> 2,
                list |-> 4, empty |-> 2, gap |-> 3, fin |-> 2, ng |-> 2]
=============================================================================
