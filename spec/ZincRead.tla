------------------------------ MODULE ZincRead ------------------------------
(***************************************************************************)
(* A character-level reader machine for Project Haystack ZINC, written from *)
(* the ZINC grammar (2.0 and 3.0) -- not from hszinc's pyparsing code, with *)
(* which it shares nothing.  It is the independent oracle of C01, C03, C04, *)
(* C07, C08, C09:                                                           *)
(*     Step(st, cp)   one code point, total                                 *)
(*     ZRead(text, strict) == Finish(FoldLeft(Step, Init0(strict), text))   *)
(* A document is a behaviour of this machine; the result is either          *)
(* [ok |-> TRUE, grids |-> <<abstract grid, ...>>] or a rejection with a    *)
(* reason (why) and position.                                               *)
(*                                                                         *)
(* Abstract values are tuples of integers (first element = kind code), so   *)
(* that they travel through JSON unchanged and compare structurally:        *)
(*   <<0>> null  <<1>> marker  <<2>> na  <<3>> remove  <<4, b>> bool         *)
(*   <<5, dec>> number   <<6, dec, unit>> quantity                           *)
(*   <<7, text>> str  <<8, text>> uri  <<9, text>> bin                       *)
(*   <<10, name, hasDis, dis>> ref   <<11, type, text>> xstr                 *)
(*   <<12, y, m, d>> date   <<13, h, mi, s, us>> time                        *)
(*   <<14, y, m, d, h, mi, s, us, offSign, offSecs, zone>> date-time         *)
(*   <<15, latSign, latMicro, lngSign, lngMicro>> coordinate                 *)
(*   <<16, items>> list   <<17, pairs sorted by key>> dict                   *)
(*   <<18, ver, meta, cols, rows>> grid: meta = <<<<name, val>>...>>,         *)
(*        cols = <<<<name, meta>>...>>, rows = <<<<cell...>>...>>             *)
(* text = sequence of code points.  dec = normalised decimal                 *)
(*   <<sign, expSign, expAbs, d1, ..., dn>>: (-1)^sign * 0.d1..dn * 10^exp,   *)
(*   no leading/trailing zero digits (zero: no digits);                      *)
(*   <<9, 0>> +INF  <<9, 1>> -INF  <<9, 2>> NaN.                              *)
(***************************************************************************)
EXTENDS Naturals, Integers, Sequences, FiniteSets, SequencesExt, TLC

V == INSTANCE Version WITH CacheVersions <- {}, cacheN <- 0, cacheG <- 0, last <- 0

(***************************************************************************)
(* Code points and classes.                                                *)
(***************************************************************************)
NL == 10  CR == 13  SP == 32  DQ == 34  DOLLAR == 36  LP == 40  RP == 41  COMMA == 44
MINUS == 45  DOT == 46  COLON == 58  LTc == 60  GTc == 62  ATc == 64  LB == 91  BSL == 92
RB == 93  USC == 95  BT == 96  LC == 123  RC == 125  PLUS == 43

IsDigit(c)  == c \in 48..57
IsLower(c)  == c \in 97..122
IsUpper(c)  == c \in 65..90
IsAlpha(c)  == IsLower(c) \/ IsUpper(c)
IsAlnum(c)  == IsAlpha(c) \/ IsDigit(c)
IsIdChar(c) == IsAlnum(c) \/ c = USC
IsHex(c)    == IsDigit(c) \/ c \in 65..70 \/ c \in 97..102
HexVal(c)   == IF IsDigit(c) THEN c - 48 ELSE IF c \in 65..70 THEN c - 55 ELSE c - 87
IsRefChar(c) == IsAlnum(c) \/ c \in {USC, COLON, MINUS, DOT, 126}
IsUnitChar(c) == IsAlpha(c) \/ c \in {37, USC, 47, DOLLAR} \/ (c >= 128 /\ c < 65535)
IsBinChar(c) == (c >= 32 /\ c <= 39) \/ (c >= 42 /\ c <= 127)
IsTzChar(c) == IsAlnum(c) \/ c \in {USC, MINUS, PLUS}
\* characters that may continue a bare lexeme (number, date, time, date-time, keyword, unit)
IsTokChar(c) == IsAlnum(c) \/ c \in {USC, DOT, PLUS, MINUS, COLON, 37, 47, DOLLAR} \/ (c >= 128 /\ c < 65535)

S(str) == str     \* (documentation aid)
\* ASCII literals as code point sequences
cN == <<78>>  cNA == <<78, 65>>  cM == <<77>>  cR == <<82>>  cT == <<84>>  cF == <<70>>
cINF == <<73, 78, 70>>  cNINF == <<45, 73, 78, 70>>  cNaN == <<78, 97, 78>>
cC == <<67>>  cBin == <<66, 105, 110>>  cVer == <<118, 101, 114>>

(***************************************************************************)
(* Lexeme classification: number / date / time / date-time / keyword.       *)
(***************************************************************************)
RECURSIVE SpanDigitsU(_, _)      \* digits and '_' : end index (exclusive) of the run starting at i
SpanDigitsU(s, i) == IF i <= Len(s) /\ (IsDigit(s[i]) \/ s[i] = USC) THEN SpanDigitsU(s, i + 1) ELSE i
RECURSIVE SpanDigits(_, _)
SpanDigits(s, i) == IF i <= Len(s) /\ IsDigit(s[i]) THEN SpanDigits(s, i + 1) ELSE i
OnlyDigits(s) == SelectSeq(s, IsDigit)
AllP(s, P(_)) == \A i \in 1..Len(s) : P(s[i])

RECURSIVE ToNat(_)               \* small digit runs only (<= 9 digits)
ToNat(s) == IF s = <<>> THEN 0 ELSE ToNat(SubSeq(s, 1, Len(s) - 1)) * 10 + (s[Len(s)] - 48)

RECURSIVE StripLead(_)
StripLead(d) == IF d # <<>> /\ d[1] = 0 THEN StripLead(Tail(d)) ELSE d
RECURSIVE StripTrail(_)
StripTrail(d) == IF d # <<>> /\ d[Len(d)] = 0 THEN StripTrail(SubSeq(d, 1, Len(d) - 1)) ELSE d
LeadZeros(d) == Len(d) - Len(StripLead(d))

\* normalised decimal from sign, integer digits, fraction digits (digit VALUES 0..9), exponent
NormDec(sign, ip, fp, e) ==
    LET all  == ip \o fp
        lead == LeadZeros(all)
        dig  == StripTrail(StripLead(all))
        ex   == IF dig = <<>> THEN 0 ELSE Len(ip) - lead + e
    IN <<sign, IF ex < 0 THEN 1 ELSE 0, IF ex < 0 THEN 0 - ex ELSE ex>> \o dig
Vals(s) == [i \in 1..Len(s) |-> s[i] - 48]

\* number lexeme: -?digits(.digits)?([eE][+-]?digits)?unit?   digits := digit (digit | _)*
\* returns <<ok, dec, unit>>
SplitNumber(s) ==
    LET neg == Len(s) >= 1 /\ s[1] = MINUS
        i0  == IF neg THEN 2 ELSE 1
        ok0 == i0 <= Len(s) /\ IsDigit(s[i0])
        i1  == IF ok0 THEN SpanDigitsU(s, i0) ELSE i0
        hasF == ok0 /\ i1 + 1 <= Len(s) /\ s[i1] = DOT /\ IsDigit(s[i1 + 1])
        i2  == IF hasF THEN SpanDigitsU(s, i1 + 1) ELSE i1
        eSgn == i2 + 1 <= Len(s) /\ s[i2 + 1] \in {PLUS, MINUS}
        eDig == IF eSgn THEN i2 + 2 ELSE i2 + 1
        hasE == ok0 /\ i2 <= Len(s) /\ s[i2] \in {69, 101} /\ eDig <= Len(s) /\ IsDigit(s[eDig])
        i3  == IF hasE THEN SpanDigitsU(s, eDig) ELSE i2
        eAbsDigits == IF hasE THEN OnlyDigits(SubSeq(s, eDig, i3 - 1)) ELSE <<>>
        eOk == Len(StripLead(Vals(eAbsDigits))) <= 4
        eAbs == IF hasE /\ eOk THEN ToNat(eAbsDigits) ELSE 0
        e   == IF hasE /\ eSgn /\ s[i2 + 1] = MINUS THEN 0 - eAbs ELSE eAbs
        unit == SubSeq(s, i3, Len(s))
        ip  == Vals(OnlyDigits(SubSeq(s, i0, i1 - 1)))
        fp  == IF hasF THEN Vals(OnlyDigits(SubSeq(s, i1 + 1, i2 - 1))) ELSE <<>>
    IN IF ok0 /\ eOk /\ AllP(unit, IsUnitChar)
       THEN <<TRUE, NormDec(IF neg THEN 1 ELSE 0, ip, fp, e), unit>>
       ELSE <<FALSE, <<>>, <<>>>>

IsLeap(y) == (y % 4 = 0 /\ y % 100 # 0) \/ y % 400 = 0
DaysIn(y, m) == IF m \in {1, 3, 5, 7, 8, 10, 12} THEN 31 ELSE IF m = 2 THEN (IF IsLeap(y) THEN 29 ELSE 28) ELSE 30
Dig2(s, i) == (s[i] - 48) * 10 + (s[i + 1] - 48)
Dig4(s, i) == Dig2(s, i) * 100 + Dig2(s, i + 2)
DigitsAt(s, i, n) == i + n - 1 <= Len(s) /\ \A j \in i..(i + n - 1) : IsDigit(s[j])

\* YYYY-MM-DD at position i (10 chars)
DateShape(s, i) == DigitsAt(s, i, 4) /\ i + 9 <= Len(s) /\ s[i + 4] = MINUS /\ DigitsAt(s, i + 5, 2)
                   /\ s[i + 7] = MINUS /\ DigitsAt(s, i + 8, 2)
DateVal(s, i)   == <<Dig4(s, i), Dig2(s, i + 5), Dig2(s, i + 8)>>
DateValid(d)    == d[1] >= 1 /\ d[2] \in 1..12 /\ d[3] >= 1 /\ d[3] <= DaysIn(d[1], d[2])
\* hh:mm:ss[.f+] at position i ; returns end index (exclusive) or 0
TimeShape(s, i) == DigitsAt(s, i, 2) /\ i + 7 <= Len(s) /\ s[i + 2] = COLON /\ DigitsAt(s, i + 3, 2)
                   /\ s[i + 5] = COLON /\ DigitsAt(s, i + 6, 2)
TimeEnd(s, i)   == IF i + 8 <= Len(s) /\ s[i + 8] = DOT /\ i + 9 <= Len(s) /\ IsDigit(s[i + 9])
                   THEN SpanDigits(s, i + 9) ELSE i + 8
Micro(fr)       == LET f6 == SubSeq(fr \o <<48, 48, 48, 48, 48, 48>>, 1, 6) IN ToNat(f6)
TimeVal(s, i)   == LET e == TimeEnd(s, i)
                       fr == IF e > i + 8 THEN SubSeq(s, i + 9, e - 1) ELSE <<>>
                       \* digits beyond the sixth that are all zeros add nothing (any number of fraction digits is legal)
                       sig == IF Len(fr) > 6 /\ \A j \in 7..Len(fr) : fr[j] = 48 THEN 6 ELSE Len(fr)
                   IN <<Dig2(s, i), Dig2(s, i + 3), Dig2(s, i + 6), Micro(fr), sig>>
TimeValid(t)    == t[1] <= 23 /\ t[2] <= 59 /\ t[3] <= 59

\* classification result: <<class, value>> ; class in "val" | "dt" (date-time awaiting an optional
\* zone name) | "bad" (fits no scalar) | "sem" (well-shaped, calendar/range violation)
\*                 | "v3" (NA under a pre-3.0 version)
ClassifyTok(s, pre3, strict) ==
    IF s = cN THEN <<"val", <<0>>>>
    ELSE IF s = cNA THEN (IF pre3 THEN <<"v3", <<>>>> ELSE <<"val", <<2>>>>)
    ELSE IF s = cM THEN <<"val", <<1>>>>
    ELSE IF s = cR THEN <<"val", <<3>>>>
    ELSE IF s = cT THEN <<"val", <<4, 1>>>>
    ELSE IF s = cF THEN <<"val", <<4, 0>>>>
    ELSE IF s = cINF THEN <<"val", <<5, <<9, 0>>>>>>
    ELSE IF s = cNINF THEN <<"val", <<5, <<9, 1>>>>>>
    ELSE IF s = cNaN THEN <<"val", <<5, <<9, 2>>>>>>
    ELSE IF DateShape(s, 1) /\ Len(s) = 10 THEN
         (IF DateValid(DateVal(s, 1)) THEN <<"val", <<12>> \o DateVal(s, 1)>> ELSE <<"sem", <<>>>>)
    ELSE IF TimeShape(s, 1) /\ TimeEnd(s, 1) = Len(s) + 1 THEN
         LET t == TimeVal(s, 1)
         IN IF ~TimeValid(t) THEN <<"sem", <<>>>>
            ELSE IF t[5] > 6 THEN <<"sem", <<>>>>          \* more than microseconds: not representable
            ELSE <<"val", <<13, t[1], t[2], t[3], t[4]>>>>
    ELSE IF DateShape(s, 1) /\ Len(s) >= 19 /\ (s[11] = 84 \/ (~strict /\ s[11] = 116)) /\ TimeShape(s, 12) THEN
         LET d  == DateVal(s, 1)
             t  == TimeVal(s, 12)
             e  == TimeEnd(s, 12)
             isZ == e = Len(s) /\ (s[e] = 90 \/ (~strict /\ s[e] = 122))
             isO == e + 5 = Len(s) /\ s[e] \in {PLUS, MINUS} /\ DigitsAt(s, e + 1, 2) /\ s[e + 3] = COLON
                    /\ DigitsAt(s, e + 4, 2)
             offS == IF isO THEN Dig2(s, e + 1) * 3600 + Dig2(s, e + 4) * 60 ELSE 0
             sgn == IF isO /\ s[e] = MINUS /\ offS # 0 THEN 1 ELSE 0
         IN IF ~(isZ \/ isO) THEN <<"bad", <<>>>>
            ELSE IF ~DateValid(d) \/ ~TimeValid(t) \/ t[5] > 6 \/ (isO /\ (Dig2(s, e + 1) > 23 \/ Dig2(s, e + 4) > 59))
                 THEN <<"sem", <<>>>>
            ELSE <<"dt", <<14, d[1], d[2], d[3], t[1], t[2], t[3], t[4], sgn, offS>>>>
    ELSE LET n == SplitNumber(s)
         IN IF n[1] THEN (IF n[3] = <<>> THEN <<"val", <<5, n[2]>>>> ELSE <<"val", <<6, n[2], n[3]>>>>)
            ELSE <<"bad", <<>>>>


\* coordinate component: -?digits?(.digits)? -> <<ok, sign, microdegrees>>
CoordPart(s) ==
    LET neg == Len(s) >= 1 /\ s[1] = MINUS
        i0  == IF neg THEN 2 ELSE 1
        i1  == SpanDigits(s, i0)
        hasF == i1 <= Len(s) /\ s[i1] = DOT
        i2  == IF hasF THEN SpanDigits(s, i1 + 1) ELSE i1
        ip  == SubSeq(s, i0, i1 - 1)
        fp  == IF hasF THEN SubSeq(s, i1 + 1, i2 - 1) ELSE <<>>
        ipv == StripLead(Vals(ip))
        ok  == i2 = Len(s) + 1 /\ (ip # <<>> \/ fp # <<>>) /\ Len(ipv) <= 3
        f7  == SubSeq(fp \o <<48, 48, 48, 48, 48, 48, 48>>, 1, 7)
        ipn == IF ok THEN ToNat([k \in 1..Len(ipv) |-> ipv[k] + 48]) ELSE 0
        mic == ipn * 1000000 + ToNat(SubSeq(f7, 1, 6)) + (IF f7[7] >= 53 THEN 1 ELSE 0)
    IN <<ok, IF neg /\ ok /\ mic # 0 THEN 1 ELSE 0, IF ok THEN mic ELSE 0>>

SplitAt(s, c) == \* <<before first c, after it>> ; <<s, <<>>, FALSE>> when c does not occur
    IF \E i \in 1..Len(s) : s[i] = c
    THEN LET i == CHOOSE k \in 1..Len(s) : s[k] = c /\ \A j \in 1..(k - 1) : s[j] # c
         IN <<SubSeq(s, 1, i - 1), SubSeq(s, i + 1, Len(s)), TRUE>>
    ELSE <<s, <<>>, FALSE>>
RECURSIVE TrimL(_)
TrimL(s) == IF s # <<>> /\ s[1] = SP THEN TrimL(Tail(s)) ELSE s
RECURSIVE TrimR(_)
TrimR(s) == IF s # <<>> /\ s[Len(s)] = SP THEN TrimR(SubSeq(s, 1, Len(s) - 1)) ELSE s

\* lexicographic "less than" on code point sequences (dict keys are kept sorted)
SeqLess(x, y) == V!SeqCmp(x, y) < 0

\* hex / b64 payloads denote bytes; only the canonical spelling (lower-case hex of even length,
\* padded standard base64) is compared as text -- any other spelling is read but not judged (amb)
IsB64Char(c) == IsAlnum(c) \/ c \in {43, 47, 61}
CanonicalPayload(type, p) ==
    IF type = <<104, 101, 120>> THEN Len(p) % 2 = 0 /\ \A i \in 1..Len(p) : IsDigit(p[i]) \/ p[i] \in 97..102
    ELSE IF type = <<98, 54, 52>> THEN Len(p) % 4 = 0 /\ \A i \in 1..Len(p) : IsB64Char(p[i])
    ELSE TRUE

\* a date-time <<14, y, m, d, h, mi, s, us, offSign, offSecs, zone>> as an instant: <<days since 1970-01-01
\* (civil-from-days algorithm, proleptic Gregorian), second of day>> in UTC
DaysFromCivil(y0, m, d) ==
    LET y   == IF m <= 2 THEN y0 - 1 ELSE y0
        era == (IF y >= 0 THEN y ELSE y - 399) \div 400
        yoe == y - era * 400
        mp  == IF m > 2 THEN m - 3 ELSE m + 9
        doy == (153 * mp + 2) \div 5 + d - 1
        doe == yoe * 365 + yoe \div 4 - yoe \div 100 + doy
    IN era * 146097 + doe - 719468
InstantOf(v) ==
    LET off  == IF v[9] = 1 THEN 0 - v[10] ELSE v[10]
        secs == v[5] * 3600 + v[6] * 60 + v[7] - off
        days == DaysFromCivil(v[2], v[3], v[4])
        carry == IF secs < 0 THEN 0 - ((86399 - secs) \div 86400) ELSE secs \div 86400
    IN <<days + carry, secs - carry * 86400, v[8]>>

(***************************************************************************)
(* Machine state.                                                          *)
(***************************************************************************)
NoFrame == [t |-> "none", ph |-> "", ver |-> <<>>, pre3 |-> FALSE, meta |-> <<>>, cols |-> <<>>,
            rows |-> <<>>, cur |-> <<>>, key |-> <<>>, cname |-> <<>>, cmeta |-> <<>>]
DocFrame  == [NoFrame EXCEPT !.t = "doc"]
GridFrame == [NoFrame EXCEPT !.t = "grid", !.ph = "gmeta"]
ListFrame(p3) == [NoFrame EXCEPT !.t = "list", !.pre3 = p3]
DictFrame(p3) == [NoFrame EXCEPT !.t = "dict", !.pre3 = p3]

Init0(strict) ==
    [m |-> "docStart", stk |-> <<DocFrame>>, buf |-> <<>>, a1 |-> <<>>, sctx |-> "", ictx |-> "",
     n |-> 0, hx |-> 0, ok |-> TRUE, why |-> "", pos |-> 0, strict |-> strict, amb |-> FALSE,
     cr |-> FALSE, line |-> 1, col |-> 0]

Top(st)       == st.stk[Len(st.stk)]
SetTop(st, f) == [st EXCEPT !.stk = [st.stk EXCEPT ![Len(st.stk)] = f]]
Push(st, f)   == [st EXCEPT !.stk = Append(st.stk, f)]
Pop(st)       == [st EXCEPT !.stk = SubSeq(st.stk, 1, Len(st.stk) - 1)]
Mode(st, m)   == [st EXCEPT !.m = m]
Reject(st, why) == IF st.ok THEN [st EXCEPT !.ok = FALSE, !.why = why, !.m = "rej"] ELSE st
Pre3Now(st)   == Top(st).pre3

\* ordered metadata: replace in place, else append
ZHasKey(ps, k) == \E i \in 1..Len(ps) : ps[i][1] = k
PutPair(ps, k, v) ==
    IF \E i \in 1..Len(ps) : ps[i][1] = k
    THEN [i \in 1..Len(ps) |-> IF ps[i][1] = k THEN <<k, v>> ELSE ps[i]]
    ELSE Append(ps, <<k, v>>)
\* dict pairs: kept sorted by key, replace on duplicate
PutSorted(ps, k, v) ==
    IF \E i \in 1..Len(ps) : ps[i][1] = k
    THEN [i \in 1..Len(ps) |-> IF ps[i][1] = k THEN <<k, v>> ELSE ps[i]]
    ELSE LET lo == SelectSeq(ps, LAMBDA p : SeqLess(p[1], k))
             hi == SelectSeq(ps, LAMBDA p : ~SeqLess(p[1], k))
         IN lo \o <<<<k, v>>>> \o hi

\* a completed value goes to the top frame
Deliver(st, v) ==
    LET f == Top(st)
        \* a tag name given twice in one metadata list / dict, or a second `ver' after the header: what the text
        \* denotes is not defined (the last one wins here); read, not judged
        dup == \/ f.t = "grid" /\ f.ph = "gmeta" /\ (ZHasKey(f.meta, f.key) \/ f.key = cVer)
               \/ f.t = "grid" /\ f.ph = "cols" /\ ZHasKey(f.cmeta, f.key)
               \/ f.t = "dict" /\ ZHasKey(f.meta, f.key)
        s1  == [st EXCEPT !.amb = st.amb \/ dup]
    IN CASE f.t = "grid" /\ f.ph = "gmeta" -> Mode(SetTop(s1, [f EXCEPT !.meta = PutPair(f.meta, f.key, v)]), "afterVal")
         [] f.t = "grid" /\ f.ph = "cols"  -> Mode(SetTop(s1, [f EXCEPT !.cmeta = PutPair(f.cmeta, f.key, v)]), "afterVal")
         [] f.t = "grid" /\ f.ph = "rows"  -> Mode(SetTop(st, [f EXCEPT !.cur = Append(f.cur, v)]), "afterVal")
         [] f.t = "list" -> Mode(SetTop(st, [f EXCEPT !.cur = Append(f.cur, v)]), "afterVal")
         [] f.t = "dict" -> Mode(SetTop(s1, [f EXCEPT !.meta = PutSorted(f.meta, f.key, v)]), "afterVal")
         [] OTHER -> Reject(st, "internal_deliver")

GridValue(f) == <<18, f.ver, f.meta, f.cols, f.rows>>

\* end of a header/column/row line
PushCol(f) == [f EXCEPT !.cols = Append(f.cols, <<f.cname, f.cmeta>>), !.cname = <<>>, !.cmeta = <<>>]
DupCol(f)  == \E i \in 1..Len(f.cols) : f.cols[i][1] = f.cname
EndLine(st) ==
    LET f == Top(st)
    IN CASE f.t = "grid" /\ f.ph = "gmeta" -> Mode(SetTop(st, [f EXCEPT !.ph = "cols"]), "colStart")
         [] f.t = "grid" /\ f.ph = "cols" ->
              IF DupCol(f) THEN Reject(st, "semantic_dup_col")
              ELSE Mode(SetTop(st, [PushCol(f) EXCEPT !.ph = "rows"]), "rowStart")
         [] f.t = "grid" /\ f.ph = "rows" ->
              IF Len(f.cur) # Len(f.cols) THEN Reject(st, "cell_count")
              ELSE Mode(SetTop(st, [f EXCEPT !.rows = Append(f.rows, f.cur), !.cur = <<>>]), "rowStart")
         [] OTHER -> Reject(st, "unbalanced_bracket")      \* a line ends inside a list or dict

\* close the innermost grid: top-level -> document; nested -> value of the enclosing frame
CloseTopGrid(st) ==
    LET f == Top(st)
        below == Pop(st)
        d == Top(below)
    IN IF d.t = "doc"
       THEN Mode(SetTop(below, [d EXCEPT !.rows = Append(d.rows, GridValue(f))]), "docGap")
       ELSE Reject(st, "unbalanced_bracket")

RECURSIVE Step(_, _)

\* what may follow a complete value, by enclosing frame
AfterVal(st, c) ==
    LET f == Top(st)
    IN CASE f.t = "grid" /\ f.ph = "gmeta" ->
              (IF c = SP THEN Mode(st, "metaStart") ELSE IF c = NL THEN EndLine(st) ELSE Reject(st, "bad_token"))
         [] f.t = "grid" /\ f.ph = "cols" ->
              (IF c = SP THEN Mode(st, "cmetaStart")
               ELSE IF c = COMMA THEN (IF DupCol(f) THEN Reject(st, "semantic_dup_col")
                                       ELSE Mode(SetTop(st, PushCol(f)), "colStart"))
               ELSE IF c = NL THEN EndLine(st) ELSE Reject(st, "bad_token"))
         [] f.t = "grid" /\ f.ph = "rows" ->
              (IF c = COMMA THEN Mode(st, "cellStart")
               ELSE IF c = NL THEN EndLine(st)
               ELSE IF c = SP /\ ~st.strict THEN Mode(st, "cellSp")
               ELSE IF c \in {RB, RC} \/ c = GTc THEN Reject(st, "unbalanced_bracket")
               ELSE Reject(st, "bad_token"))
         [] f.t = "list" ->
              (IF c = COMMA THEN Mode(st, "listNext")
               ELSE IF c = RB THEN Deliver(Pop(st), <<16, f.cur>>)
               ELSE IF c = SP /\ ~st.strict THEN Mode(st, "listSp")
               ELSE IF c = NL \/ c = RC THEN Reject(st, "unbalanced_bracket")
               ELSE Reject(st, "bad_token"))
         [] f.t = "dict" ->
              (IF c = SP THEN Mode(st, "dictNext")
               ELSE IF c = RC THEN Deliver(Pop(st), <<17, f.meta>>)
               ELSE IF c = NL \/ c = RB THEN Reject(st, "unbalanced_bracket")
               ELSE Reject(st, "bad_token"))
         [] OTHER -> Reject(st, "internal_afterval")

\* start of a value
ValStart(st, c) ==
    LET p3 == Pre3Now(st)
    IN IF c = DQ THEN [Mode(st, "str") EXCEPT !.buf = <<>>, !.sctx = "val"]
       ELSE IF c = BT THEN [Mode(st, "uri") EXCEPT !.buf = <<>>]
       ELSE IF c = ATc THEN [Mode(st, "ref") EXCEPT !.buf = <<>>]
       ELSE IF c = LB THEN (IF p3 THEN Reject(st, "v3_construct_under_v2") ELSE Mode(Push(st, ListFrame(p3)), "listStart"))
       ELSE IF c = LC THEN (IF p3 THEN Reject(st, "v3_construct_under_v2") ELSE Mode(Push(st, DictFrame(p3)), "dictNext"))
       ELSE IF c = LTc THEN (IF p3 THEN Reject(st, "v3_construct_under_v2") ELSE Mode(st, "lt2"))
       ELSE IF IsDigit(c) \/ c = MINUS \/ IsAlpha(c) THEN [Mode(st, "tok") EXCEPT !.buf = <<c>>]
       ELSE IF c \in {RB, RC, GTc} THEN Reject(st, "unbalanced_bracket")
       ELSE Reject(st, "bad_token")

IdStart(st, c, ctx) ==
    IF IsLower(c) THEN [Mode(st, "id") EXCEPT !.buf = <<c>>, !.ictx = ctx]
    ELSE IF IsAlnum(c) \/ c = USC THEN Reject(st, "illegal_tag_name")
    ELSE Reject(st, "bad_token")

\* a bare lexeme ended at delimiter c
EndTok(st, c) ==
    LET k == ClassifyTok(st.buf, Pre3Now(st), st.strict)
    IN CASE k[1] = "val" -> AfterVal(Deliver(st, k[2]), c)
         [] k[1] = "dt"  -> IF c = SP THEN [Mode(st, "dtSp") EXCEPT !.a1 = k[2]]
                            ELSE IF st.strict THEN Reject(st, "not_strict_no_zone")
                            ELSE AfterVal(Deliver(st, k[2] \o <<<<>>>>), c)
         [] k[1] = "v3"  -> Reject(st, "v3_construct_under_v2")
         [] k[1] = "sem" -> Reject(st, "semantic")
         [] OTHER        -> Reject(st, "bad_token")

StrDone(st) ==     \* closing quote of a string, by context
    CASE st.sctx = "val"  -> Deliver(st, <<7, st.buf>>)
      [] st.sctx = "ver"  ->
           LET f == Top(st)
           IN IF ~V!Valid(st.buf) THEN Reject(st, "bad_version_header")
              ELSE Mode(SetTop(st, [f EXCEPT !.ver = st.buf,
                                     !.pre3 = V!Lt(V!Nearest(V!Parse(st.buf)), V!V30)]), "afterVal")
      [] st.sctx = "dis"  -> Deliver(st, <<10, st.a1, 1, st.buf>>)
      [] st.sctx = "xstr" -> Mode(st, "xstrClose")
      [] OTHER -> Reject(st, "internal_str")

EscChar(c) == CASE c = 98 -> 8 [] c = 102 -> 12 [] c = 110 -> 10 [] c = 114 -> 13 [] c = 116 -> 9 [] OTHER -> c

Step(st, c0) ==
  IF ~st.ok THEN st ELSE
  LET s0 == [st EXCEPT !.pos = st.pos + 1,
                       !.line = IF c0 = NL THEN st.line + 1 ELSE st.line,
                       !.col = IF c0 = NL THEN 0 ELSE st.col + 1]
  IN
  IF s0.cr THEN (IF c0 = NL THEN Step([s0 EXCEPT !.cr = FALSE, !.pos = st.pos, !.line = st.line, !.col = st.col], NL)
                 ELSE Reject(s0, "bad_token"))
  ELSE IF c0 = CR /\ s0.m \notin {"str", "strEsc", "strHex", "uri", "uriEsc", "uriHex", "bin", "coord"} THEN
       (IF s0.strict THEN Reject(s0, "not_strict_crlf") ELSE [s0 EXCEPT !.cr = TRUE])
  ELSE
  LET s == s0  c == c0  m == s0.m IN
  CASE m = "docStart" \/ m = "docGap" ->
         IF c = 118 THEN [Mode(Push(s, GridFrame), "verLit") EXCEPT !.n = 1]
         ELSE IF c = NL /\ (m = "docGap" \/ ~s.strict) THEN s      \* blank lines between (liberal: before) grids
         ELSE Reject(s, "bad_version_header")        \* every grid starts with ver:"..."
    [] m = "gridStart" ->       \* first character of a nested grid (liberal: blanks after "<<")
         IF c = 118 THEN [Mode(s, "verLit") EXCEPT !.n = 1]
         ELSE IF c = SP /\ ~s.strict THEN s
         ELSE IF c \in {NL, CR} THEN s            \* the grid may start on the line after "<<" (the specification's form)
         ELSE Reject(s, "bad_version_header")
    [] m = "verLit" ->          \* "ver:" then the version string
         IF s.n < 4 THEN (IF c = <<118, 101, 114, 58>>[s.n + 1] THEN [s EXCEPT !.n = s.n + 1]
                          ELSE Reject(s, "bad_version_header"))
         ELSE IF c = DQ THEN [Mode(s, "str") EXCEPT !.buf = <<>>, !.sctx = "ver"]
         ELSE Reject(s, "bad_version_header")
    [] m = "str" ->
         IF c = DQ THEN StrDone(s)
         ELSE IF c = BSL THEN Mode(s, "strEsc")
         ELSE IF c < 32 THEN Reject(s, IF s.sctx = "ver" THEN "bad_version_header" ELSE "raw_control_char")
         ELSE [s EXCEPT !.buf = Append(s.buf, c)]
    [] m = "strEsc" ->
         IF c \in {98, 102, 110, 114, 116, BSL, DQ, DOLLAR} THEN [Mode(s, "str") EXCEPT !.buf = Append(s.buf, EscChar(c))]
         ELSE IF c = 117 \/ (c = 85 /\ ~s.strict) THEN [Mode(s, "strHex") EXCEPT !.n = 0, !.hx = 0]
         ELSE Reject(s, IF s.sctx = "ver" THEN "bad_version_header" ELSE "illegal_escape")
    [] m = "strHex" ->
         IF IsHex(c) THEN (IF s.n = 3 THEN [Mode(s, "str") EXCEPT !.buf = Append(s.buf, s.hx * 16 + HexVal(c))]
                           ELSE [s EXCEPT !.n = s.n + 1, !.hx = s.hx * 16 + HexVal(c)])
         ELSE Reject(s, IF s.sctx = "ver" THEN "bad_version_header" ELSE "illegal_escape")
    [] m = "uri" ->
         IF c = BT THEN Deliver(s, <<8, s.buf>>)
         ELSE IF c = BSL THEN Mode(s, "uriEsc")
         ELSE IF c < 32 THEN Reject(s, "raw_control_char")
         ELSE [s EXCEPT !.buf = Append(s.buf, c)]
    [] m = "uriEsc" ->
         IF c \in {BSL, BT} THEN [Mode(s, "uri") EXCEPT !.buf = Append(s.buf, c)]
         \* \b \f \n \r \t are string escapes; the grammar gives a URI none of them (liberal readers take them)
         ELSE IF c \in {98, 102, 110, 114, 116} /\ ~s.strict
              THEN [Mode(s, "uri") EXCEPT !.buf = Append(s.buf, EscChar(c))]
         ELSE IF c \in {58, 47, 63, 35, 91, 93, 64, 38, 61, 59} THEN
              \* \: \/ \? \# \[ \] \@ \& \= \; -- legal, but whether the backslash stays in the value is
              \* read differently by different Haystack implementations: denotation not judged (amb)
              [Mode(s, "uri") EXCEPT !.buf = Append(s.buf, c), !.amb = TRUE]
         ELSE IF c = 117 \/ (c = 85 /\ ~s.strict) THEN [Mode(s, "uriHex") EXCEPT !.n = 0, !.hx = 0]
         ELSE Reject(s, "illegal_escape")
    [] m = "uriHex" ->
         IF IsHex(c) THEN (IF s.n = 3 THEN [Mode(s, "uri") EXCEPT !.buf = Append(s.buf, s.hx * 16 + HexVal(c))]
                           ELSE [s EXCEPT !.n = s.n + 1, !.hx = s.hx * 16 + HexVal(c)])
         ELSE Reject(s, "illegal_escape")
    [] m = "ref" ->
         IF IsRefChar(c) THEN [s EXCEPT !.buf = Append(s.buf, c)]
         ELSE IF c = SP THEN [Mode(s, "refSp") EXCEPT !.a1 = s.buf]
         ELSE AfterVal(Deliver(s, <<10, s.buf, 0, <<>>>>), c)
    [] m = "refSp" ->
         IF c = DQ THEN [Mode(s, "str") EXCEPT !.buf = <<>>, !.sctx = "dis"]
         ELSE Step([AfterVal(Deliver(s, <<10, s.a1, 0, <<>>>>), SP) EXCEPT !.pos = st.pos, !.line = st.line, !.col = st.col], c)
    [] m = "tok" ->
         IF c = LP THEN
              (IF s.buf = cC THEN [Mode(s, "coord") EXCEPT !.buf = <<>>]
               ELSE IF s.buf = cBin THEN Mode(s, "binOrX")
               ELSE IF AllP(s.buf, IsIdChar) THEN      \* the grammar wants an upper-case initial; hszinc's hex(..) / b64(..)
                                                        \* are pinned by the repository's dumper tests and accepted here
                    (IF Pre3Now(s) THEN Reject(s, "v3_construct_under_v2") ELSE [Mode(s, "xstrOpen") EXCEPT !.a1 = s.buf])
               ELSE Reject(s, "bad_token"))
         ELSE IF IsTokChar(c) THEN [s EXCEPT !.buf = Append(s.buf, c)]
         ELSE EndTok(s, c)
    [] m = "dtSp" ->
         IF IsUpper(c) THEN [Mode(s, "tz") EXCEPT !.buf = <<c>>]
         ELSE IF s.strict THEN Reject(s, "not_strict_no_zone")
         ELSE Step([AfterVal(Deliver(s, s.a1 \o <<<<>>>>), SP) EXCEPT !.pos = st.pos, !.line = st.line, !.col = st.col], c)
    [] m = "tz" ->
         IF IsTzChar(c) THEN [s EXCEPT !.buf = Append(s.buf, c)]
         ELSE AfterVal(Deliver(s, s.a1 \o <<s.buf>>), c)
    [] m = "coord" ->
         IF c = RP THEN
              LET parts == SplitAt(s.buf, COMMA)
                  la == CoordPart(IF s.strict THEN parts[1] ELSE TrimR(parts[1]))
                  lo == CoordPart(IF s.strict THEN parts[2] ELSE TrimL(parts[2]))
              IN IF ~parts[3] \/ ~la[1] \/ ~lo[1] THEN Reject(s, "bad_token")
                 ELSE IF la[3] > 90000000 \/ lo[3] > 180000000 THEN Reject(s, "semantic")
                 ELSE Deliver(s, <<15, la[2], la[3], lo[2], lo[3]>>)
         ELSE IF IsDigit(c) \/ c \in {DOT, MINUS, COMMA, SP} THEN [s EXCEPT !.buf = Append(s.buf, c)]
         ELSE Reject(s, "bad_token")
    [] m = "binOrX" ->          \* after "Bin(" : a quote starts the 3.0 spelling Bin("mime")
         IF c = DQ /\ ~Pre3Now(s) THEN [Mode(s, "str") EXCEPT !.buf = <<>>, !.sctx = "xstr", !.a1 = cBin]
         ELSE IF ~Pre3Now(s) THEN Reject(s, "bin_raw_under_v3")
         ELSE IF c = RP THEN Deliver(s, <<9, <<>>>>)
         ELSE IF IsBinChar(c) THEN [Mode(s, "bin") EXCEPT !.buf = <<c>>]
         ELSE Reject(s, "bad_token")
    [] m = "bin" ->
         IF c = RP THEN Deliver(s, <<9, s.buf>>)
         ELSE IF IsBinChar(c) THEN [s EXCEPT !.buf = Append(s.buf, c)]
         ELSE Reject(s, "bad_token")
    [] m = "xstrOpen" ->
         IF c = DQ THEN [Mode(s, "str") EXCEPT !.buf = <<>>, !.sctx = "xstr"] ELSE Reject(s, "bad_token")
    [] m = "xstrClose" ->
         IF c = RP THEN (IF s.a1 = cBin THEN Deliver(s, <<9, s.buf>>)       \* 3.0 spelling of a Bin
                         ELSE Deliver([s EXCEPT !.amb = s.amb \/ ~CanonicalPayload(s.a1, s.buf)], <<11, s.a1, s.buf>>))
         ELSE Reject(s, "bad_token")
    [] m = "afterVal" -> AfterVal(s, c)
    [] m = "metaStart" ->       \* after the blank that follows the version / a grid-meta item
         IF c = SP /\ ~s.strict THEN s
         ELSE IF c = NL /\ ~s.strict THEN EndLine(s)
         ELSE IdStart(s, c, "tag")
    [] m = "cmetaStart" ->      \* after the blank that follows a column name / column-meta item
         IF c = SP /\ ~s.strict THEN s
         ELSE IF c = COMMA /\ ~s.strict THEN AfterVal(s, COMMA)
         ELSE IF c = NL /\ ~s.strict THEN EndLine(s)
         ELSE IdStart(s, c, "tag")
    [] m = "colStart" ->
         IF c = SP /\ ~s.strict THEN s ELSE IdStart(s, c, "col")
    [] m = "id" ->
         IF IsIdChar(c) THEN [s EXCEPT !.buf = Append(s.buf, c)]
         ELSE IF s.ictx = "col" THEN
              LET f == Top(s) IN AfterVal(SetTop(s, [f EXCEPT !.cname = s.buf, !.cmeta = <<>>]), c)
         ELSE LET f == Top(s)
                  s1 == SetTop(s, [f EXCEPT !.key = s.buf])
              IN IF c = COLON THEN Mode(s1, "valStart")
                 ELSE AfterVal(Deliver(s1, <<1>>), c)                     \* marker tag
    [] m = "valStart" -> ValStart(s, c)
    [] m = "rowStart" ->
         LET f == Top(s)
             nested == Len(s.stk) > 2
         IN IF c = GTc /\ nested THEN Mode(s, "gt2")
            ELSE IF c = NL /\ ~nested THEN CloseTopGrid(s)
            ELSE IF c = COMMA THEN Mode(Deliver(s, <<0>>), "cellStart")
            ELSE IF c = NL THEN Reject(s, "cell_count")
            ELSE IF c = SP /\ ~s.strict THEN Mode(s, IF nested THEN "rowStartSp" ELSE "cellStart")
            ELSE ValStart(s, c)
    [] m = "rowStartSp" ->      \* blanks at the start of a line inside a nested grid: " >>" closes it (liberal)
         IF c = SP THEN s
         ELSE IF c = GTc THEN Mode(s, "gt2")
         ELSE Step([Mode(s, "cellStart") EXCEPT !.pos = st.pos, !.line = st.line, !.col = st.col], c)
    [] m = "cellStart" ->       \* after a comma in a row
         IF c = COMMA THEN Mode(Deliver(s, <<0>>), "cellStart")
         ELSE IF c = NL THEN EndLine(Deliver(s, <<0>>))
         ELSE IF c = SP /\ ~s.strict THEN s
         ELSE ValStart(s, c)
    [] m = "cellSp" ->          \* blanks after a cell value
         IF c = SP THEN s ELSE IF c \in {COMMA, NL} THEN AfterVal(s, c) ELSE Reject(s, "bad_token")
    [] m = "listStart" ->
         IF c = RB THEN Deliver(Pop(s), <<16, <<>>>>)
         ELSE IF c = SP /\ ~s.strict THEN s
         ELSE IF c = NL THEN Reject(s, "unbalanced_bracket")
         ELSE ValStart(s, c)
    [] m = "listNext" ->        \* after a comma in a list
         IF c = RB /\ ~s.strict THEN Deliver(Pop(s), <<16, Top(s).cur>>)
         ELSE IF c = SP /\ ~s.strict THEN s
         ELSE IF c = NL THEN Reject(s, "unbalanced_bracket")
         ELSE ValStart(s, c)
    [] m = "listSp" ->
         IF c = SP THEN s ELSE IF c \in {COMMA, RB} THEN AfterVal(s, c)
         ELSE IF c = NL THEN Reject(s, "unbalanced_bracket") ELSE Reject(s, "bad_token")
    [] m = "dictNext" ->
         IF c = RC THEN Deliver(Pop(s), <<17, Top(s).meta>>)
         ELSE IF c = SP /\ ~s.strict THEN s
         ELSE IF c = NL THEN Reject(s, "unbalanced_bracket")
         ELSE IdStart(s, c, "tag")
    [] m = "lt2" ->
         IF c = LTc THEN Mode(Push(s, GridFrame), "gridStart") ELSE Reject(s, "bad_token")
    [] m = "gt2" ->
         IF c = GTc THEN LET f == Top(s) IN Deliver(Pop(s), GridValue(f)) ELSE Reject(s, "unbalanced_bracket")
    [] OTHER -> Reject(s, "internal_mode")

(***************************************************************************)
(* End of input.                                                           *)
(***************************************************************************)
OpenBrackets(st) == \E i \in 1..Len(st.stk) : st.stk[i].t \in {"list", "dict"} \/ (i > 2 /\ st.stk[i].t = "grid")

Finish(st) ==
    IF ~st.ok THEN st
    ELSE IF st.cr THEN Reject(st, "truncated")            \* a lone CR at the end of the text
    ELSE IF st.m \in {"docStart", "docGap"} THEN st
    ELSE IF st.m \in {"str", "strEsc", "strHex", "uri", "uriEsc", "uriHex"} THEN Reject(st, "unterminated_text")
    ELSE IF OpenBrackets(st) THEN Reject(st, "unbalanced_bracket")
    ELSE IF st.m = "rowStart" THEN CloseTopGrid(st)
    ELSE IF st.m \in {"verLit", "gridStart"} THEN Reject(st, "bad_version_header")
    ELSE IF st.strict THEN Reject(st, "not_strict_no_final_newline")
    ELSE LET s2 == Step(st, NL)           \* liberal: the final newline may be missing
         IN IF ~s2.ok THEN s2
            ELSE IF s2.m = "rowStart" THEN CloseTopGrid(s2)
            ELSE IF s2.m = "colStart" THEN Reject(s2, "semantic_no_columns")
            ELSE Reject(s2, "truncated")

Grids(st) == st.stk[1].rows
ZRead(text, strict) == Finish(FoldLeft(Step, Init0(strict), text))
Result(st) == IF st.ok THEN [ok |-> TRUE, grids |-> Grids(st), amb |-> st.amb]
              ELSE [ok |-> FALSE, why |-> st.why, pos |-> st.pos, line |-> st.line, col |-> st.col]

\* reasons for which a text is *structurally* broken (C09: hszinc must reject these)
Structural == {"bad_version_header", "illegal_tag_name", "unterminated_text", "illegal_escape",
               "raw_control_char", "unbalanced_bracket", "v3_construct_under_v2"}
=============================================================================
