SPECIFICATION TSpec
CONSTANTS
  DictRows <- TDictRows
  NonDict <- TNonDict
  Only3Rows <- TOnly3
  IdOf <- FIdOf
  Versions = {"2.0", "3.0"}
  Pre3Versions = {"2.0"}
  V2 = "2.0"
  V3 = "3.0"
  MaxLen = 99
  IdxArgs = {0}
  NoArg = 99
  Park = TRUE
VIEW TView
CHECK_DEADLOCK FALSE
