-------------------------------- MODULE Codec --------------------------------
(***************************************************************************)
(* The codec as a store machine (C07): registers hold grids or texts;       *)
(* actions  ParseZ, ParseJ, DumpZ, DumpJ  move values between them.          *)
(* Abstract domain: a grid value is an element of Values; JSON keeps six     *)
(* decimals, modelled by an idempotent quantiser Q6 on Values; a text is     *)
(* <<format, value it denotes>> -- a dumper is a function of the grid        *)
(* value (Deterministic), does not touch its source (Pure), and a reader     *)
(* returns the denoted value.  What is checked here is that these four       *)
(* local rules imply the end-to-end claims of the property for every         *)
(* sequence of operations: Lossless (ZINC->JSON->ZINC ... up to Q6),         *)
(* Idempotent normalisation, and that a grid's history only ever coarsens    *)
(* it once (Q6 is idempotent).  Trace_Codec.tla replays real executions.     *)
(***************************************************************************)
EXTENDS Naturals, Sequences, FiniteSets, TLC

CONSTANTS Regs, Values, Q6(_), MaxSteps

VARIABLES reg,      \* register -> [t |-> "empty"] | [t |-> "grid", v, origin, viaJson] | [t |-> "text", fmt, v, origin, viaJson]
          steps, last

vars == <<reg, steps, last>>

Empty == [t |-> "empty"]
Grid(v, o, j) == [t |-> "grid", v |-> v, origin |-> o, viaJson |-> j]
Text(f, v, o, j) == [t |-> "text", fmt |-> f, v |-> v, origin |-> o, viaJson |-> j]

Init == /\ \E v \in Values : \E r0 \in Regs :
             reg = [r \in Regs |-> IF r = r0 THEN Grid(v, v, FALSE) ELSE Empty]
        /\ steps = 0
        /\ last = <<"init">>

DumpZ(i, j) == /\ reg[i].t = "grid" /\ i # j
               /\ reg' = [reg EXCEPT ![j] = Text("zinc", reg[i].v, reg[i].origin, reg[i].viaJson)]
               /\ last' = <<"DumpZ", i, j>>
DumpJ(i, j) == /\ reg[i].t = "grid" /\ i # j
               /\ reg' = [reg EXCEPT ![j] = Text("json", Q6(reg[i].v), reg[i].origin, TRUE)]
               /\ last' = <<"DumpJ", i, j>>
Parse(i, j) == /\ reg[i].t = "text" /\ i # j
               /\ reg' = [reg EXCEPT ![j] = Grid(reg[i].v, reg[i].origin, reg[i].viaJson)]
               /\ last' = <<"Parse", i, j>>

Next == /\ steps < MaxSteps
        /\ steps' = steps + 1
        /\ \E i, j \in Regs : DumpZ(i, j) \/ DumpJ(i, j) \/ Parse(i, j)
Spec == Init /\ [][Next]_vars

\* --- properties -----------------------------------------------------------
\* Lossless: whatever the path, a value is the original, or its six-decimal form once JSON was on the path
Lossless == \A r \in Regs : reg[r].t # "empty" =>
                reg[r].v = (IF reg[r].viaJson THEN Q6(reg[r].origin) ELSE reg[r].origin)
\* Pure: a dump never changes its source register
Pure == [][\A i \in Regs : last'[1] \in {"DumpZ", "DumpJ"} /\ last'[2] = i => reg'[i] = reg[i]]_vars
\* Deterministic / Idempotent: two texts of one format denoting (after Q6 for JSON) the same grid are the same text
Deterministic == \A a, b \in Regs : (reg[a].t = "text" /\ reg[b].t = "text" /\ reg[a].fmt = reg[b].fmt
                                      /\ reg[a].origin = reg[b].origin /\ reg[a].viaJson = reg[b].viaJson)
                                     => reg[a] = reg[b]
Q6Idempotent == \A v \in Values : Q6(Q6(v)) = Q6(v)
ASSUME Q6Idempotent
=============================================================================
