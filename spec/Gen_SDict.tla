----------------------------- MODULE Gen_SDict -----------------------------
(* Edge generator: every transition TLC explores is printed once as JSON.   *)
EXTENDS SDict, Json
EmitJ == PrintT(ToJson([o |-> order, v |-> [k \in DOMAIN vals |-> <<k, vals[k]>>],
                        op |-> op', r |-> res',
                        o2 |-> order', v2 |-> [k \in DOMAIN vals' |-> <<k, vals'[k]>>]]))
=============================================================================
