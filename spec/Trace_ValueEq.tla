--------------------------- MODULE Trace_ValueEq ---------------------------
(***************************************************************************)
(* Judges observations recorded from the real hszinc classes against the   *)
(* decision table of ValueEq.  One file = [cat, sub, rel, traces]:          *)
(*   cat     the abstract records of the concrete catalogue (projection)   *)
(*   traces  each [m, evs, ...]:                                           *)
(*     m = "pair": i, evs[j] = [j, eq, ne, req, rne, hi, hj, heq, same]    *)
(*                 (`a == b`, `a != b` as "T"/"F"/exception class, the same *)
(*                 for the swapped operands, hashability, hash equality,   *)
(*                 `a is b`) -- one event per ordered pair                  *)
(*     m = "sing": evs = [k, copy_is, deep_is] (copy/deepcopy identity)     *)
(*     m = "tri":  a, evs = [b]: transitivity over rel, the logged `==`     *)
(*                 relation of the catalogue positions sub[1..]            *)
(*     m = "grid": evs = [g, h, eq, req, ne, rne] abstract grids (or a      *)
(*                 non-grid right operand) and the real outcomes           *)
(* Every event is judged (a rejected event does not stop the trace): each  *)
(* failing clause prints one REJECT line; the trace ends with ACCEPT (no   *)
(* rejection) or DONE (number of rejected events), followed by the counts  *)
(* of what was judged (expected T / F / TypeError / either, hash premises). *)
(***************************************************************************)
EXTENDS ValueEq, Json, IOUtils

VARIABLES tid, l, tr, cat, sub, rel, nrej,
          cnt    \* what was judged (vacuity): <<expected T, F, TypeError, either, hash antecedents>>
tvars == <<pi, pj, g, h, mut, tid, l, tr, cat, sub, rel, nrej, cnt>>

TCat == <<>>
TCells == <<>>
TBase == {}

TInit == \E f \in {JsonDeserialize(IOEnv.TRACE_FILE)} :
         /\ tid \in 1..Len(f.traces)
         /\ tr = f.traces[tid]
         /\ cat = f.cat /\ sub = f.sub /\ rel = f.rel
         /\ l = 1 /\ nrej = 0 /\ cnt = <<0, 0, 0, 0, 0>>
         /\ pi = 1 /\ pj = 1 /\ g = NoGrid /\ h = NoGrid /\ mut = Identity

Bump(E, hashJudged) ==
    cnt' = [cnt EXCEPT ![1] = @ + (IF E = "T" THEN 1 ELSE 0), ![2] = @ + (IF E = "F" THEN 1 ELSE 0),
                       ![3] = @ + (IF E = "TypeError" THEN 1 ELSE 0), ![4] = @ + (IF E = "either" THEN 1 ELSE 0),
                       ![5] = @ + hashJudged]

PairBad(i, ev) ==
    LET a == cat[i]  b == cat[ev.j]  E == Eq(a, b)  N == Ne(a, b)
    IN  (IF RaiseOk(E, ev.eq) /\ RaiseOk(N, ev.ne) THEN {} ELSE {"no_raise"})
        \cup (IF ValueOk(E, ev.eq) THEN {} ELSE {IF i = ev.j THEN "reflexive" ELSE "eq_value"})
        \cup (IF ValueOk(N, ev.ne) THEN {} ELSE {"ne_value"})
        \cup (IF ComplementOk(ev.eq, ev.ne) THEN {} ELSE {"complementary"})
        \cup (IF SymmetricOk(ev.eq, ev.req) /\ SymmetricOk(ev.ne, ev.rne) THEN {} ELSE {"symmetric"})
        \cup (IF HashOk(a, b, ev.hi, ev.hj, ev.heq, ev.eq) THEN {} ELSE {"hash"})
        \cup (IF MustBeIdentical(a, b) => ev.same THEN {} ELSE {"singleton_identity"})

JudgePair(i, ev) ==
    LET a == cat[i]  b == cat[ev.j]  bad == PairBad(i, ev)  p == BlameP(a, b)
    IN /\ \A c \in bad : PrintT(<<"REJECT", tid, l, c, p[1].k \o "/" \o p[2].k, Eq(a, b), SameText(p[1], p[2])>>)
       /\ nrej' = nrej + (IF bad = {} THEN 0 ELSE 1)
       /\ Bump(Eq(a, b), IF a.k = b.k /\ Eq(a, b) = "T" /\ ev.hi /\ ev.hj THEN 1 ELSE 0)

JudgeSing(ev) ==
    LET bad == ev.k \in SingletonKinds /\ ~(ev.copy_is /\ ev.deep_is)
    IN /\ bad => PrintT(<<"REJECT", tid, l, "singleton_identity", ev.k, "T", FALSE>>)
       /\ nrej' = nrej + (IF bad THEN 1 ELSE 0)
       /\ Bump("T", 0)

JudgeTri(a, ev) ==
    LET b == ev.b
        bad == {c \in 1..Len(sub) : /\ rel[a][b] = "T" /\ rel[b][c] = "T" /\ rel[a][c] # "T"
                                    /\ Eq(cat[sub[a]], cat[sub[c]]) \notin {"TypeError", "either"}}
    IN /\ \A c \in bad : PrintT(<<"REJECT", tid, l, "transitive", c, rel[a][c], FALSE>>)
       /\ nrej' = nrej + (IF bad = {} THEN 0 ELSE 1)
       /\ cnt' = [cnt EXCEPT ![1] = @ + Cardinality({c \in 1..Len(sub) : rel[a][b] = "T" /\ rel[b][c] = "T"})]

GridBad(ev) ==
    LET E == GridEq(ev.g, ev.h)  N == GridNe(ev.g, ev.h)
    IN  (IF IsBool(ev.eq) /\ IsBool(ev.req) /\ IsBool(ev.ne) /\ IsBool(ev.rne) THEN {} ELSE {"raises"})
        \cup (IF IsBool(ev.eq) /\ E # "either" /\ ev.eq # E THEN {"value"} ELSE {})
        \cup (IF IsBool(ev.ne) /\ N # "either" /\ ev.ne # N THEN {"ne_value"} ELSE {})
        \cup (IF SymmetricOk(ev.eq, ev.req) /\ SymmetricOk(ev.ne, ev.rne) THEN {} ELSE {"symmetric"})
        \cup (IF IsBool(ev.eq) /\ IsBool(ev.ne) /\ ev.eq = ev.ne THEN {"complementary"} ELSE {})

JudgeGrid(ev) ==
    LET bad == GridBad(ev)
    IN /\ \A c \in bad : PrintT(<<"REJECT", tid, l, c, "grid", GridEq(ev.g, ev.h), FALSE>>)
       /\ nrej' = nrej + (IF bad = {} THEN 0 ELSE 1)
       /\ Bump(GridEq(ev.g, ev.h), 0)

TNext ==
    /\ l <= Len(tr.evs)
    /\ LET ev == tr.evs[l]
       IN CASE tr.m = "pair" -> JudgePair(tr.i, ev)
            [] tr.m = "sing" -> JudgeSing(ev)
            [] tr.m = "tri"  -> JudgeTri(tr.a, ev)
            [] tr.m = "grid" -> JudgeGrid(ev)
    /\ l' = l + 1
    /\ (l = Len(tr.evs) => PrintT(<<IF nrej' = 0 THEN "ACCEPT" ELSE "DONE", tid, nrej'>> \o cnt'))
    /\ UNCHANGED <<pi, pj, g, h, mut, tid, tr, cat, sub, rel>>

TSpec == TInit /\ [][TNext]_tvars
TView == <<tid, l, nrej>>
=============================================================================
