SPECIFICATION Spec
CONSTANTS
  Emitter = "repr"
  Tier = "thorough"
INVARIANT TypeOK
INVARIANT PayloadOnlyInLiterals
CHECK_DEADLOCK FALSE
