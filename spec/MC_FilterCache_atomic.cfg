SPECIFICATION Spec
CONSTANTS
  Threads = {1, 2}
  Filters = {1, 2, 3}
  K = 2
  Atomic = TRUE
  PrivateConsts = TRUE
  MaxCalls = 4
CONSTRAINT Bound
INVARIANT NoCrossTalk
INVARIANT GetNeverFails
INVARIANT NamesUnique
INVARIANT CachedWorks
INVARIANT LruBound
INVARIANT OneEntryPerFilter
INVARIANT Accounting
INVARIANT TypeOK
CHECK_DEADLOCK FALSE
