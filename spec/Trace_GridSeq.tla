--------------------------- MODULE Trace_GridSeq ---------------------------
(***************************************************************************)
(* Trace validation for GridSeq.  A trace is a history recorded from a     *)
(* real hszinc.Grid: one event per public mutator call (name, arguments,   *)
(* result class, list(g) as row identities, version) followed by the       *)
(* observations made right after it (len, g[i], g[a:b], row in g, g[key],  *)
(* g.get(key)).  Every step must be in Outcomes(state, op) and every        *)
(* observation must be what the model computes from the *current* rows.    *)
(* File: a sequence of traces, trace = [ver, given, evs].                   *)
(***************************************************************************)
EXTENDS GridSeq, Json, IOUtils, TraceConsts
\* TraceConsts is generated per run by the harness (literal constants: TIds, TDictRows, TNonDict,
\* TOnly3); the events are read once, in TInit, into the variable tr (TLC re-evaluates
\* JsonDeserialize on every reference, so it must not be referenced from TNext).

VARIABLES tid, l, tr, nrej

FIdOf(r) == IF r \in 1..Len(TIds) THEN TIds[r] ELSE 0
tvars == <<rows, ver, given, op, res, parked, tid, l, tr, nrej>>

TInit == \E f \in {JsonDeserialize(IOEnv.TRACE_FILE)} :
         /\ tid \in 1..Len(f)
         /\ tr = f[tid]
         /\ l = 1
         /\ nrej = 0
         /\ parked = NoGrid
         /\ rows = <<>>
         /\ ver = f[tid].ver
         /\ given = f[tid].given
         /\ op = [name |-> "init"]
         /\ res = <<"None">>

\* one observation record: [k |-> kind, ...]
ObsOk(rw, o) ==
    CASE o.k = "len"      -> o.n = Len(rw)
      [] o.k = "getitem"  -> o.r = GetItem(rw, o.i)
      [] o.k = "slice"    -> o.rows = Slice(rw, o.a, o.b)
      [] o.k = "contains" -> o.v = Contains(rw, o.row)
      [] o.k = "lookup"   -> LookupOk(rw, o.id, o.r)
      [] o.k = "get"      -> GetOk(rw, o.id, o.r)
      [] o.k = "iter"     -> o.rows = rw
      [] o.k = "slicestep" -> o.rows = SliceStep(rw, o.a, o.b, o.st)                        \* g[a:b:st]
      [] o.k = "rev"      -> o.rows = Reverse(rw)                                   \* g[::-1]
      [] o.k = "step2"    -> o.rows = [i \in 1..((Len(rw) + 1) \div 2) |-> rw[2 * i - 1]]   \* g[::2]
      [] o.k = "index"    -> o.r = (IF o.row \in Range(rw) THEN <<"pos", FirstPos(rw, o.row) - 1>> ELSE <<"ValueError">>)
      [] o.k = "count"    -> o.n = Cardinality({i \in 1..Len(rw) : rw[i] = o.row})
      [] o.k = "repr"     -> o.ok            \* repr(g) is total (never raises), whatever the rows hold

FirstBadObs(rw, obs) ==
    IF \A i \in 1..Len(obs) : ObsOk(rw, obs[i]) THEN 0
    ELSE CHOOSE i \in 1..Len(obs) : ~ObsOk(rw, obs[i]) /\ \A j \in 1..(i - 1) : ObsOk(rw, obs[j])

\* Verdicts are total and the whole history is examined: a step that is not a behaviour of the
\* model prints one REJECT line (naming the failing clause) and the validation re-synchronises on
\* the logged state, so that every later event is still judged.  ACCEPT is printed at the end of a
\* trace iff no step was rejected (nrej = 0); DONE carries the number of rejected steps.
\* A "switch" event: the history moves to the other live grid (the parent a grid was derived from, or back).
\* Its logged rows / version must be exactly what the model parked -- whatever was done to the grid used in
\* between -- and its observations (lookups by id above all) are judged against those rows.
TNext ==
    /\ l <= Len(tr.evs)
    /\ LET ev   == tr.evs[l]
           sw   == ev.name = "switch"
           outs == IF sw THEN {} ELSE Outcomes(Cur, ev)
           good == IF sw THEN parked.has /\ ev.rows = parked.rows /\ ev.ver = parked.ver /\ ev.res = <<"None">>
                   ELSE \E o \in outs : o.res = ev.res /\ o.rows = ev.rows /\ o.ver = ev.ver
           bad  == IF good THEN FirstBadObs(ev.rows, ev.obs) ELSE 0
           rej  == ~good \/ bad # 0
       IN /\ ~good => PrintT(<<"REJECT", tid, l,
                              (IF sw THEN (IF ~parked.has THEN "switch_without_parked_grid"
                                           ELSE IF ev.rows # parked.rows THEN "other_grid_rows_changed"
                                           ELSE "other_grid_version_changed")
                               ELSE IF ~\E o \in outs : o.res = ev.res THEN "result_not_allowed"
                               ELSE IF ~\E o \in outs : o.rows = ev.rows THEN "rows_not_allowed"
                               ELSE IF ~\E o \in outs : o.ver = ev.ver THEN "version_not_allowed"
                               ELSE "outcome_not_jointly_allowed"), 0>>)
          /\ \A k \in {"len", "iter", "getitem", "slice", "contains", "lookup", "get", "repr", "rev", "step2", "index", "count", "slicestep"} :
                LET B == {i \in 1..Len(ev.obs) : ev.obs[i].k = k /\ ~ObsOk(ev.rows, ev.obs[i])}
                IN B # {} => PrintT(<<"REJECT", tid, l, "obs_" \o k, CHOOSE i \in B : \A j \in B : i <= j>>)
          /\ rows' = ev.rows /\ ver' = ev.ver
          /\ given' = (IF sw /\ parked.has THEN parked.given ELSE given)
          /\ parked' = (IF sw /\ parked.has THEN ParkOf(Cur)
                        ELSE IF ~sw /\ ev.res = <<"grid">> THEN ParkOf(Cur)
                        ELSE IF ~sw /\ ev.res = <<"copy">> /\ ev.name = "copy" /\ ev.how # "shallow" THEN ParkOf(Cur)
                        ELSE parked)
          /\ op' = [name |-> ev.name] /\ res' = ev.res
          /\ l' = l + 1
          /\ nrej' = nrej + (IF rej THEN 1 ELSE 0)
          /\ (l = Len(tr.evs) => PrintT(<<IF nrej' = 0 THEN "ACCEPT" ELSE "DONE", tid, nrej'>>))
    /\ UNCHANGED <<tid, tr>>

TSpec == TInit /\ [][TNext]_tvars
TView == <<rows, ver, given, parked, tid, l, nrej>>
=============================================================================
