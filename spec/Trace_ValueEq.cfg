SPECIFICATION TSpec
CONSTANTS
  Cat <- TCat
  CellDom <- TCells
  BaseGrids <- TBase
  NonGrids <- TCells
VIEW TView
CHECK_DEADLOCK FALSE
