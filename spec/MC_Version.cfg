SPECIFICATION LawSpec
CONSTANTS
  CacheVersions <- MCCacheVersions
INVARIANT Wellformed
INVARIANT PairLaws
INVARIANT OpTable
INVARIANT Reflexive
INVARIANT Transitive
INVARIANT Padding
INVARIANT NearestLaws
INVARIANT EmitV
CHECK_DEADLOCK FALSE
