SPECIFICATION Spec
CONSTANTS
  Emitter = "consts"
  Tier = "thorough"
INVARIANT TypeOK
INVARIANT PayloadOnlyInLiterals
INVARIANT TextOnlyInLiterals
INVARIANT NoRawSplice
INVARIANT AuditAllowed
INVARIANT OneDefinitionPerMiss
INVARIANT GlobalWritesAllowed
INVARIANT RejectedClean
INVARIANT InvalidNeverCompiled
INVARIANT ValidNeverRejected
CHECK_DEADLOCK FALSE
