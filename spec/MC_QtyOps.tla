----------------------------- MODULE MC_QtyOps -----------------------------
(* Model-checking instance of QtyOps: every operator x operand configuration x unit relation   *)
(* is an initial state; TLC follows every protocol path to its end and checks the refinement.  *)
EXTENDS QtyOps

\* size of the quantified space, measured by TLC itself (printed once)
ASSUME PrintT(<<"CONFIGS", Cardinality(Configs),
                Cardinality({c \in Configs : Claimed(c[1], c[2])}),
                Cardinality({c \in Configs : Override(c[1], c[2], c[3])})>>)
=============================================================================
