SPECIFICATION CacheSpec
CONSTANTS
  CacheVersions <- MCCacheVersions
INVARIANT NearestGrammar
INVARIANT SameForEqual
INVARIANT OneEntryPerClass
INVARIANT GeneratedDistinct
PROPERTY CacheStable
CHECK_DEADLOCK FALSE
