-------------------------- MODULE Trace_FilterSem --------------------------
(***************************************************************************)
(* Judgement of filter executions recorded from the real hszinc.Grid       *)
(* (role C of C11).  File (read once in TInit, parked in TLC register 1):  *)
(* a sequence of traces, a trace is a sequence of cases,                   *)
(*   case = [ast, toks, rows, shape, calls]                                *)
(*     ast    the filter as nested records (FilterSem constructors)        *)
(*     toks   the tokens the harness spelled into the filter text          *)
(*     rows   the abstract rows of the source grid (FilterSem row tuples)  *)
(*     shape  version / metadata / columns of the source, as strings       *)
(*     calls  one record per grid.filter(text, limit = k):                 *)
(*            [k, out \in {"ok", "raises", "parse_error"}, sel (returned    *)
(*            rows as 1-based indexes into the source, 0 = foreign object),*)
(*            rshape (shape of the result), post / pshape (rows and shape  *)
(*            of the source after the call)];  calls[1] has k = 0          *)
(* One step per case.  The tokens must parse (PStep machine) to the logged *)
(* AST -- otherwise the harness rendered something else than it logged     *)
(* ("render", a machinery error).  Every failing clause of every call is   *)
(* printed as <<"REJECT", tid, l, call, clause>>; the trace ends with       *)
(* ACCEPT (nothing rejected) or DONE and the number of rejected cases.     *)
(* A wrong selection under a limit is called "limit" when the unlimited    *)
(* call of the same case was right, "selection" otherwise.                 *)
(***************************************************************************)
EXTENDS FilterSem, Json, IOUtils

VARIABLES tid, l, nrej
tvars == <<tid, l, nrej>>

tr == TLCGet(1)[tid]

TInit == \E f \in {JsonDeserialize(IOEnv.TRACE_FILE)} :
         /\ TLCSet(1, f)
         /\ tid \in 1..Len(f)
         /\ l = 1
         /\ nrej = 0

CallClauses(al, ev, c, firstOk) ==
    LET src == SourceClauses(ev.rows, ev.shape, c.post, c.pshape)
    IN IF c.out = "parse_error" THEN {"parse_error"} \cup src
       ELSE IF c.out = "raises" THEN {"raises"} \cup src
       ELSE LET rc == ResultClauses(al, c.k, c.sel)
            IN (IF c.k > 0 /\ firstOk /\ "selection" \in rc THEN (rc \ {"selection"}) \cup {"limit"} ELSE rc)
               \cup ShapeClauses(ev.shape, c.rshape) \cup src

\* al is passed as an argument so that it is computed once per case
JudgeCalls(ev, al) ==
    LET c1 == ev.calls[1]
        firstOk == c1.k = 0 /\ c1.out = "ok" /\ ResultClauses(al, 0, c1.sel) = {}
    IN UNION {{<<j, cl>> : cl \in CallClauses(al, ev, ev.calls[j], firstOk)} : j \in 1..Len(ev.calls)}

CaseClauses(ev) ==
    IF Parse(ev.toks) # ev.ast THEN {<<0, "render">>}
    ELSE IF ev.calls[1].k # 0 THEN {<<1, "first_call_must_be_unlimited">>}
    ELSE JudgeCalls(ev, Allowed(ev.ast, ev.rows))

TNext ==
    /\ l <= Len(tr)
    /\ \E cl \in {CaseClauses(tr[l])} :
          /\ \A c \in cl : PrintT(<<"REJECT", tid, l, c[1], c[2]>>)
          /\ nrej' = nrej + (IF cl = {} THEN 0 ELSE 1)
          /\ l' = l + 1
          /\ (l = Len(tr) => PrintT(<<IF nrej' = 0 THEN "ACCEPT" ELSE "DONE", tid, nrej'>>))
    /\ UNCHANGED tid

TSpec == TInit /\ [][TNext]_tvars
=============================================================================
