--------------------------- MODULE Gen_ZincWrite ---------------------------
(***************************************************************************)
(* Case generator for C03 (and seed documents for C09): abstract documents  *)
(* (ZwCat.Docs, data supplied per run) x spelling styles.  Every style that  *)
(* deviates from the default in one choice is enumerated, plus the seeded    *)
(* mixed styles of ZwCat.ExtraStyles.  For every case TLC                     *)
(*   - checks that the reader machine reads the text back to the denotation  *)
(*     (role A: writer and reader specifications agree), and                 *)
(*   - prints <<text, denotation>> for the harness to feed to hszinc.parse.  *)
(***************************************************************************)
EXTENDS ZincWrite, Json, ZwCat

Fields == <<"num", "esc", "frac", "dt", "coord", "sep", "nl", "mark", "list", "empty", "gap", "fin", "ng">>
OneOff == {[DefaultStyle EXCEPT ![Fields[f]] = k] : f \in 1..Len(Fields), k \in 1..5}
\* ... and the same single deviations in a document whose lines end CR LF (line ends meet every other choice)
CrlfOff == {[s EXCEPT !.nl = 2] : s \in OneOff}
Legal(sty) == \A f \in 1..Len(Fields) : sty[Fields[f]] <= StyleRanges[Fields[f]]
Styles == {s \in OneOff \cup CrlfOff : Legal(s)} \cup {ExtraStyles[i] : i \in 1..Len(ExtraStyles)}

VARIABLES di, sty
Init == di \in 1..Len(Docs) /\ sty \in Styles
Next == UNCHANGED <<di, sty>>
Spec == Init /\ [][Next]_<<di, sty>>

\* structural equality with the zone latitude (same as Trace_Zinc.VEq, restated to keep modules independent)
RECURSIVE WEq(_, _)
WPairs(p, q) == Len(p) = Len(q) /\ \A i \in 1..Len(p) : p[i][1] = q[i][1] /\ WEq(p[i][2], q[i][2])
WSeq(p, q)   == Len(p) = Len(q) /\ \A i \in 1..Len(p) : WEq(p[i], q[i])
WEq(a, b) ==
    IF a[1] # b[1] THEN FALSE
    ELSE CASE a[1] = 16 -> WSeq(a[2], b[2])
           [] a[1] = 17 -> WPairs(a[2], b[2])
           [] a[1] = 18 -> (a[2] = b[2] \/ (V!Valid(a[2]) /\ V!Valid(b[2]) /\ V!Eq(V!Parse(a[2]), V!Parse(b[2])))) /\ WPairs(a[3], b[3]) /\ Len(a[4]) = Len(b[4])
                           /\ (\A i \in 1..Len(a[4]) : a[4][i][1] = b[4][i][1] /\ WPairs(a[4][i][2], b[4][i][2]))
                           /\ Len(a[5]) = Len(b[5]) /\ (\A i \in 1..Len(a[5]) : WSeq(a[5][i], b[5][i]))
           [] OTHER -> a = b

Agree ==
    \E text \in {SpellDoc(Docs[di], sty)} : \E den \in {DocDenotes(Docs[di], sty)} :
    \E r \in {Result(ZRead(text, FALSE))} :
        /\ PrintT(ToJson([di |-> di, sty |-> sty, text |-> text, den |-> den]))
        /\ IF r.ok /\ Len(r.grids) = Len(den) /\ \A i \in 1..Len(den) : WEq(r.grids[i], den[i]) THEN TRUE
           ELSE PrintT(<<"SPEC-DISAGREE", di, sty, r>>) /\ FALSE
=============================================================================
