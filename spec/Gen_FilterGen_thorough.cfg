SPECIFICATION GenSpec
CONSTANTS
  Emitter = "consts"
  Tier = "thorough"
CHECK_DEADLOCK FALSE
