SPECIFICATION Spec
CONSTANTS
  Tier = "quick"
INVARIANT ParseAgrees
INVARIANT LiteralsValid
INVARIANT SemAgree
CHECK_DEADLOCK FALSE
