---------------------------- MODULE Trace_HJson ----------------------------
(***************************************************************************)
(* Judging Haystack JSON with the tree reader of HJson.tla (C02, C05, C06). *)
(* One case per initial state, one verdict line per case:                   *)
(*     <<"OK", id>>   or   <<"REJECT", id, clause, 0>>                       *)
(* Case kinds (field k):                                                    *)
(*   "denotes" tree, top, strict, q6, expect, hasden [, den]                 *)
(*        the reader must accept the tree and read exactly `expect`          *)
(*        (abstract document = sequence of grids); top = "object" | "array"  *)
(*        | "any" is the required top-level JSON type (one grid / a list).   *)
(*        C06: tree = json.loads(hszinc.dump(g)), strict reader, q6: the     *)
(*        emitted decimals are rounded to six places and `expect` is          *)
(*        Q6(Abs(g)); clauses shape_*, prefix_<kind>, payload_<kind>,         *)
(*        differs_<where>.                                                   *)
(*        C05: tree = a generated document, liberal reader, expect =          *)
(*        Abs(hszinc.parse(tree)); den = the generator's denotation, which    *)
(*        must agree with the reader (else "spec_inconsistent": machinery).   *)
(*   "same"    a, b: two abstract documents that must be equal (C02: a grid   *)
(*        and what came back from dump + parse, float positions already       *)
(*        reduced to the delegated close6 bit by the harness)                *)
(*   "remove"  tree, a: every Remove of the abstract document a is spelt      *)
(*        "x:" in a grid of version < 3.0 and "-:" otherwise (C02)            *)
(* Structural equality VEq/DocEq and the coarse DiffClause are those of       *)
(* Trace_Zinc.tla, so both formats are compared by the same definition.       *)
(***************************************************************************)
EXTENDS HJson, Json, IOUtils

VARIABLES cid, done

TZ == INSTANCE Trace_Zinc

JCases == TLCGet(1)

Verdict(c, clause) == IF clause = "" THEN PrintT(<<"OK", c.id>>) ELSE PrintT(<<"REJECT", c.id, clause, 0>>)

DocClause(d, e) == IF TZ!DocEq(d, e) THEN "" ELSE "differs_" \o TZ!DiffClause(d, e)

JudgeDenotes(c) ==
    \E r \in {JRead(c.tree, c.strict)} :
        IF (c.top = "object" /\ c.tree[1] # 5) \/ (c.top = "array" /\ c.tree[1] # 4) THEN Verdict(c, "shape_top")
        ELSE IF ~r.ok THEN Verdict(c, r.why)
        ELSE IF c.hasden /\ r.grids # c.den THEN Verdict(c, "spec_inconsistent")
        ELSE \E g \in {IF c.q6 THEN Q6Doc(r.grids) ELSE r.grids} : Verdict(c, DocClause(g, c.expect))

JudgeRemove(c) ==
    LET ts == TopTrees(c.tree)
        wrong == SumSeq([i \in 1..Len(ts) |-> WrongRemove(ts[i], FALSE)])
        right == SumSeq([i \in 1..Len(ts) |-> RightRemove(ts[i], FALSE)])
        n     == SumSeq([i \in 1..Len(c.a) |-> CountRemove(c.a[i])])
    IN Verdict(c, IF wrong > 0 THEN "remove_spelling" ELSE IF right # n THEN "remove_count" ELSE "")

Judge(c) ==
    CASE c.k = "denotes" -> JudgeDenotes(c)
      [] c.k = "same"    -> Verdict(c, DocClause(c.a, c.b))
      [] c.k = "remove"  -> JudgeRemove(c)
      [] OTHER -> PrintT(<<"REJECT", c.id, "unknown_case_kind", 0>>)

Init == \E f \in {JsonDeserialize(IOEnv.TRACE_FILE)} :
          /\ TLCSet(1, f)
          /\ cid \in 1..Len(f)
          /\ done = FALSE

Next == /\ ~done
        /\ Judge(JCases[cid])
        /\ done' = TRUE
        /\ UNCHANGED cid

Spec == Init /\ [][Next]_<<cid, done>>
=============================================================================
