------------------------------- MODULE QtyOps -------------------------------
(***************************************************************************)
(* C20 -- a Quantity is numerically transparent.                            *)
(*                                                                         *)
(* Python's operator dispatch protocol for  L op R  (and pow(L, R, M),      *)
(* in-place  L op= R,  unary op L,  conversions f(L)) as a small machine,   *)
(* with the arithmetic itself left UNINTERPRETED: the machine ends either   *)
(* in a symbolic call  f(args)  -- which function of the numeric tower is   *)
(* applied, to which of the ORIGINAL operands ("L", "R", "M"), each either  *)
(* unwrapped ("value") or still a Quantity ("object") -- or in a raised     *)
(* exception.  The raw calculator is the one-step machine that applies      *)
(* Slot(op) to <<L, R>> directly.  The property is the refinement           *)
(*     Outcome(wrapped machine) = RawCall(op)                               *)
(* for every operator x operand configuration x unit relation, with one     *)
(* override: the six comparisons between two Quantities whose units differ  *)
(* raise TypeError.                                                         *)
(*                                                                         *)
(* Operand configuration cfg: "QN" Quantity op number, "NQ" number op       *)
(* Quantity, "QQ" both Quantities, "Q" (unary / conversion).                *)
(* Unit relation rel: "same" / "diff" for QQ, "na" otherwise.               *)
(*                                                                         *)
(* What is modelled of CPython (Objects/abstract.c binary_op1, ternary_op,  *)
(* binary_iop1, Objects/object.c do_richcompare, typeobject.c slot_nb_power)*)
(*  - in-place: neither the numbers nor Quantity define __i*__, so the      *)
(*    in-place operator falls back to the binary slot (InplaceFallback);    *)
(*  - the left operand's method is called first (CallForward); "the right  *)
(*    operand's type is a proper subclass of the left one's" (reflected     *)
(*    first) cannot arise: the two types are a builtin number and           *)
(*    BasicQuantity, or BasicQuantity twice (same type: forward only);      *)
(*  - a builtin number does not know Quantity: NotImplemented               *)
(*    (ForwardNotImplemented), then the right operand's reflected method:   *)
(*    __r<op>__ for arithmetic, the MIRRORED comparison for comparisons     *)
(*    (n < Q  calls  Q.__gt__(n));                                          *)
(*  - three-argument pow never uses __rpow__ (Python < 3.14): pow(n, Q, m)  *)
(*    is a TypeError of the language (TernaryNoReflected) and therefore     *)
(*    outside the claim (Claimed).                                          *)
(***************************************************************************)
EXTENDS Naturals, Sequences, FiniteSets, TLC

\* "none" for the specification.  The other values are deliberately WRONG Quantity classes, used
\* only to show that the invariants below can fail (each must be reported violated by TLC):
\*   "swap_reflected"  __r<op>__ computes self.value OP other
\*   "no_unwrap"       the forward method forgets to unwrap a Quantity right operand
\*   "no_unit_check"   comparisons never look at the units
\*   "unit_check_all"  arithmetic between Quantities of different units raises too
\*   "mirror_lost"     the reflected comparison applies the unmirrored operator (n < Q -> v < n)
CONSTANT Fault

Arith   == {"add", "sub", "mul", "truediv", "floordiv", "mod", "divmod", "pow",
            "lshift", "rshift", "and", "xor", "or"}
Cmp     == {"lt", "le", "eq", "ne", "ge", "gt"}
Ternary == {"pow3"}
InPlace == {"iadd", "isub", "imul", "itruediv", "ifloordiv", "imod", "ipow",
            "ilshift", "irshift", "iand", "ixor", "ior"}
Unary   == {"neg", "pos", "abs", "invert"}
Conv    == {"int", "float", "complex", "index"}
TwoSided == Arith \cup Cmp \cup Ternary \cup InPlace
OneSided == Unary \cup Conv
AllOps  == TwoSided \cup OneSided

Base(op) == CASE op = "iadd" -> "add" [] op = "isub" -> "sub" [] op = "imul" -> "mul"
              [] op = "itruediv" -> "truediv" [] op = "ifloordiv" -> "floordiv"
              [] op = "imod" -> "mod" [] op = "ipow" -> "pow" [] op = "ilshift" -> "lshift"
              [] op = "irshift" -> "rshift" [] op = "iand" -> "and" [] op = "ixor" -> "xor"
              [] op = "ior" -> "or" [] OTHER -> op
\* the function of the numeric tower an operator denotes (pow3 is pow with a third argument)
Slot(op) == IF op = "pow3" THEN "pow" ELSE Base(op)

Mirror(f) == CASE f = "lt" -> "gt" [] f = "le" -> "ge" [] f = "ge" -> "le" [] f = "gt" -> "lt"
               [] OTHER -> f                       \* eq, ne are their own mirror

\* original operands, by position
ArgsOf(op) == IF op \in OneSided THEN <<"L">>
              ELSE IF op \in Ternary THEN <<"L", "R", "M">> ELSE <<"L", "R">>
AllValues(args) == [i \in 1..Len(args) |-> "value"]

Cfgs(op)  == IF op \in OneSided THEN {"Q"} ELSE {"QN", "NQ", "QQ"}
Rels(cfg) == IF cfg = "QQ" THEN {"same", "diff"} ELSE {"na"}
Configs   == {c \in AllOps \X {"QN", "NQ", "QQ", "Q"} \X {"same", "diff", "na"} :
                 c[2] \in Cfgs(c[1]) /\ c[3] \in Rels(c[2])}
\* outside the claim: pow(number, Quantity, modulus) cannot be supported by any class
Claimed(op, cfg) == ~(op \in Ternary /\ cfg = "NQ")

LeftIsQty(cfg)  == cfg \in {"QN", "QQ", "Q"}
RightIsQty(cfg) == cfg \in {"NQ", "QQ"}

Dunder(f)  == "__" \o f \o "__"
RDunder(f) == IF f \in Cmp THEN Dunder(Mirror(f)) ELSE "__r" \o f \o "__"

NoCall == [f |-> "none", args |-> <<>>, kinds |-> <<>>]

(***************************************************************************)
(* The machine.  One record-valued variable so that the same rules serve    *)
(* as TLC actions (model checking, coverage) and as a pure function         *)
(* (Final, used by the trace specification to judge recorded executions).   *)
(*  pc     start -> forward -> (apply | raise | reflected -> (apply|raise))  *)
(*               -> done                                                    *)
(*  slot   the binary slot being dispatched ("" until an in-place operator  *)
(*         has fallen back)                                                 *)
(*  calls  methods entered so far, <<side, name>>                           *)
(*  applied  the symbolic raw call, exc the exception class                 *)
(***************************************************************************)
VARIABLE s

Start(op, cfg, rel) ==
    [pc |-> "start", op |-> op, cfg |-> cfg, rel |-> rel,
     slot |-> IF op \in InPlace THEN "" ELSE Slot(op),
     calls |-> <<>>, applied |-> NoCall, exc |-> "none"]

UnitMismatch(t) == /\ t.cfg = "QQ" /\ t.rel = "diff" /\ Fault # "no_unit_check"
                   /\ (t.slot \in Cmp \/ (Fault = "unit_check_all" /\ t.op \in TwoSided))

\* --- guards and effects -------------------------------------------------
EnInplaceFallback(t) == t.pc = "start" /\ t.slot = ""
DoInplaceFallback(t) == [t EXCEPT !.slot = Base(t.op)]

EnCallForward(t) == t.pc = "start" /\ t.slot # ""
DoCallForward(t) == [t EXCEPT !.pc = "forward",
                              !.calls = Append(@, <<"L", Dunder(IF t.op \in OneSided THEN t.op ELSE t.slot)>>)]

\* Quantity's forward method: self.value on the left, the right operand unwrapped when it is a
\* Quantity (a plain number is a value already), the modulus passed through; raw op in place
EnQtyForward(t) == t.pc = "forward" /\ LeftIsQty(t.cfg) /\ ~UnitMismatch(t)
DoQtyForward(t) == [t EXCEPT !.pc = "apply",
                             !.applied = [f |-> IF t.op \in OneSided THEN t.op ELSE t.slot,
                                          args |-> ArgsOf(t.op),
                                          kinds |-> IF Fault = "no_unwrap" /\ RightIsQty(t.cfg)
                                                    THEN [AllValues(ArgsOf(t.op)) EXCEPT ![2] = "object"]
                                                    ELSE AllValues(ArgsOf(t.op))]]

EnRaiseUnitMismatch(t) == t.pc = "forward" /\ LeftIsQty(t.cfg) /\ UnitMismatch(t)
DoRaiseUnitMismatch(t) == [t EXCEPT !.pc = "raise", !.exc = "TypeError"]

\* a builtin number's method does not know Quantity
EnForwardNotImplemented(t) == t.pc = "forward" /\ ~LeftIsQty(t.cfg)
DoForwardNotImplemented(t) == [t EXCEPT !.pc = "reflected"]

\* Quantity's reflected method: other OP self.value -- operands in the ORIGINAL order; for a
\* comparison the mirrored operator on swapped operands (self.value MIRROR(op) other)
EnCallReflected(t) == t.pc = "reflected" /\ t.op \notin Ternary
DoCallReflected(t) ==
    [t EXCEPT !.pc = "apply",
              !.calls = Append(@, <<"R", RDunder(t.slot)>>),
              !.applied = IF t.slot \in Cmp
                          THEN [f |-> IF Fault = "mirror_lost" THEN t.slot ELSE Mirror(t.slot),
                                args |-> <<"R", "L">>, kinds |-> <<"value", "value">>]
                          ELSE [f |-> t.slot,
                                args |-> IF Fault = "swap_reflected" THEN <<"R", "L">> ELSE <<"L", "R">>,
                                kinds |-> <<"value", "value">>]]

EnTernaryNoReflected(t) == t.pc = "reflected" /\ t.op \in Ternary
DoTernaryNoReflected(t) == [t EXCEPT !.pc = "raise", !.exc = "TypeError"]

EnApply(t) == t.pc = "apply"
DoApply(t) == [t EXCEPT !.pc = "done"]

EnRaise(t) == t.pc = "raise"
DoRaise(t) == [t EXCEPT !.pc = "done"]

\* --- actions ------------------------------------------------------------
InplaceFallback       == EnInplaceFallback(s)       /\ s' = DoInplaceFallback(s)
CallForward           == EnCallForward(s)           /\ s' = DoCallForward(s)
QtyForward            == EnQtyForward(s)            /\ s' = DoQtyForward(s)
RaiseUnitMismatch     == EnRaiseUnitMismatch(s)     /\ s' = DoRaiseUnitMismatch(s)
ForwardNotImplemented == EnForwardNotImplemented(s) /\ s' = DoForwardNotImplemented(s)
CallReflected         == EnCallReflected(s)         /\ s' = DoCallReflected(s)
TernaryNoReflected    == EnTernaryNoReflected(s)    /\ s' = DoTernaryNoReflected(s)
Apply                 == EnApply(s)                 /\ s' = DoApply(s)
Raise                 == EnRaise(s)                 /\ s' = DoRaise(s)

Init == \E c \in Configs : s = Start(c[1], c[2], c[3])
Next == \/ InplaceFallback \/ CallForward \/ QtyForward \/ RaiseUnitMismatch
        \/ ForwardNotImplemented \/ CallReflected \/ TernaryNoReflected \/ Apply \/ Raise
Spec == Init /\ [][Next]_s /\ WF_s(Next)

\* --- the same rules as a function ---------------------------------------
Succ(t) ==
    (IF EnInplaceFallback(t) THEN {DoInplaceFallback(t)} ELSE {}) \cup
    (IF EnCallForward(t) THEN {DoCallForward(t)} ELSE {}) \cup
    (IF EnQtyForward(t) THEN {DoQtyForward(t)} ELSE {}) \cup
    (IF EnRaiseUnitMismatch(t) THEN {DoRaiseUnitMismatch(t)} ELSE {}) \cup
    (IF EnForwardNotImplemented(t) THEN {DoForwardNotImplemented(t)} ELSE {}) \cup
    (IF EnCallReflected(t) THEN {DoCallReflected(t)} ELSE {}) \cup
    (IF EnTernaryNoReflected(t) THEN {DoTernaryNoReflected(t)} ELSE {}) \cup
    (IF EnApply(t) THEN {DoApply(t)} ELSE {}) \cup
    (IF EnRaise(t) THEN {DoRaise(t)} ELSE {})

RECURSIVE RunFrom(_)
RunFrom(t) == IF t.pc = "done" \/ Succ(t) = {} THEN t ELSE RunFrom(CHOOSE u \in Succ(t) : TRUE)
Final(op, cfg, rel) == RunFrom(Start(op, cfg, rel))

(***************************************************************************)
(* Outcomes and the refinement.                                             *)
(* Normal: law of the numeric tower used by the protocol itself -- the      *)
(* mirrored comparison on swapped operands IS the original comparison       *)
(* (x > n  is  n < x).  Nothing else about the arithmetic is assumed.       *)
(***************************************************************************)
Normal(ap) == IF ap.f \in Cmp /\ ap.args = <<"R", "L">>
              THEN [ap EXCEPT !.f = Mirror(ap.f), !.args = <<"L", "R">>] ELSE ap

RawCall(op) == [f |-> IF op \in OneSided THEN op ELSE Slot(op),
                args |-> ArgsOf(op), kinds |-> AllValues(ArgsOf(op))]

Outcome(t) == IF t.exc # "none" THEN [exc |-> t.exc] ELSE [call |-> Normal(t.applied)]

Override(op, cfg, rel) == Slot(op) \in Cmp /\ cfg = "QQ" /\ rel = "diff"
Required(op, cfg, rel) == IF Override(op, cfg, rel) THEN [exc |-> "TypeError"]
                          ELSE [call |-> RawCall(op)]

\* --- invariants (model checking) ---------------------------------------
TypeOK == /\ s.pc \in {"start", "forward", "reflected", "apply", "raise", "done"}
          /\ <<s.op, s.cfg, s.rel>> \in Configs
          /\ s.exc \in {"none", "TypeError"}

ClaimedState == Claimed(s.op, s.cfg)

EndsInApplyOrRaise ==
    s.pc = "done" => \/ s.exc = "none" /\ s.applied # NoCall
                     \/ s.exc = "TypeError" /\ s.applied = NoCall

OperandOrderPreserved ==
    s.applied # NoCall => /\ Normal(s.applied).args = ArgsOf(s.op)
                          /\ Normal(s.applied).f = RawCall(s.op).f

AlwaysUnwrapped ==
    s.applied # NoCall => \A i \in 1..Len(s.applied.kinds) : s.applied.kinds[i] = "value"

ComparisonUnitRule ==
    (s.pc = "done" /\ ClaimedState) =>
        (s.exc = "TypeError" <=> Override(s.op, s.cfg, s.rel))

Refinement ==
    (s.pc = "done" /\ ClaimedState) => Outcome(s) = Required(s.op, s.cfg, s.rel)

\* the language-level TypeError only where the claim does not reach
UnclaimedOnlyTernaryNQ ==
    (s.pc = "done" /\ ~ClaimedState) => (s.op = "pow3" /\ s.cfg = "NQ" /\ s.exc = "TypeError")

Deterministic == IF s.pc = "done" THEN Succ(s) = {} ELSE Cardinality(Succ(s)) = 1

FunctionAgrees == s.pc = "done" => s = Final(s.op, s.cfg, s.rel)

\* a Quantity method is entered at most once per side, forward before reflected
CallShape == /\ Len(s.calls) <= 2
             /\ (Len(s.calls) >= 1 => s.calls[1][1] = "L")
             /\ (Len(s.calls) = 2 => s.calls[2][1] = "R" /\ ~LeftIsQty(s.cfg))

Terminates == <>(s.pc = "done")

\* methods of Quantity the protocol enters (the number's own methods are not observable)
QtyCalls(op, cfg, rel) ==
    LET c == Final(op, cfg, rel).calls
        q(x) == (x[1] = "L" /\ LeftIsQty(cfg)) \/ (x[1] = "R" /\ RightIsQty(cfg))
        sel == SelectSeq(c, q)
    IN [i \in 1..Len(sel) |-> sel[i][2]]
=============================================================================
