------------------------- MODULE Trace_FilterCache -------------------------
(***************************************************************************)
(* Trace validation for FilterCache: executions of the real                 *)
(* hszinc.grid_filter under a deterministic scheduler (one thread runs at   *)
(* a time, pre-empted at source lines) are behaviours of the specification. *)
(* An event is logged by the running thread whenever the observable         *)
(* projection (generated names -> filter, cache size, hits, misses)         *)
(* changed, and when one of its filter calls returned ("ret", with the      *)
(* filter whose rows it got).  Unlogged: the counter, the LRU content and   *)
(* order, wrapper lifetimes -- the specification's actions choose them;     *)
(* silent steps of the logging thread (and finalisers) are bounded per      *)
(* consumed event.  A trace is accepted iff some path consumes all events.  *)
(***************************************************************************)
EXTENDS FilterCache, Json, IOUtils

CONSTANT Budget          \* silent steps allowed per consumed event

VARIABLES tid, l, b, pos

\* the trace file is parsed once (TInit) and parked in TLC register 1: TLC re-evaluates
\* JsonDeserialize on every reference, and a state variable holding it is copied into every state
tr == TLCGet(1)[tid]

tvars == <<pc, want, hold, nm, fn, fc, cs, shared, ctr, ns, wr, nwr, lru, hits, misses, calls, tid, l, b, pos>>

TInit == \E f \in {JsonDeserialize(IOEnv.TRACE_FILE)} :
         /\ TLCSet(1, f)
         /\ tid \in 1..Len(f)
         /\ l = 1 /\ b = 0
         /\ pos = [t \in Threads |-> 1]
         /\ Init

Prog(t) == IF t <= Len(tr.prog) THEN tr.prog[t] ELSE <<>>

TLookup(t) == /\ pos[t] <= Len(Prog(t))
              /\ Lookup(t, Prog(t)[pos[t]])
              /\ pos' = [pos EXCEPT ![t] = @ + 1]

Silent ==
    /\ l <= Len(tr.evs)
    /\ b < Budget
    /\ LET t == tr.evs[l].t
       IN \/ TLookup(t)
          \/ (ReadCtr(t) \/ IncCtr(t) \/ Publish(t) \/ Define(t) \/ Insert(t) \/ Get(t) \/ Call(t)) /\ UNCHANGED pos
          \/ (\E w \in Unreferenced : Finalise(w)) /\ UNCHANGED pos
    /\ b' = b + 1
    /\ UNCHANGED <<tid, l>>

LoggedNs(ev) == {<<ev.ns[i][1], ev.ns[i][2]>> : i \in 1..Len(ev.ns)}
ModelNs      == {<<n, ns[n]>> : n \in DOMAIN ns}
\* the literals a generated function is bound to, when the harness could see them (third component; 0: not seen)
ConstsOk(ev) == \A i \in 1..Len(ev.ns) :
                   Len(ev.ns[i]) < 3 \/ ev.ns[i][3] = 0 \/ (ev.ns[i][1] \in DOMAIN cs /\ cs[ev.ns[i][1]] = ev.ns[i][3])

Matches(ev) ==
    IF ev.k = "ret"
    THEN /\ pc[ev.t] = "idle"
         /\ pos[ev.t] = ev.n + 1          \* the n-th call of that thread has completed
         /\ fn[ev.t] = ev.f               \* ... with the code of this filter
         /\ fc[ev.t] = ev.f               \* ... and its literals (the rows returned are those of filter ev.f)
    ELSE IF ev.k = "sum"                  \* sequential histories: one summary event per completed call
    THEN /\ pc[ev.t] = "idle" /\ pos[ev.t] = ev.n + 1 /\ fn[ev.t] = ev.f /\ fc[ev.t] = ev.f
         /\ Cardinality(DOMAIN ns) = ev.nsn
         /\ Len(lru) = ev.size /\ hits = ev.hits /\ misses = ev.misses
    ELSE /\ ModelNs = LoggedNs(ev)
         /\ ConstsOk(ev)
         /\ Len(lru) = ev.size
         /\ hits = ev.hits
         /\ misses = ev.misses

Consume ==
    /\ l <= Len(tr.evs)
    /\ Matches(tr.evs[l])
    /\ l' = l + 1
    /\ b' = 0
    /\ (l = Len(tr.evs) => PrintT(<<"ACCEPT", tid>>))
    /\ UNCHANGED <<pc, want, hold, nm, fn, fc, cs, shared, ctr, ns, wr, nwr, lru, hits, misses, calls, tid, pos>>

TNext == Silent \/ Consume
TSpec == TInit /\ [][TNext]_tvars
TView == <<pc, want, hold, nm, fn, fc, cs, shared, ctr, ns, wr, nwr, lru, hits, misses, calls, tid, l, b, pos>>

\* progress report for diagnosing a rejected trace (Trace_FilterCache_diag.cfg, one trace at a time)
Progress == PrintT(<<"AT", tid, l>>)
=============================================================================
