SPECIFICATION MCSpec
CONSTANTS
  Tier = "quick"
INVARIANT ReadBack
INVARIANT StrictAgrees
INVARIANT RemoveCounted
INVARIANT Q6Stable
CHECK_DEADLOCK FALSE
