SPECIFICATION Spec
CONSTANTS
  Keys = {1, 2, 3, 4}
  Vals = {1}
  BadVal = 9
  HasValidator = TRUE
  Indexes = {0, 1, 2, 3, 5}
  NoArg = 99
  UnknownKey = 98
  DefaultVal = 7
VIEW View
INVARIANT KeysUnique
INVARIANT ContentMatch
INVARIANT LenMatch
INVARIANT ValsTyped
PROPERTY RejectedChangesNothing
PROPERTY OthersKeepOrder
PROPERTY ReplaceKeepsPosition
PROPERTY LandsNextToPosKey
CHECK_DEADLOCK FALSE
