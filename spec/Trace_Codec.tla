---------------------------- MODULE Trace_Codec ----------------------------
(***************************************************************************)
(* Trace validation for Codec (C07): random walks of the real               *)
(* parse / dump functions over three registers, starting from generator     *)
(* documents.  The registers of the model hold what the specification's     *)
(* reader machines (ZincRead, HJson) say the texts denote; every event is    *)
(* checked against the register contents (so a hidden mutation of a grid     *)
(* between two steps shows up as register drift) and against the local       *)
(* rules of Codec.tla: a dump is readable and denotes its source (up to Q6   *)
(* for JSON), leaves the source unchanged, is deterministic; a parse gives   *)
(* what the text denotes; normalising twice is the identity on texts.        *)
(* One pass, re-synchronising on the logged values after a REJECT.           *)
(***************************************************************************)
EXTENDS HJson, Json, IOUtils

TZ == INSTANCE Trace_Zinc WITH cid <- 0, done <- FALSE

VARIABLES tid, l, reg, nrej

Tr == TLCGet(1)[tid]
Empty == [t |-> "empty", abs |-> <<>>]

LowerC(c) == IF c \in 65..90 THEN c + 32 ELSE c
ModeOf(arg) ==
    IF arg = C("text/zinc") \/ [i \in 1..Len(arg) |-> LowerC(arg[i])] = C("zinc") THEN "zinc"
    ELSE IF arg = C("application/json") \/ [i \in 1..Len(arg) |-> LowerC(arg[i])] = C("json") THEN "json"
    ELSE "ValueError"

Clause(ev, R) ==
    CASE ev.op = "load_zinc" ->
            (LET r == Result(ZRead(ev.text, FALSE)) IN IF r.ok THEN "" ELSE "spec_rejects_seed_" \o r.why)
      [] ev.op = "load_json" ->
            (LET r == JRead(ev.tree, FALSE) IN IF r.ok THEN "" ELSE "spec_rejects_seed_" \o r.why)
      [] ev.exc # "" -> "raises_" \o ev.op
      [] ev.op = "dump_zinc" ->
            IF R[ev.i].t # "grid" THEN "harness_register_kind"
            ELSE IF ~TZ!DocEq(ev.before, R[ev.i].abs) THEN "register_drift_" \o TZ!DiffClause(ev.before, R[ev.i].abs)
            ELSE IF ~TZ!DocEq(ev.after, ev.before) THEN "dump_changed_source_" \o TZ!DiffClause(ev.after, ev.before)
            ELSE IF ev.ka # ev.kb THEN "dump_changed_source_row_keys"     \* the row dicts themselves: keys present before = keys present after
            ELSE IF ev.text # ev.text2 THEN "dump_not_deterministic"
            ELSE (LET r == Result(ZRead(ev.text, FALSE))
                  IN IF ~r.ok THEN "dump_unreadable_" \o r.why
                     ELSE IF ~TZ!DocEq(r.grids, ev.before) THEN "dump_differs_" \o TZ!DiffClause(r.grids, ev.before)
                     ELSE "")
      [] ev.op = "dump_json" ->
            IF R[ev.i].t # "grid" THEN "harness_register_kind"
            ELSE IF ~TZ!DocEq(ev.before, R[ev.i].abs) THEN "register_drift_" \o TZ!DiffClause(ev.before, R[ev.i].abs)
            ELSE IF ~TZ!DocEq(ev.after, ev.before) THEN "dump_changed_source_" \o TZ!DiffClause(ev.after, ev.before)
            ELSE IF ev.ka # ev.kb THEN "dump_changed_source_row_keys"     \* the row dicts themselves: keys present before = keys present after
            ELSE IF ev.tree # ev.tree2 THEN "dump_not_deterministic"
            ELSE (LET r == JRead(ev.tree, FALSE)
                  IN IF ~r.ok THEN "dump_unreadable_" \o r.why
                     ELSE IF ~TZ!DocEq(Q6Doc(r.grids), ev.q6) THEN "dump_differs_" \o TZ!DiffClause(Q6Doc(r.grids), ev.q6)
                     ELSE "")
      [] ev.op \in {"parse_zinc", "parse_json"} ->
            IF R[ev.i].t # (IF ev.op = "parse_zinc" THEN "zinc" ELSE "json") THEN "harness_register_kind"
            ELSE IF ev.op = "parse_zinc" /\ ~TZ!DocEq(ev.out, R[ev.i].abs) THEN "parse_differs_" \o TZ!DiffClause(ev.out, R[ev.i].abs)
            \* JSON: modulo the six-decimal form (which also makes a zero unsigned)
            \* (ev.outq6: the six-decimal form of the parsed doubles, computed exactly by the harness)
            ELSE IF ev.op = "parse_json" /\ ~TZ!DocEq(ev.outq6, R[ev.i].abs)
                 THEN "parse_differs_" \o TZ!DiffClause(ev.outq6, R[ev.i].abs)
            ELSE ""
      [] ev.op = "mode" ->      \* mode sanitisation of parse()/dump(): the two constants, or zinc / json in any letter case
            IF ev.fmt # ModeOf(ev.text) THEN "mode_sanitisation" ELSE ""
      [] ev.op = "norm" ->      \* N(d) = dump(parse(d)): N(N(d)) = N(d), character for character
            IF ev.t1 # ev.t2 THEN "normalise_not_idempotent" ELSE ""
      [] OTHER -> "unknown_event"

After(ev, R) ==
    CASE ev.op = "load_zinc" -> [R EXCEPT ![ev.j] = [t |-> "zinc", abs |-> ZRead(ev.text, FALSE).stk[1].rows]]
      [] ev.op = "load_json" -> (LET r == JRead(ev.tree, FALSE) IN [R EXCEPT ![ev.j] = [t |-> "json", abs |-> IF r.ok THEN Q6Doc(r.grids) ELSE <<>>]])
      [] ev.exc # "" -> R
      [] ev.op = "dump_zinc" -> [R EXCEPT ![ev.j] = [t |-> "zinc", abs |-> ev.before]]
      [] ev.op = "dump_json" -> [R EXCEPT ![ev.j] = [t |-> "json", abs |-> ev.q6]]
      [] ev.op \in {"parse_zinc", "parse_json"} -> [R EXCEPT ![ev.j] = [t |-> "grid", abs |-> ev.out]]
      [] OTHER -> R

Init == \E f \in {JsonDeserialize(IOEnv.TRACE_FILE)} :
          /\ TLCSet(1, f)
          /\ tid \in 1..Len(f)
          /\ l = 1 /\ nrej = 0
          /\ reg = [r \in 1..3 |-> Empty]

Next == /\ l <= Len(Tr)
        /\ \E cl \in {Clause(Tr[l], reg)} :
             /\ cl # "" => PrintT(<<"REJECT", tid, l, cl>>)
             /\ nrej' = nrej + (IF cl = "" THEN 0 ELSE 1)
             /\ (l = Len(Tr) => PrintT(<<IF nrej' = 0 THEN "ACCEPT" ELSE "DONE", tid, nrej'>>))
        /\ reg' = After(Tr[l], reg)
        /\ l' = l + 1
        /\ UNCHANGED tid

Spec == Init /\ [][Next]_<<tid, l, reg, nrej>>
=============================================================================
