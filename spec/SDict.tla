------------------------------- MODULE SDict -------------------------------
(***************************************************************************)
(* Ordered map of hszinc (sortabledict.py: SortableDict, metadata.py:       *)
(* MetadataObject).  Abstract state: `order` (sequence of distinct keys)    *)
(* and `vals` (key -> value).  Every public mutator is one action; the      *)
(* outcome of an operation is a *set* of allowed <<result, order, vals>>    *)
(* triples (Outcomes), so that the documented latitude (which error class   *)
(* when two apply; self-relative relocation) is explicit nondeterminism of  *)
(* the model.                                                              *)
(*                                                                         *)
(* The same operator Outcomes(s, o) is used by                              *)
(*   - Next            (model check + edge generation, MC_SDict / Gen_SDict) *)
(*   - Trace_SDict.tla (validation of recorded histories of the real code)  *)
(***************************************************************************)
EXTENDS Naturals, Integers, Sequences, FiniteSets, TLC

CONSTANTS Keys,        \* finite set of keys (naturals; the harness maps them to strings)
          Vals,        \* ordinary values
          BadVal,      \* value refused by the validator (when HasValidator)
          HasValidator,\* BOOLEAN: map constructed with a validate_fn
          Indexes,     \* numeric index arguments explored (non-negative)
          NoArg,       \* stands for "argument not given" (a value outside Keys and Indexes)
          UnknownKey,  \* a pos_key that is never in the map
          DefaultVal   \* MetadataObject.append's default value (MARKER)

VARIABLES order, vals, op, res

vars == <<order, vals, op, res>>

Range(s) == {s[i] : i \in 1..Len(s)}
Min(a, b) == IF a < b THEN a ELSE b
NoDup(s) == \A i, j \in 1..Len(s) : i # j => s[i] # s[j]

\* zero-based position of k in s (k must occur)
Pos0(s, k) == (CHOOSE i \in 1..Len(s) : s[i] = k) - 1
Without(s, k) == SelectSeq(s, LAMBDA x : x # k)
\* list.insert(i, k) for i >= 0: clamped to the end
InsertAt(s, i, k) == LET j == Min(i, Len(s))
                     IN SubSeq(s, 1, j) \o <<k>> \o SubSeq(s, j + 1, Len(s))
Put(f, k, v) == [x \in (DOMAIN f) \cup {k} |-> IF x = k THEN v ELSE f[x]]
Drop(f, k) == [x \in (DOMAIN f) \ {k} |-> f[x]]
Reverse(s) == [i \in 1..Len(s) |-> s[Len(s) + 1 - i]]
\* ascending sort of a sequence of distinct naturals
RECURSIVE SortSet(_)
SortSet(S) == IF S = {} THEN <<>>
              ELSE LET m == CHOOSE x \in S : \A y \in S : x <= y
                   IN <<m>> \o SortSet(S \ {m})

State == [order : Seq(Keys), vals : [Keys -> Vals]]   \* shape only (not enumerated)

Ok(s, r)        == [res |-> r, order |-> s.order, vals |-> s.vals]
Out(r, o, v)    == [res |-> r, order |-> o, vals |-> v]
Unchanged(s, E) == {Ok(s, e) : e \in E}

(***************************************************************************)
(* add_item(key, value, after, index, pos_key, replace)                     *)
(*   a.k, a.v, a.after \in BOOLEAN, a.index \in Indexes \cup {NoArg},       *)
(*   a.pos \in Keys \cup {NoArg, UnknownKey}, a.replace \in BOOLEAN         *)
(***************************************************************************)
AddErrors(s, a) ==
    (IF HasValidator /\ a.v = BadVal THEN {<<"Refused">>} ELSE {})
    \cup (IF a.index # NoArg /\ a.pos # NoArg THEN {<<"ValueError">>} ELSE {})
    \cup (IF a.pos # NoArg /\ a.pos \notin Range(s.order) THEN {<<"KeyError">>} ELSE {})
    \cup (IF a.k \in Range(s.order) /\ ~a.replace THEN {<<"KeyError">>} ELSE {})

AddOrders(s, a) ==
    LET o    == s.order
        inc  == IF a.after THEN 1 ELSE 0
        has  == a.k \in Range(o)
        rest == Without(o, a.k)
    IN  IF ~has THEN
            IF a.index # NoArg THEN {InsertAt(o, a.index + inc, a.k)}
            ELSE IF a.pos # NoArg THEN {InsertAt(o, Pos0(o, a.pos) + inc, a.k)}
            ELSE {Append(o, a.k)}
        ELSE
            IF a.index # NoArg THEN
                \* relocation by number: "index specifies the position from the start of the array (base 0)":
                \* the key is taken out and ends up AT that position of the resulting array (clamped to the
                \* end), one further with after = TRUE -- d.at(index) = key afterwards.  (The other conceivable
                \* reading, "before the element now at index", was accepted too until seeded change C16-r2m1
                \* showed that a silent switch between the two went unnoticed; the docstring's "position from
                \* the start of the array" is the key's own resulting position.)
                {InsertAt(rest, a.index + inc, a.k)}
            ELSE IF a.pos # NoArg THEN
                IF a.pos = a.k
                THEN {InsertAt(rest, j, a.k) : j \in 0..Len(rest)}      \* self-relative: unconstrained
                ELSE {InsertAt(rest, Pos0(rest, a.pos) + inc, a.k)}     \* immediately before/after pos
            ELSE {o}                                                     \* replace keeps position

AddOutcomes(s, a) ==
    LET E == AddErrors(s, a)
    IN IF E # {} THEN Unchanged(s, E)
       ELSE {Out(<<"None">>, o, Put(s.vals, a.k, a.v)) : o \in AddOrders(s, a)}

(***************************************************************************)
(* The other mutators.  Results: "None", "KeyError", "IndexError", or       *)
(* <<"val", v>> for a returned value (results are tuples: <<"None">> ...).  *)
(***************************************************************************)
DelOutcomes(s, k) ==
    IF k \in Range(s.order)
    THEN {Out(<<"None">>, Without(s.order, k), Drop(s.vals, k))}
    ELSE Unchanged(s, {<<"KeyError">>})

PopOutcomes(s, k) ==
    IF k \in Range(s.order)
    THEN {Out(<<"val", s.vals[k]>>, Without(s.order, k), Drop(s.vals, k))}
    ELSE Unchanged(s, {<<"KeyError">>})

PopDefaultOutcomes(s, k, d) ==
    IF k \in Range(s.order)
    THEN {Out(<<"val", s.vals[k]>>, Without(s.order, k), Drop(s.vals, k))}
    ELSE Unchanged(s, {<<"val", d>>})

PopAtOutcomes(s, i) ==      \* i >= 0
    IF i < Len(s.order)
    THEN LET k == s.order[i + 1]
         IN {Out(<<"val", s.vals[k]>>, Without(s.order, k), Drop(s.vals, k))}
    ELSE Unchanged(s, {<<"IndexError">>})

PopItemOutcomes(s) ==       \* Mapping.popitem(): first key in iteration order
    IF Len(s.order) > 0
    THEN LET k == s.order[1]
         IN {Out(<<"item", k, s.vals[k]>>, Tail(s.order), Drop(s.vals, k))}
    ELSE Unchanged(s, {<<"KeyError">>})

\* sort(key=f, reverse=r): list.sort is STABLE also when reversed -- keys that tie under f keep their order.
\* f is "id" (the key itself: no ties) or "mod2" (key % 2: ties), the two sort keys the harness uses.
SortKey(f, k) == IF f = "mod2" THEN k % 2 ELSE k
StableSort(o, f, rev) ==
    LET idx == 1..Len(o)
        Before(i, j) == LET a == SortKey(f, o[i])  b == SortKey(f, o[j])
                        IN (IF rev THEN a > b ELSE a < b) \/ (a = b /\ i < j)
        Rank(i) == Cardinality({j \in idx : Before(j, i)}) + 1
    IN [r \in idx |-> o[CHOOSE i \in idx : Rank(i) = r]]
SortOutcomes(s)    == {Out(<<"None">>, SortSet(Range(s.order)), s.vals)}
SortByOutcomes(s, f, rev) == {Out(<<"None">>, StableSort(s.order, f, rev), s.vals)}
ReverseOutcomes(s) == {Out(<<"None">>, Reverse(s.order), s.vals)}
ClearOutcomes(s)   == {Out(<<"None">>, <<>>, [x \in {} |-> 0])}

SetDefaultOutcomes(s, k, v) ==
    IF k \in Range(s.order) THEN Unchanged(s, {<<"val", s.vals[k]>>})
    ELSE IF HasValidator /\ v = BadVal THEN Unchanged(s, {<<"Refused">>})
    ELSE {Out(<<"val", v>>, Append(s.order, k), Put(s.vals, k, v))}

\* MetadataObject.append(key, value=MARKER, replace=True) == add_item(key, value, replace=replace)
AppendArgs(k, v, r) == [k |-> k, v |-> v, after |-> FALSE, index |-> NoArg, pos |-> NoArg, replace |-> r]
AppendOutcomes(s, k, v, r) == AddOutcomes(s, AppendArgs(k, v, r))

\* MetadataObject.extend(items, replace): item by item; when an item is refused (duplicate with replace = FALSE,
\* a value the validator refuses) the whole call is refused and CHANGES NOTHING -- the items stored before it are
\* taken out again.  (Until the defect hunt of round 7 this operator kept the applied prefix, as list.extend does;
\* the property says "a rejected operation ... changes nothing" of extend as of every other operation, and the code
\* was repaired.)  items: sequence of <<k, v>>.
RECURSIVE ExtendRun(_, _, _)
ExtendRun(s, items, r) ==
    IF items = <<>> THEN {Ok(s, <<"None">>)}
    ELSE LET first == AppendOutcomes(s, items[1][1], items[1][2], r)
         IN UNION { IF o.res = <<"None">>
                    THEN ExtendRun([order |-> o.order, vals |-> o.vals], Tail(items), r)
                    ELSE {o}
                    : o \in first }
ExtendOutcomes(s, items, r) == {IF o.res = <<"None">> THEN o ELSE Ok(s, o.res) : o \in ExtendRun(s, items, r)}

\* add_item(k, v, index = i) with an index list.insert() refuses: beyond sys.maxsize once `after' has added one to
\* it ("huge": OverflowError), or not an integer ("float": TypeError).  Whatever else applies, nothing changes --
\* in particular a key that was to be re-located is still there.
BadIndexOutcomes(s, a) ==
    LET E == (IF HasValidator /\ a.v = BadVal THEN {<<"Refused">>} ELSE {})
             \cup (IF a.k \in Range(s.order) /\ ~a.replace THEN {<<"KeyError">>} ELSE {})
    IN Unchanged(s, IF E # {} THEN E ELSE {IF a.kind = "huge" THEN <<"OverflowError">> ELSE <<"TypeError">>})

\* SortableDict(initial): the constructor stores the initial items one by one (a dict is taken in its own
\* order); it is the first step of a history or none
CtorOutcomes(s, items) == IF s.order # <<>> THEN {} ELSE ExtendOutcomes(s, items, TRUE)

(***************************************************************************)
(* Operation records (the `op` variable, hidden by VIEW) and dispatch.      *)
(***************************************************************************)
Outcomes(s, o) ==
    CASE o.name = "add_item"   -> AddOutcomes(s, o)
      [] o.name = "setitem"    -> AppendOutcomes(s, o.k, o.v, TRUE)
      [] o.name = "delitem"    -> DelOutcomes(s, o.k)
      [] o.name = "pop"        -> PopOutcomes(s, o.k)
      [] o.name = "pop_default"-> PopDefaultOutcomes(s, o.k, o.v)
      [] o.name = "pop_at"     -> PopAtOutcomes(s, o.index)
      [] o.name = "popitem"    -> PopItemOutcomes(s)
      [] o.name = "sort"       -> SortOutcomes(s)
      [] o.name = "sort_by"    -> SortByOutcomes(s, o.f, o.rev)
      [] o.name = "reverse"    -> ReverseOutcomes(s)
      [] o.name = "clear"      -> ClearOutcomes(s)
      [] o.name = "setdefault" -> SetDefaultOutcomes(s, o.k, o.v)
      [] o.name = "append"     -> AppendOutcomes(s, o.k, o.v, o.replace)
      [] o.name = "append_default" -> AppendOutcomes(s, o.k, DefaultVal, o.replace)
      [] o.name = "extend"     -> ExtendOutcomes(s, o.items, o.replace)
      [] o.name = "ctor"       -> CtorOutcomes(s, o.items)
      [] o.name = "add_bad_index" -> BadIndexOutcomes(s, o)

AllVals == Vals \cup (IF HasValidator THEN {BadVal} ELSE {})

AddOps == [name : {"add_item"}, k : Keys, v : AllVals, after : BOOLEAN,
           index : Indexes \cup {NoArg}, pos : Keys \cup {NoArg, UnknownKey}, replace : BOOLEAN]

Ops ==
    AddOps
    \cup [name : {"setitem", "setdefault", "pop_default"}, k : Keys, v : AllVals]
    \cup [name : {"delitem", "pop"}, k : Keys]
    \cup [name : {"pop_at"}, index : Indexes]
    \cup [name : {"popitem", "sort", "reverse", "clear"}]
    \cup [name : {"sort_by"}, f : {"id", "mod2"}, rev : BOOLEAN]
    \cup [name : {"append"}, k : Keys, v : AllVals, replace : BOOLEAN]
    \cup [name : {"append_default"}, k : Keys, replace : BOOLEAN]
    \cup [name : {"extend"}, items : {<<<<k1, v1>>, <<k2, v2>>>> : k1 \in Keys, k2 \in Keys,
                                                  v1 \in AllVals, v2 \in Vals} \cup {<<>>},
          replace : BOOLEAN]
    \cup [name : {"add_bad_index"}, k : Keys, v : AllVals, kind : {"huge", "float"}, replace : BOOLEAN]
    \cup [name : {"ctor"}, items : {<<<<k1, v1>>, <<k2, v2>>>> : k1 \in Keys, k2 \in Keys, v1 \in Vals, v2 \in Vals}]

Cur == [order |-> order, vals |-> vals]

Init == /\ order = <<>>
        /\ vals = [x \in {} |-> 0]
        /\ op = [name |-> "init"]
        /\ res = <<"None">>

Next == \E o \in Ops : \E out \in Outcomes(Cur, o) :
            /\ order' = out.order
            /\ vals'  = out.vals
            /\ op'    = o
            /\ res'   = out.res

Spec == Init /\ [][Next]_vars

View == <<order, vals>>

(***************************************************************************)
(* Observations (pure functions of the state): what the read-only API       *)
(* answers.  i may be negative (Python indexing of the key list).           *)
(***************************************************************************)
ObsNorm(i, n)  == IF i < 0 THEN i + n ELSE i
ObsValid(i, n) == ObsNorm(i, n) >= 0 /\ ObsNorm(i, n) < n
ObsAt(s, i)       == IF ObsValid(i, Len(s.order)) THEN <<"key", s.order[ObsNorm(i, Len(s.order)) + 1]>> ELSE <<"IndexError">>
ObsValueAt(s, i)  == IF ObsValid(i, Len(s.order)) THEN <<"val", s.vals[s.order[ObsNorm(i, Len(s.order)) + 1]]>> ELSE <<"IndexError">>
ObsIndex(s, k)    == IF k \in Range(s.order) THEN <<"pos", Pos0(s.order, k)>> ELSE <<"ValueError">>
ObsGetItem(s, k)  == IF k \in Range(s.order) THEN <<"val", s.vals[k]>> ELSE <<"KeyError">>
ObsGet(s, k, d)   == IF k \in Range(s.order) THEN <<"val", s.vals[k]>> ELSE <<"val", d>>
ObsContains(s, k) == k \in Range(s.order)
ObsKeys(s)        == s.order
ObsValues(s)      == [i \in 1..Len(s.order) |-> s.vals[s.order[i]]]

(***************************************************************************)
(* Properties (C16).                                                        *)
(***************************************************************************)
KeysUnique   == NoDup(order)
ContentMatch == Range(order) = DOMAIN vals
LenMatch     == Len(order) = Cardinality(DOMAIN vals)
ValsTyped    == \A k \in DOMAIN vals : vals[k] \in Vals \cup {DefaultVal}   \* a refused value is never stored

\* a rejected operation changes nothing (extend included: all or nothing)
IsError(r) == r[1] \in {"KeyError", "ValueError", "IndexError", "Refused", "OverflowError", "TypeError"}
RejectedChangesNothing ==
    [][IsError(res') => (order' = order /\ vals' = vals)]_vars

\* replace keeps position unless a position is given; other keys never change relative order
OthersKeepOrder ==
    [][(op'.name \in {"add_item", "setitem", "append", "append_default", "setdefault"})
        => Without(order', op'.k) = Without(order, op'.k)]_vars
ReplaceKeepsPosition ==
    [][(op'.name = "add_item" /\ res' = <<"None">> /\ op'.k \in Range(order)
        /\ op'.index = NoArg /\ op'.pos = NoArg) => order' = order]_vars
\* "before/after key K lands immediately before/after K"
LandsNextToPosKey ==
    [][(op'.name = "add_item" /\ res' = <<"None">> /\ op'.pos \in Keys /\ op'.pos # op'.k)
        => LET pk == Pos0(order', op'.k)
               pp == Pos0(order', op'.pos)
           IN IF op'.after THEN pk = pp + 1 ELSE pk + 1 = pp]_vars

\* edge emission for the spec -> code replayer (Gen_SDict.cfg)
Emit == PrintT(<<"E", order, [k \in DOMAIN vals |-> vals[k]], op', res', order', vals'>>)
=============================================================================
