SPECIFICATION SpecV
CONSTANTS
  Cat <- MCCat
  CellDom <- MCCells
  BaseGrids <- MCBaseQuick
  NonGrids <- MCNonGrids
INVARIANT Reflexive
INVARIANT Symmetric
INVARIANT Complementary
INVARIANT NoRaiseExceptQtyUnits
INVARIANT HashConsistent
INVARIANT TextKindsDistinct
INVARIANT KindAware
INVARIANT Transitive
INVARIANT SingletonLaw
PROPERTY SwapKeepsVerdict
CHECK_DEADLOCK FALSE
