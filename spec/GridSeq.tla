------------------------------ MODULE GridSeq ------------------------------
(***************************************************************************)
(* hszinc.Grid as a mutable sequence of row dicts with an id index and a   *)
(* version gate (grid.py).  Abstract state of one grid:                    *)
(*    rows   sequence of row identities (the same dict object may occur    *)
(*           more than once, exactly as in a Python list)                  *)
(*    ver    declared/detected version (an element of Versions)            *)
(*    given  whether the version was passed to the constructor             *)
(* Rows are drawn from an alphabet: DictRows (dicts; IdOf(r) is the code    *)
(* of str(r['id']) or 0 when the row has no id; Only3Rows carry a          *)
(* 3.0-only value) and NonDict (values that are not dicts).                *)
(*                                                                         *)
(* Every mutator is an action whose outcome is an element of               *)
(* Outcomes(state, op): a set, so that "which error when two apply" is     *)
(* explicit nondeterminism.  Observations (len, indexing, slicing,         *)
(* membership, lookup by id) are pure operators of the state.  The id      *)
(* index is NOT part of the abstract state: C15 says lookups must agree    *)
(* with a scan of the current rows (LookupAllowed).                        *)
(***************************************************************************)
EXTENDS Naturals, Integers, Sequences, FiniteSets, TLC

CONSTANTS DictRows, NonDict, Only3Rows, IdOf(_), Versions, Pre3Versions, V2, V3, MaxLen,
          IdxArgs,      \* index arguments explored (integers, negative too)
          NoArg,        \* "argument not given"
          Park          \* BOOLEAN: follow the parent of a derived grid too (two live grids)

VARIABLES rows, ver, given, op, res,
          parked        \* the other live grid: the parent a grid was derived from (or the derived grid, after a switch)

vars == <<rows, ver, given, op, res, parked>>

Range(s) == {s[i] : i \in 1..Len(s)}
Min(a, b) == IF a < b THEN a ELSE b
Max(a, b) == IF a > b THEN a ELSE b

(***************************************************************************)
(* Python list index arithmetic.                                           *)
(***************************************************************************)
Norm(i, n)      == IF i < 0 THEN i + n ELSE i                \* subscript
ValidIdx(i, n)  == Norm(i, n) >= 0 /\ Norm(i, n) < n
InsPos(i, n)    == IF i < 0 THEN Max(0, n + i) ELSE Min(i, n) \* list.insert
SliceLo(a, n)   == IF a = NoArg THEN 0 ELSE InsPos(a, n)
SliceHi(b, n)   == IF b = NoArg THEN n ELSE InsPos(b, n)
Slice(s, a, b)  == LET lo == SliceLo(a, Len(s)) hi == SliceHi(b, Len(s))
                   IN IF lo < hi THEN SubSeq(s, lo + 1, hi) ELSE <<>>
DelSlice(s, a, b) == LET lo == SliceLo(a, Len(s)) hi == SliceHi(b, Len(s))
                     IN IF lo < hi THEN SubSeq(s, 1, lo) \o SubSeq(s, hi + 1, Len(s)) ELSE s
\* extended slices s[a:b:st] (st # 0): the zero-based positions a Python slice selects, in its order
StepIdx(a, b, st, n) ==
    IF st > 0 THEN
        LET lo == SliceLo(a, n)  hi == SliceHi(b, n)
            cnt == IF lo < hi THEN (hi - lo + st - 1) \div st ELSE 0
        IN [i \in 1..cnt |-> lo + (i - 1) * st]
    ELSE
        LET start == IF a = NoArg THEN n - 1 ELSE IF a < 0 THEN Max(a + n, -1) ELSE Min(a, n - 1)
            stop  == IF b = NoArg THEN -1 ELSE IF b < 0 THEN Max(b + n, -1) ELSE Min(b, n - 1)
            cnt   == IF start > stop THEN (start - stop + (-st) - 1) \div (-st) ELSE 0
        IN [i \in 1..cnt |-> start + (i - 1) * st]
SliceStep(s, a, b, st) == LET ix == StepIdx(a, b, st, Len(s)) IN [i \in 1..Len(ix) |-> s[ix[i] + 1]]
DelStep(s, a, b, st) ==
    LET D == Range(StepIdx(a, b, st, Len(s)))
        F[i \in 0..Len(s)] == IF i = 0 THEN <<>> ELSE IF (i - 1) \in D THEN F[i - 1] ELSE Append(F[i - 1], s[i])
    IN F[Len(s)]
InsertAt(s, i, r) == LET j == InsPos(i, Len(s))
                     IN SubSeq(s, 1, j) \o <<r>> \o SubSeq(s, j + 1, Len(s))
RemoveAt(s, j)  == SubSeq(s, 1, j - 1) \o SubSeq(s, j + 1, Len(s))     \* j one-based
ReplaceAt(s, j, r) == [s EXCEPT ![j] = r]
Reverse(s)      == [i \in 1..Len(s) |-> s[Len(s) + 1 - i]]
FirstPos(s, r)  == CHOOSE i \in 1..Len(s) : s[i] = r /\ \A j \in 1..(i - 1) : s[j] # r

(***************************************************************************)
(* Observations (C14, C15).                                                *)
(***************************************************************************)
GetItem(s, i)   == IF ValidIdx(i, Len(s)) THEN <<"row", s[Norm(i, Len(s)) + 1]>> ELSE <<"IndexError">>
Contains(s, r)  == r \in Range(s)
\* lookup by id: any row currently in the grid whose id has that string form; KeyError if none
LookupAllowed(s, k) == {r \in Range(s) : IdOf(r) = k}
LookupOk(s, k, result) ==
    IF LookupAllowed(s, k) = {} THEN result = <<"KeyError">>
    ELSE result[1] = "row" /\ result[2] \in LookupAllowed(s, k)
GetOk(s, k, result) ==
    IF LookupAllowed(s, k) = {} THEN result = <<"default">>
    ELSE result[1] = "row" /\ result[2] \in LookupAllowed(s, k)

(***************************************************************************)
(* Version gate (C10, row path): storing a row with a 3.0-only value.      *)
(***************************************************************************)
Pre3(v) == v \in Pre3Versions
Gate(s, r) ==   \* "ok" | "upgrade" | "refuse"
    IF r \in Only3Rows /\ Pre3(s.ver) THEN (IF s.given THEN "refuse" ELSE "upgrade") ELSE "ok"
VerAfter(s, r) == IF Gate(s, r) = "upgrade" THEN V3 ELSE s.ver

St(rw, v, g)  == [rows |-> rw, ver |-> v, given |-> g]
Out(r, rw, v) == [res |-> r, rows |-> rw, ver |-> v]
Same(s, E)    == {Out(e, s.rows, s.ver) : e \in E}
\* a refused store may already have upgraded an undeclared version (validation precedes the index
\* check in __setitem__); the property only fixes the rows, so both versions are allowed then
SameRows(s, E, r) == {Out(e, s.rows, v) : e \in E, v \in {s.ver, VerAfter(s, r)}}

(***************************************************************************)
(* Mutators.                                                               *)
(***************************************************************************)
StoreErrors(s, r) ==
    (IF r \in NonDict THEN {<<"TypeError">>} ELSE {})
    \cup (IF r \in DictRows /\ Gate(s, r) = "refuse" THEN {<<"ValueError">>} ELSE {})

InsertOutcomes(s, i, r) ==
    LET E == StoreErrors(s, r)
    IN IF E # {} THEN Same(s, E)
       ELSE {Out(<<"None">>, InsertAt(s.rows, i, r), VerAfter(s, r))}

AppendOutcomes(s, r) == InsertOutcomes(s, Len(s.rows), r)

SetItemOutcomes(s, i, r) ==
    LET E == StoreErrors(s, r)
             \cup (IF ~ValidIdx(i, Len(s.rows)) THEN {<<"IndexError">>} ELSE {})
    IN IF E # {} THEN (IF r \in DictRows THEN SameRows(s, E, r) ELSE Same(s, E))
       ELSE {Out(<<"None">>, ReplaceAt(s.rows, Norm(i, Len(s.rows)) + 1, r), VerAfter(s, r))}

DelItemOutcomes(s, i) ==
    IF ValidIdx(i, Len(s.rows))
    THEN {Out(<<"None">>, RemoveAt(s.rows, Norm(i, Len(s.rows)) + 1), s.ver)}
    ELSE Same(s, {<<"IndexError">>})

DelSliceOutcomes(s, a, b) == {Out(<<"None">>, DelSlice(s.rows, a, b), s.ver)}
DelStepOutcomes(s, a, b, st) == {Out(<<"None">>, DelStep(s.rows, a, b, st), s.ver)}     \* del g[a:b:st]

PopOutcomes(s, i) ==     \* i = NoArg: pop()
    LET j == IF i = NoArg THEN -1 ELSE i
    IN IF ValidIdx(j, Len(s.rows))
       THEN {Out(<<"row", s.rows[Norm(j, Len(s.rows)) + 1]>>, RemoveAt(s.rows, Norm(j, Len(s.rows)) + 1), s.ver)}
       ELSE Same(s, {<<"IndexError">>})

RemoveOutcomes(s, r) ==
    IF r \in Range(s.rows)
    THEN {Out(<<"None">>, RemoveAt(s.rows, FirstPos(s.rows, r)), s.ver)}
    ELSE Same(s, {<<"ValueError">>})

ReverseOutcomes(s) == {Out(<<"None">>, Reverse(s.rows), s.ver)}
ClearOutcomes(s)   == {Out(<<"None">>, <<>>, s.ver)}

\* extend / += : row by row, a refused row stops the loop, the applied prefix stays (list.extend)
RECURSIVE ExtendOutcomes(_, _, _)
ExtendOutcomes(s, rs, okres) ==
    IF rs = <<>> THEN {Out(okres, s.rows, s.ver)}
    ELSE UNION { IF o.res = <<"None">>
                 THEN ExtendOutcomes(St(o.rows, o.ver, s.given), Tail(rs), okres)
                 ELSE {o}
                 : o \in AppendOutcomes(s, rs[1]) }

\* slice assignment g[a:b] = rows: as for a list, the rows of the slice are replaced by the rows given (a slice
\* whose end lies before its start is empty and sits at its start); every row given must be a dict and pass the
\* gate, otherwise nothing is replaced
SetSlice(s, a, b, rs) == LET lo == SliceLo(a, Len(s)) hi == Max(lo, SliceHi(b, Len(s)))
                         IN SubSeq(s, 1, lo) \o rs \o SubSeq(s, hi + 1, Len(s))
SetSliceOutcomes(s, a, b, rs) ==
    LET I  == 1..Len(rs)
        E  == (IF \E i \in I : rs[i] \in NonDict THEN {<<"TypeError">>} ELSE {})
              \cup (IF \E i \in I : rs[i] \in DictRows /\ Gate(s, rs[i]) = "refuse" THEN {<<"ValueError">>} ELSE {})
        up == \E i \in I : rs[i] \in DictRows /\ Gate(s, rs[i]) = "upgrade"
        v3 == IF up THEN V3 ELSE s.ver
    IN IF E # {} THEN {Out(e, s.rows, v) : e \in E, v \in {s.ver, v3}}
       ELSE {Out(<<"None">>, SetSlice(s.rows, a, b, rs), v3)}
\* g[a:b] = row: a single row where rows are expected.  A dict yields its keys, which are no rows; anything else
\* that is no row is refused as well
SetSliceRowOutcomes(s, a, b, r) == Same(s, {<<"TypeError">>})

(***************************************************************************)
(* Derived grids (C14 slicing, C15 "derived grids"): the history continues *)
(* on the derived grid, which inherits the parent's version and "given".   *)
(***************************************************************************)
SliceOutcomes(s, a, b)   == {Out(<<"grid">>, Slice(s.rows, a, b), s.ver)}
FilterIdOutcomes(s)      == {Out(<<"grid">>, SelectSeq(s.rows, LAMBDA r : IdOf(r) # 0), s.ver)}   \* g.filter('id')
FilterLimitOutcomes(s, n) == {Out(<<"grid">>, SubSeq(s.rows, 1, Min(n, Len(s.rows))), s.ver)}       \* g.filter('', limit=n), n > 0
\* copy.copy(g) / copy.deepcopy(g) / pickle.loads(pickle.dumps(g)): the history continues on the copy, which has the same rows (row by row, the
\* copies of the rows under deepcopy), the same version and is as pinned to it ("given") as the original was.
\* A deep copy (and a pickle round trip) is a grid of its own: the original is parked like the parent of a derived grid.  A shallow copy
\* shares its row list with the original, which the history drops.
CopyOutcomes(s) == {Out(<<"copy">>, s.rows, s.ver)}

Outcomes(s, o) ==
    CASE o.name = "append"   -> AppendOutcomes(s, o.r)
      [] o.name = "insert"   -> InsertOutcomes(s, o.i, o.r)
      [] o.name = "setitem"  -> SetItemOutcomes(s, o.i, o.r)
      [] o.name = "delitem"  -> DelItemOutcomes(s, o.i)
      [] o.name = "delslice" -> DelSliceOutcomes(s, o.a, o.b)
      [] o.name = "delstep"  -> DelStepOutcomes(s, o.a, o.b, o.st)
      [] o.name = "pop"      -> PopOutcomes(s, o.i)
      [] o.name = "remove"   -> RemoveOutcomes(s, o.r)
      [] o.name = "reverse"  -> ReverseOutcomes(s)
      [] o.name = "clear"    -> ClearOutcomes(s)
      [] o.name = "extend"   -> ExtendOutcomes(s, o.rs, <<"None">>)
      [] o.name = "iadd"     -> ExtendOutcomes(s, o.rs, <<"self">>)
      [] o.name = "setslice" -> SetSliceOutcomes(s, o.a, o.b, o.rs)
      [] o.name = "setslice_row" -> SetSliceRowOutcomes(s, o.a, o.b, o.r)
      [] o.name = "slice"    -> SliceOutcomes(s, o.a, o.b)
      [] o.name = "filter_id" -> FilterIdOutcomes(s)
      [] o.name = "filter_limit" -> FilterLimitOutcomes(s, o.n)
      [] o.name = "copy"     -> CopyOutcomes(s)

AnyRow == DictRows \cup NonDict
SliceArgs == IdxArgs \cup {NoArg}
SetSliceArgs == {NoArg, -1, 0, 1, 2} \cap SliceArgs        \* the bounds explored for slice assignment
SetSliceFirst == {r \in DictRows : IdOf(r) # 0 /\ \A q \in DictRows : (IdOf(q) = IdOf(r) => q = r)}   \* first of two rows: one with an id of its own

Ops ==
    [name : {"append", "remove"}, r : AnyRow]
    \cup [name : {"insert", "setitem"}, i : IdxArgs, r : AnyRow]
    \cup [name : {"delitem"}, i : IdxArgs]
    \cup [name : {"pop"}, i : IdxArgs \cup {NoArg}]
    \cup [name : {"delslice", "slice"}, a : SliceArgs, b : SliceArgs]
    \cup [name : {"delstep"}, a : SetSliceArgs, b : SetSliceArgs, st : {-2, -1, 2}]
    \cup [name : {"setslice"}, a : SetSliceArgs, b : SetSliceArgs,
          rs : {<<>>} \cup {<<r1>> : r1 \in AnyRow} \cup {<<r1, r2>> : r1 \in SetSliceFirst, r2 \in AnyRow}]
    \cup [name : {"setslice_row"}, a : {NoArg, 0}, b : {NoArg, 1}, r : AnyRow]
    \cup [name : {"reverse", "clear", "filter_id"}]
    \cup [name : {"filter_limit"}, n : {1, 2}]
    \cup [name : {"copy"}, how : {"shallow", "deep", "pickle"}]
    \cup [name : {"extend", "iadd"}, rs : {<<>>} \cup {<<r1>> : r1 \in AnyRow}
                                          \cup {<<r1, r2>> : r1 \in DictRows, r2 \in AnyRow}]

Cur == St(rows, ver, given)

(***************************************************************************)
(* Two live grids (C15 "derived grids", C14): a derived grid is a grid of  *)
(* its own.  With Park, deriving keeps the parent as `parked' and the      *)
(* history may switch between the two at any time; no operation on one     *)
(* changes the rows, the version or the lookups of the other (a derived    *)
(* grid shares row objects with its parent, nothing else).                 *)
(***************************************************************************)
NoGrid == [has |-> FALSE]
ParkOf(s) == [has |-> TRUE, rows |-> s.rows, ver |-> s.ver, given |-> s.given]
Switch == /\ Park /\ parked.has
          /\ rows' = parked.rows /\ ver' = parked.ver /\ given' = parked.given
          /\ parked' = ParkOf(Cur)
          /\ op' = [name |-> "switch"]
          /\ res' = <<"None">>

Init == /\ parked = NoGrid
        /\ rows = <<>>
        /\ \/ ver \in Versions /\ given = TRUE          \* Grid(version=v)
           \/ ver = V2 /\ given = FALSE                    \* Grid(): 2.0 until a 3.0-only value is detected
        /\ op = [name |-> "init"]
        /\ res = <<"None">>

Step == \E o \in Ops : \E out \in Outcomes(Cur, o) :
            /\ Len(out.rows) <= MaxLen
            /\ rows' = out.rows
            /\ ver' = out.ver
            /\ given' = given      \* a derived grid is as pinned to its version as the grid it was taken from: one whose
                                   \* version was only detected goes on detecting (repaired in round 7; before that a slice
                                   \* of an undeclared grid refused 3.0-only values as if 2.0 had been declared)
            /\ op' = o
            /\ res' = out.res
            /\ parked' = IF Park /\ (out.res = <<"grid">> \/ (out.res = <<"copy">> /\ o.how # "shallow")) THEN ParkOf(Cur) ELSE parked

Next == Step \/ Switch

Spec == Init /\ [][Next]_vars
View == <<rows, ver, given, parked>>

(***************************************************************************)
(* Properties.                                                             *)
(***************************************************************************)
OnlyDictRows == Range(rows) \subseteq DictRows                     \* C14: non-dict rows never get in
\* C10 (row path): a grid labelled pre-3.0 never holds a row with a 3.0-only value
GateInv      == \A r \in Range(rows) : r \in Only3Rows => ~Pre3(ver)
IsError(r)   == r[1] \in {"TypeError", "ValueError", "IndexError"}
\* C14: a refused single-row operation leaves the rows unchanged
RefusedKeepsRows ==
    [][(IsError(res') /\ op'.name \notin {"extend", "iadd"}) => rows' = rows]_vars        \* slice assignment included
\* C10: an explicit version is never changed by any operation
GivenVersionFixed == [][(given /\ op'.name # "switch") => ver' = ver]_vars
\* C14/C15: the two live grids are independent -- only deriving and switching touch the parked one, and the
\* parked grid satisfies the same state invariants as the current one
ParkedIndependent == [][(op'.name # "switch" /\ res' \notin {<<"grid">>, <<"copy">>}) => parked' = parked]_vars
\* C14/C10: a copy has the rows and the version of the grid it was made from
CopyFaithful == [][op'.name = "copy" => (rows' = rows /\ ver' = ver /\ given' = given)]_vars
ParkedInv == parked.has => /\ Range(parked.rows) \subseteq DictRows
                           /\ \A r \in Range(parked.rows) : r \in Only3Rows => ~Pre3(parked.ver)
\* C15: after every history, a lookup result permitted by the model is a row currently present
LookupSound == \A k \in {IdOf(r) : r \in DictRows} \ {0} :
                   \A r \in LookupAllowed(rows, k) : r \in Range(rows) /\ IdOf(r) = k
=============================================================================
