---------------------------- MODULE Trace_QtyOps ----------------------------
(***************************************************************************)
(* Judgement of executions of the real hszinc.Quantity against QtyOps.      *)
(*                                                                         *)
(* File: a JSON array of traces; a trace is a sequence of independent       *)
(* events.  Two kinds of event (field t):                                   *)
(*                                                                         *)
(*  "o" outcome   {op, cfg, ul, ur, units, wrapped, raw, i, j, k}           *)
(*      wrapped / raw: ASCII outcome tokens "V:<type>:<repr>" or            *)
(*      "E:<exception class>" of the expression evaluated on Quantities     *)
(*      and of the same expression on the unwrapped numbers (both computed  *)
(*      by Python; the arithmetic is uninterpreted here).  ul / ur are the  *)
(*      unit spellings of the left / right Quantity ("-" for a plain        *)
(*      number, "none" for unit None); the unit relation is DERIVED here    *)
(*      (UnitRel) -- the logged label `units` must agree with it.           *)
(*      i, j, k index the operand catalogue (kept for the replay file).     *)
(*      The event is accepted iff  wrapped = Expected(ev), where Expected   *)
(*      is read off the protocol machine's final state for the event's      *)
(*      configuration: the raw token when the machine ends in the raw call  *)
(*      on the original operands, "E:TypeError" when it ends in Raise.      *)
(*                                                                         *)
(*  "d" dispatch  {op, cfg, ul, ur, units, path}                            *)
(*      path: the Quantity methods entered directly by the interpreter      *)
(*      while evaluating the expression (sys.setprofile).  Compared with    *)
(*      QtyCalls of the machine.  This validates the MODEL of the dispatch  *)
(*      protocol against CPython; a divergence is reported with clause      *)
(*      "dispatch_path" and is not a violation of C20 by itself.            *)
(*                                                                         *)
(* Events are independent, so validation re-synchronises trivially after a  *)
(* REJECT: every event of every trace is judged; each trace ends with one   *)
(* <<"ACCEPT"|"DONE", tid, #rejected, #judged, #override, #exc>> line.      *)
(***************************************************************************)
EXTENDS QtyOps, Json, IOUtils

VARIABLES tid, l, tr, nrej, novr, nexc

tvars == <<s, tid, l, tr, nrej, novr, nexc>>
TView == <<tid, l, nrej>>

UnitRel(ev) == IF ev.cfg = "QQ" THEN (IF ev.ul = ev.ur THEN "same" ELSE "diff") ELSE "na"

\* the machine's final state for every configuration, computed once
FinalTable == [c \in Configs |-> Final(c[1], c[2], c[3])]
CallsTable == [c \in Configs |-> QtyCalls(c[1], c[2], c[3])]

WellFormed(ev) ==
    /\ ev.op \in AllOps
    /\ ev.cfg \in Cfgs(ev.op)
    /\ Claimed(ev.op, ev.cfg)
    /\ (ev.ul = "-") = ~LeftIsQty(ev.cfg)
    /\ (ev.ur = "-") = ~RightIsQty(ev.cfg)
    /\ ev.units = UnitRel(ev)

Expected(ev) ==
    LET f == FinalTable[<<ev.op, ev.cfg, UnitRel(ev)>>]
    IN IF f.exc # "none" THEN "E:" \o f.exc
       ELSE IF Outcome(f) = [call |-> RawCall(ev.op)] THEN ev.raw
       ELSE "E:?model"          \* cannot happen: MC_QtyOps checks Refinement

Clause(ev) ==
    IF Override(ev.op, ev.cfg, UnitRel(ev)) THEN "unit_mismatch_rule"
    ELSE IF ev.op \in Cmp THEN "comparison_outcome"
    ELSE IF ev.op \in Arith THEN "binary_outcome"
    ELSE IF ev.op \in Ternary THEN "ternary_outcome"
    ELSE IF ev.op \in InPlace THEN "inplace_outcome"
    ELSE IF ev.op \in Unary THEN "unary_outcome"
    ELSE IF ev.op = "index" THEN "index_outcome"
    ELSE "conversion_outcome"

\* "" when the event is accepted, else the failing clause
Verdict(ev) ==
    IF ~WellFormed(ev) THEN "bad_event"
    ELSE IF ev.t = "o" THEN (IF ev.wrapped = Expected(ev) THEN "" ELSE Clause(ev))
    ELSE IF ev.t = "d" THEN (IF ev.path = CallsTable[<<ev.op, ev.cfg, UnitRel(ev)>>] THEN ""
                             ELSE "dispatch_path")
    ELSE "bad_event"

IsExc(tok) == Len(tok) >= 2 /\ SubSeq(tok, 1, 2) = "E:"

TInit == \E f \in {JsonDeserialize(IOEnv.TRACE_FILE)} :
         /\ tid \in 1..Len(f)
         /\ tr = f[tid]
         /\ l = 1
         /\ nrej = 0 /\ novr = 0 /\ nexc = 0
         /\ s = Start("add", "QN", "na")

TNext ==
    /\ l <= Len(tr)
    /\ LET ev == tr[l]
           v  == Verdict(ev)
           wf == WellFormed(ev)
       IN /\ v # "" => PrintT(<<"REJECT", tid, l, v>>)
          /\ nrej' = nrej + (IF v = "" THEN 0 ELSE 1)
          /\ novr' = novr + (IF wf /\ Override(ev.op, ev.cfg, UnitRel(ev)) THEN 1 ELSE 0)
          /\ nexc' = nexc + (IF wf /\ ev.t = "o" /\ IsExc(Expected(ev)) THEN 1 ELSE 0)
          \* the machine state shown is the end of the protocol path of this event
          /\ s' = IF wf THEN FinalTable[<<ev.op, ev.cfg, UnitRel(ev)>>] ELSE s
          /\ l' = l + 1
          /\ (l = Len(tr) => PrintT(<<IF nrej' = 0 THEN "ACCEPT" ELSE "DONE", tid, nrej', l, novr', nexc'>>))
    /\ UNCHANGED <<tid, tr>>

TSpec == TInit /\ [][TNext]_tvars

\* QtyOps' state invariants hold in every final state the judgement passes through
TEnds    == s.pc = "done" => EndsInApplyOrRaise
TOrder   == OperandOrderPreserved
TUnwrap  == AlwaysUnwrapped
=============================================================================
