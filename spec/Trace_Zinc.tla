----------------------------- MODULE Trace_Zinc -----------------------------
(***************************************************************************)
(* Judging ZINC text with the reader machine of ZincRead.tla.              *)
(* The characters ARE the trace: each case carries a document (code points)*)
(* and what the implementation claims about it; TLC runs the document      *)
(* through Step and judges.  Case kinds (field k):                         *)
(*   "denotes"  text, strict, expect (abstract document = sequence of      *)
(*              grids): the machine must accept the text and read exactly  *)
(*              `expect` (C04: hszinc's dump under the strict grammar;      *)
(*              C03: a generated document vs what hszinc parsed)            *)
(*   "same"     a, b: two abstract documents that must be equal (C01: a grid *)
(*              and what came back from dump+parse)                          *)
(*   "outcome"  text, out ("grid" | "zpe" | "other"), abs: C09 -- the       *)
(*              machine's verdict bounds what hszinc may do                 *)
(* One verdict line per case: <<"OK", id>> or <<"REJECT", id, clause, pos>> *)
(***************************************************************************)
EXTENDS ZincRead, Json, IOUtils

VARIABLES cid, done

Cases == TLCGet(1)

\* structural equality with the stated latitudes: a date-time without a zone name (fixed offset)
\* matches any zone name; everything else is exact
\* "the same version": equal as version numbers (2.0 = 2.0.0; hszinc normalises the spelling)
VerEq(a, b) == a = b \/ (V!Valid(a) /\ V!Valid(b) /\ V!Eq(V!Parse(a), V!Parse(b)))
RECURSIVE VEq(_, _)
PairsEq(p, q) == Len(p) = Len(q) /\ \A i \in 1..Len(p) : p[i][1] = q[i][1] /\ VEq(p[i][2], q[i][2])
SeqEq(p, q)   == Len(p) = Len(q) /\ \A i \in 1..Len(p) : VEq(p[i], q[i])
VEq(a, b) ==
    IF a[1] # b[1] THEN FALSE
    ELSE CASE a[1] = 14 -> \/ SubSeq(a, 1, 10) = SubSeq(b, 1, 10) /\ (a[11] = <<>> \/ b[11] = <<>> \/ a[11] = b[11])
                           \* a zoned date-time denotes <<instant, zone>>: a text whose numeric offset is not the zone's
                           \* offset at that instant may come back rendered with the zone's own offset
                           \/ a[11] # <<>> /\ a[11] = b[11] /\ InstantOf(a) = InstantOf(b)
           [] a[1] = 16 -> SeqEq(a[2], b[2])
           [] a[1] = 17 -> PairsEq(a[2], b[2])
           [] a[1] = 18 -> /\ VerEq(a[2], b[2])
                           /\ PairsEq(a[3], b[3])
                           /\ Len(a[4]) = Len(b[4])
                           /\ \A i \in 1..Len(a[4]) : a[4][i][1] = b[4][i][1] /\ PairsEq(a[4][i][2], b[4][i][2])
                           /\ Len(a[5]) = Len(b[5])
                           /\ \A i \in 1..Len(a[5]) : SeqEq(a[5][i], b[5][i])
           [] OTHER -> a = b

DocEq(d, e) == Len(d) = Len(e) /\ \A i \in 1..Len(d) : VEq(d[i], e[i])

\* where two documents first differ (coarse, for the verdict line)
DiffClause(d, e) ==
    IF Len(d) # Len(e) THEN "grid_count"
    ELSE LET i == CHOOSE k \in 1..Len(d) : ~VEq(d[k], e[k]) /\ \A j \in 1..(k - 1) : VEq(d[j], e[j])
             a == d[i]  b == e[i]
         IN IF ~VerEq(a[2], b[2]) THEN "version"
            ELSE IF ~PairsEq(a[3], b[3]) THEN "grid_meta"
            ELSE IF Len(a[4]) # Len(b[4]) THEN "column_count"
            ELSE IF \E c \in 1..Len(a[4]) : a[4][c][1] # b[4][c][1] THEN "column_name"
            ELSE IF \E c \in 1..Len(a[4]) : ~PairsEq(a[4][c][2], b[4][c][2]) THEN "column_meta"
            ELSE IF Len(a[5]) # Len(b[5]) THEN "row_count"
            ELSE IF \E r \in 1..Len(a[5]) : Len(a[5][r]) # Len(b[5][r]) THEN "cell_count"
            ELSE "cell_value"

\* C09: the reported line/column lie within the text handed to the grammar (or are the "unknown" (0,0))
Lines(t) == LET nls == SelectSeq([i \in 1..Len(t) |-> IF t[i] = NL THEN i ELSE 0], LAMBDA x : x # 0)
            IN [k \in 1..(Len(nls) + 1) |->
                  (IF k <= Len(nls) THEN nls[k] ELSE Len(t) + 1) - (IF k = 1 THEN 0 ELSE nls[k - 1]) - 1]
PosOk(t, line, col) ==
    \/ line = 0 /\ col = 0
    \/ \E L \in {Lines(t)} : /\ line >= 1 /\ line <= Len(L) + 1
                              /\ col >= 1
                              /\ col <= (IF line <= Len(L) THEN L[line] ELSE 0) + 1

\* C04/C17: a date-time written with a zone name carries that zone's offset at that instant.  The zone tables
\* (pytz transition tables: <<days, second of day, offset>>, sorted) come with the case for the names found in the text.
RECURSIVE DtsOf(_)
DtsOfSeq(s) == UNION {DtsOf(s[i]) : i \in 1..Len(s)}
DtsOfPairs(p) == UNION {DtsOf(p[i][2]) : i \in 1..Len(p)}
DtsOf(v) == CASE v[1] = 14 -> {v}
              [] v[1] = 16 -> DtsOfSeq(v[2])
              [] v[1] = 17 -> DtsOfPairs(v[2])
              [] v[1] = 18 -> DtsOfPairs(v[3]) \cup UNION {DtsOfPairs(v[4][i][2]) : i \in 1..Len(v[4])}
                              \cup UNION {DtsOfSeq(v[5][i]) : i \in 1..Len(v[5])}
              [] OTHER -> {}
LeqInst(a, b) == a[1] < b[1] \/ (a[1] = b[1] /\ a[2] <= b[2])
OffAt(z, inst) == LET I == {i \in 1..Len(z.trans) : LeqInst(z.trans[i], inst)}
                  IN IF I = {} THEN z.pre ELSE z.trans[CHOOSE i \in I : \A j \in I : j <= i][3]
ZoneConsistent(grids, zones) ==
    \A d \in DtsOfSeq(grids) :
        d[11] = <<>> \/ (\A k \in 1..Len(zones) : zones[k].name = d[11] =>
                            OffAt(zones[k], InstantOf(d)) = (IF d[9] = 1 THEN 0 - d[10] ELSE d[10]))

Judge(c) ==
    \E r \in {Result(ZRead(c.text, c.strict))} :
        IF c.k = "denotes" THEN
            IF ~r.ok THEN PrintT(<<"REJECT", c.id, "reader_" \o r.why, r.pos>>)
            ELSE IF ~DocEq(r.grids, c.expect) THEN PrintT(<<"REJECT", c.id, "differs_" \o DiffClause(r.grids, c.expect), 0>>)
            ELSE IF ~ZoneConsistent(r.grids, c.zones) THEN PrintT(<<"REJECT", c.id, "zone_offset_mismatch", 0>>)
            \* a grid built with version "3.0" is written ver:"3.0" -- not another spelling of the same number
            ELSE IF "verexact" \in DOMAIN c /\ c.verexact # <<>> /\ r.grids # <<>> /\ r.grids[1][2] # c.verexact
                 THEN PrintT(<<"REJECT", c.id, "version_spelling", 0>>)
            ELSE PrintT(<<"OK", c.id>>)
        ELSE IF c.k = "same" THEN        \* two abstract documents (e.g. a grid and its round trip)
            (IF DocEq(c.a, c.b) THEN PrintT(<<"OK", c.id>>)
             ELSE PrintT(<<"REJECT", c.id, "differs_" \o DiffClause(c.a, c.b), 0>>))
        ELSE IF c.k = "scalar" THEN      \* scalar parsing: a value or a ValueError-family exception
            (IF c.out \in {"value", "valueerror"} THEN PrintT(<<"OK", c.id>>)
             ELSE PrintT(<<"REJECT", c.id, "scalar_other_exception", 0>>))
        ELSE \* "outcome"
            IF c.out = "timeout" THEN PrintT(<<"REJECT", c.id, "did_not_terminate", 0>>)
            ELSE IF c.out = "zpe" /\ ~PosOk(c.gtext, c.line, c.col) THEN PrintT(<<"REJECT", c.id, "position_outside_text", 0>>)
            \* a missing or malformed version header has a place in the text (its first line): the "unknown" position
            \* (0,0) is for failures that have none (repaired in round 7; until then every header failure said (0,0))
            ELSE IF c.out = "zpe" /\ c.line = 0 /\ ~r.ok /\ r.why = "bad_version_header" /\ c.gtext = c.text
                 THEN PrintT(<<"REJECT", c.id, "position_outside_text", 1>>)
            ELSE IF r.ok THEN
                (IF c.out = "grid" THEN
                    (IF r.amb \/ DocEq(IF c.single /\ r.grids # <<>> THEN <<r.grids[1]>> ELSE r.grids, c.abs) THEN PrintT(<<"OK", c.id>>)
                     ELSE PrintT(<<"REJECT", c.id, "misparsed_" \o DiffClause(r.grids, c.abs), 0>>))
                 ELSE IF c.out = "zpe" THEN PrintT(<<"NOTE", c.id, "rejected_wellformed", 0>>)
                 ELSE PrintT(<<"REJECT", c.id, "other_exception", 0>>))
            ELSE
                (IF c.out = "grid" THEN
                    (IF r.why \in Structural THEN PrintT(<<"REJECT", c.id, "accepted_" \o r.why, r.pos>>)
                     ELSE PrintT(<<"NOTE", c.id, "accepted_" \o r.why, r.pos>>))
                 ELSE IF c.out = "zpe" THEN PrintT(<<"OK", c.id>>)
                 ELSE PrintT(<<"REJECT", c.id, "other_exception", r.pos>>))

Init == \E f \in {JsonDeserialize(IOEnv.TRACE_FILE)} :
          /\ TLCSet(1, f)
          /\ cid \in 1..Len(f)
          /\ done = FALSE

Next == /\ ~done
        /\ Judge(Cases[cid])
        /\ done' = TRUE
        /\ UNCHANGED cid

Spec == Init /\ [][Next]_<<cid, done>>
=============================================================================
