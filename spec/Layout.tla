------------------------------- MODULE Layout -------------------------------
(***************************************************************************)
(* Layout plans for codec cases (C01, C02, C04, C06, C08): which value kind  *)
(* sits in which position of a grid of which declared version.  TLC         *)
(* enumerates the whole bounded plan space (every kind x every position x   *)
(* version, and every ordered pair of kinds in adjacent cells); the harness *)
(* instantiates each plan with payloads of its catalogue.  The validity     *)
(* rules are the Haystack ones: 3.0-only kinds and nesting positions exist  *)
(* only under version 3.0.                                                  *)
(***************************************************************************)
EXTENDS Naturals, Sequences, FiniteSets, TLC, Json

Kinds == {"null", "marker", "na", "remove", "bool", "num", "qty", "str", "uri", "bin", "ref", "xstr",
          "date", "time", "dt", "coord", "list", "dict", "grid"}
Only3 == {"na", "xstr", "list", "dict", "grid"}
Positions == {"gmeta", "cmeta", "cell", "cell_first", "cell_last", "list_elem", "dict_val",
              "ngrid_cell", "ngrid_gmeta", "ngrid_cmeta", "list_in_dict", "dict_in_list", "grid_in_list"}
Nested == {"list_elem", "dict_val", "ngrid_cell", "ngrid_gmeta", "ngrid_cmeta", "list_in_dict",
           "dict_in_list", "grid_in_list"}
Versions == {"2.0", "3.0"}

ValidSingle(p) ==
    /\ (p.kind \in Only3 => p.ver = "3.0")
    /\ (p.pos \in Nested => p.ver = "3.0")
    /\ ~(p.kind = "null" /\ p.pos \in {"gmeta", "cmeta", "ngrid_gmeta", "ngrid_cmeta", "dict_val"})  \* a tag is never null
ValidPair(p) ==
    /\ (p.kind \in Only3 \/ p.kind2 \in Only3) => p.ver = "3.0"

Singles == {p \in [t : {"single"}, kind : Kinds, pos : Positions, ver : Versions] : ValidSingle(p)}
Pairs   == {p \in [t : {"pair"}, kind : Kinds, kind2 : Kinds, ver : Versions] : ValidPair(p)}

VARIABLE plan
Init == plan \in Singles \cup Pairs
Next == UNCHANGED plan
Spec == Init /\ [][Next]_plan
Emit == PrintT(ToJson(plan))
\* sanity: every kind occurs in every position it may occupy
Covered == \A k \in Kinds : \E p \in Singles : p.kind = k
ASSUME Covered
=============================================================================
