------------------------------ MODULE TzCodec ------------------------------
(***************************************************************************)
(* Date-times through time zones (hszinc zoneinfo.py, dump_date_time of    *)
(* zincdumper.py / jsondumper.py, hs_dateTime of zincparser.py and the     *)
(* DATETIME_RE branch of jsonparser.py) -- property C17.                   *)
(*                                                                         *)
(* An instant is <<days since 1970-01-01, second of day, microsecond>>     *)
(* (days may be negative; TLC integers are 32 bit, so no epoch seconds).   *)
(* A zone is a transition table                                            *)
(*    [name, olson, pre, trans : Seq(<<tauDays, tauSecs, offSecs>>)]       *)
(* trans ascending in <<tauDays, tauSecs>>; `pre` is the offset in force   *)
(* before the first tabulated transition.  All text (zone names, the       *)
(* date-time lexeme) is a sequence of code points.                         *)
(*                                                                         *)
(* Pure operators: Off, CivilFromDays/DaysFromCivil, WriteDT (the lexeme   *)
(* the writers emit), ReadDT (the lexeme the ZINC/JSON grammars accept,    *)
(* read code point by code point), the tz-map construction FoldStep /      *)
(* MapFold, and the clause sets RtClauses / FbClauses / MapClauses.  The   *)
(* same clause operators are the invariants of the small state machine     *)
(* below (MC_TzCodec) and the judgement of recorded executions of the real *)
(* code (Trace_TzCodec).                                                   *)
(***************************************************************************)
EXTENDS Naturals, Integers, Sequences, FiniteSets, TLC

CONSTANTS AllTz,      \* tz database names in host order (pytz.all_timezones), code point sequences
          Haystack,   \* set of Haystack zone names (code point sequences)
          ZoneTab,    \* sequence of tzinfo tables [olson, pre, trans] of the host's zones
          Instants,   \* instants explored by the model
          FixedOffs,  \* offsets (seconds) of fixed-offset tzinfo values explored
          Formats     \* subset of {"zinc", "json"}

VARIABLES phase,      \* "map" | "idle" | "written" | "refused" | "read"
          mi, macc,   \* map construction: next index into AllTz, accumulator [map, todo]
          x,          \* the value handed to the writer
          text,       \* what the writer emitted
          back        \* what the reader returned

vars == <<phase, mi, macc, x, text, back>>

Day == 86400

(***************************************************************************)
(* Instant arithmetic.  \div is floor division and % is non-negative for a *)
(* positive divisor (also for negative dividends).                         *)
(***************************************************************************)
Shift(t, s) == LET q == t[2] + s IN <<t[1] + (q \div Day), q % Day, t[3]>>
LeqDS(d1, s1, d2, s2) == d1 < d2 \/ (d1 = d2 /\ s1 <= s2)

(***************************************************************************)
(* Off(z, t): the offset in force at instant t -- that of the last         *)
(* tabulated transition at or before t, else z.pre.  Binary search (tables *)
(* have up to 243 entries); OffLinear is the defining form, MC_TzCodec     *)
(* checks that they agree.                                                 *)
(***************************************************************************)
RECURSIVE LastLeq(_, _, _, _)
LastLeq(tr, t, lo, hi) ==      \* greatest i in lo..hi with i = 0 or tr[i] <= t (tr[lo] <= t or lo = 0)
    IF lo >= hi THEN lo
    ELSE LET mid == (lo + hi + 1) \div 2
         IN IF LeqDS(tr[mid][1], tr[mid][2], t[1], t[2]) THEN LastLeq(tr, t, mid, hi)
            ELSE LastLeq(tr, t, lo, mid - 1)
TransIdx(z, t) == LastLeq(z.trans, t, 0, Len(z.trans))
Off(z, t) == LET i == TransIdx(z, t) IN IF i = 0 THEN z.pre ELSE z.trans[i][3]

OffLinear(z, t) ==
    LET S == {i \in 1..Len(z.trans) : LeqDS(z.trans[i][1], z.trans[i][2], t[1], t[2])}
    IN IF S = {} THEN z.pre ELSE z.trans[CHOOSE i \in S : \A j \in S : j <= i][3]

Sorted(z) == \A i \in 1..(Len(z.trans) - 1) :
                LeqDS(z.trans[i][1], z.trans[i][2], z.trans[i + 1][1], z.trans[i + 1][2])

(***************************************************************************)
(* Proleptic Gregorian calendar, valid for years 1..9999                   *)
(* (days -719162 .. 2932896).                                              *)
(***************************************************************************)
IsLeap(y) == (y % 4 = 0 /\ y % 100 # 0) \/ y % 400 = 0
DaysInMonth(y, m) == IF m = 2 THEN (IF IsLeap(y) THEN 29 ELSE 28)
                     ELSE IF m \in {4, 6, 9, 11} THEN 30 ELSE 31
ValidCivil(c) == c[1] \in 1..9999 /\ c[2] \in 1..12 /\ c[3] >= 1 /\ c[3] <= DaysInMonth(c[1], c[2])
NextCivil(c) == IF c[3] < DaysInMonth(c[1], c[2]) THEN <<c[1], c[2], c[3] + 1>>
                ELSE IF c[2] < 12 THEN <<c[1], c[2] + 1, 1>> ELSE <<c[1] + 1, 1, 1>>

DaysFromCivil(y0, m, d) ==
    LET y   == IF m <= 2 THEN y0 - 1 ELSE y0
        era == y \div 400
        yoe == y - era * 400
        mp  == IF m > 2 THEN m - 3 ELSE m + 9
        doy == (153 * mp + 2) \div 5 + d - 1
        doe == yoe * 365 + yoe \div 4 - yoe \div 100 + doy
    IN era * 146097 + doe - 719468

CivilFromDays(n) ==
    LET z   == n + 719468
        era == z \div 146097
        doe == z - era * 146097
        yoe == (doe - doe \div 1460 + doe \div 36524 - doe \div 146096) \div 365
        doy == doe - (365 * yoe + yoe \div 4 - yoe \div 100)
        mp  == (5 * doy + 2) \div 153
        d   == doy - (153 * mp + 2) \div 5 + 1
        m   == IF mp < 10 THEN mp + 3 ELSE mp - 9
    IN <<yoe + era * 400 + (IF m <= 2 THEN 1 ELSE 0), m, d>>

(***************************************************************************)
(* Writer: `YYYY-MM-DDTHH:MM:SS[.ffffff]+HH:MM ZoneName`, JSON with the    *)
(* prefix `t:`.  Only whole-minute offsets have a spelling.                *)
(***************************************************************************)
D2(n) == <<48 + ((n \div 10) % 10), 48 + (n % 10)>>
D4(n) == D2(n \div 100) \o D2(n % 100)
D6(n) == D2(n \div 10000) \o D4(n % 10000)
Abs(n) == IF n < 0 THEN -n ELSE n
Writable(off) == off % 60 = 0 /\ Abs(off) < 86400
\* an aware date-time exists only if its local rendering stays within years 1..9999
Representable(t, off) == LET d == Shift(t, off)[1] IN d >= -719162 /\ d <= 2932896
OffText(off) == <<IF off < 0 THEN 45 ELSE 43>> \o D2(Abs(off) \div 3600) \o <<58>>
                \o D2((Abs(off) % 3600) \div 60)
Prefix(fmt) == IF fmt = "json" THEN <<116, 58>> ELSE <<>>

WriteDT(fmt, t, off, name) ==
    LET loc == Shift(t, off)
        c   == CivilFromDays(loc[1])
    IN Prefix(fmt) \o D4(c[1]) \o <<45>> \o D2(c[2]) \o <<45>> \o D2(c[3]) \o <<84>>
       \o D2(loc[2] \div 3600) \o <<58>> \o D2((loc[2] % 3600) \div 60) \o <<58>> \o D2(loc[2] % 60)
       \o (IF t[3] = 0 THEN <<>> ELSE <<46>> \o D6(t[3]))
       \o OffText(off) \o <<32>> \o name

(***************************************************************************)
(* Reader of the date-time lexeme over code points.                        *)
(*   ZINC zone name: [A-Z][a-zA-Z0-9_-]*  or  (UTC|GMT)[+-]digits          *)
(*   JSON zone name: [A-Za-z0-9_+-]+                                       *)
(* Result [ok |-> TRUE, inst, off, hasname, name] or [ok |-> FALSE, why].  *)
(***************************************************************************)
IsDigit(c) == c >= 48 /\ c <= 57
Upper(c) == c >= 65 /\ c <= 90
Lower(c) == c >= 97 /\ c <= 122
NameChar(c) == Upper(c) \/ Lower(c) \/ IsDigit(c) \/ c = 95 \/ c = 45
N2(t, i) == (t[i] - 48) * 10 + (t[i + 1] - 48)
N4(t, i) == N2(t, i) * 100 + N2(t, i + 2)
RECURSIVE DigitRun(_, _, _)
DigitRun(t, i, n) == IF i <= n /\ IsDigit(t[i]) THEN 1 + DigitRun(t, i + 1, n) ELSE 0
RECURSIVE NumAt(_, _, _)
NumAt(t, i, k) == IF k = 0 THEN 0 ELSE NumAt(t, i, k - 1) * 10 + (t[i + k - 1] - 48)
Pow10(k) == IF k = 0 THEN 1 ELSE IF k = 1 THEN 10 ELSE IF k = 2 THEN 100 ELSE IF k = 3 THEN 1000
            ELSE IF k = 4 THEN 10000 ELSE 100000

GmtForm(nm) == /\ Len(nm) >= 5
               /\ SubSeq(nm, 1, 3) \in {<<85, 84, 67>>, <<71, 77, 84>>}
               /\ nm[4] \in {43, 45}
               /\ \A i \in 5..Len(nm) : IsDigit(nm[i])
NameOk(fmt, nm) ==
    /\ Len(nm) >= 1
    /\ IF fmt = "zinc"
       THEN (Upper(nm[1]) /\ \A i \in 2..Len(nm) : NameChar(nm[i])) \/ GmtForm(nm)
       ELSE \A i \in 1..Len(nm) : NameChar(nm[i]) \/ nm[i] = 43

Fail(why) == [ok |-> FALSE, why |-> why]

ReadBody(fmt, t) ==
    LET n == Len(t) IN
    IF n < 20 THEN Fail("short")
    ELSE IF ~(/\ \A i \in {1, 2, 3, 4, 6, 7, 9, 10, 12, 13, 15, 16, 18, 19} : IsDigit(t[i])
              /\ t[5] = 45 /\ t[8] = 45 /\ t[11] \in {84, 116} /\ t[14] = 58 /\ t[17] = 58)
    THEN Fail("layout")
    ELSE
    LET y  == N4(t, 1)
        mo == N2(t, 6)
        d  == N2(t, 9)
        h  == N2(t, 12)
        mi2 == N2(t, 15)
        s  == N2(t, 18)
        fr == t[20] = 46
        fl == IF fr THEN DigitRun(t, 21, n) ELSE 0
        p  == IF fr THEN 21 + fl ELSE 20
    IN
    IF ~(y >= 1 /\ mo >= 1 /\ mo <= 12 /\ d >= 1 /\ d <= DaysInMonth(y, mo)
         /\ h <= 23 /\ mi2 <= 59 /\ s <= 59) THEN Fail("range")
    ELSE IF fr /\ (fl = 0 \/ fl > 6) THEN Fail("fraction")
    ELSE IF p > n THEN Fail("no_offset")
    ELSE
    LET us   == IF fl = 0 THEN 0 ELSE NumAt(t, 21, fl) * Pow10(6 - fl)
        isZ  == t[p] \in {90, 122}
        isHM == /\ t[p] \in {43, 45} /\ n >= p + 5
                /\ IsDigit(t[p + 1]) /\ IsDigit(t[p + 2]) /\ t[p + 3] = 58
                /\ IsDigit(t[p + 4]) /\ IsDigit(t[p + 5])
    IN
    IF ~isZ /\ ~isHM THEN Fail("offset")
    ELSE IF ~isZ /\ N2(t, p + 4) > 59 THEN Fail("offset_range")
    ELSE
    LET off  == IF isZ THEN 0
                ELSE (IF t[p] = 45 THEN -1 ELSE 1) * (N2(t, p + 1) * 3600 + N2(t, p + 4) * 60)
        q    == IF isZ THEN p + 1 ELSE p + 6
        inst == Shift(<<DaysFromCivil(y, mo, d), h * 3600 + mi2 * 60 + s, us>>, -off)
    IN
    IF q = n + 1 THEN [ok |-> TRUE, inst |-> inst, off |-> off, hasname |-> FALSE, name |-> <<>>]
    ELSE IF t[q] # 32 THEN Fail("junk_after_offset")
    ELSE LET nm == SubSeq(t, q + 1, n)
         IN IF NameOk(fmt, nm)
            THEN [ok |-> TRUE, inst |-> inst, off |-> off, hasname |-> TRUE, name |-> nm]
            ELSE Fail("zone_name")

ReadDT(fmt, t) ==
    IF fmt = "json"
    THEN IF Len(t) >= 2 /\ t[1] = 116 /\ t[2] = 58 THEN ReadBody(fmt, SubSeq(t, 3, Len(t)))
         ELSE Fail("prefix")
    ELSE ReadBody(fmt, t)

(***************************************************************************)
(* Construction of the name <-> tz map (zoneinfo._map_timezones): a fold   *)
(* over the host's zone list; each entry either matches a still-unmapped   *)
(* Haystack name exactly, or by its suffix after exactly one '/'; names    *)
(* with more '/' are looked at afterwards, by their last part.             *)
(* acc = [map : set of <<haystack name, olson name>>, todo : set of names] *)
(***************************************************************************)
Slashes(s) == {i \in 1..Len(s) : s[i] = 47}
ExactMatch(acc, full) == full \in acc.todo
SuffixOf(full) == LET i == CHOOSE i \in Slashes(full) : TRUE IN SubSeq(full, i + 1, Len(full))
SuffixAfterOneSlash(acc, full) == Cardinality(Slashes(full)) = 1 /\ SuffixOf(full) \in acc.todo
FoldStep(acc, full) ==
    IF acc.todo = {} THEN acc
    ELSE IF ExactMatch(acc, full)
         THEN [map |-> acc.map \cup {<<full, full>>}, todo |-> acc.todo \ {full}]
    ELSE IF SuffixAfterOneSlash(acc, full)
         THEN [map |-> acc.map \cup {<<SuffixOf(full), full>>}, todo |-> acc.todo \ {SuffixOf(full)}]
    ELSE acc
RECURSIVE FoldFrom(_, _, _)
FoldFrom(acc, all, i) == IF i > Len(all) THEN acc ELSE FoldFrom(FoldStep(acc, all[i]), all, i + 1)
\* second pass (repaired in round 7: until then names with more than one '/' were skipped, and 18 official Haystack
\* zones -- Knox, Marengo, ..., Ushuaia -- were never mapped): a tz database name with two or more '/'
\* (America/Indiana/Knox) is the Haystack zone called like its last part, if that name is still unmapped.
LastPart(full) == LET i == CHOOSE i \in Slashes(full) : \A j \in Slashes(full) : j <= i
                  IN SubSeq(full, i + 1, Len(full))
NestedStep(acc, full) ==
    IF Cardinality(Slashes(full)) >= 2 /\ LastPart(full) \in acc.todo
    THEN [map |-> acc.map \cup {<<LastPart(full), full>>}, todo |-> acc.todo \ {LastPart(full)}]
    ELSE acc
RECURSIVE NestedFrom(_, _, _)
NestedFrom(acc, all, i) == IF i > Len(all) THEN acc ELSE NestedFrom(NestedStep(acc, all[i]), all, i + 1)
MapFold(all, hay) == NestedFrom(FoldFrom([map |-> {}, todo |-> hay], all, 1), all, 1)

Injective(m) == \A p \in m : \A q \in m : (p[1] = q[1]) <=> (p[2] = q[2])
Inverse(m) == {<<p[2], p[1]>> : p \in m}
SeqSet(s) == {s[i] : i \in 1..Len(s)}

\* the logged map event: [all, haystack, map, rmap, tzs] (sequences), tzs[i] = <<name, zone id of
\* timezone(name), index of the first name whose timezone() is the same object>>
MapClauses(ev) ==
    LET m  == SeqSet(ev.map)
        rm == SeqSet(ev.rmap)
    IN (IF m = MapFold(ev.all, SeqSet(ev.haystack)).map /\ Cardinality(m) = Len(ev.map)
        THEN {} ELSE {"map_fold"})
       \cup (IF /\ Injective(m)
                /\ \A i \in 1..Len(ev.tzs) : \A j \in 1..Len(ev.tzs) :
                      i # j => ev.tzs[i][2] # ev.tzs[j][2] /\ ev.tzs[i][3] # ev.tzs[j][3]
                /\ {<<ev.tzs[i][1], ev.tzs[i][2]>> : i \in 1..Len(ev.tzs)} = m
             THEN {} ELSE {"map_injective"})
       \cup (IF rm = Inverse(m) /\ Cardinality(rm) = Len(ev.rmap) /\ Inverse(rm) = m
             THEN {} ELSE {"rmap_inverse"})

(***************************************************************************)
(* Clause sets (empty = the case satisfies C17).                           *)
(*  dumped : [k |-> "text", text |-> cps] | [k |-> "exc", exc |-> class]   *)
(*  back   : [k |-> "ok", inst, off, name : [k |-> "ok", cps] | [k|->"exc"]]*)
(*           | [k |-> "exc", exc] | [k |-> "type"]                         *)
(***************************************************************************)
\* a mapped zone `name`, value at instant inst with offset off
RtClauses(fmt, name, inst, off, dumped, bk) ==
    IF dumped.k # "text" THEN {"dump_raises"}
    ELSE LET r == ReadDT(fmt, dumped.text) IN
         (IF ~r.ok THEN {"text_syntax"}
          ELSE (IF r.inst = inst THEN {} ELSE {"text_instant"})
               \cup (IF r.off = off THEN {} ELSE {"text_offset"})
               \cup (IF r.hasname /\ r.name = name THEN {} ELSE {"text_zone"}))
         \cup
         (IF bk.k = "exc" THEN {"parse_raises"}
          ELSE IF bk.k # "ok" THEN {"back_type"}
          ELSE (IF bk.inst = inst THEN {} ELSE {"back_instant"})
               \cup (IF bk.off = off THEN {} ELSE {"back_offset"})
               \cup (IF bk.name.k = "ok" /\ bk.name.cps = name THEN {} ELSE {"back_zone"}))

\* any other tz-aware value (offset off at instant inst); zs: sequence of the mapped zones
FbClauses(fmt, zs, inst, off, dumped) ==
    IF dumped.k = "exc" THEN (IF dumped.exc = "ValueError" THEN {} ELSE {"fallback_exception"})
    ELSE IF dumped.k # "text" THEN {"fallback_exception"}
    ELSE LET r == ReadDT(fmt, dumped.text) IN
         IF ~r.ok THEN {"text_syntax"}
         ELSE (IF r.inst = inst THEN {} ELSE {"fallback_instant"})
              \cup (IF r.hasname /\ \E i \in 1..Len(zs) : zs[i].name = r.name /\ Off(zs[i], inst) = off
                    THEN {} ELSE {"fallback_offset"})

(***************************************************************************)
(* The small machine: build the map entry by entry, then write values and  *)
(* read them back.  A value is carried either by one of the host's zones   *)
(* (ZoneTab[zi]; mapped or not) or by a fixed-offset tzinfo.               *)
(***************************************************************************)
Null == [k |-> "none"]

IsMapped(map, z) == \E p \in map : p[2] = z.olson
NameOf(map, z) == (CHOOSE p \in map : p[2] = z.olson)[1]
RECURSIVE MappedFrom(_, _, _)
MappedFrom(map, tab, i) ==
    IF i > Len(tab) THEN <<>>
    ELSE (IF IsMapped(map, tab[i])
          THEN <<[name |-> NameOf(map, tab[i]), olson |-> tab[i].olson, pre |-> tab[i].pre,
                  trans |-> tab[i].trans]>>
          ELSE <<>>) \o MappedFrom(map, tab, i + 1)
MZ == MappedFrom(macc.map, ZoneTab, 1)          \* the mapped zones, with their Haystack names

Init == /\ phase = "map" /\ mi = 1 /\ macc = [map |-> {}, todo |-> Haystack]
        /\ x = Null /\ text = <<>> /\ back = Null

MapStep == /\ phase = "map" /\ mi <= Len(AllTz)
           \* ... and, after the last entry, the second pass over the names with more than one '/'
           /\ macc' = IF mi = Len(AllTz) THEN NestedFrom(FoldStep(macc, AllTz[mi]), AllTz, 1)
                      ELSE FoldStep(macc, AllTz[mi])
           /\ mi' = mi + 1
           /\ phase' = IF mi = Len(AllTz) THEN "idle" ELSE "map"
           /\ UNCHANGED <<x, text, back>>

\* timezone_name's hard case: any mapped zone whose offset at that instant equals the value's
Fallback(fmt, t, off) ==
    LET mz   == MZ
        cand == {i \in 1..Len(mz) : Off(mz[i], t) = off}
    IN /\ x' = [kind |-> "other", fmt |-> fmt, inst |-> t, off |-> off, name |-> <<>>]
       /\ IF cand = {} \/ ~Writable(off)
          THEN phase' = "refused" /\ text' = <<>>                       \* ValueError
          ELSE \E i \in cand : text' = WriteDT(fmt, t, off, mz[i].name) /\ phase' = "written"

WriteZoned(fmt, zi, t) ==
    LET z == ZoneTab[zi]
        off == Off(z, t)
    IN /\ phase = "idle" /\ Representable(t, off)
       /\ IF IsMapped(macc.map, z) /\ Writable(off)
          THEN /\ x' = [kind |-> "mapped", fmt |-> fmt, inst |-> t, off |-> off, name |-> NameOf(macc.map, z)]
               /\ text' = WriteDT(fmt, t, off, NameOf(macc.map, z))
               /\ phase' = "written"
          ELSE Fallback(fmt, t, off)
       /\ UNCHANGED <<mi, macc, back>>

WriteFixed(fmt, off, t) ==
    /\ phase = "idle" /\ Representable(t, off)
    /\ Fallback(fmt, t, off)
    /\ UNCHANGED <<mi, macc, back>>

\* parse: the lexeme denotes an instant; astimezone(timezone(name)) re-expresses it in the zone
ReadBack ==
    /\ phase = "written"
    /\ LET r == ReadDT(x.fmt, text)
           mz == MZ
           S == IF r.ok /\ r.hasname THEN {i \in 1..Len(mz) : mz[i].name = r.name} ELSE {}
       IN back' = IF S = {} THEN [k |-> "exc", exc |-> "unreadable"]
                  ELSE LET z == mz[CHOOSE i \in S : TRUE]
                       IN [k |-> "ok", inst |-> r.inst, off |-> Off(z, r.inst),
                           name |-> [k |-> "ok", cps |-> z.name]]
    /\ phase' = "read"
    /\ UNCHANGED <<mi, macc, x, text>>

Reset == /\ phase \in {"read", "refused"}
         /\ phase' = "idle" /\ x' = Null /\ text' = <<>> /\ back' = Null
         /\ UNCHANGED <<mi, macc>>

Next == \/ MapStep
        \/ \E fmt \in Formats, t \in Instants :
              \/ \E zi \in 1..Len(ZoneTab) : WriteZoned(fmt, zi, t)
              \/ \E off \in FixedOffs : WriteFixed(fmt, off, t)
        \/ ReadBack
        \/ Reset

Spec == Init /\ [][Next]_vars

(***************************************************************************)
(* Properties (C17).                                                       *)
(***************************************************************************)
\* the map is one-to-one at every step of its construction, maps only Haystack names to host zones
NameBijective ==
    /\ Injective(macc.map)
    /\ \A p \in macc.map : p[1] \in Haystack /\ p[1] \notin macc.todo
                           /\ \E i \in 1..(mi - 1) : AllTz[i] = p[2]
    /\ Inverse(Inverse(macc.map)) = macc.map
    /\ LET mz == MZ IN \A i \in 1..Len(mz) : \A j \in 1..Len(mz) : i # j => mz[i].name # mz[j].name
\* the step-wise construction is the fold
MapIsFold == phase # "map" => macc = MapFold(AllTz, Haystack)

\* what the writer emitted denotes exactly the value (instant, offset, zone name)
WriterDenotes ==
    (phase \in {"written", "read"} /\ x.kind = "mapped") =>
        LET r == ReadDT(x.fmt, text)
        IN r.ok /\ r.inst = x.inst /\ r.off = x.off /\ r.hasname /\ r.name = x.name
\* Read(Write(x)) = x for instant, offset and name
RoundTrip ==
    (phase = "read" /\ x.kind = "mapped") =>
        RtClauses(x.fmt, x.name, x.inst, x.off, [k |-> "text", text |-> text], back) = {}
\* any other value: same instant, a zone whose offset at that instant is the value's -- or refusal
FallbackSound ==
    /\ (phase \in {"written", "read"} /\ x.kind = "other") =>
          LET mz == MZ IN FbClauses(x.fmt, mz, x.inst, x.off, [k |-> "text", text |-> text]) = {}
    /\ (phase = "read" /\ x.kind = "other") =>
          back.k = "ok" /\ back.inst = x.inst /\ back.off = x.off
    /\ phase = "refused" => x.kind = "other"

View == vars
=============================================================================
