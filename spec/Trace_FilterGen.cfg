SPECIFICATION TSpec
CONSTANTS
  Emitter = "consts"
  Tier = "quick"
VIEW TView
CHECK_DEADLOCK FALSE
