SPECIFICATION Spec
CONSTANTS
  DictRows = {1, 2, 3, 4, 5, 6}
  NonDict = {7, 8}
  Only3Rows = {6}
  IdOf <- MCIdOf
  Versions = {"2.0", "3.0"}
  Pre3Versions = {"2.0"}
  V2 = "2.0"
  V3 = "3.0"
  MaxLen = 4
  IdxArgs <- MCIdxArgs
  NoArg = 99
  Park = FALSE
VIEW View
INVARIANT OnlyDictRows
INVARIANT GateInv
INVARIANT LookupSound
PROPERTY RefusedKeepsRows
PROPERTY GivenVersionFixed
PROPERTY CopyFaithful
CHECK_DEADLOCK FALSE
