SPECIFICATION Spec
CONSTANTS
  Tier = "thorough"
INVARIANT ParseAgrees
INVARIANT LiteralsValid
INVARIANT SemAgree
CHECK_DEADLOCK FALSE
