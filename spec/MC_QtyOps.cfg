SPECIFICATION Spec
CONSTANTS
  Fault = "none"
INVARIANT TypeOK
INVARIANT EndsInApplyOrRaise
INVARIANT OperandOrderPreserved
INVARIANT AlwaysUnwrapped
INVARIANT ComparisonUnitRule
INVARIANT Refinement
INVARIANT UnclaimedOnlyTernaryNQ
INVARIANT Deterministic
INVARIANT FunctionAgrees
INVARIANT CallShape
PROPERTY Terminates
CHECK_DEADLOCK FALSE
