-------------------------- MODULE Trace_FilterLex --------------------------
(***************************************************************************)
(* Judging recorded executions of Grid.filter(text) at character level     *)
(* (C11 role D, C12).  File: a sequence of cases                           *)
(*   [id, text (code points), rows (<<<<tag, value>>...>> per row),        *)
(*    out \in {"ok", "raises", "parse_error"}, sel (selected rows as       *)
(*    1-based indexes into rows, 0 = an object that is no source row),     *)
(*    optionally k (the limit argument, 0 = none)]                         *)
(* One initial state per case, one verdict line per case:                  *)
(*   <<"OK", id, class, must_in, must_out>>                                *)
(*        class "judged": the text is a filter, all literals are valid     *)
(*              ZINC scalars, the selection is one the property allows     *)
(*        class "not_a_filter" / "invalid_literal": the property says      *)
(*              nothing (the text is outside the language)                 *)
(*        class "refused_loose_blanks": refused, and the text separates    *)
(*              tokens by tab / CR / LF                                    *)
(*        class "refused_extension_literal": refused, and a literal is of  *)
(*              a kind outside the Haystack filter grammar or spelled in a *)
(*              way only the liberal reading of ZINC accepts               *)
(*   <<"REJECT", id, clause, allowed>>  clause \in parse_error, raises,    *)
(*              selection, order; allowed: per row 0 out / 1 in / 2 either *)
(***************************************************************************)
EXTENDS FilterLex, Json, IOUtils

FS == INSTANCE FilterSem

VARIABLES cid, done

Cases == TLCGet(1)

\* the characters outside all literals (literals taken out left to right)
Outside(text, x) ==
    LET RECURSIVE Cut(_, _)
        Cut(s, lits) == IF lits = {} THEN s
                        ELSE LET l == CHOOSE m \in lits : TRUE
                                 I == {i \in 1..(Len(s) - Len(l) + 1) : SubSeq(s, i, i + Len(l) - 1) = l}
                             IN IF I = {} THEN Cut(s, lits \ {l})
                                ELSE LET i == CHOOSE k \in I : \A j \in I : k <= j
                                     IN Cut(SubSeq(s, 1, i - 1) \o <<SP>> \o SubSeq(s, i + Len(l), Len(s)), lits)
    IN Cut(text, FLitSpans(x))

Judge(c) ==
    \E r \in {FParse(c.text)} :
        IF ~r.ok THEN PrintT(<<"OK", c.id, "not_a_filter", 0, 0>>)
        ELSE \E x \in {FResolveLits(r.ast)} :
            IF ~FAllValid(x) THEN PrintT(<<"OK", c.id, "invalid_literal", 0, 0>>)
            ELSE IF c.out = "raises" THEN PrintT(<<"REJECT", c.id, "raises", <<>>>>)
            ELSE IF c.out = "parse_error" THEN
                (IF ~OnlySpaces(Outside(c.text, r.ast)) THEN PrintT(<<"OK", c.id, "refused_loose_blanks", 0, 0>>)
                 ELSE IF ~FAllCore(x) THEN PrintT(<<"OK", c.id, "refused_extension_literal", 0, 0>>)
                 ELSE PrintT(<<"REJECT", c.id, "parse_error", <<>>>>))
            ELSE \E al \in {FAllowed(x, c.rows)} :
                 \E cl \in {FS!ResultClauses(al, IF "k" \in DOMAIN c THEN c.k ELSE 0, c.sel)} :
                    IF cl = {} THEN PrintT(<<"OK", c.id, "judged", Cardinality({i \in 1..Len(al) : al[i] = 1}),
                                              Cardinality({i \in 1..Len(al) : al[i] = 0})>>)
                    ELSE PrintT(<<"REJECT", c.id, IF "selection" \in cl THEN "selection" ELSE CHOOSE z \in cl : TRUE, al>>)

Init == \E f \in {JsonDeserialize(IOEnv.TRACE_FILE)} :
          /\ TLCSet(1, f)
          /\ cid \in 1..Len(f)
          /\ done = FALSE

Next == /\ ~done
        /\ Judge(Cases[cid])
        /\ done' = TRUE
        /\ UNCHANGED cid

Spec == Init /\ [][Next]_<<cid, done>>
=============================================================================
