SPECIFICATION Spec
CONSTANTS
  Regs = {1, 2, 3}
  Values = {1, 2, 3, 11, 12}
  Q6 <- MCQ6
  MaxSteps = 5
INVARIANT Lossless
INVARIANT Deterministic
PROPERTY Pure
CHECK_DEADLOCK FALSE
