SPECIFICATION TSpec
CONSTANTS
  Keys = {1, 2, 3}
  Vals = {1, 2}
  BadVal = 9
  HasValidator = TRUE
  Indexes = {0}
  NoArg = 99
  UnknownKey = 98
  DefaultVal = 7
VIEW TView
CHECK_DEADLOCK FALSE
