-------------------------------- MODULE Gate --------------------------------
(***************************************************************************)
(* Version gating (C10): 3.0-only kinds (NA, list, dict, nested grid,       *)
(* extended string) never end up labelled with a pre-3.0 version.           *)
(* "Pre-3.0" is decided through the nearest official version (Version.tla), *)
(* as the repository's own tests pin it (ver:"2.5" is read with the 3.0      *)
(* grammar, ver:"1.0" with the 2.0 grammar).                                 *)
(*                                                                         *)
(* The grid as a gate machine: state = <<version text, given, stored>>       *)
(* where stored is the set of kinds currently stored anywhere in the grid;   *)
(* Store(path, kind) through any public entry path has one of three          *)
(* outcomes -- stored, stored with upgrade of an undeclared version to 3.0,  *)
(* or refused with ValueError leaving the grid unchanged.                    *)
(* The five deciders (grid, ZINC writer, JSON writer, ZINC reader, JSON      *)
(* reader) must all answer Accepts(version, kind).                           *)
(***************************************************************************)
EXTENDS Naturals, Sequences, FiniteSets, TLC

V == INSTANCE Version WITH CacheVersions <- {}, cacheN <- 0, cacheG <- 0, last <- 0

Kinds  == {"plain", "na", "list", "dict", "grid", "xstr"}
Only3  == {"na", "list", "dict", "grid", "xstr"}
RowPaths  == {"append", "insert", "extend", "iadd", "setitem",
              "extend_tuple", "extend_iter", "extend_grid", "iadd_grid",   \* the other argument forms of extend / +=
              "append_undeclared", "setitem_undeclared",                   \* the value sits under a key that is no column (yet)
              "setslice_list", "setslice_iter", "setslice_grid", "setslice_gridslice",   \* g[a:b] = rows, in every form rows may take
              "copy_append", "copy_setitem",                               \* the store goes to a deep copy of the grid
              "slice_append", "slice_setitem", "filter_append"}            \* ... to a slice / a filter result of it (a grid of its own,
                                                                           \* as declared or as undeclared as the grid it was taken from)
MetaPaths == {"meta_set", "meta_append", "meta_extend", "colmeta_set", "colmeta_append", "col_assign", "col_add_item",
              "copy_meta_set", "copy_colmeta_set", "copy_col_assign",
              "slice_meta_set", "slice_colmeta_set", "filter_meta_set", "filter_col_assign",
              \* the column was handed over as a plain dict / a fresh metadata object first, the tag is stored afterwards
              "colmeta_set_assigned", "colmeta_set_assigned_mo", "colmeta_append_reassigned",
              "colmeta_set_adopted",       \* ... or was taken over from a column of ANOTHER grid (a 3.0 one)
              "meta_overwrite", "colmeta_overwrite", "meta_update", "col_reassign"}   \* overwriting an existing tag / column
CtorPaths == {"ctor_meta", "ctor_colmeta"}
Paths == RowPaths \cup MetaPaths

\* version texts as code points
T20 == <<50, 46, 48>>  T30 == <<51, 46, 48>>  T25 == <<50, 46, 53>>  T300 == <<51, 46, 48, 46, 48>>
T10 == <<49, 46, 48>>  T40 == <<52, 46, 48>>
T200 == <<50, 46, 48, 46, 48>>  T2000 == <<50, 46, 48, 46, 48, 46, 48>>  T2 == <<50>>  T3 == <<51>>
VersionTexts == {T20, T30, T25, T300, T10, T40, T200, T2000, T2, T3}

Pre3(ver) == V!Lt(V!Nearest(V!Parse(ver)), V!V30)
Accepts(ver, kind) == kind \notin Only3 \/ ~Pre3(ver)

\* state
St(ver, given, stored) == [ver |-> ver, given |-> given, stored |-> stored]
New(verArg) == IF verArg = <<>> THEN St(T20, FALSE, {}) ELSE St(verArg, TRUE, {})

Outcome(s, kind) ==
    IF Accepts(s.ver, kind) THEN "stored"
    ELSE IF s.given THEN "refused" ELSE "upgraded"
After(s, kind) ==
    CASE Outcome(s, kind) = "stored"   -> St(s.ver, s.given, s.stored \cup {kind})
      [] Outcome(s, kind) = "upgraded" -> St(T30, s.given, s.stored \cup {kind})
      [] OTHER -> s

GateInv(s) == \A k \in s.stored : Accepts(s.ver, k)

\* A grid derived from s (a slice g[a:b:st], the result of g.filter(...), a deep copy) carries rows of s under the
\* version s has NOW -- detected or declared -- and is as pinned to it as s is (a detected version goes on being
\* detected in the derived grid); it holds no kind s does not hold.
Derived(s) == St(s.ver, s.given, s.stored)

\* run a sequence of stores <<path, kind>>; returns the sequence of <<outcome, state after>>
RECURSIVE Run(_, _)
Run(s, steps) == IF steps = <<>> THEN <<>>
                 ELSE LET o == Outcome(s, steps[1][2])  t == After(s, steps[1][2])
                      IN <<[out |-> o, ver |-> t.ver, dver |-> Derived(t).ver]>> \o Run(t, Tail(steps))
RECURSIVE Final(_, _)
Final(s, steps) == IF steps = <<>> THEN s ELSE Final(After(s, steps[1][2]), Tail(steps))
=============================================================================
