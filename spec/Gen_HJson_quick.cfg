SPECIFICATION GenSpec
CONSTANTS
  Tier = "quick"
INVARIANT Emit
CHECK_DEADLOCK FALSE
