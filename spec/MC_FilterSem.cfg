SPECIFICATION Spec
CONSTANTS
  Tier = "quick"
INVARIANT NoError
INVARIANT NotEarly
INVARIANT RoundTrip
INVARIANT FoldAgrees
INVARIANT SemLaws
CHECK_DEADLOCK FALSE
