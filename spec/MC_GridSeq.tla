----------------------------- MODULE MC_GridSeq -----------------------------
(* Bounded instance of GridSeq for model checking and edge/state generation. *)
EXTENDS GridSeq, Json
\* row alphabet: 1 {'id':'a'}  2 {'id':'a'} (same id, other content)  3 {'id': 0}  4 {'id': Ref('b')}
\*               5 {'v': 3} (no id)  6 {'id':'c','l':[1]} (3.0-only value)   NonDict: 7 (a list)  8 (None)
MCIdOf(r) == CASE r = 1 -> 1 [] r = 2 -> 1 [] r = 3 -> 2 [] r = 4 -> 3 [] r = 5 -> 0 [] r = 6 -> 4 [] OTHER -> 0
IdCodes == {1, 2, 3, 4, 5}      \* 5: an id no row has
MCIdxArgs == -4..3
\* per-state observation tables, printed once per distinct state (evaluated as an invariant)
EmitState == PrintT(ToJson([t |-> "S", rows |-> rows, ver |-> ver, given |-> given,
    len |-> Len(rows),
    getitem |-> [i \in 1..9 |-> <<i - 5, GetItem(rows, i - 5)>>],
    slices |-> [a \in 1..8 |-> [b \in 1..8 |->
                  Slice(rows, IF a = 8 THEN NoArg ELSE a - 4, IF b = 8 THEN NoArg ELSE b - 4)]],
    contains |-> [r \in 1..6 |-> Contains(rows, r)],
    lookup |-> [k \in IdCodes |-> LookupAllowed(rows, k)]]))
EmitEdge == PrintT(ToJson([t |-> "E", rows |-> rows, ver |-> ver, given |-> given, op |-> op', r |-> res',
                           rows2 |-> rows', ver2 |-> ver', given2 |-> given']))
=============================================================================
