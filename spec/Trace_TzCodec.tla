--------------------------- MODULE Trace_TzCodec ---------------------------
(***************************************************************************)
(* Judgement of executions recorded from the real hszinc (role C, C17).    *)
(* File (one JSON object, read once in TInit):                             *)
(*   zones  : [ [name, pre, trans : [[tauDays, tauSecs, offSecs]..]] .. ]  *)
(*            the pytz tables of the zones the traces refer to              *)
(*   traces : [ [k |-> "rt", z |-> index into zones, cases] ..             *)
(*              [k |-> "fb", cases] .. [k |-> "map", cases] ]              *)
(* rt case : a value of mapped zone z at instant inst with offset off was  *)
(*           dumped (res) and parsed back (back)                           *)
(* fb case : any other tz-aware value (fixed offset / unmapped zone)       *)
(* map case: the logged tz map, the host's zone list, the Haystack names   *)
(* One step per case; every failing clause of every case is printed as     *)
(* <<"REJECT", tid, l, clause>>; the trace ends with ACCEPT (nothing        *)
(* rejected) or DONE and the number of rejected cases.  The instant, the   *)
(* offset and the zone a text denotes are computed here (ReadDT), the      *)
(* offset a zone has at an instant is computed here (Off) from its table.  *)
(***************************************************************************)
EXTENDS TzCodec, Json, IOUtils

VARIABLES tid, l, nrej

tvars == <<phase, mi, macc, x, text, back, tid, l, nrej>>
TView == <<tid, l, nrej>>

\* The file is read once, while the initial states are computed, and parked in TLC register 1
\* (TLCSet from the initial predicate sets the register of every worker).  It is deliberately not
\* a state variable: TLC serialises every state to its disk queue, which made each step cost
\* time proportional to the size of the whole file.
File == TLCGet(1)
tr == File.traces[tid]
zs == File.zones

TNone == <<>>
TNoNames == {}
TNoFormats == {}

TInit == \E f \in {JsonDeserialize(IOEnv.TRACE_FILE)} :
         /\ TLCSet(1, f)
         /\ tid \in 1..Len(f.traces)
         /\ l = 1
         /\ nrej = 0
         /\ phase = "idle" /\ mi = 1 /\ macc = [map |-> {}, todo |-> {}]
         /\ x = Null /\ text = <<>> /\ back = Null

Clauses(c) ==
    IF tr.k = "rt"
    THEN LET z == zs[tr.z]
         IN (IF Off(z, c.inst) = c.off /\ (l = 1 => Sorted(z)) THEN {} ELSE {"x_offset_table"})
            \cup RtClauses(c.fmt, z.name, c.inst, c.off, c.res, c.back)
    ELSE IF tr.k = "fb" THEN FbClauses(c.fmt, zs, c.inst, c.off, c.res)
    ELSE IF tr.k = "map" THEN MapClauses(c)
    ELSE {"unknown_trace_kind"}

TNext ==
    /\ l <= Len(tr.cases)
    /\ LET cl == Clauses(tr.cases[l])
       IN /\ \A k \in cl : PrintT(<<"REJECT", tid, l, k>>)
          /\ nrej' = nrej + (IF cl = {} THEN 0 ELSE 1)
          /\ l' = l + 1
          /\ (l = Len(tr.cases) => PrintT(<<IF nrej' = 0 THEN "ACCEPT" ELSE "DONE", tid, nrej'>>))
    /\ UNCHANGED <<phase, mi, macc, x, text, back, tid>>

TSpec == TInit /\ [][TNext]_tvars
=============================================================================
