---------------------------- MODULE TraceConsts ----------------------------
(* Stub.  The harness generates the real module (literal constants of one   *)
(* run) into its work directory, which precedes spec/ on the library path.  *)
TIds == <<1, 1, 2, 0>>
TDictRows == {1, 2, 3, 4}
TNonDict == {5}
TOnly3 == {}
=============================================================================
