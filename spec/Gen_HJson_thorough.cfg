SPECIFICATION GenSpec
CONSTANTS
  Tier = "thorough"
INVARIANT Emit
CHECK_DEADLOCK FALSE
