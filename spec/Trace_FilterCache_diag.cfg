SPECIFICATION TSpec
CONSTANTS
  Threads = {1, 2, 3, 4}
  Filters = {1, 2, 3, 4}
  K = 2
  Atomic = TRUE
  PrivateConsts = TRUE
  MaxCalls = 99
  Budget = 8
VIEW TView
INVARIANT NoCrossTalk
INVARIANT GetNeverFails
INVARIANT NamesUnique
INVARIANT CachedWorks
INVARIANT LruBound
INVARIANT Accounting
CHECK_DEADLOCK FALSE
INVARIANT Progress
