------------------------------ MODULE FilterSem ------------------------------
(***************************************************************************)
(* C11 -- Grid.filter selects exactly the rows the filter denotes.         *)
(*                                                                         *)
(* Filter AST (the shape of the Haystack filter grammar, n-ary and/or):    *)
(*   Has(p)  Missing(p)  Cmp(p, op, kind)  Paren(x)  And(xs)  Or(xs) Empty *)
(*   Term ::= Has | Missing | Cmp | Paren(Filter)                          *)
(*   AndE ::= Term | And(<<Term, Term, ..>>)      `and' binds tighter      *)
(*   OrE  ::= AndE | Or(<<AndE, AndE, ..>>)       than `or'                *)
(* p is a path: a sequence of 1..n tag names (a->b); kind names the        *)
(* literal: there is one literal per kind (its spelling is LitSpell) and   *)
(* row values are abstract: <<kind index, relation to that literal>>.      *)
(*                                                                         *)
(* Values (pairs of naturals so that TLC can compare all of them):         *)
(*   Absent <<0,0>>   Marker <<0,1>>                                       *)
(*   <<k, Eq>> <<k, Below>> <<k, Above>>  a value of kind k equal to /      *)
(*        before / after the literal of kind k in that kind's order        *)
(*   <<ref, 100+n>>   a Ref whose name is the (string) id of row id n      *)
(* Row  = <<id, a1, a2, b1, b2, c1, c2>>  (id 0: the row has no id tag)    *)
(* Grid = sequence of rows.                                                *)
(*                                                                         *)
(* Sem(x, row, grid) is the SET of truth values the property allows for    *)
(* the row (a singleton when determined):                                  *)
(*   tag / not tag   presence of the resolved path                         *)
(*   comparisons     FALSE when the path does not resolve; between values  *)
(*                   of different Haystack kinds (Bool / Number / Number   *)
(*                   with unit / Str / Uri / Date / DateTime ...) `==' is  *)
(*                   FALSE, `!=' TRUE, the orderings FALSE; unconstrained  *)
(*                   between the two literal kinds of one Haystack kind    *)
(*                   (5 / INF, true / false) and for the ordering inside   *)
(*                   an unordered kind (bool, uri, ref)                    *)
(*   a->b            through the row whose id is the name of the Ref a     *)
(*   and / or        left folds over all operands                          *)
(***************************************************************************)
EXTENDS Naturals, Sequences, FiniteSets, SequencesExt, TLC

\* ------------------------------------------------------------------ tags, kinds, values
TagNames == <<"a", "b", "c">>
TagSet   == {"a", "b", "c"}
TagIdx   == [a |-> 1, b |-> 2, c |-> 3]

KindNames == <<"num", "str", "boolT", "boolF", "uri", "ref", "date", "time", "dt", "qty", "inf">>
Kinds     == {KindNames[i] : i \in 1..Len(KindNames)}
KIdx == [num |-> 1, str |-> 2, boolT |-> 3, boolF |-> 4, uri |-> 5, ref |-> 6, date |-> 7,
         time |-> 8, dt |-> 9, qty |-> 10, inf |-> 11]
\* the Haystack kind behind each literal kind: two literal kinds of one Haystack kind (5 and INF, true and false) are
\* "kindred" -- their values are comparable, but this model has no common scale for them
Fam == [num |-> "number", inf |-> "number", qty |-> "quantity", boolT |-> "bool", boolF |-> "bool",
        str |-> "str", uri |-> "uri", date |-> "date", dt |-> "dateTime",
        time |-> "time", ref |-> "ref"]
Ordered == {"num", "str", "date", "time", "dt", "qty", "inf"}

Eq == 2
Below == 3
Above == 4
Absent == <<0, 0>>
Marker == <<0, 1>>
Val(k, r) == <<KIdx[k], r>>
RefTo(n)  == <<KIdx.ref, 100 + n>>
Dangling  == RefTo(99)                  \* no row ever has id 99
\* relations a value of kind k can have to the literal (there is nothing after `true' or INF)
Avail(k) == IF k \in {"boolT", "inf"} THEN {Eq, Below} ELSE IF k = "boolF" THEN {Eq, Above} ELSE {Eq, Below, Above}
\* a value of a kind that neither Haystack nor Python compares with kind k
OtherOf(k) == IF Fam[k] = "text" THEN Val("num", Eq) ELSE Val("str", Eq)

RowId(r)     == r[1]
RowVal(r, t) == <<r[2 * TagIdx[t]], r[2 * TagIdx[t] + 1]>>
MkRow(id, va, vb, vc) == <<id, va[1], va[2], vb[1], vb[2], vc[1], vc[2]>>
IsRowRef(v)  == v[1] = KIdx.ref /\ v[2] >= 100

\* ------------------------------------------------------------------ AST
CmpOps == {"==", "!=", "<", "<=", ">", ">="}
Has(p)       == [t |-> "has", p |-> p]
Missing(p)   == [t |-> "missing", p |-> p]
Cmp(p, o, k) == [t |-> "cmp", p |-> p, o |-> o, k |-> k]
Paren(x)     == [t |-> "paren", x |-> x]
And(xs)      == [t |-> "and", xs |-> xs]
Or(xs)       == [t |-> "or", xs |-> xs]
Empty        == [t |-> "empty"]
IsAtom(x)    == x.t \in {"has", "missing", "cmp"}

RECURSIVE Size(_)
Size(x) == CASE IsAtom(x) -> 1
             [] x.t = "paren" -> 1 + Size(x.x)
             [] x.t \in {"and", "or"} -> FoldLeft(LAMBDA n, y : n + Size(y), 1, x.xs)
             [] OTHER -> 0

RECURSIVE AtomSet(_)
AtomSet(x) == CASE IsAtom(x) -> {x}
                [] x.t = "paren" -> AtomSet(x.x)
                [] x.t \in {"and", "or"} -> UNION {AtomSet(x.xs[i]) : i \in 1..Len(x.xs)}
                [] OTHER -> {}

\* all ASTs of a given size over a set of atoms (mutually recursive, following the grammar)
RECURSIVE TermsN(_, _), AndsN(_, _), OrsN(_, _), SeqT(_, _, _), SeqAE(_, _, _)
FiltersN(n, At) == TermsN(n, At) \cup AndsN(n, At) \cup OrsN(n, At)
TermsN(n, At) == IF n = 0 THEN {} ELSE IF n = 1 THEN At ELSE {Paren(x) : x \in FiltersN(n - 1, At)}
AndsN(n, At)  == IF n < 3 THEN {} ELSE {And(s) : s \in SeqT(n - 1, 2, At)}
OrsN(n, At)   == IF n < 3 THEN {} ELSE {Or(s) : s \in SeqAE(n - 1, 2, At)}
\* sequences of terms / and-expressions of total size m with at least lo elements
SeqT(m, lo, At) ==
    IF m = 0 THEN (IF lo = 0 THEN {<<>>} ELSE {})
    ELSE UNION {{<<x>> \o s : x \in TermsN(j, At), s \in SeqT(m - j, IF lo = 0 THEN 0 ELSE lo - 1, At)}
                : j \in 1..m}
SeqAE(m, lo, At) ==
    IF m = 0 THEN (IF lo = 0 THEN {<<>>} ELSE {})
    ELSE UNION {{<<x>> \o s : x \in TermsN(j, At) \cup AndsN(j, At),
                              s \in SeqAE(m - j, IF lo = 0 THEN 0 ELSE lo - 1, At)} : j \in 1..m}
FiltersUpTo(n, At) == UNION {FiltersN(j, At) : j \in 1..n}

\* ------------------------------------------------------------------ rendering
LitTok == [num |-> "#num", str |-> "#str", boolT |-> "#boolT", boolF |-> "#boolF", uri |-> "#uri",
           ref |-> "#ref", date |-> "#date", time |-> "#time", dt |-> "#dt", qty |-> "#qty",
           inf |-> "#inf"]
LitToks == {LitTok[k] : k \in Kinds}
KindOfLit(tok) == CHOOSE k \in Kinds : LitTok[k] = tok
Blank == {" ", "  "}

PathToks(p) == FoldLeft(LAMBDA acc, t : IF acc = <<>> THEN <<t>> ELSE acc \o <<"->", t>>, <<>>, p)

RECURSIVE Bare(_)
Bare(x) ==
    CASE x.t = "has"     -> PathToks(x.p)
      [] x.t = "missing" -> <<"not">> \o PathToks(x.p)
      [] x.t = "cmp"     -> PathToks(x.p) \o <<x.o, LitTok[x.k]>>
      [] x.t = "paren"   -> <<"(">> \o Bare(x.x) \o <<")">>
      [] x.t \in {"and", "or"} ->
             FoldLeft(LAMBDA acc, y : IF acc = <<>> THEN Bare(y) ELSE acc \o <<x.t>> \o Bare(y), <<>>, x.xs)
      [] OTHER -> <<>>

\* a blank is mandatory between two word-like tokens only
Wordy(t) == t \notin ({"(", ")", "->"} \cup CmpOps)
Gap(t1, t2, sp) ==
    IF t1 = "->" \/ t2 = "->" THEN <<>>
    ELSE CASE sp = 0 -> IF Wordy(t1) /\ Wordy(t2) THEN <<" ">> ELSE <<>>
           [] sp = 1 -> <<" ">>
           [] sp = 2 -> <<"  ">>
           [] OTHER  -> IF t1 \in {"and", "or"} \/ t2 \in {"and", "or"} THEN <<"  ">>
                        ELSE IF Wordy(t1) /\ Wordy(t2) THEN <<" ">> ELSE <<>>
Spaced(b, sp) ==
    LET body == FoldLeft(LAMBDA acc, t : IF acc = <<>> THEN <<t>>
                                         ELSE acc \o Gap(acc[Len(acc)], t, sp) \o <<t>>, <<>>, b)
    IN IF sp = 2 THEN <<" ">> \o body \o <<" ">> ELSE body
\* style = [sp : 0..3, wrap : BOOLEAN]; wrap puts one redundant pair of parentheses around the whole
Render(x, st) == Spaced(IF st.wrap THEN Bare(Paren(x)) ELSE Bare(x), st.sp)
Expected(x, st) == IF st.wrap THEN Paren(x) ELSE x
AllStyles == [sp : 0..3, wrap : BOOLEAN]

\* concrete spelling (code points); one literal per kind
LitSpell == [num   |-> <<53>>,                                         \* 5
             str   |-> <<34, 109, 34>>,                                \* "m"
             boolT |-> <<116, 114, 117, 101>>,                         \* true
             boolF |-> <<102, 97, 108, 115, 101>>,                     \* false
             uri   |-> <<96, 109, 96>>,                                \* `m`
             ref   |-> <<64, 108, 105, 116>>,                          \* @lit
             date  |-> <<50, 48, 50, 48, 45, 48, 49, 45, 49, 53>>,     \* 2020-01-15
             time  |-> <<49, 50, 58, 51, 48, 58, 48, 48>>,             \* 12:30:00
             dt    |-> <<50, 48, 50, 48, 45, 48, 49, 45, 49, 53, 84, 49, 50, 58, 51, 48, 58, 48, 48, 90>>,
             qty   |-> <<53, 107, 87>>,                                \* 5kW
             inf   |-> <<73, 78, 70>>]                                 \* INF (positive infinity)
Spell(tok) ==
    CASE tok = "("   -> <<40>>        [] tok = ")"   -> <<41>>
      [] tok = " "   -> <<32>>        [] tok = "  "  -> <<32, 32>>
      [] tok = "->"  -> <<45, 62>>
      [] tok = "=="  -> <<61, 61>>    [] tok = "!="  -> <<33, 61>>
      [] tok = "<"   -> <<60>>        [] tok = "<="  -> <<60, 61>>
      [] tok = ">"   -> <<62>>        [] tok = ">="  -> <<62, 61>>
      [] tok = "and" -> <<97, 110, 100>>
      [] tok = "or"  -> <<111, 114>>
      [] tok = "not" -> <<110, 111, 116>>
      [] tok = "a"   -> <<97>>        [] tok = "b"   -> <<98>>       [] tok = "c" -> <<99>>
      [] tok \in LitToks -> LitSpell[KindOfLit(tok)]
Text(toks) == FoldLeft(LAMBDA acc, t : acc \o Spell(t), <<>>, toks)

\* ------------------------------------------------------------------ parser machine
(* Two-level precedence parser, one step per token.  A frame per open      *)
(* parenthesis: ors = finished operands of the `or' in progress, ands =     *)
(* finished operands of the `and' in progress.  "$" ends the input.        *)
NoAst      == [t |-> "none"]
EmptyFrame == [ors |-> <<>>, ands |-> <<>>]
PInit == [mode |-> "term", stack |-> <<EmptyFrame>>, path |-> <<>>, neg |-> FALSE, op |-> "", res |-> NoAst]

MkAnd(s) == IF Len(s) = 1 THEN s[1] ELSE And(s)
MkOr(s)  == IF Len(s) = 1 THEN s[1] ELSE Or(s)
Top(ps)  == ps.stack[Len(ps.stack)]
Err(ps)  == [ps EXCEPT !.mode = "error"]
PushTerm(ps, x) == [ps EXCEPT !.stack[Len(ps.stack)].ands = Append(@, x), !.mode = "after",
                              !.path = <<>>, !.neg = FALSE, !.op = ""]
CloseAnd(f) == [ors |-> Append(f.ors, MkAnd(f.ands)), ands |-> <<>>]
FrameAst(f) == MkOr(Append(f.ors, MkAnd(f.ands)))

AfterTerm(ps, tok) ==
    CASE tok = "and" -> [ps EXCEPT !.mode = "term"]
      [] tok = "or"  -> [ps EXCEPT !.stack[Len(ps.stack)] = CloseAnd(@), !.mode = "term"]
      [] tok = ")"   -> IF Len(ps.stack) < 2 THEN Err(ps)
                        ELSE PushTerm([ps EXCEPT !.stack = SubSeq(@, 1, Len(@) - 1)], Paren(FrameAst(Top(ps))))
      [] tok = "$"   -> IF Len(ps.stack) # 1 THEN Err(ps)
                        ELSE [ps EXCEPT !.mode = "done", !.res = FrameAst(Top(ps))]
      [] OTHER -> Err(ps)

PStep(ps, tok) ==
    IF tok \in Blank THEN ps
    ELSE CASE ps.mode = "term" ->
                (CASE tok = "("      -> [ps EXCEPT !.stack = Append(@, EmptyFrame)]
                   [] tok = "not"    -> [ps EXCEPT !.mode = "not"]
                   [] tok \in TagSet -> [ps EXCEPT !.mode = "path", !.path = <<tok>>, !.neg = FALSE]
                   [] tok = "$" /\ ps.stack = <<EmptyFrame>> -> [ps EXCEPT !.mode = "done", !.res = Empty]
                   [] OTHER -> Err(ps))
           [] ps.mode = "not" ->
                IF tok \in TagSet THEN [ps EXCEPT !.mode = "path", !.path = <<tok>>, !.neg = TRUE] ELSE Err(ps)
           [] ps.mode = "path" ->
                IF tok = "->" THEN [ps EXCEPT !.mode = "arrow"]
                ELSE IF tok \in CmpOps THEN (IF ps.neg THEN Err(ps) ELSE [ps EXCEPT !.mode = "lit", !.op = tok])
                ELSE AfterTerm(PushTerm(ps, IF ps.neg THEN Missing(ps.path) ELSE Has(ps.path)), tok)
           [] ps.mode = "arrow" ->
                IF tok \in TagSet THEN [ps EXCEPT !.mode = "path", !.path = Append(@, tok)] ELSE Err(ps)
           [] ps.mode = "lit" ->
                IF tok \in LitToks THEN PushTerm(ps, Cmp(ps.path, ps.op, KindOfLit(tok))) ELSE Err(ps)
           [] ps.mode = "after" -> AfterTerm(ps, tok)
           [] OTHER -> ps

\* the machine run to completion; NoAst when the tokens are not a filter
Parse(toks) == LET e == FoldLeft(PStep, PInit, toks \o <<"$">>)
               IN IF e.mode = "done" THEN e.res ELSE NoAst

\* ------------------------------------------------------------------ semantics
HasId(grid, n)     == \E i \in 1..Len(grid) : RowId(grid[i]) = n
RowWithId(grid, n) == grid[CHOOSE i \in 1..Len(grid) : RowId(grid[i]) = n]

RECURSIVE ResolveFrom(_, _, _, _)
ResolveFrom(p, i, row, grid) ==
    LET v == RowVal(row, p[i])
    IN IF i = Len(p) THEN v
       ELSE IF IsRowRef(v) /\ HasId(grid, v[2] - 100)
            THEN ResolveFrom(p, i + 1, RowWithId(grid, v[2] - 100), grid)
            ELSE Absent                     \* absent, not a Ref, or a Ref no row answers to
Resolve(p, row, grid) == ResolveFrom(p, 1, row, grid)

\* how a resolved value stands to the literal of kind k
Class(v, k) ==
    IF v = Absent THEN "absent"
    ELSE IF v = Marker THEN "other"
    ELSE IF v[1] = KIdx[k] THEN (CASE v[2] = Eq -> "equal" [] v[2] = Below -> "below"
                                   [] v[2] = Above -> "above" [] OTHER -> "differ")
    ELSE IF Fam[KindNames[v[1]]] = Fam[k] THEN "kindred"
    ELSE "other"

CmpSem(o, k, v) ==
    LET c == Class(v, k)
    IN IF c = "absent" THEN {FALSE}
       ELSE IF c = "other" THEN {o = "!="}         \* another kind (or another unit): unequal, and not ordered
       ELSE IF c = "kindred" THEN BOOLEAN
       ELSE IF o = "==" THEN {c = "equal"}
       ELSE IF o = "!=" THEN {c # "equal"}
       ELSE IF c = "differ" \/ k \notin Ordered THEN BOOLEAN
       ELSE CASE c = "equal" -> {o \in {"<=", ">="}}
              [] c = "below" -> {o \in {"<", "<="}}
              [] c = "above" -> {o \in {">", ">="}}

RECURSIVE Sem(_, _, _)
Sem(x, row, grid) ==
    CASE x.t = "has"     -> {Resolve(x.p, row, grid) # Absent}
      [] x.t = "missing" -> {Resolve(x.p, row, grid) = Absent}
      [] x.t = "cmp"     -> CmpSem(x.o, x.k, Resolve(x.p, row, grid))
      [] x.t = "paren"   -> Sem(x.x, row, grid)
      [] x.t = "and"     -> FoldLeft(LAMBDA acc, y : {p /\ q : p \in acc, q \in Sem(y, row, grid)}, {TRUE}, x.xs)
      [] x.t = "or"      -> FoldLeft(LAMBDA acc, y : {p \/ q : p \in acc, q \in Sem(y, row, grid)}, {FALSE}, x.xs)
      [] x.t = "empty"   -> {TRUE}

\* reference reading of "left-associative over any number of operands": the binary tree
\* ((x1 op x2) op x3) ... evaluated node by node
RECURSIVE SemBin(_, _, _)
SemBin(x, row, grid) ==
    CASE x.t = "paren" -> SemBin(x.x, row, grid)
      [] x.t \in {"and", "or"} ->
           LET n == Len(x.xs)
               l == IF n = 2 THEN SemBin(x.xs[1], row, grid)
                    ELSE SemBin([x EXCEPT !.xs = SubSeq(@, 1, n - 1)], row, grid)
               r == SemBin(x.xs[n], row, grid)
           IN IF x.t = "and" THEN {p /\ q : p \in l, q \in r} ELSE {p \/ q : p \in l, q \in r}
      [] OTHER -> Sem(x, row, grid)

\* 0 must be left out, 1 must be selected, 2 not constrained
Code(S) == IF S = {TRUE} THEN 1 ELSE IF S = {FALSE} THEN 0 ELSE 2
Allowed(x, grid) == [i \in 1..Len(grid) |-> Code(Sem(x, grid[i], grid))]

\* ------------------------------------------------------------------ selection, limit, shape
Truncate(s, k) == IF k = 0 \/ Len(s) <= k THEN s ELSE SubSeq(s, 1, k)
\* the selection when every row is determined
MustSel(al) == SelectSeq([i \in 1..Len(al) |-> i], LAMBDA i : al[i] = 1)
Determined(al) == \A i \in 1..Len(al) : al[i] # 2

(* res = the returned rows as indexes into the source grid (0: an object    *)
(* that is not a row of the source), k = limit (0 none).  The clauses a     *)
(* returned selection violates:                                            *)
(*   selection  a row that must be left out is in, one that must be in is  *)
(*              missing before the point where `limit' stops the scan, or  *)
(*              an object that is not a source row                         *)
(*   order      not in original order (or a row twice)                     *)
(*   limit      more than `limit' rows                                     *)
ResultClauses(al, k, res) ==
    LET n    == Len(al)
        m    == Len(res)
        inn  == {res[j] : j \in 1..m}
        ok   == \A j \in 1..m : res[j] \in 1..n
        incr == \A j \in 1..(m - 1) : res[j] < res[j + 1]
        hor  == IF k > 0 /\ m >= k /\ ok /\ m > 0 THEN res[m] ELSE n
    IN IF ~ok THEN {"selection"}
       ELSE (IF incr THEN {} ELSE {"order"})
            \cup (IF k > 0 /\ m > k THEN {"limit"} ELSE {})
            \cup (IF \E i \in inn : al[i] = 0 THEN {"selection"} ELSE {})
            \cup (IF incr /\ \E i \in (1..hor) \ inn : al[i] = 1 THEN {"selection"} ELSE {})

\* result grid: same version / metadata / columns as the source
ShapeClauses(src, res) == IF res = src THEN {} ELSE {"shape"}
\* the source after the call: same rows (valuations, identities, order) and same shape
SourceClauses(rows, shape, postRows, postShape) ==
    IF postRows = rows /\ postShape = shape THEN {} ELSE {"source_mutated"}

\* ------------------------------------------------------------------ rows realising all valuations
\* values an atom distinguishes at the end of its path
FinalVals(at) ==
    IF at.t = "cmp" THEN {Absent, Marker, OtherOf(at.k)} \cup {Val(at.k, r) : r \in Avail(at.k)}
    ELSE {Absent, Marker}
TargetId(tag, v) == TagIdx[tag] * 1000 + v[1] * 10 + v[2]
TagVals(ats, g) ==
    LET S == UNION {IF at.p[1] # g THEN {}
                    ELSE IF Len(at.p) = 1 THEN FinalVals(at)
                    ELSE {Absent, Marker, Dangling} \cup {RefTo(TargetId(at.p[2], v)) : v \in FinalVals(at)}
                    : at \in ats}
    IN IF S = {} THEN {Absent} ELSE S
Targets(ats) ==
    UNION {IF Len(at.p) = 1 THEN {}
           ELSE {[id |-> TargetId(at.p[2], v), tag |-> at.p[2], v |-> v] : v \in FinalVals(at)} : at \in ats}
VKey(v) == v[1] * 10000 + v[2]
SortVals(S) == SetToSortSeq(S, LAMBDA x, y : VKey(x) < VKey(y))
TargetRow(t) == MkRow(t.id, IF t.tag = "a" THEN t.v ELSE Absent, IF t.tag = "b" THEN t.v ELSE Absent,
                      IF t.tag = "c" THEN t.v ELSE Absent)
\* the full product of the distinguished values of the three tags, target rows after the first row
CaseRows(x) ==
    LET ats == AtomSet(x)
        A == SortVals(TagVals(ats, "a"))
        B == SortVals(TagVals(ats, "b"))
        C == SortVals(TagVals(ats, "c"))
        na == Len(A)  nb == Len(B)  nc == Len(C)
        main == [i \in 1..(na * nb * nc) |->
                    MkRow(0, A[((i - 1) \div (nb * nc)) + 1], B[(((i - 1) \div nc) % nb) + 1], C[((i - 1) % nc) + 1])]
        tg == SetToSortSeq(Targets(ats), LAMBDA s, t : s.id < t.id)
        trows == [i \in 1..Len(tg) |-> TargetRow(tg[i])]
    IN <<main[1]>> \o trows \o SubSeq(main, 2, Len(main))

\* feature labels printed with generated cases
RECURSIVE MaxOperands(_)
MaxOperands(x) ==
    CASE x.t = "paren" -> MaxOperands(x.x)
      [] x.t \in {"and", "or"} -> FoldLeft(LAMBDA n, y : IF MaxOperands(y) > n THEN MaxOperands(y) ELSE n,
                                           Len(x.xs), x.xs)
      [] OTHER -> 0
=============================================================================
