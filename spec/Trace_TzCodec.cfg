SPECIFICATION TSpec
CONSTANTS
  AllTz <- TNone
  Haystack <- TNoNames
  ZoneTab <- TNone
  Instants <- TNoNames
  FixedOffs <- TNoNames
  Formats <- TNoFormats
VIEW TView
CHECK_DEADLOCK FALSE
