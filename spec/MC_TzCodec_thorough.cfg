SPECIFICATION Spec
CONSTANTS
  AllTz <- MCAllTz
  Haystack <- MCHaystack
  ZoneTab <- MCZoneTab
  Instants <- MCInstants
  FixedOffs <- MCFixedOffs
  Formats <- MCFormats
  DayWindows <- ThoroughWindows
INVARIANT NameBijective
INVARIANT MapIsFold
INVARIANT WriterDenotes
INVARIANT RoundTrip
INVARIANT FallbackSound
CHECK_DEADLOCK FALSE
