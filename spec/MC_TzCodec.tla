---------------------------- MODULE MC_TzCodec ----------------------------
(***************************************************************************)
(* Bounded instance of TzCodec (role A).  Five abstract host zones over    *)
(* one-minute offsets, so that a window of a few hundred seconds covers    *)
(* every instant before, inside and after a gap and a fold (also across    *)
(* the day/year boundary 1969-12-31/1970-01-01, i.e. negative day counts): *)
(*   A/Gap     0 -> +60 at 00:00:30 (gap), +60 -> 0 at 00:03:20 (fold)     *)
(*   B/Fold    -60 -> -120 at 23:59:30 the day before (fold), back (gap)   *)
(*   UTC       fixed                                                        *)
(*   C/D/Gap2  two '/' : never mapped -> its values take the fallback      *)
(*   E/Gap     second candidate for the name Gap: the first one wins       *)
(* Haystack names: Gap, Fold, UTC, Gap2 (stays unmapped), Miss (absent).   *)
(***************************************************************************)
EXTENDS TzCodec

CONSTANT DayWindows

nAGap  == <<65, 47, 71, 97, 112>>
nBFold == <<66, 47, 70, 111, 108, 100>>
nUTC   == <<85, 84, 67>>
nCDGap2 == <<67, 47, 68, 47, 71, 97, 112, 50>>
nEGap  == <<69, 47, 71, 97, 112>>
nNo    == <<78, 111>>
hGap   == <<71, 97, 112>>
hFold  == <<70, 111, 108, 100>>
hGap2  == <<71, 97, 112, 50>>
hMiss  == <<77, 105, 115, 115>>

MCAllTz == <<nAGap, nBFold, nCDGap2, nEGap, nNo, nUTC>>
MCHaystack == {hGap, hFold, nUTC, hGap2, hMiss}
MCZoneTab == <<
    [olson |-> nAGap,   pre |-> 0,   trans |-> << <<0, 30, 60>>, <<0, 200, 0>> >>],
    [olson |-> nBFold,  pre |-> -60, trans |-> << <<-1, 86370, -120>>, <<0, 100, -60>> >>],
    [olson |-> nUTC,    pre |-> 0,   trans |-> << >>],
    [olson |-> nCDGap2, pre |-> 60,  trans |-> << <<0, 50, 120>> >>],
    [olson |-> nEGap,   pre |-> 0,   trans |-> << <<0, 60, 60>> >>] >>
MCInstants ==
    {<<-1, s, u>> : s \in 86280..86399, u \in {0, 999999}}
    \cup {<<0, s, u>> : s \in 0..260, u \in {0, 999999}}
    \cup {<<11016, 86399, 1>>, <<11017, 0, 0>>, <<-25509, 86390, 1>>, <<-719162, 300, 1>>,
          <<2932896, 86000, 999999>>, <<19000, 43200, 100>>}
MCFixedOffs == {-120, -60, 0, 60, 120, 3600, -50400, 30}
MCFormats == {"zinc", "json"}

QuickWindows == (-719162..-717000) \cup (-27000..-24000) \cup (-800..20500) \cup (2930000..2932896)
ThoroughWindows == -719162..2932896

CivilLaw(d) == LET c == CivilFromDays(d)
               IN /\ ValidCivil(c)
                  /\ DaysFromCivil(c[1], c[2], c[3]) = d
                  /\ d < 2932896 => CivilFromDays(d + 1) = NextCivil(c)

ASSUME FloorArith == (-7) \div 2 = -4 /\ (-7) % 2 = 1 /\ Shift(<<0, 0, 5>>, -1) = <<-1, 86399, 5>>
                     /\ Shift(<<-1, 86399, 0>>, 3601) = <<0, 3600, 0>>
ASSUME CivilAnchors == /\ CivilFromDays(0) = <<1970, 1, 1>>
                       /\ CivilFromDays(-719162) = <<1, 1, 1>>
                       /\ CivilFromDays(2932896) = <<9999, 12, 31>>
                       /\ CivilFromDays(11016) = <<2000, 2, 29>>
                       /\ CivilFromDays(-25509) = <<1900, 2, 28>>
                       /\ CivilFromDays(-25508) = <<1900, 3, 1>>
                       /\ DaysFromCivil(2021, 3, 14) = 18700
ASSUME CivilRoundTrip == \A d \in DayWindows : CivilLaw(d)
\* the documented construction on this instance: exact match (UTC), suffix after exactly one '/'
\* (Gap, Fold), the first candidate wins (A/Gap, not E/Gap), a name with two '/' is matched afterwards by its last
\* part (C/D/Gap2 is Gap2), a Haystack name no tz database entry ends in stays unmapped
ASSUME MapAsDocumented ==
    MapFold(MCAllTz, MCHaystack) = [map |-> {<<hGap, nAGap>>, <<hFold, nBFold>>, <<nUTC, nUTC>>, <<hGap2, nCDGap2>>},
                                    todo |-> {hMiss}]
ASSUME OffIsLastTransition ==
    \A i \in 1..Len(MCZoneTab) : Sorted(MCZoneTab[i]) /\
        \A t \in MCInstants : Off(MCZoneTab[i], t) = OffLinear(MCZoneTab[i], t)
\* the reader inverts the writer on every instant/offset/name of the instance, and is total on prefixes
ASSUME ReadWrite ==
    \A fmt \in MCFormats : \A t \in MCInstants : \A off \in {-120, -60, 0, 60, 120, 3600, -50400} :
        LET w == WriteDT(fmt, t, off, hGap)
            r == ReadDT(fmt, w)
        IN Representable(t, off) => r.ok /\ r.inst = t /\ r.off = off /\ r.hasname /\ r.name = hGap
ASSUME ReaderTotal ==
    LET w == WriteDT("json", <<0, 45, 999999>>, -60, hFold)
    IN \A k \in 0..Len(w) : ReadDT("json", SubSeq(w, 1, k)).ok \in BOOLEAN
=============================================================================
