---------------------------- MODULE Trace_Version ----------------------------
(***************************************************************************)
(* Validation of results recorded from the real hszinc.version.Version and *)
(* the real grammar caches against Version.tla.  Strings travel as lists   *)
(* of code points; every expected value (Cmp, hash agreement, nearest,     *)
(* validity, cache behaviour) is recomputed here from the code points.     *)
(*                                                                         *)
(* File: [vs, tm, rows].  vs[i] = [s |-> version string, n |-> printed     *)
(* Version.nearest(s)].  Each element of rows is judged independently      *)
(* (tid selects it):                                                       *)
(*  k = "pairs": i, js, rv, rs, rt, ru, h -- for every j = js[x]: rv / rs   *)
(*       the six results of Version(vs[i]) op Version(vs[j]) / op the      *)
(*       string vs[j] as a base-3 number (digit k-1: 0 False, 1 True,      *)
(*       2 raised), h[x] = 1 iff the two hashes are equal                  *)
(*  k = "near" : is               -- nearest of vs[i], i in is             *)
(*  k = "ctor" : cs = [s, r]      -- Version(s): 1 built, 0 ValueError, 2  *)
(*  k = "trans": x                -- row x of the logged relation tm        *)
(*       (tm[x][y] = rv code of the pair x,y of a subset): all triples     *)
(*  k = "cache": c ("N" NearestMatch | "G" GenerateMatch), off (official   *)
(*       version -> grammar identity, N only), evs = [v, g, n]: cache[v]   *)
(*       returned grammar identity g (0: the lookup raised); n = printed   *)
(*       Version.nearest(v)                                                *)
(* Verdicts: <<"REJECT", tid, position, clause, flag>> for every failing   *)
(* clause (validation goes on after a rejection), then one                 *)
(* <<"ACCEPT"|"DONE", tid, rejected positions>> per row.                   *)
(***************************************************************************)
EXTENDS Version, Json, IOUtils, SequencesExt

VARIABLES tid, l, tr, vs, tm, nrej, spell

TCacheVersions == {}
tvars == <<cacheN, cacheG, last, tid, l, tr, vs, tm, nrej, spell>>
TView == <<tid, l, nrej, cacheN, cacheG>>

TInit == \E f \in {JsonDeserialize(IOEnv.TRACE_FILE)} :
         /\ vs = f.vs
         /\ tm = f.tm
         /\ tid \in 1..Len(f.rows)
         /\ tr = f.rows[tid]
         /\ l = 0
         /\ nrej = 0
         /\ cacheN = <<>> /\ cacheG = <<>> /\ spell = <<>>
         /\ last = <<"init", V20, NoGram>>

Pow3 == <<1, 3, 9, 27, 81, 243>>
Digit(m, k) == (m \div Pow3[k]) % 3
B(x) == IF x THEN 1 ELSE 0
Code(c) == B(OpHolds(1, c)) + 3 * B(OpHolds(2, c)) + 9 * B(OpHolds(3, c))
           + 27 * B(OpHolds(4, c)) + 81 * B(OpHolds(5, c)) + 243 * B(OpHolds(6, c))
PadDiff(a, b) == IF Len(Nums(a)) # Len(Nums(b)) THEN 1 ELSE 0

Done(n) == PrintT(<<IF n = 0 THEN "ACCEPT" ELSE "DONE", tid, n>>)
Reject(pos, S) == \A b \in S : PrintT(<<"REJECT", tid, pos, b[1], b[2]>>)

(***************************************************************************)
(* pairs                                                                   *)
(***************************************************************************)
\* (TLC re-evaluates a LET definition at every use, but evaluates an operator argument once: values
\*  used several times are therefore passed as arguments, or bound with \E x \in {e})
PairJudge3(na, row, x, j, c, pd, differ) ==
    <<(IF row.rv[x] = Code(c) THEN {}
       ELSE {<<OpNames[k], pd>> : k \in {q \in 1..6 : Digit(row.rv[x], q) # B(OpHolds(q, c))}})
      \cup
      (IF row.rs[x] = Code(c) THEN {}
       ELSE {<<"str_rhs_" \o OpNames[k], pd>> : k \in {q \in 1..6 : Digit(row.rs[x], q) # B(OpHolds(q, c))}})
      \cup
      \* the same string met as a freshly built object (its text, not its identity, is what is compared) ...
      (IF row.rt[x] = Code(c) THEN {}
       ELSE {<<"fresh_str_rhs_" \o OpNames[k], pd>> : k \in {q \in 1..6 : Digit(row.rt[x], q) # B(OpHolds(q, c))}})
      \cup
      \* ... and the same version as an instance of a behaviour-free subclass of Version (either side)
      (IF row.ru[x] = Code(c) THEN {}
       ELSE {<<"subclass_" \o OpNames[k], pd>> : k \in {q \in 1..6 : Digit(row.ru[x], q) # B(OpHolds(q, c))}})
      \cup (IF c = 0 /\ row.h[x] # 1 THEN {<<"hash", pd>>} ELSE {})
      \cup (IF c <= 0 /\ Cmp(na, Parse(vs[j].n)) > 0 THEN {<<"nearest_mono", pd>>} ELSE {}),
      c, IF c = 0 /\ differ THEN 1 ELSE 0>>
PairJudge2(pa, na, row, x, j, pb) == PairJudge3(na, row, x, j, Cmp(pa, pb), PadDiff(pa, pb), pa # pb)
PairJudge(pa, na, row, x) == PairJudge2(pa, na, row, x, row.js[x], Parse(vs[row.js[x]].s))

\* one pass over the row (FoldLeft is iterative: a RECURSIVE fold over 775 positions is quadratic in TLC):
\* prints the rejections, returns <<rejected positions, pairs equal with different spelling, pairs <, pairs >>>
PairAcc(acc, x, r) ==
    IF Reject(x, r[1])
    THEN <<acc[1] + B(r[1] # {}), acc[2] + r[3], acc[3] + B(r[2] < 0), acc[4] + B(r[2] > 0)>>
    ELSE acc

JudgePairs(row) ==
    \E pa \in {Parse(vs[row.i].s)} : \E na \in {Parse(vs[row.i].n)} :
    \E st \in {FoldLeft(LAMBDA acc, x : PairAcc(acc, x, PairJudge(pa, na, row, x)),
                        <<0, 0, 0, 0>>, [x \in 1..Len(row.js) |-> x])} :
       /\ nrej' = st[1]
       /\ PrintT(<<"STAT", tid, st[2], st[3], st[4]>>)
       /\ Done(st[1])

(***************************************************************************)
(* nearest, pointwise: official, and an equal one when one exists          *)
(***************************************************************************)
NearBad(i) ==
    LET pv == Parse(vs[i].s)
        pn == Parse(vs[i].n)
        ok == Valid(vs[i].n)
    IN  (IF ~ok \/ ~\E o \in Official : Eq(o, pn) THEN {<<"nearest_official", 0>>} ELSE {})
        \cup (IF ok /\ (\E o \in Official : Eq(o, pv)) /\ ~Eq(pn, pv) THEN {<<"nearest_equal", 0>>} ELSE {})

JudgeNear(row) ==
    \E bad \in {{x \in 1..Len(row.is) : NearBad(row.is[x]) # {}}} :
       /\ \A x \in bad : Reject(x, NearBad(row.is[x]))
       \* not a verdict: the result is allowed but is not the one of the documented scan
       /\ \A x \in (1..Len(row.is)) \ bad :
             ~Eq(Parse(vs[row.is[x]].n), Nearest(Parse(vs[row.is[x]].s)))
                => PrintT(<<"NOTE", tid, x, "nearest_not_reference_scan", 0>>)
       /\ nrej' = Cardinality(bad)
       /\ Done(Cardinality(bad))

(***************************************************************************)
(* constructor                                                             *)
(***************************************************************************)
JudgeCtor(row) ==
    \E bad \in {{x \in 1..Len(row.cs) : row.cs[x].r # B(Valid(row.cs[x].s))}} :
       /\ \A x \in bad : Reject(x, {<<"ctor", row.cs[x].r>>})
       /\ nrej' = Cardinality(bad)
       /\ Done(Cardinality(bad))

(***************************************************************************)
(* transitivity of the relation the real operators define on a subset      *)
(***************************************************************************)
LtL(x, y) == Digit(tm[x][y], 1) = 1
LeL(x, y) == Digit(tm[x][y], 2) = 1
EqL(x, y) == Digit(tm[x][y], 3) = 1
TransBad(x) ==
    {yz \in (1..Len(tm)) \X (1..Len(tm)) :
        LET y == yz[1] z == yz[2] IN
        \/ LeL(x, y) /\ LeL(y, z) /\ ~LeL(x, z)
        \/ LtL(x, y) /\ LeL(y, z) /\ ~LtL(x, z)
        \/ LeL(x, y) /\ LtL(y, z) /\ ~LtL(x, z)
        \/ EqL(x, y) /\ EqL(y, z) /\ ~EqL(x, z)}
JudgeTrans(row) ==
    \E bad \in {TransBad(row.x)} :
       /\ bad # {} => LET w == CHOOSE yz \in bad : TRUE IN PrintT(<<"REJECT", tid, w[1], "transitive", w[2]>>)
       /\ nrej' = Cardinality(bad)
       /\ Done(Cardinality(bad))

(***************************************************************************)
(* grammar caches: the logged lookups drive the cache of Version.tla       *)
(* (keyed by HashKey, first binding kept)                                  *)
(***************************************************************************)
HeaderCache(off) == [k \in {HashKey(Parse(off[i].v)) : i \in 1..Len(off)} |->
                        off[CHOOSE i \in 1..Len(off) : HashKey(Parse(off[i].v)) = k].g]
HeaderBad(row) ==
    IF row.c = "N" /\ (\/ {Parse(row.off[i].v) : i \in 1..Len(row.off)} # Official
                       \/ \E i \in 1..Len(row.off) : row.off[i].g = NoGram)
    THEN {<<"cache_header", 0>>} ELSE {}

CacheBad(c, cache, ev) ==
    LET pv  == Parse(ev.v)
        pn  == Parse(ev.n)
        hit == CacheHit(cache, pv)
        off == {o \in Official : Eq(o, pn)}
    IN  IF ev.g = NoGram THEN {<<"lookup_raised", 0>>} ELSE
        (IF hit /\ cache[HashKey(pv)] # ev.g
         THEN {<<IF c = "N" THEN "nearest_same" ELSE "generate_same", PadDiff(spell[HashKey(pv)], pv)>>}
         ELSE {})
        \cup
        (IF c # "N" THEN {}
         ELSE IF ~Valid(ev.n) \/ off = {} THEN {<<"cache_nearest_official", 0>>}
         ELSE IF ~\E o \in NearestChoices(pv) : Eq(o, pn)
              THEN {<<"cache_nearest_equal", 0>>}
         ELSE IF \E o \in off : CacheLookup(cache, o) # ev.g THEN {<<"nearest_grammar", 0>>}
         ELSE {})

JudgeCache(row) ==
    IF l = 0
    THEN /\ Reject(0, HeaderBad(row))
         /\ cacheN' = (IF row.c = "N" THEN HeaderCache(row.off) ELSE <<>>)
         /\ cacheG' = <<>>
         /\ spell' = (IF row.c = "N"
                      THEN [k \in {HashKey(Parse(row.off[i].v)) : i \in 1..Len(row.off)} |->
                               Parse(row.off[CHOOSE i \in 1..Len(row.off) : HashKey(Parse(row.off[i].v)) = k].v)]
                      ELSE <<>>)
         /\ nrej' = Cardinality(HeaderBad(row))
         /\ last' = last
         /\ (Len(row.evs) = 0 => Done(nrej'))
    ELSE LET ev    == row.evs[l]
             cache == IF row.c = "N" THEN cacheN ELSE cacheG
             pv    == Parse(ev.v)
         IN \E bad \in {CacheBad(row.c, cache, ev)} :
            /\ Reject(l, bad)
            /\ cacheN' = (IF row.c = "N" /\ ev.g # NoGram THEN CachePut(cacheN, pv, ev.g) ELSE cacheN)
            /\ cacheG' = (IF row.c = "G" /\ ev.g # NoGram THEN CachePut(cacheG, pv, ev.g) ELSE cacheG)
            /\ spell' = (IF HashKey(pv) \in DOMAIN spell \/ ev.g = NoGram THEN spell
                         ELSE (HashKey(pv) :> pv) @@ spell)
            /\ last' = <<row.c, pv, ev.g>>
            /\ nrej' = nrej + B(bad # {})
            /\ (l = Len(row.evs) => Done(nrej'))

TNext ==
    /\ IF tr.k = "cache"
       THEN l <= Len(tr.evs) /\ JudgeCache(tr)
       ELSE /\ l = 0
            /\ CASE tr.k = "pairs" -> JudgePairs(tr)
                 [] tr.k = "near"  -> JudgeNear(tr)
                 [] tr.k = "ctor"  -> JudgeCtor(tr)
                 [] tr.k = "trans" -> JudgeTrans(tr)
            /\ UNCHANGED <<cacheN, cacheG, last, spell>>
    /\ l' = l + 1
    /\ UNCHANGED <<tid, tr, vs, tm>>

TSpec == TInit /\ [][TNext]_tvars
=============================================================================
