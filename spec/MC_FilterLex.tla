---------------------------- MODULE MC_FilterLex ----------------------------
(***************************************************************************)
(* The two filter models agree (C11).                                      *)
(*   FilterSem.tla  tokens, one literal per kind, abstract valuations,     *)
(*                  parser = token machine PStep                           *)
(*   FilterLex.tla  characters, literals by value (ZincRead), parser =     *)
(*                  recursive descent                                      *)
(* For every AST of the bound in every rendering style:                    *)
(*   ParseAgrees   FParse of the rendered characters is the AST the token  *)
(*                 machine ends with (literals as their spelling)          *)
(*   LiteralsValid every literal spelling of FilterSem is a valid literal  *)
(*                 whose value is the "equal" value of its kind            *)
(*   SemAgree      on rows realising every valuation, made concrete by     *)
(*                 Conc, the two semantics allow exactly the same truth    *)
(*                 values (same answers, same latitudes)                   *)
(***************************************************************************)
EXTENDS FilterLex

FS == INSTANCE FilterSem

CONSTANT Tier

VARIABLES ast, st
vars == <<ast, st>>

Tag(t) == FS!Spell(t)
PathC(p) == [i \in 1..Len(p) |-> Tag(p[i])]

RECURSIVE Conv(_)
Conv(x) == CASE x.t = "has"     -> [t |-> "has", p |-> PathC(x.p)]
             [] x.t = "missing" -> [t |-> "missing", p |-> PathC(x.p)]
             [] x.t = "cmp"     -> [t |-> "cmp", p |-> PathC(x.p), o |-> x.o, lit |-> FS!LitSpell[x.k]]
             [] x.t = "paren"   -> [t |-> "paren", x |-> Conv(x.x)]
             [] x.t \in {"and", "or"} -> [t |-> x.t, xs |-> [i \in 1..Len(x.xs) |-> Conv(x.xs[i])]]
             [] OTHER -> x

\* concrete values for FilterSem's abstract ones (the table lib/c11.py's Binding uses on the code side)
Dec(sign, ex, digits) == <<sign, IF ex < 0 THEN 1 ELSE 0, IF ex < 0 THEN 0 - ex ELSE ex>> \o digits
utc == <<85, 84, 67>>
RECURSIVE Digits(_)
Digits(n) == IF n < 10 THEN <<48 + n>> ELSE Digits(n \div 10) \o <<48 + (n % 10)>>
IdName(n) == <<105, 100>> \o Digits(n)
Conc(v) ==
    IF v = FS!Absent THEN FAbsent
    ELSE IF v = FS!Marker THEN <<1>>
    ELSE LET k == FS!KindNames[v[1]]  r == v[2]
         IN CASE k = "ref" /\ r >= 100 -> <<10, IdName(r - 100), 0, <<>>>>
              [] k = "num"  -> <<5, CASE r = 2 -> Dec(0, 1, <<5>>) [] r = 3 -> Dec(0, 1, <<3>>) [] OTHER -> Dec(0, 1, <<7, 5>>)>>
              [] k = "inf"  -> <<5, IF r = 2 THEN <<9, 0>> ELSE Dec(0, 301, <<1>>)>>
              [] k = "qty"  -> <<6, CASE r = 2 -> Dec(0, 1, <<5>>) [] r = 3 -> Dec(0, 1, <<3>>) [] OTHER -> Dec(0, 1, <<7, 5>>),
                                 <<107, 87>>>>
              [] k = "str"  -> <<7, CASE r = 2 -> <<109>> [] r = 3 -> <<100>> [] OTHER -> <<116>>>>
              [] k = "uri"  -> <<8, CASE r = 2 -> <<109>> [] r = 3 -> <<100>> [] OTHER -> <<116>>>>
              [] k = "boolT" -> <<4, IF r = 2 THEN 1 ELSE 0>>
              [] k = "boolF" -> <<4, IF r = 2 THEN 0 ELSE 1>>
              [] k = "ref"  -> <<10, CASE r = 2 -> <<108, 105, 116>> [] r = 3 -> <<97, 97, 97>> [] OTHER -> <<122, 122, 122>>, 0, <<>>>>
              [] k = "date" -> CASE r = 2 -> <<12, 2020, 1, 15>> [] r = 3 -> <<12, 2019, 12, 31>> [] OTHER -> <<12, 2020, 2, 1>>
              [] k = "time" -> CASE r = 2 -> <<13, 12, 30, 0, 0>> [] r = 3 -> <<13, 1, 2, 3, 0>> [] OTHER -> <<13, 23, 0, 0, 0>>
              [] k = "dt"   -> CASE r = 2 -> <<14, 2020, 1, 15, 12, 30, 0, 0, 0, 0, utc>>
                                 [] r = 3 -> <<14, 2019, 6, 1, 0, 0, 0, 0, 0, 0, utc>>
                                 [] OTHER -> <<14, 2021, 3, 1, 8, 0, 0, 0, 0, 0, utc>>
ConcRow(r) ==
    LET id == FS!RowId(r)
        cell(t) == LET v == FS!RowVal(r, t) IN IF v = FS!Absent THEN <<>> ELSE <<<<Tag(t), Conc(v)>>>>
    IN (IF id = 0 THEN <<>> ELSE <<<<cId, <<10, IdName(id), 0, <<>>>>>>>>) \o cell("a") \o cell("b") \o cell("c")
ConcRows(rows) == [i \in 1..Len(rows) |-> ConcRow(rows[i])]

pa  == <<"a">>
pb  == <<"b">>
pc  == <<"c">>
pab == <<"a", "b">>
AtomsOver(paths, ops, k) ==
    {FS!Has(p) : p \in paths} \cup {FS!Missing(p) : p \in paths} \cup {FS!Cmp(p, o, k) : p \in paths, o \in ops}
KindOfOp == [o \in FS!CmpOps |-> CASE o = "==" -> "num" [] o = "!=" -> "str" [] o = "<" -> "date"
                                   [] o = "<=" -> "qty" [] o = ">" -> "ref" [] o = ">=" -> "dt"]
AtomsP == {FS!Has(p) : p \in {pa, pab}} \cup {FS!Missing(p) : p \in {pa, pab}}
          \cup {FS!Cmp(p, o, KindOfOp[o]) : p \in {pa, pab}, o \in FS!CmpOps}
CA4 == {FS!Has(pa), FS!Has(pb), FS!Missing(pc), FS!Cmp(pc, "==", "num")}
Mixed3(At) == UNION {{FS!Or(<<x, FS!And(<<y, z>>)>>), FS!And(<<x, FS!Paren(FS!Or(<<y, z>>))>>)}
                     : x \in At, y \in At, z \in At}
\* "parse": many shapes, few kinds; "sem": few shapes, all kinds and operators
ParseAsts == FS!FiltersUpTo(IF Tier = "quick" THEN 3 ELSE 4, AtomsP) \cup {FS!Empty}
SemAsts == UNION {FS!FiltersUpTo(2, AtomsOver({pa, pb, pab}, FS!CmpOps, k)) : k \in FS!Kinds} \cup Mixed3(CA4)
Asts == ParseAsts \cup SemAsts

Init == /\ ast \in Asts
        /\ st \in (IF ast = FS!Empty THEN {[sp |-> 0, wrap |-> FALSE], [sp |-> 2, wrap |-> FALSE]}
                   ELSE IF ast \in ParseAsts THEN FS!AllStyles ELSE {[sp |-> 1, wrap |-> FALSE]})
Next == UNCHANGED vars
Spec == Init /\ [][Next]_vars

ParseAgrees ==
    LET r == FParse(FS!Text(FS!Render(ast, st)))
    IN r.ok /\ r.ast = Conv(FS!Expected(ast, st))

LiteralsValid ==
    \A k \in FS!Kinds : LET lv == FLitVal(FS!LitSpell[k])
                        IN lv[1] /\ (k # "dt" => lv[2] = Conc(FS!Val(k, FS!Eq)))
                           /\ (k = "dt" => InstCmp(lv[2], Conc(FS!Val(k, FS!Eq))) = 0)

SemAgree ==
    ast \in SemAsts =>
        \E rows \in {FS!CaseRows(ast)} : \E x \in {FResolveLits(Conv(ast))} : \E crows \in {ConcRows(rows)} :
            \A i \in 1..Len(rows) :
                LET S1 == FS!Sem(ast, rows[i], rows)
                    S2 == FSem(x, crows[i], crows)
                IN S1 = S2

=============================================================================
