------------------------------ MODULE MC_Codec ------------------------------
EXTENDS Codec
\* values 1 and 2 differ beyond six decimals from their quantised forms 11 and 12; 3 is exact
MCQ6(v) == CASE v = 1 -> 11 [] v = 2 -> 12 [] OTHER -> v
=============================================================================
