---------------------------- MODULE Gen_ZincMut ----------------------------
(***************************************************************************)
(* Mutation operators over well-formed ZINC documents (C09).  Seeds are the  *)
(* documents of ZwCat.Docs spelled by ZincWrite (default style and the       *)
(* styles of ZwCat.ExtraStyles); every mutant at every position is           *)
(* enumerated: truncate, delete, insert c, replace by c, duplicate a         *)
(* segment, swap neighbours -- c over the metacharacter alphabet.  The       *)
(* reader machine's verdict on each mutant is what bounds hszinc's           *)
(* behaviour (Trace_Zinc "outcome").                                         *)
(***************************************************************************)
EXTENDS ZincWrite, Json, ZwCat

Alphabet == <<34, 92, 44, 10, 32, 91, 93, 123, 125, 60, 62, 40, 41, 58, 64, 96, 78, 49, 97, 13, 36, 117, 65, 9>>   \* (9: TAB, a control character)
\*            "   \   ,   NL  SP  [   ]   {    }    <   >   (   )   :   @   `   N   1   a   CR  $   u    A

Seed(di, si) == SpellDoc(Docs[di], IF si = 0 THEN DefaultStyle ELSE ExtraStyles[si])

\* mutation m = <<kind, position, alphabet index>>
Apply(t, m) ==
    LET i == m[2]  c == Alphabet[m[3]]
    IN CASE m[1] = "none"    -> t                                   \* the seed itself
         [] m[1] = "trunc"   -> SubSeq(t, 1, i - 1)
         [] m[1] = "delete"  -> SubSeq(t, 1, i - 1) \o SubSeq(t, i + 1, Len(t))
         [] m[1] = "insert"  -> SubSeq(t, 1, i - 1) \o <<c>> \o SubSeq(t, i, Len(t))
         [] m[1] = "replace" -> SubSeq(t, 1, i - 1) \o <<c>> \o SubSeq(t, i + 1, Len(t))
         [] m[1] = "dup"     -> SubSeq(t, 1, i + 2) \o SubSeq(t, i, Len(t))
         [] m[1] = "swap"    -> SubSeq(t, 1, i - 1) \o <<t[i + 1], t[i]>> \o SubSeq(t, i + 2, Len(t))

Muts(n) == {<<"none", 1, 1>>} \cup {<<"trunc", i, 1>> : i \in 1..n} \cup {<<"delete", i, 1>> : i \in 1..n}
           \cup {<<k, i, a>> : k \in {"insert", "replace"}, i \in 1..n, a \in 1..Len(Alphabet)}
           \cup {<<"insert", n + 1, a>> : a \in 1..Len(Alphabet)}
           \cup {<<"dup", i, 1>> : i \in 1..(n - 2)} \cup {<<"swap", i, 1>> : i \in 1..(n - 1)}

VARIABLES di, si, mut
Init == /\ di \in 1..Len(Docs)
        /\ si \in 0..Len(ExtraStyles)
        /\ mut \in Muts(Len(Seed(di, si)))
        /\ (mut[1] = "replace" => Seed(di, si)[mut[2]] # Alphabet[mut[3]])
Next == UNCHANGED <<di, si, mut>>
Spec == Init /\ [][Next]_<<di, si, mut>>
Emit == PrintT(ToJson([di |-> di, si |-> si, m |-> mut, text |-> Apply(Seed(di, si), mut)]))
=============================================================================
