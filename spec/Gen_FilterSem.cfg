SPECIFICATION GenSpec
CONSTANTS
  Tier = "quick"
CHECK_DEADLOCK FALSE
