------------------------------ MODULE ValueEq ------------------------------
(***************************************************************************)
(* C19 -- equality of Haystack values and of grids, as a decision table.   *)
(*                                                                         *)
(* Abstract value = record [k |-> kind, ...payload]; payload fields are    *)
(* typed consistently over all kinds (so records of different kinds can be *)
(* compared by TLC without a type clash):                                  *)
(*   null marker na remove   (no payload)                                  *)
(*   bool   v (numeric token "0"/"1"), nan = FALSE                         *)
(*   num    v (exact rational token "p/q", "inf", "-inf", "nan"), nan, f   *)
(*          (f: written as a float -- informational, never compared)       *)
(*   qty    v, nan, f, un (unit is None), u (unit code points)             *)
(*   str uri bin   t (code points)                                         *)
(*   ref    t (name), hv (has display), dn (display is None), d (display)  *)
(*   xstr   t (type name), enc ("bytes"|"text"), b (decoded payload)       *)
(*   date   d = <<y, m, d>>       time  tm = <<h, m, s, us>>               *)
(*   dt     aware, inst = <<days, sec, us>> (UTC if aware, wall otherwise), *)
(*          tz (zone name, informational)                                  *)
(*   coord  lat, lng (exact tokens), nan                                   *)
(*   list   e = sequence of values                                         *)
(*   dict   e = sequence of <<key code points, value>> sorted by key       *)
(*                                                                         *)
(* Eq(a, b) \in {"T", "F", "TypeError", "either"} is what `a == b` must do; *)
(* "either" = not constrained by the property (recorded, never judged).    *)
(*                                                                         *)
(* Named deviations from a purely Haystack reading (Python semantics that  *)
(* hszinc inherits and the property does not forbid):                      *)
(*   BoolIsNumber     True == 1, False == 0.0: bool/num/qty compare by     *)
(*                    numeric value across kinds                           *)
(*   QtyIsItsValue    Quantity(1,'m') == 1 (C20: numerically transparent)  *)
(*   NaNNotReflexive  a NaN payload is unequal to everything incl. itself; *)
(*                    inside a list/dict Python's identity shortcut makes  *)
(*                    the outcome for two equal NaN-bearing elements        *)
(*                    "either"                                             *)
(*   InstantEquality  aware date-times compare by instant, the zone name   *)
(*                    is not part of equality                              *)
(*   XStrTypeFree     two XStr with equal payload and different type names *)
(*                    are "either"                                         *)
(***************************************************************************)
EXTENDS Naturals, Integers, Sequences, FiniteSets, TLC

CONSTANTS Cat,        \* sequence of abstract values (the catalogue)
          CellDom,    \* sequence of abstract grid cells
          BaseGrids,  \* set of abstract grids
          NonGrids    \* sequence of cells used as "right operand is not a grid"

Kinds == {"null", "marker", "na", "remove", "bool", "num", "qty", "str", "uri", "bin", "ref",
          "xstr", "date", "time", "dt", "coord", "list", "dict"}
TextKinds      == {"str", "uri", "bin"}
SingletonKinds == {"marker", "na", "remove"}
NumLikeKinds   == {"bool", "num", "qty"}
UnhashableKinds == {"list", "dict"}       \* kinds that can never be hashed; others may be

B(p) == IF p THEN "T" ELSE "F"
MinOf(S) == CHOOSE x \in S : \A y \in S : x <= y

RECURSIVE NaNBearing(_)
NaNBearing(a) ==
    CASE a.k \in {"num", "qty", "coord"} -> a.nan
      [] a.k = "list" -> \E i \in 1..Len(a.e) : NaNBearing(a.e[i])
      [] a.k = "dict" -> \E i \in 1..Len(a.e) : NaNBearing(a.e[i][2])
      [] OTHER -> FALSE

NumEq(a, b)    == IF a.nan \/ b.nan THEN "F" ELSE B(a.v = b.v)
SameUnit(a, b) == a.un = b.un /\ a.u = b.u

RECURSIVE Eq(_, _)

\* element comparison inside a container: `x is y or x == y`
ElemEq(x, y) == IF x.k = y.k /\ NaNBearing(x) /\ x = y THEN "either" ELSE Eq(x, y)

\* list == list: different lengths are unequal at once; otherwise the first element pair that is
\* not equal decides (False, or the exception it raises)
ListBad(s, t) == {i \in 1..Len(s) : ElemEq(s[i], t[i]) # "T"}
ListEq(s, t) ==
    IF Len(s) # Len(t) THEN "F"
    ELSE IF ListBad(s, t) = {} THEN "T"
    ELSE ElemEq(s[MinOf(ListBad(s, t))], t[MinOf(ListBad(s, t))])

\* dict == dict: same key set and equal values; the order in which values are compared is the
\* left operand's insertion order, which the abstract form does not carry
DictKeys(s) == [i \in 1..Len(s) |-> s[i][1]]
DictBad(s, t) == {i \in 1..Len(s) : ElemEq(s[i][2], t[i][2]) # "T"}
DictEq(s, t) ==
    IF DictKeys(s) # DictKeys(t) THEN "F"
    ELSE LET R == {ElemEq(s[i][2], t[i][2]) : i \in DictBad(s, t)}
         IN IF R = {} THEN "T" ELSE IF R = {"F"} THEN "F" ELSE IF R = {"TypeError"} THEN "TypeError"
            ELSE "either"

Eq(a, b) ==
    IF a.k = b.k THEN
        CASE a.k \in {"null", "marker", "na", "remove"} -> "T"
          [] a.k \in {"bool", "num"} -> NumEq(a, b)
          [] a.k = "qty"   -> IF SameUnit(a, b) THEN NumEq(a, b) ELSE "TypeError"
          [] a.k \in TextKinds -> B(a.t = b.t)
          [] a.k = "ref"   -> B(a.t = b.t /\ a.hv = b.hv /\ a.dn = b.dn /\ a.d = b.d)
          [] a.k = "xstr"  -> IF a.t = b.t THEN B(a.enc = b.enc /\ a.b = b.b)
                              ELSE IF a.b = b.b THEN "either" ELSE "F"
          [] a.k = "date"  -> B(a.d = b.d)
          [] a.k = "time"  -> B(a.tm = b.tm)
          [] a.k = "dt"    -> IF a.aware = b.aware THEN B(a.inst = b.inst) ELSE "F"
          [] a.k = "coord" -> IF a.nan \/ b.nan THEN "F" ELSE B(a.lat = b.lat /\ a.lng = b.lng)
          [] a.k = "list"  -> ListEq(a.e, b.e)
          [] a.k = "dict"  -> DictEq(a.e, b.e)
    ELSE IF a.k \in NumLikeKinds /\ b.k \in NumLikeKinds THEN NumEq(a, b)   \* BoolIsNumber, QtyIsItsValue
    ELSE "F"      \* different kinds are different values: Uri('x') is not 'x' is not Bin('x')

Ne(a, b) == CASE Eq(a, b) = "T" -> "F" [] Eq(a, b) = "F" -> "T" [] OTHER -> Eq(a, b)

\* where the decision was taken: the innermost pair that made Eq(a,b) differ from "T"
RECURSIVE BlameP(_, _)
BlameP(a, b) ==
    IF a.k = "list" /\ b.k = "list" /\ Len(a.e) = Len(b.e) /\ ListBad(a.e, b.e) # {}
    THEN BlameP(a.e[MinOf(ListBad(a.e, b.e))], b.e[MinOf(ListBad(a.e, b.e))])
    ELSE IF a.k = "dict" /\ b.k = "dict" /\ DictKeys(a.e) = DictKeys(b.e) /\ DictBad(a.e, b.e) # {}
    THEN BlameP(a.e[MinOf(DictBad(a.e, b.e))][2], b.e[MinOf(DictBad(a.e, b.e))][2])
    ELSE <<a, b>>
Blame(a, b) == BlameP(a, b)[1].k \o "/" \o BlameP(a, b)[2].k

\* text-like values with the same text (for the feature record of a finding)
SameText(a, b) == a.k \in TextKinds /\ b.k \in TextKinds /\ a.t = b.t

\* a canonical key per kind: equal values of one kind must agree on it, so a hash computed from it
\* (and only such a hash) is consistent with Eq
HashKey(a) ==
    CASE a.k \in {"null", "marker", "na", "remove"} -> <<a.k>>
      [] a.k \in {"bool", "num"} -> <<"n", a.v>>
      [] a.k = "qty"   -> <<"q", a.v, a.un, a.u>>
      [] a.k \in TextKinds -> <<a.k, a.t>>
      [] a.k = "ref"   -> <<"ref", a.t, a.hv, a.dn, a.d>>
      [] a.k = "xstr"  -> <<"xstr", a.t, a.b>>
      [] a.k = "date"  -> <<"date", a.d>>
      [] a.k = "time"  -> <<"time", a.tm>>
      [] a.k = "dt"    -> <<"dt", a.aware, a.inst>>
      [] a.k = "coord" -> <<"coord", a.lat, a.lng>>
      [] OTHER -> <<"unhashable">>

MustBeIdentical(a, b) == a.k = b.k /\ a.k \in SingletonKinds

(***************************************************************************)
(* Judging one logged observation of the implementation (used by the trace *)
(* specification).  eq / ne are "T", "F" or an exception class name.       *)
(***************************************************************************)
IsBool(x) == x \in {"T", "F"}
RaiseOk(expected, got)  == IsBool(got) \/ (expected = "TypeError" /\ got = "TypeError")
ValueOk(expected, got)  == expected = "either" \/ got = expected \/ (~IsBool(got) /\ expected # "TypeError")
    \* (an unexpected exception is reported once, by RaiseOk, not again as a wrong value)
ComplementOk(eq, ne)    == (eq = "T" /\ ne = "F") \/ (eq = "F" /\ ne = "T") \/ (~IsBool(eq) /\ ne = eq)
SymmetricOk(x, y)       == (IsBool(x) /\ IsBool(y)) => x = y
    \* (an answer on one side and an exception on the other is reported by RaiseOk / ValueOk)
\* the hash law: two hashable values of one kind that ARE equal -- by the table, or because the implementation says so
\* where the table leaves the answer open -- hash alike
HashOk(a, b, hi, hj, heq, got) == (a.k = b.k /\ (Eq(a, b) = "T" \/ (Eq(a, b) = "either" /\ got = "T")) /\ hi /\ hj) => heq

(***************************************************************************)
(* Grids.  A tiny abstract grid:                                           *)
(*   meta  set of metadata names (codes)        cols  sequence of names    *)
(*   cm    per column, the set of its metadata names                       *)
(*   rows  sequence of rows, a row = sequence of cells (one per column)    *)
(* Cell = [k, s, mu, mu2, i]: kind, discrete content code, float content   *)
(* in integer micro-units (two of them for a coordinate), i = written as   *)
(* an int (never compared).  The formats keep six decimals, so two floats  *)
(* are the same content when they differ by less than one unit, different  *)
(* when they differ by two or more, and "either" in between.               *)
(***************************************************************************)
Abs(n) == IF n < 0 THEN -n ELSE n
FloatEq(m, n) == IF m = n THEN "T" ELSE IF Abs(m - n) >= 2 THEN "F" ELSE "either"
And3(x, y) == IF x = "F" \/ y = "F" THEN "F" ELSE IF x = "either" \/ y = "either" THEN "either" ELSE "T"

\* (as VALUES True == 1 in Python -- BoolIsNumber, a named deviation of Eq above; as grid CELLS a Bool and a Number are
\* cells of different kinds)
CellEq(a, b) ==
    IF a.k # b.k THEN "F"
    ELSE IF a.s # b.s THEN "F"
    ELSE And3(FloatEq(a.mu, b.mu), FloatEq(a.mu2, b.mu2))

IsGrid(x) == "rows" \in DOMAIN x
GridEq(x, y) ==
    IF ~IsGrid(x) \/ ~IsGrid(y) THEN "F"        \* a grid is not a scalar, a list or a dict
    ELSE IF x.meta # y.meta \/ x.cols # y.cols \/ x.cm # y.cm \/ Len(x.rows) # Len(y.rows) THEN "F"
    ELSE LET R == {CellEq(x.rows[r][c], y.rows[r][c]) : r \in 1..Len(x.rows), c \in 1..Len(x.cols)}
         IN IF "F" \in R THEN "F" ELSE IF "either" \in R THEN "either" ELSE "T"
GridNe(x, y) == CASE GridEq(x, y) = "T" -> "F" [] GridEq(x, y) = "F" -> "T" [] OTHER -> "either"

NewName == 99       \* a name code no base grid uses
NullCell == [k |-> "null", s |-> 0, mu |-> 0, mu2 |-> 0, i |-> 0]
SetAt(s, j, x) == [s EXCEPT ![j] = x]

CellClass(x, y) == IF x.k # y.k THEN "cell_kind"
                   ELSE IF x.s # y.s THEN (IF x.k = "str" THEN "cell_str" ELSE "cell_content")
                   ELSE "cell_float"
Material(x, y) == CellEq(x, y) = "F"

\* the one-position material mutations of a grid (cell replacements only when the new cell is a
\* different value: another kind, another string/content code, or a float two or more units away)
CellMuts(x) ==
    UNION {{[m |-> CellClass(x.rows[p[1]][p[2]], CellDom[y]), r |-> p[1], c |-> p[2], to |-> y] :
              y \in {z \in 1..Len(CellDom) : Material(x.rows[p[1]][p[2]], CellDom[z])}} :
           p \in (1..Len(x.rows)) \X (1..Len(x.cols))}
Mutations(x) ==
    {[m |-> "row_add"]}
    \cup (IF Len(x.rows) > 0 THEN {[m |-> "row_del"]} ELSE {})
    \cup {[m |-> "col_rename", c |-> c] : c \in 1..Len(x.cols)}
    \cup {[m |-> "meta_rename", n |-> n] : n \in x.meta}
    \cup {[m |-> "meta_add"]}
    \cup {[m |-> "meta_del", n |-> n] : n \in x.meta}
    \cup UNION {{[m |-> "cmeta_rename", c |-> c, n |-> n] : n \in x.cm[c]} : c \in 1..Len(x.cols)}
    \cup CellMuts(x)
    \* the two column names exchanged while the cells stay where they are: each name now heads the other's cells
    \cup (IF Len(x.cols) = 2 /\ \E r \in 1..Len(x.rows) : Material(x.rows[r][1], x.rows[r][2])
          THEN {[m |-> "cols_swapped"]} ELSE {})
    \cup {[m |-> "not_a_grid", to |-> y] : y \in 1..Len(NonGrids)}

Mutate1(x, m) ==
    CASE m.m = "row_add"  -> [x EXCEPT !.rows = Append(x.rows, [c \in 1..Len(x.cols) |-> NullCell])]
      [] m.m = "row_del"  -> [x EXCEPT !.rows = SubSeq(x.rows, 1, Len(x.rows) - 1)]
      [] m.m = "col_rename"  -> [x EXCEPT !.cols = SetAt(x.cols, m.c, NewName)]
      [] m.m = "meta_rename" -> [x EXCEPT !.meta = (x.meta \ {m.n}) \cup {NewName}]
      [] m.m = "meta_add"    -> [x EXCEPT !.meta = x.meta \cup {NewName}]
      [] m.m = "meta_del"    -> [x EXCEPT !.meta = x.meta \ {m.n}]
      [] m.m = "cmeta_rename" -> [x EXCEPT !.cm = SetAt(x.cm, m.c, (x.cm[m.c] \ {m.n}) \cup {NewName})]
      [] m.m = "cols_swapped" -> [x EXCEPT !.cols = <<x.cols[2], x.cols[1]>>, !.cm = <<x.cm[2], x.cm[1]>>]
      [] m.m = "not_a_grid"  -> NonGrids[m.to]
      [] OTHER -> [x EXCEPT !.rows = SetAt(x.rows, m.r, SetAt(x.rows[m.r], m.c, CellDom[m.to]))]

(***************************************************************************)
(* Two small state machines over one set of variables.                     *)
(*  values: a state is an ordered pair of catalogue positions, reached by  *)
(*          picking the right operand; a further step swaps the operands   *)
(*          (so symmetry is also an action law).                           *)
(*  grids:  a state is <<base grid, current grid, mutation>>; from the     *)
(*          faithful copy (h = g) one step applies one material mutation.  *)
(***************************************************************************)
VARIABLES pi, pj, g, h, mut
vars == <<pi, pj, g, h, mut>>

NoGrid == [meta |-> {}, cols |-> <<>>, cm |-> <<>>, rows |-> <<>>]
Identity == [m |-> "identity"]

InitV == pi \in 1..Len(Cat) /\ pj = pi /\ g = NoGrid /\ h = NoGrid /\ mut = Identity
Pick  == pi = pj /\ pj' \in 1..Len(Cat) /\ pi' = pi /\ UNCHANGED <<g, h, mut>>   \* choose the right operand
Swap  == pi' = pj /\ pj' = pi /\ UNCHANGED <<g, h, mut>>                         \* exchange the operands
SpecV == InitV /\ [][Pick \/ Swap]_vars

InitG == pi = 1 /\ pj = 1 /\ g \in BaseGrids /\ h = g /\ mut = Identity
Mutate == /\ mut = Identity
          /\ \E m \in Mutations(g) : h' = Mutate1(g, m) /\ mut' = m
          /\ UNCHANGED <<pi, pj, g>>
SpecG == InitG /\ [][Mutate]_vars

A == Cat[pi]
Bv == Cat[pj]

(* laws of the decision table (checked by TLC over the whole catalogue) *)
Reflexive     == pi = pj => Eq(A, A) = (IF NaNBearing(A) THEN (IF A.k \in {"list", "dict"} THEN "either" ELSE "F") ELSE "T")
Symmetric     == Eq(A, Bv) = Eq(Bv, A) /\ Ne(A, Bv) = Ne(Bv, A)
Complementary == ComplementOk(Eq(A, Bv), Ne(A, Bv)) \/ Eq(A, Bv) = "either"
NoRaiseExceptQtyUnits ==
    /\ Eq(A, Bv) = "TypeError" => \/ (A.k = "qty" /\ Bv.k = "qty" /\ ~SameUnit(A, Bv))
                                  \/ (A.k \in {"list", "dict"} /\ A.k = Bv.k /\ Blame(A, Bv) = "qty/qty")
    /\ (A.k = "qty" /\ Bv.k = "qty" /\ ~SameUnit(A, Bv)) => Eq(A, Bv) = "TypeError"
    /\ Eq(A, Bv) \in {"T", "F", "TypeError", "either"}
HashConsistent == (Eq(A, Bv) = "T" /\ A.k = Bv.k /\ A.k \notin UnhashableKinds) => HashKey(A) = HashKey(Bv)
TextKindsDistinct ==
    /\ (A.k \in TextKinds /\ Bv.k \in TextKinds /\ A.k # Bv.k) => (Eq(A, Bv) = "F" /\ Ne(A, Bv) = "T")
    /\ (A.k = "ref" /\ Bv.k = "ref" /\ A.t = Bv.t /\ A.hv # Bv.hv) => (Eq(A, Bv) = "F" /\ Ne(A, Bv) = "T")
KindAware == (A.k # Bv.k /\ ~(A.k \in NumLikeKinds /\ Bv.k \in NumLikeKinds)) => Eq(A, Bv) = "F"
Transitive == \A c \in 1..Len(Cat) :
    (Eq(A, Bv) = "T" /\ Eq(Bv, Cat[c]) = "T") => Eq(A, Cat[c]) \in {"T", "TypeError"}
    \* (Quantity(1,'m') == 1 == Quantity(1,'s') and the two quantities raise: the documented exception)
SwapKeepsVerdict == [][(pi' = pj /\ pj' = pi) => Eq(Cat[pi'], Cat[pj']) = Eq(Cat[pi], Cat[pj])]_vars
SingletonLaw == MustBeIdentical(A, Bv) => Eq(A, Bv) = "T"

(* laws of grid equality *)
FaithfulEqual == (mut = Identity) => (GridEq(g, h) = "T" /\ GridEq(h, g) = "T" /\ GridNe(g, h) = "F")
MutantUnequal == (mut # Identity) => (GridEq(g, h) = "F" /\ GridEq(h, g) = "F" /\ GridNe(g, h) = "T")
MutantDiffers == (mut # Identity) => h # g
=============================================================================
