SPECIFICATION Spec
CONSTANTS
  Emitter = "repr"
  Tier = "thorough"
INVARIANT TypeOK
INVARIANT ReprSafeElsewhere
INVARIANT OneDefinitionPerMiss
INVARIANT GlobalWritesAllowed
INVARIANT RejectedClean
CHECK_DEADLOCK FALSE
