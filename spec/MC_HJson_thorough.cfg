SPECIFICATION MCSpec
CONSTANTS
  Tier = "thorough"
INVARIANT ReadBack
INVARIANT StrictAgrees
INVARIANT RemoveCounted
INVARIANT Q6Stable
CHECK_DEADLOCK FALSE
