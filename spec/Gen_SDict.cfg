SPECIFICATION Spec
CONSTANTS
  Keys = {1, 2, 3}
  Vals = {1, 2}
  BadVal = 9
  HasValidator = TRUE
  Indexes = {0, 1, 2, 4}
  NoArg = 99
  UnknownKey = 98
  DefaultVal = 7
VIEW View
CHECK_DEADLOCK FALSE
ACTION_CONSTRAINT EmitJ
