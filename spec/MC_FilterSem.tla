---------------------------- MODULE MC_FilterSem ----------------------------
(***************************************************************************)
(* Bounded instances of FilterSem.                                         *)
(*  Spec    (role A) every AST of the bound in every style is rendered and *)
(*          fed token by token to the parser machine: it never errs, does  *)
(*          not finish early and ends with the AST it started from;        *)
(*          the semantic laws hold on a fixed grid.                         *)
(*  GenSpec (role B) one step per <<AST, style>>: prints the filter text,   *)
(*          rows realising every valuation of its atoms and, per row, what *)
(*          the property allows; the harness replays them on Grid.filter.  *)
(***************************************************************************)
EXTENDS FilterSem, Json

CONSTANT Tier            \* "quick" | "thorough"

VARIABLES ast, st, toks, i, ps
vars == <<ast, st, toks, i, ps>>

pa  == <<"a">>
pb  == <<"b">>
pc  == <<"c">>
pab == <<"a", "b">>

AtomsOver(paths, ops, k) ==
    {Has(p) : p \in paths} \cup {Missing(p) : p \in paths} \cup {Cmp(p, o, k) : p \in paths, o \in ops}

\* ---------------------------------------------------------------- role A
\* one literal kind per operator so that every literal token meets the parser
KindOfOp == [o \in CmpOps |-> CASE o = "==" -> "num" [] o = "!=" -> "str" [] o = "<" -> "date"
                                [] o = "<=" -> "qty" [] o = ">" -> "ref" [] o = ">=" -> "dt"]
AtomsA ==
    IF Tier = "quick"
    THEN {Has(pa), Missing(pa), Cmp(pa, "==", "num"), Cmp(pa, "<", "str"),
          Has(pab), Missing(pab), Cmp(pab, "!=", "uri"), Cmp(pab, ">=", "time")}
    ELSE {Has(p) : p \in {pa, pab}} \cup {Missing(p) : p \in {pa, pab}}
         \cup {Cmp(p, o, KindOfOp[o]) : p \in {pa, pab}, o \in CmpOps}
AtomsA5 == {Has(pa), Missing(pb), Cmp(pab, ">=", "ref")}
AtomsAK == {Cmp(pc, "!=", k) : k \in Kinds} \cup {Has(<<"c", "a", "b">>)}
MCAsts == FiltersUpTo(4, AtomsA) \cup FiltersN(5, AtomsA5) \cup FiltersUpTo(2, AtomsAK) \cup {Empty}
         \cup (IF Tier = "quick" THEN {} ELSE FiltersN(6, {Has(pa), Cmp(pb, "<", "num")}))
Styles(x) == IF x = Empty THEN {[sp |-> 0, wrap |-> FALSE], [sp |-> 2, wrap |-> FALSE]} ELSE AllStyles

Init == /\ ast \in MCAsts
        /\ st \in Styles(ast)
        /\ toks = Render(ast, st) \o <<"$">>
        /\ i = 1
        /\ ps = PInit
Next == /\ i <= Len(toks)
        /\ ps' = PStep(ps, toks[i])
        /\ i' = i + 1
        /\ UNCHANGED <<ast, st, toks>>
Spec == Init /\ [][Next]_vars

NoError   == ps.mode # "error"
NotEarly  == i <= Len(toks) => ps.mode # "done"
RoundTrip == i = Len(toks) + 1 => ps.mode = "done" /\ ps.res = Expected(ast, st)
\* the machine run as a fold is the same function (used by the trace specification)
FoldAgrees == i = 1 => Parse(Render(ast, st)) = Expected(ast, st)

MCGrid == <<MkRow(0, Absent, Absent, Absent),
            MkRow(0, Marker, Val("num", Eq), Val("str", Below)),
            MkRow(0, Val("num", Eq), Marker, Absent),
            MkRow(0, Val("str", Below), Val("num", Above), Marker),
            MkRow(7, Absent, Val("num", Eq), Absent),
            MkRow(8, Val("time", Eq), Val("str", Above), Val("ref", Eq)),
            MkRow(0, RefTo(7), Val("date", Below), Val("dt", Above)),
            MkRow(0, RefTo(8), Val("num", Below), Val("uri", Eq)),
            MkRow(0, Dangling, Val("qty", Eq), Val("qty", Above)),
            MkRow(0, Val("ref", Eq), Val("ref", Above), Val("dt", Eq)),
            MkRow(0, Val("uri", Below), Val("time", Above), Val("boolT", Below))>>
PresenceOnly(x) == \A at \in AtomSet(x) : at.t # "cmp"
\* Sem is total, parentheses are transparent, n-ary and/or are the left folds of the binary tree,
\* presence filters are always determined
SemLaws ==
    (i = 1 /\ st = [sp |-> 0, wrap |-> FALSE]) =>
        \A r \in 1..Len(MCGrid) :
            \E S \in {Sem(ast, MCGrid[r], MCGrid)} :
                /\ S # {} /\ S \subseteq BOOLEAN
                /\ Sem(Paren(ast), MCGrid[r], MCGrid) = S
                /\ SemBin(ast, MCGrid[r], MCGrid) = S
                /\ PresenceOnly(ast) => Cardinality(S) = 1

\* ---------------------------------------------------------------- role B
Paths4 == {pa, pb, pc, pab}
Paths3 == {pa, pb, pab}
CA4 == {Has(pa), Has(pb), Missing(pc), Cmp(pc, "==", "num")}
CA6 == CA4 \cup {Has(pc), Missing(pa)}
Chain3(At) == {And(<<x, y, z>>) : x \in At, y \in At, z \in At} \cup {Or(<<x, y, z>>) : x \in At, y \in At, z \in At}
Chain4(At) == {And(<<x, y, z, w>>) : x \in At, y \in At, z \in At, w \in At}
              \cup {Or(<<x, y, z, w>>) : x \in At, y \in At, z \in At, w \in At}
Mixed3(At) == UNION {{Or(<<x, And(<<y, z>>)>>), Or(<<And(<<x, y>>), z>>),
                      And(<<x, Paren(Or(<<y, z>>))>>), And(<<Paren(Or(<<x, y>>)), z>>)}
                     : x \in At, y \in At, z \in At}
Mixed4(At) == UNION {{Or(<<x, And(<<y, z>>), w>>), Or(<<And(<<x, y>>), And(<<z, w>>)>>),
                      And(<<x, y, Paren(Or(<<z, w>>))>>)}
                     : x \in At, y \in At, z \in At, w \in At}
GenAsts ==
    IF Tier = "quick"
    THEN UNION {FiltersUpTo(2, AtomsOver(Paths4, CmpOps, k))
                \cup {Paren(Paren(x)) : x \in AtomsOver(Paths4, CmpOps, k)} : k \in Kinds}
         \cup UNION {FiltersN(3, AtomsOver(Paths3, {"==", "<", "!="}, k)) : k \in {"num", "str", "ref"}}
         \cup Chain3(CA4) \cup Chain4(CA4) \cup Mixed3(CA4) \cup Mixed4(CA4) \cup {Empty}
    ELSE UNION {FiltersUpTo(3, AtomsOver(Paths4, CmpOps, k)) : k \in Kinds}
         \cup Chain3(CA6) \cup Chain4(CA4) \cup Mixed3(CA6) \cup Mixed4(CA4) \cup {Empty}

StyleFor(x) == LET n == Len(Bare(x)) + Size(x) + Cardinality(AtomSet(x))
               IN [sp |-> n % 4, wrap |-> (n % 3 = 0)]
GenStyles(x) == IF x = Empty THEN Styles(x) ELSE IF Size(x) <= 2 THEN AllStyles
                ELSE IF Tier = "quick" THEN {StyleFor(x)}
                ELSE {StyleFor(x), [sp |-> (StyleFor(x).sp + 2) % 4, wrap |-> ~StyleFor(x).wrap]}
GenRows(x) == IF x = Empty THEN CaseRows(And(<<Has(pa), Cmp(pab, "==", "num")>>)) ELSE CaseRows(x)

Lims(al) == IF ~Determined(al) THEN <<>>
            ELSE LET ms == MustSel(al)
                     ks == SetToSortSeq(({1, 2, Len(ms)} \ {0}) \cup {Len(ms) + 1}, LAMBDA p, q : p < q)
                 IN [j \in 1..Len(ks) |-> <<ks[j], Truncate(ms, ks[j])>>]

GenInit == /\ ast \in GenAsts
           /\ st \in GenStyles(ast)
           /\ toks = <<>> /\ i = 0 /\ ps = PInit
GenNext == /\ i = 0
           /\ i' = 1
           /\ UNCHANGED <<ast, st, toks, ps>>
           /\ \E rows \in {GenRows(ast)} : \E al \in {Allowed(ast, rows)} :
                PrintT(ToJson([ast |-> ast, sp |-> st.sp, wrap |-> st.wrap, text |-> Text(Render(ast, st)),
                               rows |-> rows, exp |-> al, lims |-> Lims(al), mo |-> MaxOperands(ast)]))
GenSpec == GenInit /\ [][GenNext]_vars

\* the binding constants the harness must agree with (printed once per run)
ASSUME PrintT(ToJson([hdr |-> "c11", kinds |-> KindNames, spell |-> LitSpell]))
=============================================================================
