------------------------------- MODULE HJson -------------------------------
(***************************************************************************)
(* Haystack JSON: an independent reader (Dec) and writer (Enc) over a       *)
(* TAGGED JSON TREE, written from the Project Haystack JSON encoding rules   *)
(* (2.0 and 3.0) -- not from hszinc's regex cascade, with which it shares    *)
(* nothing.  Oracle of C02, C05, C06.                                       *)
(*                                                                         *)
(* The step JSON text -> tree is delegated (json.loads, strict); a tree is  *)
(* a nested tuple of integers:                                              *)
(*   <<0>> null   <<1, b>> bool   <<2, dec>> number (dec as in ZincRead)     *)
(*   <<3, text>> string (code points)   <<4, <<item...>>>> array             *)
(*   <<5, <<<<key, item>>...>>>> object, members in document order           *)
(*                                                                         *)
(* Abstract values are EXACTLY those of ZincRead.tla, so that documents of  *)
(* both formats compare structurally (kind code first):                     *)
(*   <<0>> null <<1>> marker <<2>> na <<3>> remove <<4,b>> bool <<5,dec>> num *)
(*   <<6,dec,unit>> qty <<7,t>> str <<8,t>> uri <<9,t>> bin                   *)
(*   <<10,name,hasDis,dis>> ref <<11,type,t>> xstr <<12,y,m,d>> date          *)
(*   <<13,h,mi,s,us>> time <<14,y,m,d,h,mi,s,us,offSign,offSecs,zone>> dt     *)
(*   <<15,latSign,latMicro,lngSign,lngMicro>> coord <<16,items>> list         *)
(*   <<17,sorted pairs>> dict <<18,ver,meta,cols,rows>> grid                  *)
(*                                                                         *)
(* Reader:  JRead(tree, strict) -> [ok |-> TRUE, grids |-> <<grid...>>] or    *)
(*          [ok |-> FALSE, why |-> clause]                                    *)
(*   strict  = what a conformant WRITER may emit (C06): every value carries  *)
(*             its prefix, numbers are "n:<decimal>[ unit]" / INF / -INF /   *)
(*             NaN, times have seconds, date-times a zone name, Remove is     *)
(*             spelled "x:" under 2.0 and "-:" under 3.0, all three of        *)
(*             meta/cols/rows present                                         *)
(*   liberal = plus the reader liberties of C05: raw JSON numbers, strings   *)
(*             without "s:" (second character not ':'), both Remove          *)
(*             spellings, "h:hh:mm", date-time without zone name, `rows`      *)
(*             missing or null                                                *)
(* Writer:  Spellings(v, ver) = the legal spellings of a scalar, EncS(v, sp)  *)
(*          its tree, Canon(v, ver) the canonical tree of any value;          *)
(*          MkCase(choice) places one spelt value in a document and gives     *)
(*          <<tree, denotation>> (generator of C05, law of MC_HJson).         *)
(***************************************************************************)
EXTENDS ZincRead

(***************************************************************************)
(* ASCII literals -> code points.                                          *)
(***************************************************************************)
Ascii == " !\"#$%&'()*+,-./0123456789:;<=>?@ABCDEFGHIJKLMNOPQRSTUVWXYZ[\\]^_`abcdefghijklmnopqrstuvwxyz{|}~"
OrdTab == [i \in 1..Len(Ascii) |-> SubSeq(Ascii, i, i)]
Ord(ch) == 31 + (CHOOSE i \in 1..Len(Ascii) : OrdTab[i] = ch)
C(str) == [i \in 1..Len(str) |-> Ord(SubSeq(str, i, i))]

kMeta == C("meta")  kCols == C("cols")  kRows == C("rows")  kVer == C("ver")  kName == C("name")

(***************************************************************************)
(* Trees.                                                                  *)
(***************************************************************************)
JNull == <<0>>
JBool(b) == <<1, b>>
JNum(dec) == <<2, dec>>
JStr(s) == <<3, s>>
JArr(items) == <<4, items>>
JObj(pairs) == <<5, pairs>>

KeyIdx(ps, k) == {i \in 1..Len(ps) : ps[i][1] = k}
HasKey(ps, k) == KeyIdx(ps, k) # {}
GetKey(ps, k) == ps[CHOOSE i \in KeyIdx(ps, k) : TRUE][2]
NoDupKeys(ps) == \A i, j \in 1..Len(ps) : ps[i][1] = ps[j][1] => i = j
KeySet(ps)    == {ps[i][1] : i \in 1..Len(ps)}
Without(ps, k) == SelectSeq(ps, LAMBDA p : p[1] # k)

(***************************************************************************)
(* Reader results: <<TRUE, value>> or <<FALSE, clause>>.                    *)
(***************************************************************************)
Ok(v)    == <<TRUE, v>>
Bad(why) == <<FALSE, why>>
AllOk(rs)    == \A i \in 1..Len(rs) : rs[i][1]
FirstBad(rs) == rs[CHOOSE i \in 1..Len(rs) : ~rs[i][1] /\ \A j \in 1..(i - 1) : rs[j][1]]
Seconds(rs)  == [i \in 1..Len(rs) |-> rs[i][2]]
\* [i \in 1..n |-> e] is evaluated lazily and again at every application: M() makes it an explicit tuple
M(f) == f \o <<>>

V3 == "v3_construct_under_v2"
IsTagName(k) == k # <<>> /\ IsLower(k[1]) /\ AllP(k, IsIdChar)
SortPairs(ps) == FoldLeft(LAMBDA acc, p : PutSorted(acc, p[1], p[2]), <<>>, ps)

(***************************************************************************)
(* Payload lexers, one per prefix.  They reuse the lexeme classifiers of    *)
(* ZincRead (number, date, time, date-time, coordinate component).          *)
(***************************************************************************)
DecNumber(body) ==
    IF body = cINF THEN Ok(<<5, <<9, 0>>>>)
    ELSE IF body = cNINF THEN Ok(<<5, <<9, 1>>>>)
    ELSE IF body = cNaN THEN Ok(<<5, <<9, 2>>>>)
    ELSE LET parts == SplitAt(body, SP)          \* "<decimal>" or "<decimal> <unit>"
             n == SplitNumber(parts[1])
         IN IF ~n[1] \/ n[3] # <<>> THEN Bad("payload_num")
            ELSE IF ~parts[3] THEN Ok(<<5, n[2]>>)
            ELSE IF parts[2] = <<>> \/ ~AllP(parts[2], IsUnitChar) THEN Bad("payload_num")
            ELSE Ok(<<6, n[2], parts[2]>>)

DecTime(body, strict) ==
    IF ~strict /\ Len(body) = 5 /\ DigitsAt(body, 1, 2) /\ body[3] = COLON /\ DigitsAt(body, 4, 2) THEN
         (IF Dig2(body, 1) <= 23 /\ Dig2(body, 4) <= 59 THEN Ok(<<13, Dig2(body, 1), Dig2(body, 4), 0, 0>>)
          ELSE Bad("payload_time"))
    ELSE IF TimeShape(body, 1) /\ TimeEnd(body, 1) = Len(body) + 1 THEN
         LET t == TimeVal(body, 1)
         IN IF TimeValid(t) /\ t[5] <= 6 THEN Ok(<<13, t[1], t[2], t[3], t[4]>>) ELSE Bad("payload_time")
    ELSE Bad("payload_time")

IsZoneName(z) == z # <<>> /\ IsUpper(z[1]) /\ AllP(z, IsTzChar)
DecDateTime(body, strict) ==
    LET parts == SplitAt(body, SP)               \* "<iso>" or "<iso> <zone name>"
        k == ClassifyTok(parts[1], FALSE, TRUE)  \* upper-case T and Z only
    IN IF k[1] # "dt" THEN Bad("payload_dt")
       ELSE IF parts[3] THEN (IF IsZoneName(parts[2]) THEN Ok(k[2] \o <<parts[2]>>) ELSE Bad("payload_dt"))
       ELSE IF strict THEN Bad("payload_dt")     \* a writer names the zone
       ELSE Ok(k[2] \o <<<<>>>>)

DecCoord(body) ==
    LET parts == SplitAt(body, COMMA)
        la == CoordPart(parts[1])
        lo == CoordPart(parts[2])
    IN IF ~parts[3] \/ ~la[1] \/ ~lo[1] \/ la[3] > 90000000 \/ lo[3] > 180000000 THEN Bad("payload_coord")
       ELSE Ok(<<15, la[2], la[3], lo[2], lo[3]>>)

DecXStr(body, pre3) ==                            \* "Type:payload": the type has no ':', the payload is free
    LET parts == SplitAt(body, COLON)
    IN IF pre3 THEN Bad(V3)
       ELSE IF ~parts[3] \/ parts[1] = <<>> \/ ~AllP(parts[1], IsIdChar) THEN Bad("payload_xstr")
       ELSE Ok(<<11, parts[1], parts[2]>>)

DecRef(body) ==                                   \* "<id>" or "<id> <display, free text>"
    LET parts == SplitAt(body, SP)
    IN IF parts[1] = <<>> \/ ~AllP(parts[1], IsRefChar) THEN Bad("payload_ref")
       ELSE Ok(<<10, parts[1], IF parts[3] THEN 1 ELSE 0, parts[2]>>)

\* a JSON string: dispatch on the first two code points
DecStr(s, pre3, strict) ==
    IF Len(s) < 2 \/ s[2] # COLON THEN (IF strict THEN Bad("prefix_str") ELSE Ok(<<7, s>>))
    ELSE LET p == s[1]
             body == SubSeq(s, 3, Len(s))
         IN CASE p = 109 -> IF body = <<>> THEN Ok(<<1>>) ELSE Bad("payload_marker")
              [] p = 122 -> IF body # <<>> THEN Bad("payload_na") ELSE IF pre3 THEN Bad(V3) ELSE Ok(<<2>>)
              [] p = MINUS -> IF body # <<>> THEN Bad("payload_remove")
                              ELSE IF strict /\ pre3 THEN Bad("prefix_remove") ELSE Ok(<<3>>)
              [] p = 120 -> IF body = <<>> THEN (IF strict /\ ~pre3 THEN Bad("prefix_remove") ELSE Ok(<<3>>))
                            ELSE DecXStr(body, pre3)
              [] p = 110 -> DecNumber(body)
              [] p = 115 -> Ok(<<7, body>>)
              [] p = 117 -> Ok(<<8, body>>)
              [] p = 98  -> IF AllP(body, IsBinChar) THEN Ok(<<9, body>>) ELSE Bad("payload_bin")
              [] p = 114 -> DecRef(body)
              [] p = 100 -> IF DateShape(body, 1) /\ Len(body) = 10 /\ DateValid(DateVal(body, 1))
                            THEN Ok(<<12>> \o DateVal(body, 1)) ELSE Bad("payload_date")
              [] p = 104 -> DecTime(body, strict)
              [] p = 116 -> DecDateTime(body, strict)
              [] p = 99  -> DecCoord(body)
              [] OTHER   -> Bad("prefix_unknown")

(***************************************************************************)
(* Values, tags, grids.                                                    *)
(***************************************************************************)
\* an object is a grid when it has meta (an object whose ver is a version string) and cols (an array of
\* objects that each carry a name string), possibly rows (absent, null, or an array of objects), and no
\* other key; the key set alone does not make a dict {meta:.., cols:.., rows:..} a grid, and a grid
\* that leaves rows out is still a grid
GridShaped(ps) ==
    /\ HasKey(ps, kMeta) /\ HasKey(ps, kCols) /\ KeySet(ps) \subseteq {kMeta, kCols, kRows}
    /\ NoDupKeys(ps)
    /\ GetKey(ps, kMeta)[1] = 5 /\ NoDupKeys(GetKey(ps, kMeta)[2]) /\ HasKey(GetKey(ps, kMeta)[2], kVer)
    /\ GetKey(GetKey(ps, kMeta)[2], kVer)[1] = 3 /\ V!Valid(GetKey(GetKey(ps, kMeta)[2], kVer)[2])
    /\ GetKey(ps, kCols)[1] = 4
    /\ \A i \in 1..Len(GetKey(ps, kCols)[2]) :
          LET c == GetKey(ps, kCols)[2][i]
          IN c[1] = 5 /\ NoDupKeys(c[2]) /\ HasKey(c[2], kName) /\ GetKey(c[2], kName)[1] = 3
    /\ HasKey(ps, kRows) =>
          LET r == GetKey(ps, kRows)
          IN r[1] = 0 \/ (r[1] = 4 /\ \A i \in 1..Len(r[2]) : r[2][i][1] = 5)

RECURSIVE DecV(_, _, _), DecGrid(_, _)

\* ordered tags (grid / column metadata, dict members): document order
DecTags(ps, pre3, strict) ==
    LET rs == M([i \in 1..Len(ps) |-> IF ~IsTagName(ps[i][1]) THEN Bad("shape_tag_name")
                                      ELSE DecV(ps[i][2], pre3, strict)])
    IN IF AllOk(rs) THEN Ok([i \in 1..Len(ps) |-> <<ps[i][1], rs[i][2]>>]) ELSE FirstBad(rs)

DecV(t, pre3, strict) ==
    CASE t[1] = 0 -> Ok(<<0>>)
      [] t[1] = 1 -> Ok(<<4, t[2]>>)
      [] t[1] = 2 -> IF strict THEN Bad("prefix_num") ELSE Ok(<<5, t[2]>>)
      [] t[1] = 3 -> DecStr(t[2], pre3, strict)
      [] t[1] = 4 -> IF pre3 THEN Bad(V3)
                     ELSE LET rs == M([i \in 1..Len(t[2]) |-> DecV(t[2][i], pre3, strict)])
                          IN IF AllOk(rs) THEN Ok(<<16, Seconds(rs)>>) ELSE FirstBad(rs)
      [] t[1] = 5 -> IF pre3 THEN Bad(V3)
                     ELSE IF GridShaped(t[2]) THEN DecGrid(t[2], strict)
                     ELSE IF ~NoDupKeys(t[2]) THEN Bad("shape_dup_key")
                     ELSE LET r == DecTags(t[2], pre3, strict)
                          IN IF r[1] THEN Ok(<<17, SortPairs(r[2])>>) ELSE r
      [] OTHER -> Bad("shape_tree")

ColsShapeOk(cols) ==
    /\ cols[1] = 4
    /\ \A i \in 1..Len(cols[2]) :
          /\ cols[2][i][1] = 5 /\ NoDupKeys(cols[2][i][2]) /\ HasKey(cols[2][i][2], kName)
          /\ GetKey(cols[2][i][2], kName)[1] = 3 /\ IsTagName(GetKey(cols[2][i][2], kName)[2])
    /\ \A i, j \in 1..Len(cols[2]) :
          GetKey(cols[2][i][2], kName) = GetKey(cols[2][j][2], kName) => i = j

DecGrid(ps, strict) ==
    IF ~NoDupKeys(ps) THEN Bad("shape_dup_key")
    ELSE IF ~(HasKey(ps, kMeta) /\ HasKey(ps, kCols)) \/ ~(KeySet(ps) \subseteq {kMeta, kCols, kRows})
            \/ (strict /\ ~HasKey(ps, kRows)) THEN Bad("shape_top")
    ELSE
    LET meta == GetKey(ps, kMeta)
        cols == GetKey(ps, kCols)
        rows == IF HasKey(ps, kRows) THEN GetKey(ps, kRows) ELSE JNull
    IN
    IF meta[1] # 5 \/ ~NoDupKeys(meta[2]) \/ ~HasKey(meta[2], kVer) THEN Bad("shape_meta_ver")
    ELSE IF GetKey(meta[2], kVer)[1] # 3 \/ ~V!Valid(GetKey(meta[2], kVer)[2]) THEN Bad("shape_meta_ver")
    ELSE
    LET ver  == GetKey(meta[2], kVer)[2]
        pre3 == V!Lt(V!Nearest(V!Parse(ver)), V!V30)
        gm   == DecTags(Without(meta[2], kVer), pre3, strict)
    IN
    IF ~gm[1] THEN gm
    ELSE IF ~ColsShapeOk(cols) THEN Bad("shape_cols")
    ELSE
    LET cn  == M([i \in 1..Len(cols[2]) |-> GetKey(cols[2][i][2], kName)[2]])
        cms == M([i \in 1..Len(cols[2]) |-> DecTags(Without(cols[2][i][2], kName), pre3, strict)])
        names == {cn[i] : i \in 1..Len(cn)}
    IN
    IF ~AllOk(cms) THEN FirstBad(cms)
    ELSE IF rows[1] = 0 THEN
         (IF strict THEN Bad("shape_rows")
          ELSE Ok(<<18, ver, gm[2], [i \in 1..Len(cn) |-> <<cn[i], cms[i][2]>>], <<>>>>))
    ELSE IF rows[1] # 4 \/ (\E r \in 1..Len(rows[2]) : rows[2][r][1] # 5 \/ ~NoDupKeys(rows[2][r][2])
                                                       \/ (strict /\ ~(KeySet(rows[2][r][2]) \subseteq names)))   \* liberal: a row key that is no column is ignored
         THEN Bad("shape_rows")
    ELSE
    LET rr == M([r \in 1..Len(rows[2]) |->
                 LET rp == rows[2][r][2]
                     cells == M([j \in 1..Len(cn) |-> IF HasKey(rp, cn[j]) THEN DecV(GetKey(rp, cn[j]), pre3, strict)
                                                      ELSE Ok(<<0>>)])     \* an omitted column is a null cell
                 IN IF AllOk(cells) THEN Ok(Seconds(cells)) ELSE FirstBad(cells)])
    IN IF AllOk(rr) THEN Ok(<<18, ver, gm[2], [i \in 1..Len(cn) |-> <<cn[i], cms[i][2]>>], Seconds(rr)>>)
       ELSE FirstBad(rr)

\* a document: one grid object, or an array of grid objects
JRead(tree, strict) ==
    IF tree[1] = 5 THEN
         LET r == DecGrid(tree[2], strict)
         IN IF r[1] THEN [ok |-> TRUE, grids |-> <<r[2]>>] ELSE [ok |-> FALSE, why |-> r[2]]
    ELSE IF tree[1] = 4 THEN
         LET rs == M([i \in 1..Len(tree[2]) |-> IF tree[2][i][1] = 5 THEN DecGrid(tree[2][i][2], strict)
                                                ELSE Bad("shape_top")])
         IN IF AllOk(rs) THEN [ok |-> TRUE, grids |-> Seconds(rs)] ELSE [ok |-> FALSE, why |-> FirstBad(rs)[2]]
    ELSE [ok |-> FALSE, why |-> "shape_top"]

(***************************************************************************)
(* Six decimals.  Q6Dec rounds a normalised decimal to six fractional       *)
(* digits (half-even on the exact decimal); zero is unsigned.  TLC has no   *)
(* floats: the binary value of the EXPECTED side is quantised by the         *)
(* harness with exact rationals (DESIGN section 6), the EMITTED decimal here. *)
(***************************************************************************)
RECURSIVE IncDigits(_)
IncDigits(d) == IF d = <<>> THEN <<1>>
                ELSE IF d[Len(d)] < 9 THEN [d EXCEPT ![Len(d)] = @ + 1]
                ELSE Append(IncDigits(SubSeq(d, 1, Len(d) - 1)), 0)

Q6Dec(dec) ==
    IF dec[1] = 9 THEN dec
    ELSE LET d == SubSeq(dec, 4, Len(dec))
             n == Len(d)
             e == IF dec[2] = 1 THEN 0 - dec[3] ELSE dec[3]
             k == e + 6                                     \* digits kept
         IN IF n = 0 THEN <<0, 0, 0>>
            ELSE IF k >= n THEN dec
            ELSE IF k < 0 THEN <<0, 0, 0>>
            ELSE LET kept == SubSeq(d, 1, k)
                     nxt  == d[k + 1]
                     more == k + 1 < n
                     odd  == k > 0 /\ kept[k] % 2 = 1
                     up   == nxt > 5 \/ (nxt = 5 /\ (more \/ odd))
                     r    == IF up THEN IncDigits(kept) ELSE kept
                     \* value = 0.r * 10^e, or 1.0.. * 10^e when the carry ran out (r one longer than kept)
                     e2   == IF Len(r) > k THEN e + 1 ELSE e
                     nd   == NormDec(dec[1], <<>>, r, e2)
                 IN IF Len(nd) = 3 THEN <<0, 0, 0>> ELSE nd

RECURSIVE Q6V(_)
Q6Pairs(ps) == [i \in 1..Len(ps) |-> <<ps[i][1], Q6V(ps[i][2])>>]
Q6V(v) ==
    CASE v[1] = 5  -> <<5, Q6Dec(v[2])>>
      [] v[1] = 6  -> <<6, Q6Dec(v[2]), v[3]>>
      [] v[1] = 16 -> <<16, [i \in 1..Len(v[2]) |-> Q6V(v[2][i])]>>
      [] v[1] = 17 -> <<17, Q6Pairs(v[2])>>
      [] v[1] = 18 -> <<18, v[2], Q6Pairs(v[3]), [i \in 1..Len(v[4]) |-> <<v[4][i][1], Q6Pairs(v[4][i][2])>>],
                        [r \in 1..Len(v[5]) |-> [j \in 1..Len(v[5][r]) |-> Q6V(v[5][r][j])]]>>
      [] OTHER -> v
Q6Doc(gs) == [i \in 1..Len(gs) |-> Q6V(gs[i])]

(***************************************************************************)
(* Remove spelling in an emitted tree (C02): a grid of version < 3.0 spells *)
(* Remove "x:", otherwise "-:".  CountStr counts string leaves equal to one *)
(* spelling, descending into nested grids with their own version.           *)
(***************************************************************************)
cRemove2 == <<120, COLON>>
cRemove3 == <<MINUS, COLON>>
RECURSIVE SumSeq(_)
SumSeq(s) == IF s = <<>> THEN 0 ELSE s[1] + SumSeq(Tail(s))
TreeVerPre3(ps) ==      \* pre3 flag of a grid-shaped object
    LET vt == GetKey(GetKey(ps, kMeta)[2], kVer)
    IN vt[1] = 3 /\ V!Valid(vt[2]) /\ V!Lt(V!Nearest(V!Parse(vt[2])), V!V30)
RECURSIVE WrongRemove(_, _)
\* number of Remove-like leaves spelt in the other version's way
WrongRemove(t, pre3) ==
    CASE t[1] = 3 -> IF (pre3 /\ t[2] = cRemove3) \/ (~pre3 /\ t[2] = cRemove2) THEN 1 ELSE 0
      [] t[1] = 4 -> SumSeq([i \in 1..Len(t[2]) |-> WrongRemove(t[2][i], pre3)])
      [] t[1] = 5 -> LET p == IF GridShaped(t[2]) THEN TreeVerPre3(t[2]) ELSE pre3
                     IN SumSeq([i \in 1..Len(t[2]) |-> WrongRemove(t[2][i][2], p)])
      [] OTHER -> 0
RECURSIVE RightRemove(_, _)
RightRemove(t, pre3) ==
    CASE t[1] = 3 -> IF (pre3 /\ t[2] = cRemove2) \/ (~pre3 /\ t[2] = cRemove3) THEN 1 ELSE 0
      [] t[1] = 4 -> SumSeq([i \in 1..Len(t[2]) |-> RightRemove(t[2][i], pre3)])
      [] t[1] = 5 -> LET p == IF GridShaped(t[2]) THEN TreeVerPre3(t[2]) ELSE pre3
                     IN SumSeq([i \in 1..Len(t[2]) |-> RightRemove(t[2][i][2], p)])
      [] OTHER -> 0
RECURSIVE CountRemove(_)
CountPairsR(ps) == SumSeq([i \in 1..Len(ps) |-> CountRemove(ps[i][2])])
CountRemove(v) ==
    CASE v[1] = 3  -> 1
      [] v[1] = 16 -> SumSeq([i \in 1..Len(v[2]) |-> CountRemove(v[2][i])])
      [] v[1] = 17 -> CountPairsR(v[2])
      [] v[1] = 18 -> CountPairsR(v[3]) + SumSeq([i \in 1..Len(v[4]) |-> CountPairsR(v[4][i][2])])
                      + SumSeq([r \in 1..Len(v[5]) |-> SumSeq([j \in 1..Len(v[5][r]) |-> CountRemove(v[5][r][j])])])
      [] OTHER -> 0
TopTrees(tree) == IF tree[1] = 4 THEN tree[2] ELSE <<tree>>

(***************************************************************************)
(* Writer side: text of the lexical forms.                                  *)
(***************************************************************************)
Zeros(k) == [i \in 1..k |-> 48]
RECURSIVE NatText(_)
NatText(n) == IF n < 10 THEN <<n + 48>> ELSE Append(NatText(n \div 10), (n % 10) + 48)
Pad2(n) == <<(n \div 10) + 48, (n % 10) + 48>>
Pad4(n) == Pad2(n \div 100) \o Pad2(n % 100)
Pad6(n) == Pad2(n \div 10000) \o Pad4(n % 10000)
Chars(vals) == [i \in 1..Len(vals) |-> vals[i] + 48]

DecDigits(dec) == Chars(SubSeq(dec, 4, Len(dec)))
DecExp(dec)    == IF dec[2] = 1 THEN 0 - dec[3] ELSE dec[3]
SignTxt(dec)   == IF dec[1] = 1 THEN <<MINUS>> ELSE <<>>
PlainAbs(dec) ==
    LET d == DecDigits(dec)  n == Len(d)  e == DecExp(dec)
    IN IF n = 0 THEN <<48>>
       ELSE IF e >= n THEN d \o Zeros(e - n)
       ELSE IF e > 0 THEN SubSeq(d, 1, e) \o <<DOT>> \o SubSeq(d, e + 1, n)
       ELSE <<48, DOT>> \o Zeros(0 - e) \o d
FracLen(dec) == LET n == Len(dec) - 3  e == DecExp(dec) IN IF n = 0 \/ e >= n THEN 0 ELSE n - e
ExpAbs(dec, marker) ==        \* d1[.d2..dn] marker exponent
    LET d == DecDigits(dec)  n == Len(d)  x == DecExp(dec) - 1
    IN IF n = 0 THEN <<48>> \o marker \o <<48>>
       ELSE <<d[1]>> \o (IF n > 1 THEN <<DOT>> \o SubSeq(d, 2, n) ELSE <<>>) \o marker
            \o (IF x < 0 THEN <<MINUS>> \o NatText(0 - x) ELSE NatText(x))
NumStyles == {"plain", "dot0", "pad6", "exp_e", "exp_E", "exp_eplus"}
NumStyleOk(dec, st) ==
    IF dec[1] = 9 THEN st = "special"
    ELSE CASE st = "plain" -> TRUE
           [] st = "dot0"  -> FracLen(dec) = 0
           [] st = "pad6"  -> FracLen(dec) <= 6
           [] st = "exp_e" -> TRUE
           [] st = "exp_E" -> TRUE
           [] st = "exp_eplus" -> Len(dec) = 3 \/ DecExp(dec) >= 1
           [] OTHER -> FALSE
NumText(dec, st) ==
    IF dec[1] = 9 THEN (IF dec[2] = 0 THEN cINF ELSE IF dec[2] = 1 THEN cNINF ELSE cNaN)
    ELSE SignTxt(dec) \o
         (CASE st = "plain" -> PlainAbs(dec)
            [] st = "dot0"  -> PlainAbs(dec) \o <<DOT, 48>>
            [] st = "pad6"  -> PlainAbs(dec) \o (IF FracLen(dec) = 0 THEN <<DOT>> ELSE <<>>) \o Zeros(6 - FracLen(dec))
            [] st = "exp_e" -> ExpAbs(dec, <<101>>)
            [] st = "exp_E" -> ExpAbs(dec, <<69>>)
            [] st = "exp_eplus" -> ExpAbs(dec, <<101, PLUS>>))

FracMin(us) == Chars(StripTrail(Vals(Pad6(us))))
TimeText(h, mi, s, us, st) ==
    Pad2(h) \o <<COLON>> \o Pad2(mi) \o
    (IF st = "hm" THEN <<>>
     ELSE <<COLON>> \o Pad2(s) \o (CASE st = "frac6" -> <<DOT>> \o Pad6(us)
                                     [] st = "fracmin" -> <<DOT>> \o FracMin(us)
                                     [] OTHER -> <<>>))
TimeStyleOk(s, us, st) ==
    CASE st = "hm" -> s = 0 /\ us = 0
      [] st = "hms" -> us = 0
      [] st = "frac6" -> TRUE
      [] st = "fracmin" -> us # 0
      [] OTHER -> FALSE
DateText(y, m, d) == Pad4(y) \o <<MINUS>> \o Pad2(m) \o <<MINUS>> \o Pad2(d)
OffText(sgn, secs, st) ==
    IF st = "Z" THEN <<90>>
    ELSE <<IF sgn = 1 THEN MINUS ELSE PLUS>> \o Pad2(secs \div 3600) \o <<COLON>> \o Pad2((secs % 3600) \div 60)
CoordText(sgn, mic, st) ==
    (IF sgn = 1 THEN <<MINUS>> ELSE <<>>) \o NatText(mic \div 1000000) \o
    (CASE st = "pad6" -> <<DOT>> \o Pad6(mic % 1000000)
       [] st = "min"  -> IF mic % 1000000 = 0 THEN <<>> ELSE <<DOT>> \o FracMin(mic % 1000000)
       [] OTHER -> <<DOT, 48>>)

(***************************************************************************)
(* Spellings.  A spelling is a record [n |-> name, a, b, c |-> options].    *)
(* lib |-> TRUE marks the spellings only a liberal reader accepts.          *)
(***************************************************************************)
Sp(n, a, b, c, lib) == [n |-> n, a |-> a, b |-> b, c |-> c, lib |-> lib]
Pre3Ver(ver) == V!Lt(V!Nearest(V!Parse(ver)), V!V30)
BareOk(s) == Len(s) < 2 \/ s[2] # COLON

Spellings(v, ver) ==
    CASE v[1] = 0 -> {Sp("null", "", "", "", FALSE)}
      [] v[1] = 1 -> {Sp("m", "", "", "", FALSE)}
      [] v[1] = 2 -> {Sp("z", "", "", "", FALSE)}
      [] v[1] = 3 -> {Sp("x", "", "", "", ~Pre3Ver(ver)), Sp("dash", "", "", "", Pre3Ver(ver))}
      [] v[1] = 4 -> {Sp("raw", "", "", "", FALSE)}
      [] v[1] = 5 -> IF v[2][1] = 9 THEN {Sp("special", "special", "", "", FALSE)}
                     ELSE {Sp(st, st, "", "", FALSE) : st \in {s \in NumStyles : NumStyleOk(v[2], s)}}
                          \cup {Sp("raw", "", "", "", TRUE)}
                          \cup (IF FracLen(v[2]) = 0 THEN {Sp("rawf", "", "", "", TRUE)} ELSE {})
      [] v[1] = 6 -> {Sp(st, st, "", "", FALSE) : st \in {s \in NumStyles : NumStyleOk(v[2], s)}}
      [] v[1] = 7 -> {Sp("s", "", "", "", FALSE)} \cup (IF BareOk(v[2]) THEN {Sp("bare", "", "", "", TRUE)} ELSE {})
      [] v[1] \in {8, 9, 10, 11, 12} -> {Sp("prefixed", "", "", "", FALSE)}
      [] v[1] = 13 -> {Sp(st, st, "", "", st = "hm") : st \in {s \in {"hm", "hms", "frac6", "fracmin"} : TimeStyleOk(v[4], v[5], s)}}
      [] v[1] = 14 -> {Sp(ts \o "_" \o os \o "_" \o zs, ts, os, zs, zs = "nozone") :
                          ts \in {s \in {"hms", "frac6", "fracmin"} : TimeStyleOk(v[7], v[8], s)},
                          os \in (IF v[10] = 0 THEN {"Z", "num"} ELSE {"num"}),
                          zs \in {"zone", "nozone"}}
      [] v[1] = 15 -> {Sp(st, st, "", "", FALSE) : st \in {"pad6", "min", "dot0"} \ (IF v[3] % 1000000 = 0 /\ v[5] % 1000000 = 0 THEN {} ELSE {"dot0"})}
      [] OTHER -> {Sp("canon", "", "", "", FALSE)}

\* the tree of scalar v under spelling sp
EncS(v, sp) ==
    CASE v[1] = 0 -> JNull
      [] v[1] = 1 -> JStr(C("m:"))
      [] v[1] = 2 -> JStr(C("z:"))
      [] v[1] = 3 -> JStr(IF sp.n = "x" THEN cRemove2 ELSE cRemove3)
      [] v[1] = 4 -> JBool(v[2])
      [] v[1] = 5 -> IF sp.n = "raw" THEN JNum(v[2])
                     ELSE IF sp.n = "rawf" THEN <<2, v[2], 1>>          \* rendered with a fraction part (a JSON float)
                     ELSE JStr(C("n:") \o NumText(v[2], sp.a))
      [] v[1] = 6 -> JStr(C("n:") \o NumText(v[2], sp.a) \o <<SP>> \o v[3])
      [] v[1] = 7 -> JStr(IF sp.n = "bare" THEN v[2] ELSE C("s:") \o v[2])
      [] v[1] = 8 -> JStr(C("u:") \o v[2])
      [] v[1] = 9 -> JStr(C("b:") \o v[2])
      [] v[1] = 10 -> JStr(C("r:") \o v[2] \o (IF v[3] = 1 THEN <<SP>> \o v[4] ELSE <<>>))
      [] v[1] = 11 -> JStr(C("x:") \o v[2] \o <<COLON>> \o v[3])
      [] v[1] = 12 -> JStr(C("d:") \o DateText(v[2], v[3], v[4]))
      [] v[1] = 13 -> JStr(C("h:") \o TimeText(v[2], v[3], v[4], v[5], sp.a))
      [] v[1] = 14 -> JStr(C("t:") \o DateText(v[2], v[3], v[4]) \o <<84>> \o TimeText(v[5], v[6], v[7], v[8], sp.a)
                           \o OffText(v[9], v[10], sp.b)
                           \o (IF sp.c = "zone" THEN <<SP>> \o v[11] ELSE <<>>))
      [] v[1] = 15 -> JStr(C("c:") \o CoordText(v[2], v[3], sp.a) \o <<COMMA>> \o CoordText(v[4], v[5], sp.a))

\* what the spelling denotes: the value, except that a date-time without zone name has no zone name
DenS(v, sp) == IF v[1] = 14 /\ sp.c = "nozone" THEN [v EXCEPT ![11] = <<>>] ELSE v

\* canonical (writer) spelling of a scalar
CanonSp(v, ver) ==
    CASE v[1] = 3 -> IF Pre3Ver(ver) THEN Sp("x", "", "", "", FALSE) ELSE Sp("dash", "", "", "", FALSE)
      [] v[1] = 5 -> IF v[2][1] = 9 THEN Sp("special", "special", "", "", FALSE) ELSE Sp("plain", "plain", "", "", FALSE)
      [] v[1] = 6 -> Sp("plain", "plain", "", "", FALSE)
      [] v[1] = 7 -> Sp("s", "", "", "", FALSE)
      [] v[1] = 13 -> IF v[5] = 0 THEN Sp("hms", "hms", "", "", FALSE) ELSE Sp("frac6", "frac6", "", "", FALSE)
      [] v[1] = 14 -> Sp("canon", IF v[8] = 0 THEN "hms" ELSE "frac6", "num", "zone", FALSE)
      [] v[1] = 15 -> Sp("pad6", "pad6", "", "", FALSE)
      [] OTHER -> Sp("canon", "", "", "", FALSE)

RECURSIVE Canon(_, _)
CanonPairs(ps, ver) == [i \in 1..Len(ps) |-> <<ps[i][1], Canon(ps[i][2], ver)>>]
CanonGrid(g) ==
    JObj(<<<<kMeta, JObj(<<<<kVer, JStr(g[2])>>>> \o CanonPairs(g[3], g[2]))>>,
           <<kCols, JArr([i \in 1..Len(g[4]) |-> JObj(<<<<kName, JStr(g[4][i][1])>>>> \o CanonPairs(g[4][i][2], g[2]))])>>,
           <<kRows, JArr([r \in 1..Len(g[5]) |->
                            JObj([j \in 1..Len(g[4]) |-> <<g[4][j][1], Canon(g[5][r][j], g[2])>>])])>>>>)
Canon(v, ver) ==
    CASE v[1] = 16 -> JArr([i \in 1..Len(v[2]) |-> Canon(v[2][i], ver)])
      [] v[1] = 17 -> JObj(CanonPairs(v[2], ver))
      [] v[1] = 18 -> CanonGrid(v)
      [] OTHER -> EncS(v, CanonSp(v, ver))

\* Enc(v, ver): the SET of legal trees of a value (scalars: one per spelling)
Enc(v, ver) == IF v[1] \in {16, 17, 18} THEN {Canon(v, ver)} ELSE {EncS(v, sp) : sp \in Spellings(v, ver)}
=============================================================================
