----------------------------- MODULE MC_Version -----------------------------
(***************************************************************************)
(* Bounded instance of Version (role A) and the generator of the bounded   *)
(* set of version strings used on the real code (role B).                  *)
(*                                                                         *)
(* LawSpec builds every version string with <= 3 numeric groups, each in   *)
(* {0,1,2,3,10}, times the suffixes {none, a, b, .a, -rc1}: one state per  *)
(* string (775).  The laws are invariants of that state quantified over    *)
(* the whole set (all ordered pairs) or over the 60-element subset Sub     *)
(* (all triples).  EmitV prints every string for the harness.              *)
(* CacheSpec is the grammar-cache machine of Version.tla over a handful of *)
(* versions spelled in several equal ways.                                 *)
(***************************************************************************)
EXTENDS Version

VARIABLES grp,      \* numeric groups chosen so far
          suf       \* suffix (code points), <<>> = none

lvars == <<grp, suf, cacheN, cacheG, last>>

Vals == {0, 1, 2, 3, 10}
Sufs == {<<>>, <<97>>, <<98>>, <<46, 97>>, <<45, 114, 99, 49>>}      \* "", a, b, .a, -rc1

DigStr(n) == IF n < 10 THEN <<48 + n>> ELSE <<48 + (n \div 10), 48 + (n % 10)>>
RECURSIVE Join(_)
Join(g) == IF Len(g) = 1 THEN DigStr(g[1]) ELSE DigStr(g[1]) \o <<DotC>> \o Join(Tail(g))
Spell(g, sf) == Join(g) \o sf

GroupSeqs == UNION {[1..k -> Vals] : k \in 1..3}
AllStrs   == {Spell(g, sf) : g \in GroupSeqs, sf \in Sufs}
AllPV     == {Parse(s) : s \in AllStrs}

\* 12 numeric parts x 5 suffixes = 60 strings: all triples are checked over these
SubNums == {<<0>>, <<2>>, <<10>>, <<2, 0>>, <<2, 1>>, <<2, 10>>, <<0, 2>>, <<10, 0>>,
            <<2, 0, 0>>, <<2, 0, 1>>, <<0, 0, 2>>, <<2, 1, 0>>}
SubStrs == {Spell(g, sf) : g \in SubNums, sf \in Sufs}
SubPV   == {Parse(s) : s \in SubStrs}
KeyTable     == [b \in AllPV |-> HashKey(b)]
NearestTable == [b \in AllPV |-> Nearest(b)]

Str == Spell(grp, suf)
Cur == Parse(Str)

LInit == /\ \E g \in Vals : grp = <<g>>
         /\ suf = <<>>
         /\ CInit
LNext == /\ suf = <<>>
         /\ \/ Len(grp) < 3 /\ \E g \in Vals : grp' = Append(grp, g) /\ suf' = suf
            \/ \E sf \in Sufs \ {<<>>} : suf' = sf /\ grp' = grp
         /\ UNCHANGED cvars
LawSpec == LInit /\ [][LNext]_lvars

(***************************************************************************)
(* The laws of C18 at the level of the specification.                      *)
(***************************************************************************)
Wellformed ==          \* every generated string is a version, and reads back as spelled
    /\ Valid(Str)
    /\ Str \in AllStrs
    /\ Len(Nums(Cur)) >= 1
    /\ Eq(Cur, <<grp, IF suf # <<>> /\ suf[1] = DotC THEN Tail(suf) ELSE suf>>)

PairLaws ==            \* all ordered pairs <<Cur, b>>
    \A a \in {Cur} : \A ka \in {HashKey(a)} :      \* (bound once: TLC re-evaluates a LET at every use)
    \A b \in AllPV : \A c \in {Cmp(a, b)} : \A d \in {Cmp(b, a)} :
        /\ c \in {-1, 0, 1}
        /\ c = 0 - d                                                      \* antisymmetry
        /\ Cardinality({k \in {1, 3, 6} : OpHolds(k, c)}) = 1             \* exactly one of < == >
        /\ OpHolds(2, c) = (OpHolds(1, c) \/ OpHolds(3, c))               \* the six agree
        /\ OpHolds(5, c) = (OpHolds(6, c) \/ OpHolds(3, c))
        /\ OpHolds(4, c) = ~OpHolds(3, c)
        /\ OpHolds(1, c) = OpHolds(6, d)                                  \* a < b  <=>  b > a
        /\ OpHolds(2, c) = OpHolds(5, d)
        /\ OpHolds(3, c) = OpHolds(3, d)
        /\ (c = 0) = (ka = KeyTable[b])                                   \* equal <=> same hash key

\* the operators of Version.tla are the rows of the OpHolds table
OpTable ==
    \A a \in {Cur} : \A b \in SubPV : \A c \in {Cmp(a, b)} :
        /\ Lt(a, b) = OpHolds(1, c) /\ Le(a, b) = OpHolds(2, c) /\ Eq(a, b) = OpHolds(3, c)
        /\ Ne(a, b) = OpHolds(4, c) /\ Ge(a, b) = OpHolds(5, c) /\ Gt(a, b) = OpHolds(6, c)

Reflexive == Eq(Cur, Cur) /\ Eq(HashKey(Cur), Cur) /\ HashKey(HashKey(Cur)) = HashKey(Cur)

Transitive ==          \* all triples <<Cur, b, c>> of Sub
    Str \in SubStrs =>
        \A a \in {Cur} : \A b \in SubPV : \A ab \in {Cmp(a, b)} :
            \A c \in SubPV : \A bc \in {Cmp(b, c)} : \A ac \in {Cmp(a, c)} :
                /\ (ab <= 0 /\ bc <= 0) => ac <= 0
                /\ (ab < 0 /\ bc <= 0) => ac < 0
                /\ (ab <= 0 /\ bc < 0) => ac < 0
                /\ (ab = 0 /\ bc = 0) => ac = 0

Padding ==             \* zero groups appended to the numeric part do not change the version
    /\ Eq(Cur, <<Nums(Cur) \o <<0>>, Extra(Cur)>>)
    /\ Eq(Cur, <<Nums(Cur) \o <<0, 0>>, Extra(Cur)>>)
    /\ suf = <<>> => /\ Eq(Cur, Parse(Str \o <<DotC, 48>>))
                     /\ Eq(Cur, Parse(Str \o <<DotC>>))
                     /\ Eq(Cur, Parse(Str \o <<DotC, DotC, 48>>))
    /\ Lt(Cur, <<Nums(Cur) \o <<1>>, Extra(Cur)>>)
    /\ Lt(<<Nums(Cur), <<>>>>, <<Nums(Cur), <<97>>>>)                   \* no extra < any extra

NearestLaws ==
    /\ Nearest(Cur) \in Official
    /\ Nearest(Cur) \in NearestChoices(Cur)
    /\ (\E o \in Official : Eq(o, Cur)) => Eq(Nearest(Cur), Cur)
    /\ \A a \in {Cur} : \A na \in {Nearest(a)} :
          \A b \in AllPV : Le(a, b) => Le(na, NearestTable[b])          \* monotone
    /\ NearestScan(Cur) = Nearest(Cur)

EmitV == PrintT(<<"V", IF Str \in SubStrs THEN 1 ELSE 0, Str>>)

(***************************************************************************)
(* Fixed points of the property text and of the reader.                    *)
(***************************************************************************)
S2 == <<50>>  S20 == <<50, 46, 48>>  S200 == <<50, 46, 48, 46, 48>>
S20a == <<50, 46, 48, 97>>  S20b == <<50, 46, 48, 98>>  S201 == <<50, 46, 48, 46, 49>>
S100 == <<49, 48, 46, 48>>

ASSUME Chain ==        \* 2 == 2.0 == 2.0.0 < 2.0a < 2.0b < 2.0.1 < 10.0
    /\ Eq(Parse(S2), Parse(S20)) /\ Eq(Parse(S20), Parse(S200)) /\ Eq(Parse(S2), Parse(S200))
    /\ Lt(Parse(S200), Parse(S20a)) /\ Lt(Parse(S20a), Parse(S20b))
    /\ Lt(Parse(S20b), Parse(S201)) /\ Lt(Parse(S201), Parse(S100))
    /\ HashKey(Parse(S2)) = HashKey(Parse(S200)) /\ HashKey(Parse(S20)) = HashKey(Parse(S2))

ASSUME Reader ==
    /\ Parse(S20) = V20 /\ Parse(<<51, 46, 48>>) = V30
    /\ Parse(<<50, 46, 46, 48>>) = <<<<2, 0, 0>>, <<>>>>                  \* "2..0"
    /\ Parse(<<50, 46>>) = <<<<2, 0>>, <<>>>>                             \* "2."
    /\ Parse(<<50, 46, 48, 46, 97>>) = <<<<2, 0, 0>>, <<97>>>>            \* "2.0.a"
    /\ Parse(<<48, 50, 46, 48, 49, 48, 45, 114, 99, 49>>) = <<<<2, 10>>, <<45, 114, 99, 49>>>>  \* "02.010-rc1"
    /\ Parse(<<50, 97, 46, 49>>) = <<<<2>>, <<97, 46, 49>>>>              \* "2a.1"
    /\ ~Valid(<<>>) /\ ~Valid(<<46, 50>>) /\ ~Valid(<<97>>) /\ ~Valid(<<45, 49>>) /\ ~Valid(<<32, 50>>)
    /\ Valid(S2) /\ Valid(<<50, 32>>)

ASSUME Sizes == Cardinality(AllStrs) = 775 /\ Cardinality(SubStrs) = 60 /\ SubStrs \subseteq AllStrs

ASSUME NearestPoints ==
    /\ Nearest(Parse(<<49, 46, 48>>)) = V20                               \* 1.0 -> 2.0
    /\ Nearest(Parse(S2)) = V20 /\ Nearest(Parse(S200)) = V20
    /\ Nearest(Parse(<<51>>)) = V30                                       \* 3 -> 3.0
    /\ Nearest(Parse(<<52, 46, 48>>)) = V30                               \* 4.0 -> 3.0
    /\ Nearest(Parse(<<50, 46, 53>>)) \in Official                        \* 2.5 -> some official

(***************************************************************************)
(* Cache machine instance: "3.0" "3.0.0" "3" "2.5" "4.0" "1.0".            *)
(***************************************************************************)
MCCacheVersions == {Parse(<<51, 46, 48>>), Parse(<<51, 46, 48, 46, 48>>), Parse(<<51>>),
                    Parse(<<50, 46, 53>>), Parse(<<52, 46, 48>>), Parse(<<49, 46, 48>>)}
CacheSpec == /\ grp = <<0>> /\ suf = <<>> /\ CInit
             /\ [][CNext /\ UNCHANGED <<grp, suf>>]_lvars
=============================================================================
