SPECIFICATION GenSpec
CONSTANTS
  Tier = "thorough"
CHECK_DEADLOCK FALSE
