SPECIFICATION TSpec
CONSTANTS
  CacheVersions <- TCacheVersions
VIEW TView
CHECK_DEADLOCK FALSE
