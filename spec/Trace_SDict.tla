---------------------------- MODULE Trace_SDict ----------------------------
(***************************************************************************)
(* Trace validation for SDict: histories recorded from the real             *)
(* SortableDict / MetadataObject (one event per public call return, with    *)
(* arguments, result class / returned value and the projected state         *)
(* list(m.items())) must be behaviours of SDict: every step's logged        *)
(* <<result, items>> has to be one of Outcomes(state, op).                  *)
(* Batch: the file holds many traces; tid selects one (initial states).     *)
(***************************************************************************)
EXTENDS SDict, Json, IOUtils

VARIABLES tid, l, nrej, tr     \* tr: the events of trace tid, read once in TInit (TLC re-evaluates
                         \* JsonDeserialize on every reference, so TNext must not mention it)

tvars == <<order, vals, op, res, tid, l, tr, nrej>>
TView == <<order, vals, tid, l, nrej>>

LoggedOrder(ev) == [i \in 1..Len(ev.st) |-> ev.st[i][1]]
LoggedVals(ev)  == [k \in {ev.st[i][1] : i \in 1..Len(ev.st)} |->
                        ev.st[CHOOSE i \in 1..Len(ev.st) : ev.st[i][1] = k][2]]

TInit == \E f \in {JsonDeserialize(IOEnv.TRACE_FILE)} :
         /\ tid \in 1..Len(f)
         /\ tr = f[tid]
         /\ l = 1
         /\ nrej = 0
         /\ order = <<>>
         /\ vals = [x \in {} |-> 0]
         /\ op = [name |-> "init"]
         /\ res = <<"None">>

Clause(ev, outs, lo, lv) ==
    IF ~NoDup(lo) THEN "duplicate_key_in_items"
    ELSE IF ~\E o \in outs : o.res = ev.r THEN "result_not_allowed"
    ELSE IF ~\E o \in outs : o.order = lo THEN "order_not_allowed"
    ELSE IF ~\E o \in outs : o.order = lo /\ o.vals = lv THEN "content_not_allowed"
    ELSE "result_and_state_not_jointly_allowed"

\* observation records made right after the call (random histories): [k |-> kind, ...]; judged against the LOGGED state
ObsOk(st, o) ==
    CASE o.k = "at"       -> o.r = ObsAt(st, o.i)
      [] o.k = "value_at" -> o.r = ObsValueAt(st, o.i)
      [] o.k = "index"    -> o.r = ObsIndex(st, o.key)
      [] o.k = "getitem"  -> o.r = ObsGetItem(st, o.key)
      [] o.k = "get"      -> o.r = ObsGet(st, o.key, o.d)
      [] o.k = "contains" -> o.v = ObsContains(st, o.key)
      [] o.k = "keys"     -> o.ks = ObsKeys(st)
      [] o.k = "values"   -> o.vs = ObsValues(st)
      [] o.k = "len"      -> o.n = Len(st.order)
      \* a second map built from the same initial object, and that object itself, are what they were when the
      \* history began: a map shares nothing with the object it was built from
      [] o.k = "twin"     -> o.now = o.init /\ o.src = o.src0
      [] o.k = "eq_copy"  -> o.v                       \* the map equals a plain dict with the same content, and a copy of itself
ObsOf(ev) == IF "obs" \in DOMAIN ev THEN ev.obs ELSE <<>>

\* Single pass: a step that is not allowed by the model prints one REJECT line naming the clause and
\* the validation re-synchronises on the logged state, so every later event is still judged.
TNext ==
    /\ l <= Len(tr)
    /\ LET ev   == tr[l]
           lo   == LoggedOrder(ev)
           lv   == LoggedVals(ev)
           outs == Outcomes(Cur, ev)
           good == \E o \in outs : o.res = ev.r /\ o.order = lo /\ o.vals = lv
           st   == [order |-> lo, vals |-> lv]
           B    == IF NoDup(lo) THEN {i \in 1..Len(ObsOf(ev)) : ~ObsOk(st, ObsOf(ev)[i])} ELSE {}
       IN /\ ~good => PrintT(<<"REJECT", tid, l, Clause(ev, outs, lo, lv)>>)
          /\ B # {} => PrintT(<<"REJECT", tid, l, "obs_" \o ObsOf(ev)[CHOOSE i \in B : \A j \in B : i <= j].k>>)
          /\ order' = lo /\ vals' = lv /\ op' = [name |-> ev.name] /\ res' = ev.r
          /\ l' = l + 1
          /\ nrej' = nrej + (IF good /\ B = {} THEN 0 ELSE 1)
          /\ (l = Len(tr) => PrintT(<<IF nrej' = 0 THEN "ACCEPT" ELSE "DONE", tid, nrej'>>))
    /\ UNCHANGED <<tid, tr>>

TSpec == TInit /\ [][TNext]_tvars

\* the C16 state invariants, evaluated at every step of every recorded history
TKeysUnique   == KeysUnique
TContentMatch == ContentMatch
=============================================================================
