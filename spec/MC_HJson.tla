------------------------------ MODULE MC_HJson ------------------------------
(***************************************************************************)
(* Bounded instance of HJson.tla: an independent Haystack-JSON WRITER that  *)
(* chooses a value, one of its legal spellings, a position in a document and *)
(* a framing, and produces <<tree, denotation>>.  One initial state per      *)
(* choice.                                                                  *)
(*   role A (MC_HJson.cfg): TLC checks for every choice that the reader      *)
(*     reads the tree back to the denotation (Dec(Enc(v)) = v, so no legal   *)
(*     spelling is ever assigned to another kind: the STRING values "n:1",   *)
(*     "m:", "x:", "-:", "s:x", "r:abc", "t:2020-..Z UTC" come back strings), *)
(*     that the strict reader accepts exactly the writer spellings and names *)
(*     the clause for each liberty, and that Remove spellings are counted.   *)
(*   role B (Gen_HJson_*.cfg): the same choices printed as JSON cases for    *)
(*     lib/c05.py, which feeds each tree to hszinc.parse in all input forms. *)
(***************************************************************************)
EXTENDS HJson, Json

CONSTANT Tier          \* "quick" | "thorough"

Dn(neg, ip, fp, e) == NormDec(neg, Vals(C(ip)), Vals(C(fp)), e)
Num(neg, ip, fp, e) == <<5, Dn(neg, ip, fp, e)>>
Qty(neg, ip, fp, e, unit) == <<6, Dn(neg, ip, fp, e), unit>>
Str(s) == <<7, s>>
E(k, l, v, rep) == [k |-> k, l |-> l, v |-> v, rep |-> rep]

V20s == C("2.0")
V30s == C("3.0")

(***************************************************************************)
(* The value catalogue (abstract values; text as code points).              *)
(***************************************************************************)
Strings ==
  { E("str", "empty", Str(<<>>), FALSE), E("str", "a", Str(C("a")), FALSE), E("str", "ab", Str(C("ab")), FALSE),
    E("str", "words", Str(C("hello world")), TRUE), E("str", "colon_only", Str(C(":")), FALSE),
    E("str", "colon_second", Str(C("a:b")), FALSE), E("str", "num_like", Str(C("n:1")), TRUE),
    E("str", "marker_like", Str(C("m:")), FALSE), E("str", "remove2_like", Str(C("x:")), FALSE),
    E("str", "remove3_like", Str(C("-:")), FALSE), E("str", "na_like", Str(C("z:")), FALSE),
    E("str", "s_prefix", Str(C("s:x")), FALSE), E("str", "uri_like", Str(C("u:x")), FALSE),
    E("str", "bin_like", Str(C("b:x")), FALSE), E("str", "ref_like", Str(C("r:abc")), FALSE),
    E("str", "date_like", Str(C("d:2020-01-01")), FALSE), E("str", "time_like", Str(C("h:12:00")), FALSE),
    E("str", "dt_like", Str(C("t:2020-01-01T00:00:00Z UTC")), FALSE), E("str", "coord_like", Str(C("c:1,2")), FALSE),
    E("str", "xstr_like", Str(C("x:T:p")), FALSE), E("str", "unknown_prefix", Str(C("q:x")), FALSE),
    E("str", "json_list", Str(C("[x]")), TRUE), E("str", "json_str", Str(C("\"q\"")), FALSE),
    E("str", "json_obj", Str(C("{a}")), FALSE), E("str", "json_list_valid", Str(C("[1]")), FALSE),
    E("str", "nl", Str(C("l1") \o <<10>> \o C("l2")), FALSE), E("str", "nl_prefix", Str(C("a") \o <<10>> \o C("n:1")), FALSE),
    E("str", "quote", Str(C("say \"hi\"")), FALSE), E("str", "backslash", Str(C("a\\b")), FALSE),
    E("str", "unicode", Str(<<233, 20013, 128512>>), FALSE), E("str", "true_like", Str(C("true")), FALSE),
    E("str", "null_like", Str(C("null")), FALSE), E("str", "num_bare", Str(C("42")), FALSE),
    E("str", "c0", Str(<<1, 31>>), FALSE), E("str", "spaces", Str(C("  x ")), FALSE) }

Texts ==
  { E("uri", "plain", <<8, C("http://x.org/a?b=c#d")>>, TRUE), E("uri", "empty", <<8, <<>>>>, FALSE),
    E("uri", "nl", <<8, C("a") \o <<10>> \o C("b")>>, FALSE), E("uri", "space", <<8, C("a b")>>, FALSE),
    E("uri", "u_prefix", <<8, C("u:x")>>, FALSE), E("uri", "unicode", <<8, <<233, 4660>>>>, FALSE),
    E("bin", "mime", <<9, C("text/plain")>>, TRUE), E("bin", "params", <<9, C("text/html; a=foo; bar=\"sep\"")>>, FALSE),
    E("bin", "empty", <<9, <<>>>>, FALSE),
    E("ref", "plain", <<10, C("abc"), 0, <<>>>>, TRUE), E("ref", "chars", <<10, C("a-b.c:d~e_1"), 0, <<>>>>, FALSE),
    E("ref", "dis", <<10, C("a-ref"), 1, C("a value")>>, TRUE),
    E("ref", "dis_nl", <<10, C("y"), 1, C("line1") \o <<10>> \o C("line2")>>, FALSE),
    E("ref", "dis_empty", <<10, C("z"), 1, <<>>>>, FALSE), E("ref", "dis_colon", <<10, C("d"), 1, C("n:1")>>, FALSE),
    E("ref", "dis_unicode", <<10, C("u"), 1, <<99, 97, 102, 233, 32, 128512>>>>, FALSE),
    E("ref", "dis_spaces", <<10, C("w"), 1, C("  two  spaces ")>>, FALSE),
    E("xstr", "typed", <<11, C("Color"), C("red")>>, TRUE), E("xstr", "colon", <<11, C("Color"), C("a:b")>>, FALSE),
    E("xstr", "empty", <<11, C("Color"), <<>>>>, FALSE), E("xstr", "nl", <<11, C("Note"), C("l1") \o <<10>> \o C("l2")>>, FALSE),
    E("xstr", "hex", <<11, C("hex"), C("deadbeef")>>, FALSE), E("xstr", "b64", <<11, C("b64"), C("3q2+7w==")>>, FALSE) }

Temporal ==
  { E("date", "plain", <<12, 2016, 1, 13>>, TRUE), E("date", "min", <<12, 1, 1, 1>>, FALSE),
    E("date", "max", <<12, 9999, 12, 31>>, FALSE), E("date", "leap", <<12, 2000, 2, 29>>, FALSE),
    E("time", "midnight", <<13, 0, 0, 0, 0>>, FALSE), E("time", "plain", <<13, 1, 2, 3, 0>>, TRUE),
    E("time", "minute", <<13, 7, 51, 0, 0>>, TRUE), E("time", "us1", <<13, 7, 51, 43, 1>>, FALSE),
    E("time", "half", <<13, 12, 30, 15, 500000>>, TRUE), E("time", "max", <<13, 23, 59, 59, 999999>>, FALSE),
    E("dt", "utc", <<14, 2016, 1, 13, 7, 51, 42, 0, 0, 0, C("UTC")>>, TRUE),
    E("dt", "berlin", <<14, 2016, 1, 13, 7, 51, 42, 12345, 0, 3600, C("Berlin")>>, TRUE),
    E("dt", "ny_dst", <<14, 2021, 7, 4, 12, 0, 0, 0, 1, 14400, C("New_York")>>, FALSE),
    E("dt", "kolkata", <<14, 2000, 2, 29, 23, 59, 59, 999999, 0, 19800, C("Kolkata")>>, FALSE),
    \* the hour repeated when daylight saving ends (first occurrence: the offset, not the wall clock, tells them apart)
    E("dt", "ny_fold_dst", <<14, 2021, 11, 7, 1, 30, 0, 0, 1, 14400, C("New_York")>>, FALSE),
    E("dt", "ny_fold_std", <<14, 2021, 11, 7, 1, 30, 0, 0, 1, 18000, C("New_York")>>, FALSE),
    E("dt", "berlin_fold_dst", <<14, 2021, 10, 31, 2, 30, 0, 0, 0, 7200, C("Berlin")>>, FALSE),
    E("dt", "london_winter", <<14, 2021, 12, 1, 12, 0, 0, 0, 0, 0, C("London")>>, FALSE),
    \* the last / first moments of the calendar in zones whose UTC equivalent lies beyond it
    E("dt", "edge_max_honolulu", <<14, 9999, 12, 31, 23, 59, 59, 0, 1, 36000, C("Honolulu")>>, FALSE),
    E("dt", "edge_min_brisbane", <<14, 1, 1, 1, 0, 0, 0, 0, 0, 36000, C("Brisbane")>>, FALSE),
    E("coord", "zero", <<15, 0, 0, 0, 0>>, FALSE), E("coord", "richmond", <<15, 0, 37545000, 1, 77449000>>, TRUE),
    E("coord", "max", <<15, 0, 90000000, 0, 180000000>>, FALSE), E("coord", "min", <<15, 1, 90000000, 1, 180000000>>, FALSE),
    E("coord", "tiny", <<15, 0, 1, 1, 1>>, FALSE), E("coord", "ints", <<15, 1, 27000000, 0, 153000000>>, FALSE) }

Numbers ==
  { E("num", "zero", Num(0, "0", "", 0), FALSE), E("num", "five", Num(0, "5", "", 0), TRUE),
    E("num", "neg7", Num(1, "7", "", 0), FALSE), E("num", "tenth", Num(0, "0", "1", 0), TRUE),
    E("num", "neg2p5", Num(1, "2", "5", 0), FALSE), E("num", "million", Num(0, "1000000", "", 0), FALSE),
    E("num", "small", Num(0, "0", "00025", 0), FALSE), E("num", "digits", Num(0, "123456", "789", 0), FALSE),
    E("num", "e15", Num(0, "1", "", 15), FALSE), E("num", "tiny", Num(0, "1", "", -7), FALSE),
    E("num", "inf", <<5, <<9, 0>>>>, TRUE), E("num", "neginf", <<5, <<9, 1>>>>, FALSE), E("num", "nan", <<5, <<9, 2>>>>, FALSE),
    E("qty", "kW", Qty(0, "1", "5", 0, C("kW")), TRUE), E("qty", "pct", Qty(0, "0", "", 0, C("%")), FALSE),
    E("qty", "degF", Qty(1, "40", "", 0, <<176, 70>>), FALSE), E("qty", "per", Qty(0, "3", "", 0, C("m/s")), FALSE),
    E("qty", "dollar", Qty(0, "9", "99", 0, C("$")), FALSE), E("qty", "under", Qty(0, "2", "", 0, C("kW_h")), FALSE),
    E("qty", "eunit", Qty(0, "5", "", 0, C("eV")), FALSE), E("qty", "Eunit", Qty(0, "7", "", 0, C("E")), FALSE),
    E("qty", "omega", Qty(0, "1", "", 0, <<937, 109>>), FALSE) }

Singles0 ==
  { E("null", "none", <<0>>, TRUE), E("marker", "marker", <<1>>, TRUE), E("na", "na", <<2>>, TRUE),
    E("remove", "remove", <<3>>, TRUE), E("bool", "true", <<4, 1>>, TRUE), E("bool", "false", <<4, 0>>, FALSE) }

InnerGrid(ver) ==
    <<18, ver, <<<<C("inner"), <<1>>>>>>, <<<<C("x"), <<>>>>, <<C("y"), <<<<C("unit"), Str(C("kW"))>>>>>>>>,
      <<<<Num(0, "1", "", 0), Str(C("a"))>>, <<<<0>>, Qty(0, "2", "", 0, C("kW"))>>>>>>
Composites ==
  { E("list", "list", <<16, <<Num(0, "1", "", 0), Str(C("two")), <<1>>, <<0>>, <<10, C("r"), 0, <<>>>>,
                             <<16, <<Num(0, "3", "5", 0), <<16, <<>>>>>>>>>>>>, TRUE),
    E("list", "empty", <<16, <<>>>>, FALSE),
    E("dict", "dict", <<17, <<<<C("a"), Num(0, "1", "", 0)>>, <<C("marker"), <<1>>>>,
                              <<C("nested"), <<17, <<<<C("k"), <<16, <<<<4, 1>>>>>>>>>>>>>>, <<C("str"), Str(C("x y"))>>>>>>, TRUE),
    E("dict", "empty", <<17, <<>>>>, FALSE),
    \* a dict whose KEYS are meta, cols, rows is still a dict
    E("dict", "gridkeys", <<17, <<<<C("cols"), <<1>>>>, <<C("meta"), Num(0, "1", "", 0)>>, <<C("rows"), Str(C("x"))>>>>>>, TRUE),
    \* ... also when meta is a dict with a tag ver and cols a list: a marker is no version, strings are no columns
    E("dict", "gridkeys_vermarker", <<17, <<<<C("cols"), <<16, <<>>>>>>, <<C("meta"), <<17, <<<<C("ver"), <<1>>>>>>>>>>,
                                            <<C("rows"), <<1>>>>>>>>, FALSE),
    E("dict", "gridkeys_colstrs", <<17, <<<<C("cols"), <<16, <<Str(C("a")), Str(C("b"))>>>>>>,
                                          <<C("meta"), <<17, <<<<C("by"), Str(C("me"))>>, <<C("ver"), Num(0, "3", "", 0)>>>>>>>>,
                                          <<C("rows"), Num(0, "2", "", 0)>>>>>>, FALSE),
    \* ... or when a fourth tag stands beside them
    E("dict", "gridkeys_extra", <<17, <<<<C("cols"), <<16, <<>>>>>>, <<C("meta"), <<17, <<>>>>>>, <<C("note"), <<1>>>>,
                                        <<C("rows"), <<16, <<>>>>>>>>>>, FALSE),
    E("grid", "grid", InnerGrid(V30s), TRUE) }
\* deeper look-alike, role A only: as a VALUE, meta.ver is the string "3.0" and is spelt "s:3.0"
DeepLookalike ==
  { E("dict", "gridkeys_deep", <<17, <<<<C("cols"), <<16, <<>>>>>>, <<C("meta"), <<17, <<<<C("ver"), Str(C("3.0"))>>>>>>>>,
                                       <<C("rows"), <<16, <<>>>>>>>>>>, FALSE) }

Catalogue == Strings \cup Texts \cup Temporal \cup Numbers \cup Singles0 \cup Composites
Only3Kinds == {"na", "xstr", "list", "dict", "grid"}
IsScalar(e) == e.k \notin {"list", "dict", "grid"}

(***************************************************************************)
(* Documents.                                                               *)
(***************************************************************************)
TS(s) == JStr(C(s))
BuildGrid(ver, fr, metaT, colsT, mode, rowsT) ==
    LET verP  == <<<<kVer, JStr(ver)>>>>
        metaO == JObj(IF fr = "f1" THEN verP \o metaT ELSE metaT \o verP)
        colO(cl) == LET nm == <<<<kName, JStr(cl[1])>>>> IN JObj(IF fr = "f1" THEN nm \o cl[2] ELSE cl[2] \o nm)
        colsA == JArr([i \in 1..Len(colsT) |-> colO(colsT[i])])
        rowsP == CASE mode = "array" -> <<<<kRows, JArr([r \in 1..Len(rowsT) |-> JObj(rowsT[r])])>>>>
                   [] mode = "null" -> <<<<kRows, JNull>>>>
                   [] OTHER -> <<>>
    IN JObj(IF fr = "f1" THEN <<<<kMeta, metaO>>, <<kCols, colsA>>>> \o rowsP
            ELSE rowsP \o <<<<kCols, colsA>>, <<kMeta, metaO>>>>)

ca == C("a")  cb == C("b")  cx == C("x")  cy == C("y")
tagK == C("tag")
N1t == TS("n:1")
N1d == Num(0, "1", "", 0)
Lt == TS("s:L")
Ld == Str(C("L"))
\* a column tag may be called ver and a grid tag name: only the grid's own ver and a column's own name are special
Cols2T == <<<<ca, <<>>>>, <<cb, <<<<C("ver"), TS("s:cv")>>>>>>>>
Cols2D == <<<<ca, <<>>>>, <<cb, <<<<C("ver"), Str(C("cv"))>>>>>>>>
ColsXYT == <<<<cx, <<>>>>, <<cy, <<>>>>>>
Row2(ta, tb) == <<<<ca, ta>>, <<cb, tb>>>>
RowXY(tx, ty) == <<<<cx, tx>>, <<cy, ty>>>>
DisT == <<<<C("dis"), TS("s:g")>>, <<C("name"), TS("s:gn")>>>>
DisD == <<<<C("dis"), Str(C("g"))>>, <<C("name"), Str(C("gn"))>>>>

\* a one-grid document whose cell b of the first row is <<tb, db>>
CellDoc(ver, fr, tb, db) ==
    [tree |-> BuildGrid(ver, fr, DisT, Cols2T, "array", <<Row2(Lt, tb), Row2(Lt, N1t)>>),
     den  |-> <<<<18, ver, DisD, Cols2D, <<<<Ld, db>>, <<Ld, N1d>>>>>>>>]

NGridT(ver, fr, gm, cm, tx) ==
    BuildGrid(ver, fr, gm, <<<<cx, cm>>, <<cy, <<>>>>>>, "array", <<RowXY(tx, TS("s:ny")), RowXY(N1t, TS("s:last"))>>)
NGridD(ver, gm, cm, dx) ==
    <<18, ver, gm, <<<<cx, cm>>, <<cy, <<>>>>>>, <<<<dx, Str(C("ny"))>>, <<N1d, Str(C("last"))>>>>>>

Place(pos, ver, fr, X, D) ==
    CASE pos = "cell" -> CellDoc(ver, fr, X, D)
      [] pos = "cell_first" ->
           [tree |-> BuildGrid(ver, fr, <<>>, Cols2T, "array", <<Row2(X, N1t)>>),
            den  |-> <<<<18, ver, <<>>, Cols2D, <<<<D, N1d>>>>>>>>]
      [] pos = "gmeta" ->
           [tree |-> BuildGrid(ver, fr, DisT \o <<<<tagK, X>>, <<C("z"), TS("m:")>>>>, Cols2T, "array", <<Row2(Lt, N1t)>>),
            den  |-> <<<<18, ver, DisD \o <<<<tagK, D>>, <<C("z"), <<1>>>>>>, Cols2D, <<<<Ld, N1d>>>>>>>>]
      [] pos = "cmeta" ->
           [tree |-> BuildGrid(ver, fr, <<>>, <<<<ca, <<<<C("before"), TS("s:x")>>, <<tagK, X>>, <<C("after"), TS("m:")>>>>>>,
                                                 <<cb, <<>>>>>>, "array", <<Row2(Lt, N1t)>>),
            den  |-> <<<<18, ver, <<>>, <<<<ca, <<<<C("before"), Str(C("x"))>>, <<tagK, D>>, <<C("after"), <<1>>>>>>>>,
                                          <<cb, <<>>>>>>, <<<<Ld, N1d>>>>>>>>]
      [] pos = "list_elem" -> CellDoc(ver, fr, JArr(<<TS("s:p"), X, TS("s:q")>>), <<16, <<Str(C("p")), D, Str(C("q"))>>>>)
      [] pos = "dict_val" ->
           CellDoc(ver, fr, JObj(<<<<C("before"), N1t>>, <<tagK, X>>, <<C("zafter"), TS("s:x")>>>>),
                   <<17, <<<<C("before"), N1d>>, <<tagK, D>>, <<C("zafter"), Str(C("x"))>>>>>>)
      [] pos = "dict_val_rev" ->        \* members in another document order: a dict is unordered
           CellDoc(ver, fr, JObj(<<<<C("zafter"), TS("s:x")>>, <<tagK, X>>, <<C("before"), N1t>>>>),
                   <<17, <<<<C("before"), N1d>>, <<tagK, D>>, <<C("zafter"), Str(C("x"))>>>>>>)
      [] pos = "list_in_dict" ->
           CellDoc(ver, fr, JObj(<<<<C("k"), JArr(<<X, TS("s:q")>>)>>>>), <<17, <<<<C("k"), <<16, <<D, Str(C("q"))>>>>>>>>>>)
      [] pos = "dict_in_list" ->
           CellDoc(ver, fr, JArr(<<JObj(<<<<tagK, X>>>>), TS("s:q")>>), <<16, <<<<17, <<<<tagK, D>>>>>>, Str(C("q"))>>>>)
      [] pos = "ngrid_cell" -> CellDoc(ver, fr, NGridT(ver, fr, <<>>, <<>>, X), NGridD(ver, <<>>, <<>>, D))
      [] pos = "ngrid_gmeta" ->
           CellDoc(ver, fr, NGridT(ver, fr, <<<<tagK, X>>>>, <<>>, N1t), NGridD(ver, <<<<tagK, D>>>>, <<>>, N1d))
      [] pos = "ngrid_cmeta" ->
           CellDoc(ver, fr, NGridT(ver, fr, <<>>, <<<<tagK, X>>>>, N1t), NGridD(ver, <<>>, <<<<tagK, D>>>>, N1d))
      [] pos = "grid_in_list" ->
           CellDoc(ver, fr, JArr(<<NGridT(ver, fr, <<>>, <<>>, X), TS("s:q")>>),
                   <<16, <<NGridD(ver, <<>>, <<>>, D), Str(C("q"))>>>>)
      [] pos = "scalar" ->              \* the value alone (parse_scalar); the harness takes field x of the case
           [tree |-> BuildGrid(ver, fr, <<>>, <<<<C("v"), <<>>>>>>, "array", <<<<<<C("v"), X>>>>>>),
            den  |-> <<<<18, ver, <<>>, <<<<C("v"), <<>>>>>>, <<<<D>>>>>>>>]
      [] pos = "top_array" ->           \* a JSON array of two grids
           LET one == CellDoc(ver, fr, X, D)
               two == CellDoc(ver, fr, N1t, N1d)
           IN [tree |-> JArr(<<one.tree, two.tree>>), den |-> one.den \o two.den]

NestedPos == {"list_elem", "dict_val", "dict_val_rev", "list_in_dict", "dict_in_list", "ngrid_cell", "ngrid_gmeta",
              "ngrid_cmeta", "grid_in_list"}
TagPos == {"gmeta", "cmeta", "dict_val", "dict_val_rev", "dict_in_list", "ngrid_gmeta", "ngrid_cmeta"}   \* a tag is never null
AllPos == {"cell", "cell_first", "gmeta", "cmeta", "top_array", "scalar"} \cup NestedPos
\* at scalar level the API takes JSON text as well, so a string that is itself JSON text is not a scalar case
JsonLike == {"json_list", "json_str", "json_obj", "json_list_valid"}
PosOk(e, pos, ver) ==
    /\ (pos \in NestedPos => ver = V30s)
    /\ (e.k \in Only3Kinds => ver = V30s)
    /\ ~(e.k = "null" /\ pos \in TagPos)
    /\ ~(pos = "scalar" /\ e.l \in JsonLike)

\* `rows` liberties and rows that omit columns
RowsDoc(form, ver, fr) ==
    LET g(mode, rowsT, rowsD) == [tree |-> BuildGrid(ver, fr, DisT, Cols2T, mode, rowsT),
                                  den  |-> <<<<18, ver, DisD, Cols2D, rowsD>>>>]
    IN CASE form = "missing" -> g("missing", <<>>, <<>>)
         [] form = "null"    -> g("null", <<>>, <<>>)
         [] form = "empty"   -> g("array", <<>>, <<>>)
         [] form = "omit"    -> g("array", <<<<<<ca, Lt>>>>, Row2(Lt, N1t), <<<<cb, N1t>>>>>>,
                                  <<<<Ld, <<0>>>>, <<Ld, N1d>>, <<<<0>>, N1d>>>>)
         [] form = "omit_all" -> g("array", <<<<>>, Row2(Lt, N1t)>>, <<<<<<0>>, <<0>>>>, <<Ld, N1d>>>>)
         [] form = "nullcell" -> g("array", <<Row2(JNull, N1t), Row2(Lt, JNull)>>, <<<<<<0>>, N1d>>, <<Ld, <<0>>>>>>)
         \* the same row twice (a pre-decoded document may list ONE row object twice): strings that look like
         \* encoded values once their prefix is taken off
         [] form = "dup"     -> g("array", <<Row2(TS("s:s:x"), TS("s:n:5")), Row2(TS("s:s:x"), TS("s:n:5"))>>,
                                  <<<<Str(C("s:x")), Str(C("n:5"))>>, <<Str(C("s:x")), Str(C("n:5"))>>>>)
         \* the same liberties one level down: a grid in a cell that leaves its rows out is still a grid
         [] form \in {"nested_missing", "nested_null", "nested_empty"} ->
              LET mode == CASE form = "nested_missing" -> "missing" [] form = "nested_null" -> "null" [] OTHER -> "array"
                  ng == BuildGrid(ver, fr, <<<<C("inner"), TS("m:")>>>>, ColsXYT, mode, <<>>)
                  nd == <<18, ver, <<<<C("inner"), <<1>>>>>>, ColsXYT, <<>>>>
              IN g("array", <<Row2(Lt, ng), Row2(ng, N1t)>>, <<<<Ld, nd>>, <<nd, N1d>>>>)
RowsForms == {"missing", "null", "empty", "omit", "omit_all", "nullcell", "dup"}
NestedRowsForms == {"nested_missing", "nested_null", "nested_empty"}

\* two spelt values side by side: adjacent cells, or adjacent list elements
PairDoc(pos, ver, fr, X1, D1, X2, D2) ==
    IF pos = "cells" THEN
        [tree |-> BuildGrid(ver, fr, <<>>, Cols2T, "array", <<Row2(X1, X2), Row2(X2, X1)>>),
         den  |-> <<<<18, ver, <<>>, Cols2D, <<<<D1, D2>>, <<D2, D1>>>>>>>>]
    ELSE CellDoc(ver, fr, JArr(<<X1, X2>>), <<16, <<D1, D2>>>>)

(***************************************************************************)
(* The choice space.                                                        *)
(***************************************************************************)
Vers == {V20s, V30s}
VerName(ver) == IF ver = V20s THEN "2.0" ELSE "3.0"
SpOf(e, ver) == IF IsScalar(e) THEN Spellings(e.v, ver) ELSE {Sp("canon", "", "", "", FALSE)}

QuickPos(e) == IF e.rep THEN AllPos ELSE {"cell", "gmeta", "list_elem", "scalar"}
SinglesOf(e, ver, tier) ==
    { x \in { [t |-> "single", e |-> e, sp |-> sp, pos |-> pos, ver |-> ver, fr |-> fr] :
                sp \in SpOf(e, ver),
                pos \in {p \in AllPos : PosOk(e, p, ver) /\ (tier = "quick" => p \in QuickPos(e))},
                fr \in {"f1", "f2"} } :
        tier = "quick" => (x.fr = "f2" => x.pos = "cell" /\ e.rep) }
Singles(cat, tier) == UNION {SinglesOf(e, ver, tier) : e \in cat, ver \in Vers}
RowsChoices == { [t |-> "rows", form |-> f, ver |-> ver, fr |-> fr] : f \in RowsForms, ver \in Vers, fr \in {"f1", "f2"} }
               \cup { [t |-> "rows", form |-> f, ver |-> V30s, fr |-> fr] : f \in NestedRowsForms, fr \in {"f1", "f2"} }
\* representative <<value, spelling>> combinations for the pairs
RepSp(cat, ver) == UNION { {<<e, sp>> : sp \in SpOf(e, ver)} :
                            e \in {x \in cat : x.rep /\ IsScalar(x) /\ (x.k \in Only3Kinds => ver = V30s)} }
PairsOf(cat, ver) ==
    { [t |-> "pair", e |-> p1[1], sp |-> p1[2], e2 |-> p2[1], sp2 |-> p2[2], pos |-> pos, ver |-> ver, fr |-> "f1"] :
        p1 \in RepSp(cat, ver), p2 \in RepSp(cat, ver), pos \in (IF ver = V30s THEN {"cells", "list"} ELSE {"cells"}) }
PairChoices(cat, tier) == IF tier = "quick" THEN {} ELSE UNION {PairsOf(cat, ver) : ver \in Vers}

Tree1(e, sp, ver) == IF IsScalar(e) THEN EncS(e.v, sp) ELSE Canon(e.v, ver)
Den1(e, sp) == IF IsScalar(e) THEN DenS(e.v, sp) ELSE e.v

MkCase(ch) ==
    CASE ch.t = "single" -> Place(ch.pos, ch.ver, ch.fr, Tree1(ch.e, ch.sp, ch.ver), Den1(ch.e, ch.sp))
      [] ch.t = "rows"   -> RowsDoc(ch.form, ch.ver, ch.fr)
      [] ch.t = "pair"   -> PairDoc(ch.pos, ch.ver, ch.fr, Tree1(ch.e, ch.sp, ch.ver), Den1(ch.e, ch.sp),
                                   Tree1(ch.e2, ch.sp2, ch.ver), Den1(ch.e2, ch.sp2))
\* is some liberty of the liberal reader used?
IsLib(ch) ==
    CASE ch.t = "single" -> ch.sp.lib
      [] ch.t = "rows"   -> ch.form \in {"missing", "null", "nested_missing", "nested_null"}
      [] ch.t = "pair"   -> ch.sp.lib \/ ch.sp2.lib

VARIABLES cs, ph     \* the choice; ph = 1 once the laws have been evaluated on it (by TLC's workers)
GenChoices == Singles(Catalogue, Tier) \cup RowsChoices \cup PairChoices(Catalogue, Tier)
MCChoices  == Singles(Catalogue \cup DeepLookalike, Tier) \cup RowsChoices \cup PairChoices(Catalogue, Tier)
GenInit == cs \in GenChoices /\ ph = 0
MCInit  == cs \in MCChoices /\ ph = 0
Check   == ph = 0 /\ ph' = 1 /\ UNCHANGED cs
GenSpec == GenInit /\ [][UNCHANGED <<cs, ph>>]_<<cs, ph>>
MCSpec  == MCInit /\ [][Check]_<<cs, ph>>

(***************************************************************************)
(* Role B: print every case.                                                *)
(***************************************************************************)
CaseOut(ch) ==
    LET w == MkCase(ch)
        base == [t |-> ch.t, ver |-> VerName(ch.ver), fr |-> ch.fr, lib |-> IsLib(ch), tree |-> w.tree, den |-> w.den]
    IN CASE ch.t = "single" -> base @@ [k |-> ch.e.k, l |-> ch.e.l, sp |-> ch.sp.n, pos |-> ch.pos,
                                        x |-> Tree1(ch.e, ch.sp, ch.ver)]
         [] ch.t = "rows"   -> base @@ [k |-> "rows", l |-> ch.form, sp |-> ch.form, pos |-> "rows"]
         [] ch.t = "pair"   -> base @@ [k |-> ch.e.k, l |-> ch.e.l, sp |-> ch.sp.n, pos |-> ch.pos,
                                        k2 |-> ch.e2.k, l2 |-> ch.e2.l, sp2 |-> ch.sp2.n]
Emit == PrintT(ToJson(CaseOut(cs)))

(***************************************************************************)
(* Role A: the laws.                                                        *)
(***************************************************************************)
\* the clause the strict reader must name for each liberty
StrictWhy(ch) ==
    CASE ch.t = "rows" -> IF ch.form \in {"missing", "nested_missing"} THEN {"shape_top"} ELSE {"shape_rows"}
      [] ch.t = "pair" -> {"prefix_num", "prefix_str", "prefix_remove", "payload_time", "payload_dt"}
      [] OTHER -> CASE ch.e.k = "num" -> {"prefix_num"}
                    [] ch.e.k = "str" -> {"prefix_str"}
                    [] ch.e.k = "remove" -> {"prefix_remove"}
                    [] ch.e.k = "time" -> {"payload_time"}
                    [] ch.e.k = "dt" -> {"payload_dt"}
                    [] OTHER -> {}

ReadBack ==         \* Dec(Enc(v)) = v in place, liberal reader
    ph = 1 =>
    LET w == MkCase(cs)  r == JRead(w.tree, FALSE)
    IN r.ok /\ r.grids = w.den
StrictAgrees ==     \* the strict reader accepts exactly the writer spellings
    ph = 1 =>
    LET w == MkCase(cs)  r == JRead(w.tree, TRUE)
    IN IF IsLib(cs) THEN ~r.ok /\ r.why \in StrictWhy(cs) ELSE r.ok /\ r.grids = w.den
RemoveCounted ==    \* every Remove of the denotation is one Remove-spelt leaf, in the right or the other spelling
    ph = 1 =>
    LET w == MkCase(cs)
        ts == TopTrees(w.tree)
        right == SumSeq([i \in 1..Len(ts) |-> RightRemove(ts[i], FALSE)])
        wrong == SumSeq([i \in 1..Len(ts) |-> WrongRemove(ts[i], FALSE)])
        n == SumSeq([i \in 1..Len(w.den) |-> CountRemove(w.den[i])])
    IN /\ right + wrong = n
       /\ (cs.t = "single" /\ cs.e.k = "remove" => IF cs.sp.lib THEN wrong = 1 ELSE wrong = 0)
       /\ (cs.t = "single" /\ cs.e.k # "remove" /\ cs.e.k \notin {"list", "dict", "grid"} => n = 0)
Q6Stable ==         \* quantising twice is quantising once
    ph = 1 =>
    LET w == MkCase(cs) IN Q6Doc(Q6Doc(w.den)) = Q6Doc(w.den)

\* unit laws of the six-decimal rounding (half-even on the exact decimal)
ASSUME Q6Dec(Dn(0, "0", "1234565", 0)) = Dn(0, "0", "123456", 0)
ASSUME Q6Dec(Dn(0, "0", "1234575", 0)) = Dn(0, "0", "123458", 0)
ASSUME Q6Dec(Dn(0, "0", "12345651", 0)) = Dn(0, "0", "123457", 0)
ASSUME Q6Dec(Dn(1, "0", "9999995", 0)) = Dn(1, "1", "", 0)
ASSUME Q6Dec(Dn(0, "9", "9999996", 0)) = Dn(0, "10", "", 0)
ASSUME Q6Dec(Dn(0, "0", "0000005", 0)) = <<0, 0, 0>>
ASSUME Q6Dec(Dn(0, "0", "00000051", 0)) = Dn(0, "0", "000001", 0)
ASSUME Q6Dec(Dn(0, "0", "0000015", 0)) = Dn(0, "0", "000002", 0)
ASSUME Q6Dec(Dn(1, "0", "0000004", 0)) = <<0, 0, 0>>
ASSUME Q6Dec(Dn(0, "5", "", -324)) = <<0, 0, 0>>
ASSUME Q6Dec(Dn(0, "123456", "789", 0)) = Dn(0, "123456", "789", 0)
ASSUME Q6Dec(<<9, 2>>) = <<9, 2>>
\* a spelling is read back as written
ASSUME DecStr(C("n:1.5e3 kW"), FALSE, TRUE) = Ok(<<6, Dn(0, "1500", "", 0), C("kW")>>)
ASSUME DecStr(C("n:inf"), FALSE, TRUE) = Bad("payload_num")
ASSUME DecStr(C("n:1:.5"), FALSE, FALSE) = Bad("payload_num")
ASSUME DecStr(C("x:Color:a:b"), FALSE, TRUE) = Ok(<<11, C("Color"), C("a:b")>>)
ASSUME DecStr(C("x:Color:red"), TRUE, FALSE) = Bad(V3)
ASSUME DecStr(C("q:x"), FALSE, FALSE) = Bad("prefix_unknown")
ASSUME DecStr(C("h:07:51"), FALSE, FALSE) = Ok(<<13, 7, 51, 0, 0>>)
ASSUME DecStr(C("t:2020-01-01T00:00:00Z"), FALSE, FALSE) = Ok(<<14, 2020, 1, 1, 0, 0, 0, 0, 0, 0, <<>>>>)
ASSUME Cardinality({e.k : e \in Catalogue}) = 19
=============================================================================
