SPECIFICATION Spec
CONSTANTS
  Tier = "thorough"
INVARIANT NoError
INVARIANT NotEarly
INVARIANT RoundTrip
INVARIANT FoldAgrees
INVARIANT SemLaws
CHECK_DEADLOCK FALSE
